#!/usr/bin/env python3
"""Prints the prompt handed to a fresh sub-agent for seeding a property-breaking change.
usage: agent_prompt.py <ID>   (the agent gets only the property record and its scratch worktree)"""
import json, sys
pid = sys.argv[1]
# optional: variant letters (default "A,B") and a text listing ideas already used (to be avoided)
variants = (sys.argv[2] if len(sys.argv) > 2 else "A,B").split(",")
avoid = sys.argv[3] if len(sys.argv) > 3 else ""
V1, V2 = variants
rec = None
for l in open('/verif/properties.jsonl'):
    d = json.loads(l)
    if d['id'] == pid:
        rec = d
wt = f"/tmp/wt/{pid}"
out = f"/tmp/wt/{pid}-out"
print(f"""You are given a scratch git worktree of the open-source Go project pdfcpu (a PDF processing library and CLI) at {wt}. Work ONLY inside {wt} and {out}. Never read or write /repo or /verif (they are off limits), do not commit anything, and NEVER use `git stash` (the stash is shared with other people's worktrees): save your change with `git diff > file` and undo it with `git checkout -- .` / `git apply -R file`.

TASK: produce TWO independent, realistic code changes to pdfcpu (call them {V1} and {V2}; different code sites / different mechanisms) that each BREAK the semantic property below, while the project still compiles and the ENTIRE existing test suite still passes. Think of regressions a maintainer could plausibly introduce: a refactoring that drops a step, a reordered pair of calls, a guard that is weakened or moved, a new code path that bypasses a helper, an optimisation that skips a check, an error that is swallowed, a table entry dropped. Each change must need something specific to manifest — a particular fault or crash point, a panic at a particular place, a multi-step sequence of operations, an unusual or adversarial input, a particular interleaving, or two cooperating sites that each look fine alone — NOT something that ordinary use or the existing tests would expose at once. Prefer small, surgical diffs (a few lines) in non-test source files; do not edit tests, testdata or go.mod.

PROPERTY {pid} (JSON record):
{json.dumps(rec, indent=1)}

{("ALREADY USED by earlier changes - pick clearly different code sites and mechanisms: " + avoid) if avoid else ""}

DELIVERABLES, for each change X in {{{V1},{V2}}}, in directory {out}/X/ :
  1. patch.diff  — `git diff` against HEAD of the worktree, containing only the source change (no test files, no sample outputs).
  2. a demonstration — a Go test file (say which package directory it must be copied into) or a small Go program, that FAILS (or shows the violation) with the patch applied and PASSES without it. Keep it self-contained and fast (seconds). It may use test helpers, fault injection seams or fake operation tables that already exist in the code base.
  3. README.md — what the change is, why it breaks the property, what it needs in order to manifest, and the exact commands you ran (with their outcome) to show: (a) demo fails with patch, (b) demo passes without patch, (c) full suite passes with patch.

HOW TO BUILD/TEST (offline sandbox; the module cache is populated):
  cd {wt} && export PATH=/root/go/pkg/mod/golang.org/toolchain@v0.0.1-go1.25.0.linux-amd64/bin:$PATH GOTOOLCHAIN=local GOFLAGS=-mod=mod GOPROXY=off GOSUMDB=off
  go build ./... ; go vet is not required.
  Full suite: go test -vet=off -count=1 -timeout 25m ./...   (NOTE: in this snapshot three packages fail even without any change — pkg/api/test and pkg/cli/test abort in TestMain because two font fixtures are 0-byte files, and pkg/pdfcpu TestReadTIFFWritePNG fails on a 0-byte fixture; TestReadLargeDictObject* may time out under machine load. 'Passes' therefore means: no failure that the unmodified tree does not also have. Run the baseline once to compare. Takes several minutes; give the shell command a long timeout, e.g. 30 minutes; other jobs share the machine). Tests rewrite some sample PDFs under pkg/samples; ignore those in your diff (git checkout -- pkg/samples before diffing).
  You MUST actually run the full suite with each patch applied and confirm it passes, and run the demo both ways. If a candidate change makes an existing test fail, pick a different change.

SIDE OBSERVATIONS (optional, cheap): if while reading you notice a place where the UNMODIFIED tree already seems to violate this property (for some input, fault or sequence), list it in one or two lines under a heading 'Side observations on the unmodified tree' at the end of one README and repeat it in your final summary. Do not spend time demonstrating it.

WHEN DONE: revert the worktree to a clean state (git -C {wt} checkout -- . ; remove any files you added inside the worktree) and reply with a short summary: for {V1} and {V2} the files touched, what is needed to manifest, and the verification results. Do not include anything else.
""")
