#!/bin/bash
# usage: tools/run_all.sh quick|thorough [parallelism]  — runs every registered check, prints one line per check
cd "$(dirname "$0")/.."
TIER=${1:-quick}; PAR=${2:-4}
ids=$(./bin/pdfcpu-verif list)
mkdir -p /tmp/verif-runall
run() { id=$1; ./check.sh $id $TIER > /tmp/verif-runall/$id.$TIER.log 2>&1; echo "$id exit=$? $(tail -1 /tmp/verif-runall/$id.$TIER.log | grep -v VIOLATION || grep -c VIOLATION /tmp/verif-runall/$id.$TIER.log)"; }
export -f run; export TIER
echo $ids | tr ' ' '\n' | xargs -P $PAR -I{} bash -c 'run {}'
