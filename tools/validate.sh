#!/bin/bash
# validates MANIFEST.json and every evidence file against the given schemas
cd "$(dirname "$0")/.."
python3-vt - <<'P'
import json,jsonschema,glob
m=json.load(open('MANIFEST.json')); jsonschema.validate(m,json.load(open('/root/.vp/MANIFEST.schema.json')))
ids=[json.loads(l)['id'] for l in open('properties.jsonl')]
cl=[c['property_id'] for c in m['checks']]; na=[n['property_id'] for n in m['not_applicable']]
assert sorted(cl+na)==sorted(ids), "claimed+na != all"
print('manifest ok; claimed', cl)
es=json.load(open('/root/.vp/EVIDENCE.schema.json'))
for c in m['checks']:
    try:
        jsonschema.validate(json.load(open(c['evidence_file'])),es)
    except Exception as e:
        print('EVIDENCE BAD', c['property_id'], str(e)[:300])
print('evidence validated')
P
