#!/bin/bash
# usage: tools/seed_round.sh <ID> <V1,V2>   — creates scratch worktree /tmp/wt/<ID> at /repo HEAD and prints the sub-agent prompt to /tmp/wt/<ID>-prompt.txt
set -eu
ID=$1; VARS=${2:-C,D}
cd "$(dirname "$0")/.."
git -C /repo worktree remove --force /tmp/wt/$ID 2>/dev/null || true
rm -rf /tmp/wt/$ID /tmp/wt/$ID-out
mkdir -p /tmp/wt/$ID-out
git -C /repo worktree add -q --detach /tmp/wt/$ID HEAD
AVOID=$(python3 - "$ID" <<'P'
import json,glob,sys,os
out=[]
for m in sorted(glob.glob('/verif/seeded/%s-*/meta.json'%sys.argv[1])):
    d=json.load(open(m))
    files=[l[6:].strip() for l in open(os.path.dirname(m)+'/patch.diff') if l.startswith('+++ b/')]
    out.append("(%s) change in %s, manifests with: %s"%(d['variant'],", ".join(files),d.get('needs','')))
print("; ".join(out))
P
)
python3 tools/agent_prompt.py $ID $VARS "$AVOID" > /tmp/wt/$ID-prompt.txt
echo "/tmp/wt/$ID-prompt.txt"
