#!/bin/bash
# usage: tools/try_patch.sh <ID> <patch.diff>  — run the rules of <ID> on /repo + patch (overlay, nothing written to /repo)
set -u
cd "$(dirname "$0")/.."
export PATH=/opt/veriftools/go1.26.8/bin:$PATH GOFLAGS=-mod=mod GOPROXY=off GOSUMDB=off GOTOOLCHAIN=local GOWORK=off CGO_ENABLED=0
t=$(mktemp /tmp/fx-XXXX.json)
printf '{"name":"adhoc","patch":"%s"}' "$(readlink -f "$2")" > $t
./bin/pdfcpu-verif mutant "$1" $t | python3 -c "
import json,sys; d=json.load(sys.stdin); print('stale' if d.get('stale') else '', d.get('load_error') or '', 'violations:', len(d['violations'] or [])); [print('   ',v[:300]) for v in (d['violations'] or [])[:8]]" 2>/dev/null
rm -f $t
