#!/bin/bash
# usage: tools/confirm_seed.sh <ID> <A|B> <demo-package-dir relative to repo root> "<needs>"
# Confirms a seeded change in the scratch worktree /tmp/wt/<ID> (never in /repo):
#   demo fails with the patch, passes without; the touched packages' existing tests still pass with the patch.
# On success stores it as /verif/seeded/<ID>-<X>/ {patch.diff, demo, README.md, meta.json}.
set -u
ID=$1; X=$2; DEMODIR=$3; NEEDS=${4:-}
WT=/tmp/wt/$ID; OUT=/tmp/wt/$ID-out/$X
export GOFLAGS=-mod=mod GOPROXY=off GOSUMDB=off
export PATH=/root/go/pkg/mod/golang.org/toolchain@v0.0.1-go1.25.0.linux-amd64/bin:$PATH GOTOOLCHAIN=local
cd $WT || exit 2
git checkout -q -- . ; git clean -fdq
DEMO=$(ls $OUT/*_test.go 2>/dev/null | head -1)
[ -n "$DEMO" ] || { echo "no demo test"; exit 2; }
TESTS=$(grep -o '^func Test[A-Za-z0-9_]*' $DEMO | sed 's/func //' | paste -sd'|')
PKGS=$(grep '^+++ b/' $OUT/patch.diff | sed 's#+++ b/##' | xargs -n1 dirname | sort -u | sed 's#^#./#')
echo "== tests: $TESTS ; touched pkgs: $PKGS"
git apply $OUT/patch.diff || { echo "patch does not apply"; exit 2; }
go build ./... || { echo "BUILD FAILS with patch"; git checkout -q -- .; exit 1; }
mkdir -p $WT/$DEMODIR; cp $DEMO $WT/$DEMODIR/
go test -vet=off -count=1 -run "^($TESTS)\$" ./$DEMODIR > /tmp/seed-$ID-$X-with.log 2>&1; WITH=$?
git clean -fdq
EXTRA=""; case "$PKGS" in *cmd/pdfcpu*) EXTRA="./cmd/...";; esac
go test -vet=off -count=1 $PKGS $EXTRA > /tmp/seed-$ID-$X-pkgs.log 2>&1; PK=$?
git checkout -q -- . ; git clean -fdq
mkdir -p $WT/$DEMODIR; cp $DEMO $WT/$DEMODIR/
go test -vet=off -count=1 -run "^($TESTS)\$" ./$DEMODIR > /tmp/seed-$ID-$X-without.log 2>&1; WITHOUT=$?
git checkout -q -- . ; git clean -fdq
echo "demo with patch exit=$WITH (want !=0); without exit=$WITHOUT (want 0); touched-package tests with patch exit=$PK"
grep -E "^(--- FAIL|FAIL|ok)" /tmp/seed-$ID-$X-pkgs.log | head -20
if [ $WITH -ne 0 ] && [ $WITHOUT -eq 0 ]; then
  D=/verif/seeded/$ID-$X; mkdir -p $D
  cp $OUT/patch.diff $D/; cp $DEMO $D/; cp $OUT/README.md $D/ 2>/dev/null
  python3 - "$ID" "$X" "$DEMODIR" "$NEEDS" "$TESTS" "$PK" <<'P' 2>/dev/null
import json,sys
ID,X,demodir,needs,tests,pk=sys.argv[1:7]
json.dump({"property":ID,"variant":X,"needs":needs,"demo_dir":demodir,"demo_tests":tests,
 "confirmed":{"demo_fails_with_patch":True,"demo_passes_without_patch":True,"touched_package_tests_exit_with_patch":int(pk),
  "how":"tools/confirm_seed.sh in scratch worktree /tmp/wt/%s; full-suite run by the seeding sub-agent (log compared against its unpatched baseline run)"%ID}},
 open("/verif/seeded/%s-%s/meta.json"%(ID,X),"w"),indent=1)
P
  echo "STORED $D"
else
  echo "NOT CONFIRMED"; tail -15 /tmp/seed-$ID-$X-with.log; tail -15 /tmp/seed-$ID-$X-without.log
fi
