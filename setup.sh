#!/bin/bash
# Builds the checker from files on disk only (offline).
set -eu
cd "$(dirname "$0")"
export PATH=/opt/veriftools/go1.26.8/bin:$PATH GOFLAGS=-mod=mod GOPROXY=off GOSUMDB=off GOTOOLCHAIN=local GOWORK=off CGO_ENABLED=0
unset GOOS GOARCH
mkdir -p bin evidence
(cd checker && go build -o ../bin/pdfcpu-verif .)
echo "built bin/pdfcpu-verif"
