#!/bin/bash
# usage: ./check.sh <ID> [quick|thorough]
# Static check of one property against /repo's current working tree (nothing in /repo is executed).
set -u
cd "$(dirname "$0")"
export PATH=/opt/veriftools/go1.26.8/bin:$PATH GOFLAGS=-mod=mod GOPROXY=off GOSUMDB=off GOTOOLCHAIN=local GOWORK=off CGO_ENABLED=0
unset GOOS GOARCH
ID="$1"; TIER="${2:-${VERIF_TIER:-quick}}"
if [ ! -x bin/pdfcpu-verif ] || [ -n "$(find checker -name '*.go' -newer bin/pdfcpu-verif 2>/dev/null | head -1)" ]; then
  ./setup.sh >/dev/null || { echo "setup failed"; exit 2; }
fi
exec ./bin/pdfcpu-verif check "$ID" --tier "$TIER"
