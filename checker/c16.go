package main

import (
	"fmt"
	"go/token"
	"strings"

	"golang.org/x/tools/go/ssa"
)

// C16 — decode limits are exact (partial: the comparators at the boundary).

func init() {
	register(&Check{
		ID:  "C16",
		Run: runC16,
		Explanation: "Decides the boundary clause 'fails with the decode-limit error when the data is longer than L and never rejects data within the limit' at the places where the decision is taken: (R1 comparators) every return of filter.ErrDecodeLimitExceeded in pkg/filter lies on the edge of a comparison between a produced length and the limit (a value obtained from decodeLimit) whose relation on that edge is exactly `produced > limit` — or, in the byte-wise run-length writer, `limit == written` tested before the next byte is written; `>=` (rejects data of exactly L bytes) and any unrecognised form are reported; (R2 probe byte) baseFilter.copyDecoded reads through an io.LimitedReader whose N is `limit + 1`, the one extra byte that lets `len > limit` see an overrun (N = limit would silently truncate over-long data instead of failing), and guards the +1 against overflow by the `limit == maxInt64` exit; (R3 bounded mode) for maxLen >= 0 copyDecoded copies exactly maxLen bytes with io.CopyN and every decoder's DecodeLength hands its maxLen to copyDecoded / its row loop unchanged. (R4) in the decoders that write their output inside a loop after asking decodeLimit, every write is preceded within the same innermost loop iteration by a comparison involving the limit (a test hoisted out of the loop lets one run step over the limit, after which an equality test never fires); (R5) in StreamDict.decodeLength the bounded fi.DecodeLength(b, maxLen) is reached only for the last pipeline stage. NOT decided: that the produced length is computed correctly by each codec, the prefix property of bounded decoding, and 'reports that the data is too short'.",
		Rules: []string{
			"C16.R1 comparator shape at every ErrDecodeLimitExceeded return",
			"C16.R2 LimitedReader N = limit+1 with overflow exit",
			"C16.R3 bounded mode: io.CopyN(maxLen); maxLen handed on unchanged",
			"C16.R4 per-iteration limit test in byte-wise producers (shared with C09.R2)",
			"C16.R5 only the last pipeline stage is bounded",
		},
		Assumptions: []string{"io.LimitedReader / io.CopyN semantics", "decodeLimit returns maxLen when maxLen >= 0 and the configured limit otherwise (C09.R1 checks the plumbing)"},
		Technique:   "edge-relation extraction on SSA (comparison operator normalised by operand order and branch taken), value-origin slices for the limit operand",
		Note:        "Partial: comparator exactness only; added in round 3 after re-reading the statement clause by clause.",
	})
}

func c16LimitValue(v ssa.Value, d int) bool {
	if v == nil || d > 6 {
		return false
	}
	switch x := v.(type) {
	case *ssa.Call:
		_, ref := callRef(x)
		return strings.HasSuffix(ref, ".decodeLimit")
	case *ssa.Convert:
		return c16LimitValue(x.X, d+1)
	case *ssa.Phi:
		for _, e := range x.Edges {
			if !c16LimitValue(e, d+1) {
				return false
			}
		}
		return len(x.Edges) > 0
	case *ssa.UnOp:
		if x.Op == token.MUL {
			if st, _ := reachingStore(x); st != nil {
				return c16LimitValue(st.Val, d+1)
			}
		}
	}
	return false
}

func runC16(c *Ctx) {
	p, r := c.P, c.R
	r.MinInst["C16.R1"] = 6
	r.MinInst["C16.R2"] = 2
	r.MinInst["C16.R3"] = 4
	// ---- R1
	for _, fn := range p.Funcs {
		fid := FuncID(fn)
		if !strings.HasPrefix(fid, "pkg/filter.") {
			continue
		}
		fn := fn
		n := 0
		eachInstr(fn, func(blk *ssa.BasicBlock, _ int, i ssa.Instruction) {
			ld, ok := i.(*ssa.UnOp)
			if !ok || ld.Op != token.MUL {
				return
			}
			g, ok := ld.X.(*ssa.Global)
			if !ok || g.Name() != "ErrDecodeLimitExceeded" {
				return
			}
			n++
			construct := fmt.Sprintf("limit error#%d", n)
			// nearest dominating comparison that involves the limit and a non-constant operand
			rel, desc := nearestLimitRelation(fn, blk)
			switch rel {
			case "produced>limit":
				r.OK("C16.R1", fid, construct, p.Pos(ld.Pos()), "reached exactly on `"+desc+"` (strict)", true)
			case "limit==written(pre-write)":
				r.OK("C16.R1", fid, construct, p.Pos(ld.Pos()), "reached when the budget is used up and another byte is about to be written (`"+desc+"` tested before the write)", true)
			case "":
				r.Bad("C16.R1", fid, construct, p.Pos(ld.Pos()), "no comparison between a produced length and the decode limit controls this limit error")
			default:
				r.Bad("C16.R1", fid, construct, p.Pos(ld.Pos()), "the limit error is raised on `"+desc+"` ("+rel+"): the boundary is not exact — data of exactly L bytes is rejected, or data longer than L is accepted")
			}
		})
	}
	// ---- R4: per-byte producers test the limit in every iteration of the innermost writing loop (same rule as C09.R2)
	r.MinInst["C16.R4"] = 2
	checkProducingLoopsAs(c, "C16.R4")
	// ---- R5: in a filter pipeline only the last stage is bounded
	r.MinInst["C16.R5"] = 1
	checkPipelineBoundLastStage(c)
	// ---- R2 / R3 in copyDecoded
	if fn := p.Func("pkg/filter.(baseFilter).copyDecoded"); fn == nil {
		r.Bad("C16.R2", "pkg/filter.(baseFilter).copyDecoded", "anchor", "", "UNRESOLVED-ANCHOR")
	} else {
		fid := FuncID(fn)
		found, plusOne := false, false
		var nStore *ssa.Store
		eachInstr(fn, func(_ *ssa.BasicBlock, _ int, i ssa.Instruction) {
			st, ok := i.(*ssa.Store)
			if !ok {
				return
			}
			fa, ok := st.Addr.(*ssa.FieldAddr)
			if !ok {
				return
			}
			if f := structField(fa.X.Type(), fa.Field); f == nil || f.Name() != "N" || typeNameOf(fa.X.Type()) != "LimitedReader" {
				return
			}
			found = true
			nStore = st
			if add, ok := st.Val.(*ssa.BinOp); ok && add.Op == token.ADD && c16LimitValue(add.X, 0) {
				if k, ok := constInt(add.Y); ok && k == 1 {
					plusOne = true
				}
			}
		})
		switch {
		case !found:
			r.Bad("C16.R2", fid, "LimitedReader.N", p.Pos(fn.Pos()), "UNRESOLVED-ANCHOR: no io.LimitedReader in copyDecoded")
		case plusOne:
			r.OK("C16.R2", fid, "LimitedReader.N", p.Pos(nStore.Pos()), "N = limit + 1: one probe byte beyond the limit", true)
		default:
			r.Bad("C16.R2", fid, "LimitedReader.N", p.Pos(nStore.Pos()), "the LimitedReader does not read exactly one byte beyond the limit: with N = limit an over-long stream is cut to L bytes and accepted; with more than +1 more than one extra byte is materialised")
		}
		// overflow exit: limit == maxInt64 leaves before the +1
		if nStore != nil {
			guard := false
			eachInstr(fn, func(_ *ssa.BasicBlock, _ int, i ssa.Instruction) {
				b, ok := i.(*ssa.BinOp)
				if !ok || (b.Op != token.EQL && b.Op != token.NEQ) || !c16LimitValue(b.X, 0) {
					return
				}
				if k, ok := constInt(b.Y); !ok || k != 1<<63-1 {
					return
				}
				for _, e := range condEdges(b, b.Op == token.NEQ) {
					if edgeDominates(e, nStore.Block()) {
						guard = true
					}
				}
			})
			if guard {
				r.OK("C16.R2", fid, "overflow exit", p.Pos(nStore.Pos()), "limit + 1 is computed only on the limit != maxInt64 edge", true)
			} else {
				r.Bad("C16.R2", fid, "overflow exit", p.Pos(nStore.Pos()), "limit + 1 can overflow: no `limit == maxInt64` exit dominates it")
			}
		}
		// R3: CopyN(maxLen) on the maxLen >= 0 edge
		okN := false
		eachInstr(fn, func(_ *ssa.BasicBlock, _ int, i ssa.Instruction) {
			call, ok := i.(*ssa.Call)
			if !ok {
				return
			}
			if _, ref := callRef(call); ref != "io.CopyN" {
				return
			}
			if prm, ok := call.Call.Args[2].(*ssa.Parameter); ok && prm.Name() == "maxLen" {
				okN = true
			}
		})
		if okN {
			r.OK("C16.R3", fid, "CopyN", p.Pos(fn.Pos()), "bounded mode copies exactly maxLen bytes with io.CopyN", true)
		} else {
			r.Bad("C16.R3", fid, "CopyN", p.Pos(fn.Pos()), "bounded decoding no longer copies exactly maxLen bytes (io.CopyN(…, maxLen))")
		}
	}
	// R3: DecodeLength hands maxLen on unchanged
	for _, fn := range p.Funcs {
		fid := FuncID(fn)
		if !strings.HasPrefix(fid, "pkg/filter.") || fn.Name() != "DecodeLength" || len(fn.Blocks) == 0 {
			continue
		}
		var ml *ssa.Parameter
		for _, prm := range fn.Params {
			if prm.Name() == "maxLen" {
				ml = prm
			}
		}
		if ml == nil {
			continue
		}
		n, bad := 0, 0
		eachInstr(fn, func(_ *ssa.BasicBlock, _ int, i ssa.Instruction) {
			call, ok := i.(*ssa.Call)
			if !ok {
				return
			}
			f := staticCallee(call)
			if f == nil || !isSubject(f) || f.Name() == "decodeLimit" {
				return
			}
			for k, a := range call.Call.Args {
				if k < len(f.Params) && f.Params[k].Name() == "maxLen" {
					n++
					if a != ssa.Value(ml) {
						bad++
					}
				}
			}
		})
		if n == 0 {
			continue
		}
		if bad == 0 {
			r.OK("C16.R3", fid, "maxLen handed on", p.Pos(fn.Pos()), fmt.Sprintf("%d callee(s) with a maxLen parameter receive DecodeLength's own maxLen", n), true)
		} else {
			r.Bad("C16.R3", fid, "maxLen handed on", p.Pos(fn.Pos()), "a callee receives something other than DecodeLength's own maxLen: the bounded-prefix contract (min(n, full length)) changes")
		}
	}
}

// nearestLimitRelation walks the dominating branch edges of blk from the nearest outward and returns the relation that the first
// comparison between the limit and a non-constant operand establishes on the edge taken.
func nearestLimitRelation(fn *ssa.Function, blk *ssa.BasicBlock) (rel, desc string) {
	type cand struct {
		b    *ssa.BinOp
		want bool
		dist int
	}
	var best *cand
	eachInstr(fn, func(_ *ssa.BasicBlock, _ int, i ssa.Instruction) {
		b, ok := i.(*ssa.BinOp)
		if !ok {
			return
		}
		switch b.Op {
		case token.EQL, token.NEQ, token.LSS, token.LEQ, token.GTR, token.GEQ:
		default:
			return
		}
		lx, ly := c16LimitValue(b.X, 0), c16LimitValue(b.Y, 0)
		if lx == ly {
			return
		}
		other := b.Y
		if ly {
			other = b.X
		}
		if _, isConst := other.(*ssa.Const); isConst {
			return // sign tests such as limit >= 0
		}
		for _, want := range []bool{true, false} {
			for _, e := range condEdges(b, want) {
				if !edgeDominates(e, blk) {
					continue
				}
				// distance: number of dominator steps from blk up to the branching block
				d := 0
				for x := blk; x != nil && x != e.From; x = x.Idom() {
					d++
				}
				if best == nil || d < best.dist {
					best = &cand{b, want, d}
				}
			}
		}
	})
	if best == nil {
		return "", ""
	}
	b := best.b
	op := b.Op
	if !best.want {
		op = negateOp(op)
	}
	// normalise to: produced OP limit
	produced := b.X
	if c16LimitValue(b.X, 0) {
		op = mirrorOp(op)
		produced = b.Y
	}
	desc = fmt.Sprintf("%s %s limit", exprName(produced), op)
	switch op {
	case token.GTR:
		return "produced>limit", desc
	case token.EQL:
		// pre-write equality on a loop-carried counter
		if phi, ok := produced.(*ssa.Phi); ok && phi.Comment != "" || isLoopCarried(produced) {
			return "limit==written(pre-write)", desc
		}
		return "produced==limit", desc
	case token.GEQ:
		return "produced>=limit", desc
	}
	return "produced" + op.String() + "limit", desc
}

func isLoopCarried(v ssa.Value) bool {
	phi, ok := v.(*ssa.Phi)
	if !ok {
		return false
	}
	for _, e := range phi.Edges {
		if add, ok := e.(*ssa.BinOp); ok && add.Op == token.ADD {
			return true
		}
		if p2, ok := e.(*ssa.Phi); ok && p2 != phi {
			for _, e2 := range p2.Edges {
				if add, ok := e2.(*ssa.BinOp); ok && add.Op == token.ADD {
					return true
				}
			}
		}
	}
	return false
}

// checkPipelineBoundLastStage (C16.R5): in (*StreamDict).decodeLength the bounded call fi.DecodeLength(b, maxLen) is reached only
// for the last filter of the pipeline (idx == len(FilterPipeline)-1); earlier stages decode completely. Bounding an
// intermediate stage truncates the *encoded* input of the next one.
func checkPipelineBoundLastStage(c *Ctx) {
	p, r := c.P, c.R
	fid := "pkg/pdfcpu/types.(*StreamDict).decodeLength"
	fn := p.Func(fid)
	if fn == nil {
		r.Bad("C16.R5", fid, "anchor", "", "UNRESOLVED-ANCHOR")
		return
	}
	var maxLen *ssa.Parameter
	for _, prm := range fn.Params {
		if prm.Name() == "maxLen" {
			maxLen = prm
		}
	}
	// edges on which idx == len(pipeline)-1
	genE := map[Edge][]string{}
	eachInstr(fn, func(_ *ssa.BasicBlock, _ int, i ssa.Instruction) {
		b, ok := i.(*ssa.BinOp)
		if !ok || (b.Op != token.EQL && b.Op != token.NEQ) {
			return
		}
		isLast := func(v ssa.Value) bool {
			sub, ok := v.(*ssa.BinOp)
			if !ok || sub.Op != token.SUB {
				return false
			}
			if k, ok := constInt(sub.Y); !ok || k != 1 {
				return false
			}
			la := lenArgOf(sub.X)
			return la != nil && strings.HasSuffix(fieldPath(la), "FilterPipeline")
		}
		if !isLast(b.X) && !isLast(b.Y) {
			return
		}
		for _, e := range condEdges(b, b.Op == token.EQL) {
			genE[e] = append(genE[e], "last")
		}
	})
	ff := NewFactFlow(fn, nil, genE, nil, nil)
	n := 0
	eachInstr(fn, func(_ *ssa.BasicBlock, _ int, i ssa.Instruction) {
		call, ok := i.(*ssa.Call)
		if !ok || !call.Call.IsInvoke() || call.Call.Method.Name() != "DecodeLength" {
			return
		}
		n++
		construct := fmt.Sprintf("DecodeLength#%d", n)
		arg := call.Call.Args[len(call.Call.Args)-1]
		if k, isC := constInt(arg); isC && k < 0 {
			r.OK("C16.R5", fid, construct, p.Pos(call.Pos()), "unbounded stage (constant negative length)", false)
			return
		}
		if maxLen != nil && arg != ssa.Value(maxLen) {
			r.Bad("C16.R5", fid, construct, p.Pos(call.Pos()), "the bounded stage does not receive the caller's maxLen")
			return
		}
		if ff.Holds(i, "last") {
			r.OK("C16.R5", fid, construct, p.Pos(call.Pos()), "the bounded DecodeLength is reached only for idx == len(FilterPipeline)-1", true)
		} else {
			r.Bad("C16.R5", fid, construct, p.Pos(call.Pos()), "a pipeline stage other than the last can be decoded with the caller's bound: its truncated output is the next stage's encoded input, so bounded decoding no longer yields a prefix of the full decoding")
		}
	})
	if n == 0 {
		r.Bad("C16.R5", fid, "DecodeLength", p.Pos(fn.Pos()), "UNRESOLVED-ANCHOR: no DecodeLength call in the pipeline loop")
	}
}
