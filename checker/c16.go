package main

import (
	"sort"
	"fmt"
	"go/token"
	"go/types"
	"strings"

	"golang.org/x/tools/go/ssa"
)

// C16 — decode limits are exact (partial: the comparators at the boundary).

func init() {
	register(&Check{
		ID:  "C16",
		Run: runC16,
		Explanation: "Decides the boundary clause 'fails with the decode-limit error when the data is longer than L and never rejects data within the limit' at the places where the decision is taken: (R1 comparators) every return of filter.ErrDecodeLimitExceeded in pkg/filter lies on the edge of a comparison between a produced length and the limit (a value obtained from decodeLimit) whose relation on that edge is exactly `produced > limit` — or, in the byte-wise run-length writer, `limit == written` tested before the next byte is written; `>=` (rejects data of exactly L bytes) and any unrecognised form are reported; (R2 probe byte) baseFilter.copyDecoded reads through an io.LimitedReader whose N is `limit + 1`, the one extra byte that lets `len > limit` see an overrun (N = limit would silently truncate over-long data instead of failing), and guards the +1 against overflow by the `limit == maxInt64` exit; (R3 bounded mode) for maxLen >= 0 copyDecoded copies exactly maxLen bytes with io.CopyN and every decoder's DecodeLength hands its maxLen to copyDecoded / its row loop unchanged. (R4) in the decoders that write their output inside a loop after asking decodeLimit, every write is preceded within the same innermost loop iteration by a comparison involving the limit (a test hoisted out of the loop lets one run step over the limit, after which an equality test never fires); (R5) in StreamDict.decodeLength the bounded fi.DecodeLength(b, maxLen) is reached only for the last pipeline stage. (R1, tightened) the length compared with the limit may not contain the byte count of a read from the input (io.ReadFull, Read): that is what was consumed, not what is written (a PNG predictor row carries a filter byte). (R6) on the decode side of pkg/filter (everything reachable from a Decode/DecodeLength method) every io.Copy / io.ReadAll / ReadFrom drains an io.LimitedReader, or sits in a table function — getReaderBytes (encoded input), copyDecoded (only behind limit < 0 or limit == maxInt64); a new unlimited drain of a decoder is reported. NOT decided: that the produced length is computed correctly by each codec, the prefix property of bounded decoding, and 'reports that the data is too short'.",
		Rules: []string{
			"C16.R1 comparator shape at every ErrDecodeLimitExceeded return",
			"C16.R2 LimitedReader N = limit+1 with overflow exit",
			"C16.R3 bounded mode: io.CopyN(maxLen); maxLen handed on unchanged",
			"C16.R4 per-iteration limit test in byte-wise producers (shared with C09.R2)",
			"C16.R5 only the last pipeline stage is bounded",
			"C16.R6 WMC: decode-side drains are limited readers or table entries behind a no-limit test",
			"C16.R8 shape: the bounded row loop of the Flate predictor path compares maxLen with the produced length, not with an input-side count",
			"C16.R7 siblings: every filter value built in pkg/filter stores baseFilter.maxDecodeBytes (not the constant 0)",
		},
		Assumptions: []string{"io.LimitedReader / io.CopyN semantics", "decodeLimit returns maxLen when maxLen >= 0 and the configured limit otherwise (C09.R1 checks the plumbing)"},
		Technique:   "edge-relation extraction on SSA (comparison operator normalised by operand order and branch taken), value-origin slices for the limit operand",
		Note:        "Partial: comparator exactness only; added in round 3 after re-reading the statement clause by clause.",
	})
}

func c16LimitValue(v ssa.Value, d int) bool {
	if v == nil || d > 6 {
		return false
	}
	switch x := v.(type) {
	case *ssa.Call:
		_, ref := callRef(x)
		return strings.HasSuffix(ref, ".decodeLimit")
	case *ssa.Convert:
		return c16LimitValue(x.X, d+1)
	case *ssa.Phi:
		for _, e := range x.Edges {
			if !c16LimitValue(e, d+1) {
				return false
			}
		}
		return len(x.Edges) > 0
	case *ssa.UnOp:
		if x.Op == token.MUL {
			if st, _ := reachingStore(x); st != nil {
				return c16LimitValue(st.Val, d+1)
			}
		}
	}
	return false
}

func runC16(c *Ctx) {
	p, r := c.P, c.R
	r.MinInst["C16.R1"] = 6
	r.MinInst["C16.R2"] = 2
	r.MinInst["C16.R3"] = 4
	// ---- R1
	for _, fn := range p.Funcs {
		fid := FuncID(fn)
		if !strings.HasPrefix(fid, "pkg/filter.") {
			continue
		}
		fn := fn
		n := 0
		eachInstr(fn, func(blk *ssa.BasicBlock, _ int, i ssa.Instruction) {
			ld, ok := i.(*ssa.UnOp)
			if !ok || ld.Op != token.MUL {
				return
			}
			g, ok := ld.X.(*ssa.Global)
			if !ok || g.Name() != "ErrDecodeLimitExceeded" {
				return
			}
			n++
			construct := fmt.Sprintf("limit error#%d", n)
			// nearest dominating comparison that involves the limit and a non-constant operand
			rel, desc, produced := nearestLimitRelation(fn, blk)
			if in := inputSideCount(produced, 0); in != "" && rel != "" {
				r.Bad("C16.R1", fid, construct, p.Pos(ld.Pos()), "the limit error is raised on `"+desc+"`, where the compared length contains the byte count of "+in+": that is the size of what was read from the input, not of what is written to the output, so data of exactly L decoded bytes can be rejected (or longer data accepted)")
				return
			}
			switch rel {
			case "produced>limit":
				r.OK("C16.R1", fid, construct, p.Pos(ld.Pos()), "reached exactly on `"+desc+"` (strict)", true)
			case "limit==written(pre-write)":
				r.OK("C16.R1", fid, construct, p.Pos(ld.Pos()), "reached when the budget is used up and another byte is about to be written (`"+desc+"` tested before the write)", true)
			case "":
				r.Bad("C16.R1", fid, construct, p.Pos(ld.Pos()), "no comparison between a produced length and the decode limit controls this limit error")
			default:
				r.Bad("C16.R1", fid, construct, p.Pos(ld.Pos()), "the limit error is raised on `"+desc+"` ("+rel+"): the boundary is not exact — data of exactly L bytes is rejected, or data longer than L is accepted")
			}
		})
	}
	// ---- R6: who may drain a decoder without a bound
	r.MinInst["C16.R6"] = 4
	checkDecodeSideDrains(c)
	// ---- R4: per-byte producers test the limit in every iteration of the innermost writing loop (same rule as C09.R2)
	r.MinInst["C16.R4"] = 2
	checkProducingLoopsAs(c, "C16.R4")
	// ---- R5: in a filter pipeline only the last stage is bounded
	r.MinInst["C16.R5"] = 1
	r.MinInst["C16.R7"] = 7
	checkFilterValuesCarryLimit(c)
	r.MinInst["C16.R8"] = 1
	checkBoundedLoopCountsOutput(c)
	checkPipelineBoundLastStage(c)
	// ---- R2 / R3 in copyDecoded
	if fn := p.Func("pkg/filter.(baseFilter).copyDecoded"); fn == nil {
		r.Bad("C16.R2", "pkg/filter.(baseFilter).copyDecoded", "anchor", "", "UNRESOLVED-ANCHOR")
	} else {
		fid := FuncID(fn)
		found, plusOne := false, false
		var nStore *ssa.Store
		eachInstr(fn, func(_ *ssa.BasicBlock, _ int, i ssa.Instruction) {
			st, ok := i.(*ssa.Store)
			if !ok {
				return
			}
			fa, ok := st.Addr.(*ssa.FieldAddr)
			if !ok {
				return
			}
			if f := structField(fa.X.Type(), fa.Field); f == nil || f.Name() != "N" || typeNameOf(fa.X.Type()) != "LimitedReader" {
				return
			}
			found = true
			nStore = st
			if add, ok := st.Val.(*ssa.BinOp); ok && add.Op == token.ADD && c16LimitValue(add.X, 0) {
				if k, ok := constInt(add.Y); ok && k == 1 {
					plusOne = true
				}
			}
		})
		switch {
		case !found:
			r.Bad("C16.R2", fid, "LimitedReader.N", p.Pos(fn.Pos()), "UNRESOLVED-ANCHOR: no io.LimitedReader in copyDecoded")
		case plusOne:
			r.OK("C16.R2", fid, "LimitedReader.N", p.Pos(nStore.Pos()), "N = limit + 1: one probe byte beyond the limit", true)
		default:
			r.Bad("C16.R2", fid, "LimitedReader.N", p.Pos(nStore.Pos()), "the LimitedReader does not read exactly one byte beyond the limit: with N = limit an over-long stream is cut to L bytes and accepted; with more than +1 more than one extra byte is materialised")
		}
		// overflow exit: limit == maxInt64 leaves before the +1
		if nStore != nil {
			guard := false
			eachInstr(fn, func(_ *ssa.BasicBlock, _ int, i ssa.Instruction) {
				b, ok := i.(*ssa.BinOp)
				if !ok || (b.Op != token.EQL && b.Op != token.NEQ) || !c16LimitValue(b.X, 0) {
					return
				}
				if k, ok := constInt(b.Y); !ok || k != 1<<63-1 {
					return
				}
				for _, e := range condEdges(b, b.Op == token.NEQ) {
					if edgeDominates(e, nStore.Block()) {
						guard = true
					}
				}
			})
			if guard {
				r.OK("C16.R2", fid, "overflow exit", p.Pos(nStore.Pos()), "limit + 1 is computed only on the limit != maxInt64 edge", true)
			} else {
				r.Bad("C16.R2", fid, "overflow exit", p.Pos(nStore.Pos()), "limit + 1 can overflow: no `limit == maxInt64` exit dominates it")
			}
		}
		// R3: CopyN(maxLen) on the maxLen >= 0 edge
		okN := false
		eachInstr(fn, func(_ *ssa.BasicBlock, _ int, i ssa.Instruction) {
			call, ok := i.(*ssa.Call)
			if !ok {
				return
			}
			if _, ref := callRef(call); ref != "io.CopyN" {
				return
			}
			if prm, ok := call.Call.Args[2].(*ssa.Parameter); ok && prm.Name() == "maxLen" {
				okN = true
			}
		})
		if okN {
			r.OK("C16.R3", fid, "CopyN", p.Pos(fn.Pos()), "bounded mode copies exactly maxLen bytes with io.CopyN", true)
		} else {
			r.Bad("C16.R3", fid, "CopyN", p.Pos(fn.Pos()), "bounded decoding no longer copies exactly maxLen bytes (io.CopyN(…, maxLen))")
		}
	}
	// R3: DecodeLength hands maxLen on unchanged
	for _, fn := range p.Funcs {
		fid := FuncID(fn)
		if !strings.HasPrefix(fid, "pkg/filter.") || fn.Name() != "DecodeLength" || len(fn.Blocks) == 0 {
			continue
		}
		var ml *ssa.Parameter
		for _, prm := range fn.Params {
			if prm.Name() == "maxLen" {
				ml = prm
			}
		}
		if ml == nil {
			continue
		}
		n, bad := 0, 0
		eachInstr(fn, func(_ *ssa.BasicBlock, _ int, i ssa.Instruction) {
			call, ok := i.(*ssa.Call)
			if !ok {
				return
			}
			f := staticCallee(call)
			if f == nil || !isSubject(f) || f.Name() == "decodeLimit" {
				return
			}
			for k, a := range call.Call.Args {
				if k < len(f.Params) && f.Params[k].Name() == "maxLen" {
					n++
					if a != ssa.Value(ml) {
						bad++
					}
				}
			}
		})
		if n == 0 {
			continue
		}
		if bad == 0 {
			r.OK("C16.R3", fid, "maxLen handed on", p.Pos(fn.Pos()), fmt.Sprintf("%d callee(s) with a maxLen parameter receive DecodeLength's own maxLen", n), true)
		} else {
			r.Bad("C16.R3", fid, "maxLen handed on", p.Pos(fn.Pos()), "a callee receives something other than DecodeLength's own maxLen: the bounded-prefix contract (min(n, full length)) changes")
		}
	}
}

// nearestLimitRelation walks the dominating branch edges of blk from the nearest outward and returns the relation that the first
// comparison between the limit and a non-constant operand establishes on the edge taken.
func nearestLimitRelation(fn *ssa.Function, blk *ssa.BasicBlock) (rel, desc string, producedV ssa.Value) {
	type cand struct {
		b    *ssa.BinOp
		want bool
		dist int
	}
	var best *cand
	eachInstr(fn, func(_ *ssa.BasicBlock, _ int, i ssa.Instruction) {
		b, ok := i.(*ssa.BinOp)
		if !ok {
			return
		}
		switch b.Op {
		case token.EQL, token.NEQ, token.LSS, token.LEQ, token.GTR, token.GEQ:
		default:
			return
		}
		lx, ly := c16LimitValue(b.X, 0), c16LimitValue(b.Y, 0)
		if lx == ly {
			return
		}
		other := b.Y
		if ly {
			other = b.X
		}
		if _, isConst := other.(*ssa.Const); isConst {
			return // sign tests such as limit >= 0
		}
		for _, want := range []bool{true, false} {
			for _, e := range condEdges(b, want) {
				if !edgeDominates(e, blk) {
					continue
				}
				// distance: number of dominator steps from blk up to the branching block
				d := 0
				for x := blk; x != nil && x != e.From; x = x.Idom() {
					d++
				}
				if best == nil || d < best.dist {
					best = &cand{b, want, d}
				}
			}
		}
	})
	if best == nil {
		return "", "", nil
	}
	b := best.b
	op := b.Op
	if !best.want {
		op = negateOp(op)
	}
	// normalise to: produced OP limit
	produced := b.X
	if c16LimitValue(b.X, 0) {
		op = mirrorOp(op)
		produced = b.Y
	}
	desc = fmt.Sprintf("%s %s limit", exprName(produced), op)
	switch op {
	case token.GTR:
		return "produced>limit", desc, produced
	case token.EQL:
		// pre-write equality on a loop-carried counter
		if phi, ok := produced.(*ssa.Phi); ok && phi.Comment != "" || isLoopCarried(produced) {
			return "limit==written(pre-write)", desc, produced
		}
		return "produced==limit", desc, produced
	case token.GEQ:
		return "produced>=limit", desc, produced
	}
	return "produced" + op.String() + "limit", desc, produced
}

// inputSideCount: the compared length contains the byte count of a read from the input (io.ReadFull, Read, …).
// That is the size of what was consumed, not of what the decoder writes (a PNG predictor row carries a
// filter byte that never reaches the output), so a limit test on it is an estimate, not the boundary.
func inputSideCount(v ssa.Value, d int) string {
	if v == nil || d > 6 {
		return ""
	}
	switch x := v.(type) {
	case *ssa.Convert:
		return inputSideCount(x.X, d+1)
	case *ssa.BinOp:
		if x.Op == token.ADD || x.Op == token.SUB {
			if s := inputSideCount(x.X, d+1); s != "" {
				return s
			}
			return inputSideCount(x.Y, d+1)
		}
	case *ssa.Phi:
		for _, e := range x.Edges {
			if s := inputSideCount(e, d+1); s != "" {
				return s
			}
		}
	case *ssa.Extract:
		if call, ok := x.Tuple.(*ssa.Call); ok && x.Index == 0 {
			_, ref := callRef(call)
			if ref == "io.ReadFull" || ref == "io.ReadAtLeast" || strings.HasSuffix(ref, ".Read") || strings.HasSuffix(ref, ".ReadAt") {
				return ref
			}
			if call.Call.IsInvoke() && call.Call.Method != nil && call.Call.Method.Name() == "Read" {
				return "Read"
			}
		}
	}
	return ""
}

func isLoopCarried(v ssa.Value) bool {
	phi, ok := v.(*ssa.Phi)
	if !ok {
		return false
	}
	for _, e := range phi.Edges {
		if add, ok := e.(*ssa.BinOp); ok && add.Op == token.ADD {
			return true
		}
		if p2, ok := e.(*ssa.Phi); ok && p2 != phi {
			for _, e2 := range p2.Edges {
				if add, ok := e2.(*ssa.BinOp); ok && add.Op == token.ADD {
					return true
				}
			}
		}
	}
	return false
}

// checkPipelineBoundLastStage (C16.R5): in (*StreamDict).decodeLength the bounded call fi.DecodeLength(b, maxLen) is reached only
// for the last filter of the pipeline (idx == len(FilterPipeline)-1); earlier stages decode completely. Bounding an
// intermediate stage truncates the *encoded* input of the next one.
func checkPipelineBoundLastStage(c *Ctx) {
	p, r := c.P, c.R
	fid := "pkg/pdfcpu/types.(*StreamDict).decodeLength"
	fn := p.Func(fid)
	if fn == nil {
		r.Bad("C16.R5", fid, "anchor", "", "UNRESOLVED-ANCHOR")
		return
	}
	var maxLen *ssa.Parameter
	for _, prm := range fn.Params {
		if prm.Name() == "maxLen" {
			maxLen = prm
		}
	}
	// edges on which idx == len(pipeline)-1
	genE := map[Edge][]string{}
	eachInstr(fn, func(_ *ssa.BasicBlock, _ int, i ssa.Instruction) {
		b, ok := i.(*ssa.BinOp)
		if !ok || (b.Op != token.EQL && b.Op != token.NEQ) {
			return
		}
		isLast := func(v ssa.Value) bool {
			sub, ok := v.(*ssa.BinOp)
			if !ok || sub.Op != token.SUB {
				return false
			}
			if k, ok := constInt(sub.Y); !ok || k != 1 {
				return false
			}
			la := lenArgOf(sub.X)
			return la != nil && strings.HasSuffix(fieldPath(la), "FilterPipeline")
		}
		if !isLast(b.X) && !isLast(b.Y) {
			return
		}
		for _, e := range condEdges(b, b.Op == token.EQL) {
			genE[e] = append(genE[e], "last")
		}
	})
	ff := NewFactFlow(fn, nil, genE, nil, nil)
	n := 0
	eachInstr(fn, func(_ *ssa.BasicBlock, _ int, i ssa.Instruction) {
		call, ok := i.(*ssa.Call)
		if !ok || !call.Call.IsInvoke() || call.Call.Method.Name() != "DecodeLength" {
			return
		}
		n++
		construct := fmt.Sprintf("DecodeLength#%d", n)
		arg := call.Call.Args[len(call.Call.Args)-1]
		if k, isC := constInt(arg); isC && k < 0 {
			r.OK("C16.R5", fid, construct, p.Pos(call.Pos()), "unbounded stage (constant negative length)", false)
			return
		}
		if maxLen != nil && arg != ssa.Value(maxLen) {
			r.Bad("C16.R5", fid, construct, p.Pos(call.Pos()), "the bounded stage does not receive the caller's maxLen")
			return
		}
		if ff.Holds(i, "last") {
			r.OK("C16.R5", fid, construct, p.Pos(call.Pos()), "the bounded DecodeLength is reached only for idx == len(FilterPipeline)-1", true)
		} else {
			r.Bad("C16.R5", fid, construct, p.Pos(call.Pos()), "a pipeline stage other than the last can be decoded with the caller's bound: its truncated output is the next stage's encoded input, so bounded decoding no longer yields a prefix of the full decoding")
		}
	})
	if n == 0 {
		r.Bad("C16.R5", fid, "DecodeLength", p.Pos(fn.Pos()), "UNRESOLVED-ANCHOR: no DecodeLength call in the pipeline loop")
	}
}

// ---------------- C16.R6 (round 3 of seeding): who may drain a decoder without a bound ----------------

// c16UnboundedDrains: decode-side functions of pkg/filter that may copy a reader to the end, with the reason.
// "guarded" entries must sit behind a test that no limit is configured.
var c16UnboundedDrains = map[string]struct {
	why     string
	guarded bool
}{
	"pkg/filter.getReaderBytes":        {"drains the ENCODED input (bounded by the stream's stored length), before any decoding", false},
	"pkg/filter.(baseFilter).copyDecoded": {"the unlimited copies are the no-limit-configured cases (limit < 0, limit == maxInt64)", true},
}

func isDrainCall(call *ssa.Call) (ref string, src ssa.Value) {
	_, ref = callRef(call)
	args := call.Call.Args
	switch ref {
	case "io.Copy", "io.CopyBuffer":
		if len(args) >= 2 {
			return ref, args[1]
		}
	case "io.ReadAll", "io/ioutil.ReadAll":
		if len(args) >= 1 {
			return ref, args[0]
		}
	case "bytes.Buffer.ReadFrom", "bufio.Writer.ReadFrom":
		if len(args) >= 2 {
			return ref, args[1]
		}
	}
	return "", nil
}

func isLimitedReader(v ssa.Value) bool {
	for _, l := range valueLeaves(v) {
		if mi, ok := l.(*ssa.MakeInterface); ok {
			l = mi.X
		}
		t := l.Type().String()
		if !strings.Contains(t, "io.LimitedReader") {
			if call, ok := l.(*ssa.Call); ok {
				if _, ref := callRef(call); ref == "io.LimitReader" {
					continue
				}
			}
			return false
		}
	}
	return true
}

func checkDecodeSideDrains(c *Ctx) {
	p, r := c.P, c.R
	cg := c.CG()
	// decode side: functions of pkg/filter reachable from a Decode / DecodeLength method inside pkg/filter
	side := map[*ssa.Function]bool{}
	var work []*ssa.Function
	for _, fn := range p.Funcs {
		if fn.Pkg == nil || fn.Pkg.Pkg.Path() != modPath+"/pkg/filter" {
			continue
		}
		if fn.Signature.Recv() != nil && (fn.Name() == "Decode" || fn.Name() == "DecodeLength") {
			work = append(work, fn)
		}
	}
	roots := len(work)
	for len(work) > 0 {
		f := work[len(work)-1]
		work = work[:len(work)-1]
		if side[f] {
			continue
		}
		side[f] = true
		for _, o := range cg.Out[f] {
			if o.Pkg != nil && o.Pkg.Pkg.Path() == modPath+"/pkg/filter" && o.Name() != "Encode" {
				work = append(work, o)
			}
		}
	}
	if roots == 0 {
		r.Bad("C16.R6", "pkg/filter", "anchor", "", "UNRESOLVED-ANCHOR: no Decode/DecodeLength method found in pkg/filter")
		return
	}
	var fns []*ssa.Function
	for f := range side {
		fns = append(fns, f)
	}
	sort.Slice(fns, func(i, j int) bool { return FuncID(fns[i]) < FuncID(fns[j]) })
	seenTable := map[string]bool{}
	n := 0
	for _, fn := range fns {
		fn := fn
		fid := FuncID(fn)
		k := 0
		eachInstr(fn, func(blk *ssa.BasicBlock, _ int, i ssa.Instruction) {
			call, ok := i.(*ssa.Call)
			if !ok {
				return
			}
			ref, src := isDrainCall(call)
			if ref == "" {
				return
			}
			k++
			n++
			construct := fmt.Sprintf("%s#%d", ref, k)
			pos := p.Pos(call.Pos())
			if isLimitedReader(src) {
				r.OK("C16.R6", fid, construct, pos, "the source is an io.LimitedReader (its N is C16.R2's business)", true)
				return
			}
			ent, ok := c16UnboundedDrains[fid]
			if !ok {
				r.Bad("C16.R6", fid, construct, pos, "decode-side code copies a reader to its end without a bound and outside the table of unlimited drains: decoded bytes have to go through copyDecoded (LimitedReader N = limit+1, then the strict comparison), otherwise more than L bytes can be returned without an error")
				return
			}
			seenTable[fid] = true
			if ent.guarded {
				// dominated by an edge on which the limit is negative or maxInt64
				okGuard := false
				eachInstr(fn, func(_ *ssa.BasicBlock, _ int, ci ssa.Instruction) {
					b, ok := ci.(*ssa.BinOp)
					if !ok {
						return
					}
					lx, ly := c16LimitValue(b.X, 0), c16LimitValue(b.Y, 0)
					if lx == ly {
						return
					}
					other := b.Y
					if ly {
						other = b.X
					}
					want := false
					switch {
					case b.Op == token.LSS && lx && isZeroConst(other): // limit < 0
						want = true
					case b.Op == token.EQL && isMaxInt64(other):
						want = true
					default:
						return
					}
					for _, e := range condEdges(b, want) {
						if edgeDominates(e, blk) {
							okGuard = true
						}
					}
				})
				if !okGuard {
					r.Bad("C16.R6", fid, construct, pos, "this unlimited copy is not behind a test that no limit is configured (limit < 0 or limit == maxInt64): "+ent.why)
					return
				}
			}
			r.OK("C16.R6", fid, construct, pos, "table entry: "+ent.why, true)
		})
	}
	for fid := range c16UnboundedDrains {
		if !seenTable[fid] {
			r.Note("C16.R6 table entry %s has no unlimited drain any more", fid)
		}
	}
	if n == 0 {
		r.Bad("C16.R6", "pkg/filter", "anchor", "", "UNRESOLVED-ANCHOR: no drain call on the decode side of pkg/filter")
	}
}

func isZeroConst(v ssa.Value) bool { n, ok := constInt(v); return ok && n == 0 }

func isMaxInt64(v ssa.Value) bool {
	if n, ok := constInt(v); ok && n == 1<<63-1 {
		return true
	}
	if ld, ok := v.(*ssa.UnOp); ok && ld.Op == token.MUL {
		if g, ok := ld.X.(*ssa.Global); ok && strings.Contains(strings.ToLower(g.Name()), "maxint64") {
			return true
		}
	}
	return false
}

// ---------------- C16.R7 (round 4 seed C16-D): every filter value carries the configured limit ----------------

// checkFilterValuesCarryLimit: the limit reaches a decoder through one field, baseFilter.maxDecodeBytes; a zero there
// means "the 512 MiB default" (baseFilter.decodeLimit). Every composite value of baseFilter (alone or embedded in a
// filter type) that pkg/filter builds must therefore store that field, and not the constant 0; a literal that
// leaves it out makes that one filter ignore the configuration while its siblings honour it.
func checkFilterValuesCarryLimit(c *Ctx) { checkFilterValuesCarryLimitAs(c, "C16.R7") }

func checkFilterValuesCarryLimitAs(c *Ctx, rule string) {
	p, r := c.P, c.R
	n := 0
	isBase := func(t types.Type) bool {
		return strings.HasSuffix(types.Unalias(t).String(), "pkg/filter.baseFilter")
	}
	for _, fn := range p.Funcs {
		if fn.Pkg == nil || fn.Pkg.Pkg.Path() != modPath+"/pkg/filter" || !isSubject(fn) {
			continue
		}
		k := 0
		eachInstr(fn, func(_ *ssa.BasicBlock, _ int, i ssa.Instruction) {
			al, ok := i.(*ssa.Alloc)
			if !ok {
				return
			}
			st, ok := al.Type().(*types.Pointer).Elem().Underlying().(*types.Struct)
			if !ok {
				return
			}
			elem := al.Type().(*types.Pointer).Elem()
			embeds := isBase(elem)
			if !embeds {
				for f := 0; f < st.NumFields(); f++ {
					if st.Field(f).Embedded() && isBase(st.Field(f).Type()) {
						embeds = true
					}
				}
			}
			if !embeds || al.Comment != "complit" {
				return
			}
			if !isBase(elem) {
				// the embedded baseFilter is usually built as a literal of its own and copied in: that literal is the obligation
				whole := false
				for _, rf := range *al.Referrers() {
					if fa, ok := rf.(*ssa.FieldAddr); ok {
						if f := structField(fa.X.Type(), fa.Field); f != nil && isBase(f.Type()) && fa.Referrers() != nil {
							for _, r2 := range *fa.Referrers() {
								if s, ok := r2.(*ssa.Store); ok && s.Addr == ssa.Value(fa) {
									whole = true
								}
							}
						}
					}
				}
				if whole {
					return
				}
			}
			k++
			n++
			construct := fmt.Sprintf("%s literal#%d", typeNameOf(elem), k)
			// stores into …maxDecodeBytes below this alloc
			var stored []ssa.Value
			var walk func(v ssa.Value, d int)
			walk = func(v ssa.Value, d int) {
				if d > 3 || v.Referrers() == nil {
					return
				}
				for _, rf := range *v.Referrers() {
					fa, ok := rf.(*ssa.FieldAddr)
					if !ok {
						continue
					}
					f := structField(fa.X.Type(), fa.Field)
					if f == nil {
						continue
					}
					if f.Name() == "maxDecodeBytes" {
						for _, r2 := range *fa.Referrers() {
							if s, ok := r2.(*ssa.Store); ok && s.Addr == ssa.Value(fa) {
								stored = append(stored, s.Val)
							}
						}
					} else if isBase(f.Type()) {
						walk(fa, d+1)
					}
				}
			}
			walk(al, 0)
			switch {
			case len(stored) == 0:
				r.Bad(rule, FuncID(fn), construct, p.Pos(al.Pos()), "a filter value is built without maxDecodeBytes: baseFilter.decodeLimit reads the zero as the 512 MiB default, so this filter ignores a configured decode limit that its siblings enforce")
			case isZeroConst(stored[0]):
				r.Bad(rule, FuncID(fn), construct, p.Pos(al.Pos()), "a filter value is built with maxDecodeBytes = 0 (read as the 512 MiB default): the configured limit is not handed on")
			default:
				r.OK(rule, FuncID(fn), construct, p.Pos(al.Pos()), "maxDecodeBytes is stored from "+exprName(stored[0]), true)
			}
		})
	}
	if n == 0 {
		r.Bad(rule, "pkg/filter.NewFilter", "anchor", "", "UNRESOLVED-ANCHOR: no composite literal of a filter type found in pkg/filter")
	}
}

// ---------------- C16.R8 (round 4 seed C16-H): the bounded loop counts what it produced ----------------

// checkBoundedLoopCountsOutput: "return exactly the first n bytes": the row loop of flate.decodePostProcessRows goes on
// while fewer than maxLen bytes have been PRODUCED. Every comparison against the maxLen parameter in that function (and
// in a helper it hands maxLen to) has, on its other side, a value that is not an input-side count (the n of io.ReadFull
// includes the PNG filter byte of each row, which never reaches the output): with an input-side count the loop stops
// early and a bounded decode inside the data fails with "unexpected EOF".
func checkBoundedLoopCountsOutput(c *Ctx) {
	p, r := c.P, c.R
	const fid = "pkg/filter.(flate).decodePostProcessRows"
	fn := p.Func(fid)
	if fn == nil {
		r.Bad("C16.R8", fid, "anchor", "", "UNRESOLVED-ANCHOR")
		return
	}
	var maxLen *ssa.Parameter
	for _, q := range fn.Params {
		if q.Name() == "maxLen" {
			maxLen = q
		}
	}
	if maxLen == nil {
		r.Bad("C16.R8", fid, "anchor", p.Pos(fn.Pos()), "UNRESOLVED-ANCHOR: no maxLen parameter")
		return
	}
	n := 0
	var scan func(f *ssa.Function, lim ssa.Value, d int)
	scan = func(f *ssa.Function, lim ssa.Value, d int) {
		eachInstr(f, func(_ *ssa.BasicBlock, _ int, i ssa.Instruction) {
			switch x := i.(type) {
			case *ssa.BinOp:
				switch x.Op {
				case token.LSS, token.LEQ, token.GTR, token.GEQ:
				default:
					return
				}
				var other ssa.Value
				switch {
				case x.X == lim:
					other = x.Y
				case x.Y == lim:
					other = x.X
				default:
					return
				}
				if _, isConst := other.(*ssa.Const); isConst {
					return // maxLen < 0: the mode test
				}
				n++
				construct := fmt.Sprintf("comparison with maxLen#%d", n)
				if src := inputSideCount(other, 0); src != "" {
					r.Bad("C16.R8", FuncID(f), construct, p.Pos(x.Pos()), "the bounded loop compares maxLen with a count of bytes read from the input ("+src+"), which includes the filter byte of every PNG predictor row: the loop stops before maxLen bytes were produced and a bounded decode well inside the data reports an unexpected end")
				} else {
					r.OK("C16.R8", FuncID(f), construct, p.Pos(x.Pos()), "compared with "+exprName(other)+", not an input-side count", true)
				}
			case *ssa.Call:
				if d > 1 {
					return
				}
				callee := staticCallee(x)
				if callee == nil || !isSubject(callee) || len(callee.Blocks) == 0 {
					return
				}
				for k, a := range x.Call.Args {
					if a == lim && k < len(callee.Params) {
						scan(callee, callee.Params[k], d+1)
					}
				}
			}
		})
	}
	scan(fn, maxLen, 0)
	if n == 0 {
		r.Bad("C16.R8", fid, "comparison with maxLen", p.Pos(fn.Pos()), "UNDECIDED: maxLen is not compared with a produced length in the row loop")
	}
}
