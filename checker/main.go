// pdfcpu-verif: repository-specific static checker for the properties in /verif/properties.jsonl.
//
//	pdfcpu-verif check <ID> [--tier quick|thorough]
//	pdfcpu-verif mutant <ID> <fixture.json>       (internal: run the rules of <ID> on an overlay variant, print report keys)
//	pdfcpu-verif list
package main

import (
	"encoding/json"
	"fmt"
	"os"
	"runtime"
	"runtime/debug"
	"sort"
	"strings"
)

// Check is one property's rule set.
type Check struct {
	ID  string
	Run func(c *Ctx)
	// Static text for evidence
	Explanation string
	Rules       []string
	Assumptions []string
	Level       string // default "other"
	Technique   string // deciding method (MANIFEST "technique")
	Note        string // MANIFEST "level_note"
}

// Ctx is handed to rules: program, call graph (lazy), report.
type Ctx struct {
	P  *Program
	R  *Report
	cg *CG
}

func (c *Ctx) CG() *CG {
	if c.cg == nil {
		c.cg = BuildCG(c.P)
	}
	return c.cg
}

var registry = map[string]*Check{}

func register(c *Check) { registry[c.ID] = c }

func main() {
	debug.SetGCPercent(200)
	// go/packages resolves "go" through this process's PATH: the default go (1.23.5) refuses /repo's go.mod under GOTOOLCHAIN=local.
	os.Setenv("PATH", "/opt/veriftools/go1.26.8/bin:"+os.Getenv("PATH"))
	os.Unsetenv("GOOS")
	os.Unsetenv("GOARCH")
	os.Unsetenv("GOWORK")
	if len(os.Args) < 2 {
		usage()
	}
	switch os.Args[1] {
	case "list":
		var ids []string
		for id := range registry {
			ids = append(ids, id)
		}
		sort.Strings(ids)
		fmt.Println(strings.Join(ids, "\n"))
	case "describe":
		var out []map[string]any
		var ids []string
		for id := range registry {
			ids = append(ids, id)
		}
		sort.Strings(ids)
		for _, id := range ids {
			c := registry[id]
			lv := c.Level
			if lv == "" {
				lv = "other"
			}
			out = append(out, map[string]any{"id": id, "level": lv, "explanation": c.Explanation, "rules": c.Rules, "assumptions": c.Assumptions, "technique": c.Technique, "note": c.Note})
		}
		jsonOut(out)
	case "check":
		if len(os.Args) < 3 {
			usage()
		}
		id := os.Args[2]
		tier := os.Getenv("VERIF_TIER")
		for i := 3; i < len(os.Args); i++ {
			if os.Args[i] == "--tier" && i+1 < len(os.Args) {
				tier = os.Args[i+1]
			}
		}
		if tier != "thorough" {
			tier = "quick"
		}
		os.Exit(runCheck(id, tier))
	case "debug":
		os.Exit(debugCmd(os.Args[2:]))
	case "mutant":
		if len(os.Args) < 4 {
			usage()
		}
		os.Exit(runMutant(os.Args[2], os.Args[3]))
	default:
		usage()
	}
}

func usage() {
	fmt.Fprintln(os.Stderr, "usage: pdfcpu-verif check <ID> [--tier quick|thorough] | list | mutant <ID> <fixture.json>")
	os.Exit(2)
}

func runCheck(id, tier string) (code int) {
	ck := registry[id]
	if ck == nil {
		fmt.Fprintf(os.Stderr, "unknown check %s\n", id)
		return 2
	}
	r := NewReport(id, tier)
	if ck.Level != "" {
		r.Level = ck.Level
	}
	r.Explanation = ck.Explanation
	r.RuleText = ck.Rules
	r.Assumptions = ck.Assumptions
	cfgs := quickConfigs
	if tier == "thorough" {
		cfgs = thoroughConfigs
	}
	var cfgInfo []map[string]any
	for _, cfg := range cfgs {
		func() {
			r.SetConfig(cfg.Name)
			defer func() {
				if e := recover(); e != nil {
					r.Bad("ENGINE", "-", "panic", "", fmt.Sprintf("checker panicked under %s: %v\n%s", cfg.Name, e, debug.Stack()))
				}
			}()
			p, err := Load(cfg, nil)
			if err != nil {
				r.Bad("ENGINE", "-", "load:"+cfg.Name, "", "cannot load/type-check /repo: "+err.Error())
				return
			}
			cfgInfo = append(cfgInfo, map[string]any{"config": cfg.Name, "module_packages": len(p.Pkgs), "subject_functions": p.NFuncs})
			ck.Run(&Ctx{P: p, R: r})
		}()
		runtime.GC()
	}
	r.SetConfig("")
	r.Extra["configurations"] = cfgInfo
	if tier == "thorough" {
		runMutationSelfTest(id, r)
	}
	return r.Finish()
}

// violationKeys runs the check on an already loaded program and returns violated keys.
func violationKeys(ck *Check, p *Program) []string {
	r := NewReport(ck.ID, "quick")
	ck.Run(&Ctx{P: p, R: r})
	var out []string
	for _, o := range r.Obls {
		if o.Verdict == "violation" {
			out = append(out, o.Key+" @ "+o.Pos+" :: "+o.Witness)
		}
	}
	return out
}

func jsonOut(v any) {
	b, _ := json.MarshalIndent(v, "", " ")
	fmt.Println(string(b))
}
