package main

import (
	"fmt"
	"go/token"
	"sort"
	"strings"

	"golang.org/x/tools/go/ssa"
)

// C14 (structural clauses): the date writer's field widths, the parser's field ranges, and the sign of the offset.

func init() {
	register(&Check{
		ID:  "C14",
		Run: runC14,
		Explanation: "Decides three structural clauses of 'dates written by pdfcpu are valid and read back to the same instant': " +
			"(R1) types.DateString builds the string from a constant format whose numeric verbs are zero padded with the widths ISO 32000 7.9.4 fixes — year 4, month, day, hour, minute, second 2, offset hours and minutes 2 (or uses time.Format with the layout 20060102150405): a narrower year shifts every following field for years below 1000. " +
			"(R2) in types.parseTimezone the sign of the offset reaches both results: if the hours returned on some path are negated (× −1) then the minutes returned on that path are negated as well — FixedZone is fed hours·3600 + minutes·60, so −03'30' must not become −3 h + 30 min. " +
			"(R3) the strict field parsers compare their field with exactly the bounds of the date grammar: month 1..12, day 1..31, hour ≤ 23, minute ≤ 59, second ≤ 59, offset minutes ≤ 59 (comparisons normalised to cuts as in C13); the offset hours are not cut anywhere inside (−24, 23) in parseTimezone / parseTimezoneHours. " +
			"(R4) DateString decides the sign on the zone offset divided by at most 60 (whole minutes), not on its hour part, which is 0 for −00:30; (R5) date.go either has no leap-year arithmetic of its own (month lengths come from time.Date) or its rule has all three clauses %4, %100, %400. (R6) every strconv parse in date.go is base 10 (Atoi or constant base 10); (R7) the year … second arguments of DateString's format call are t.Year() … t.Second() or the matching results of t.Date()/t.Clock(). NOT decided: calendar arithmetic (days per month is delegated to time.Date), that every instant in range round-trips (value-level), relaxed-mode repairs, out-of-spec date forms.",
		Rules:       []string{"C14.R1 TABLE: zero-padded field widths of the date writer", "C14.R2 siblings: the offset's sign is applied to hours and minutes alike", "C14.R3 TABLE: field bounds of the strict date parser", "C14.R4 shape: the written sign is decided on the whole offset", "C14.R5 TABLE: no partial hand-written leap-year rule", "C14.R6 TABLE: every number parse of date.go is decimal", "C14.R7 source: the six calendar fields DateString formats are package time's accessors of the time being written"},
		Assumptions: []string{"package time is correct"},
		Level:       "other",
		Technique:   "format-literal and constant table agreement; value-source tracing of the two offset results",
		Note:        "Partial: widths, bounds and sign only.",
	})
}

// numericVerbs returns, for each %…d verb of a format, whether it has the zero flag and its width (-1 = none).
func numericVerbs(f string) (zero []bool, width []int) {
	for i := 0; i < len(f); i++ {
		if f[i] != '%' {
			continue
		}
		i++
		if i < len(f) && f[i] == '%' {
			continue
		}
		z := false
		w := -1
		for i < len(f) && strings.ContainsRune("+-# 0", rune(f[i])) {
			if f[i] == '0' {
				z = true
			}
			i++
		}
		for i < len(f) && f[i] >= '0' && f[i] <= '9' {
			if w < 0 {
				w = 0
			}
			w = w*10 + int(f[i]-'0')
			i++
		}
		if i < len(f) && f[i] == 'd' {
			zero = append(zero, z)
			width = append(width, w)
		}
	}
	return
}

// negatedValue: v can be the product with −1 (or the negation) of something.
func negatedValue(v ssa.Value, d int, seen map[ssa.Value]bool) bool {
	if v == nil || d > 8 || seen[v] {
		return false
	}
	seen[v] = true
	switch x := v.(type) {
	case *ssa.BinOp:
		if x.Op == token.MUL {
			if k, ok := constInt(x.Y); ok && k == -1 {
				return true
			}
			if k, ok := constInt(x.X); ok && k == -1 {
				return true
			}
		}
		if x.Op == token.SUB {
			if k, ok := constInt(x.X); ok && k == 0 {
				return true
			}
		}
	case *ssa.UnOp:
		if x.Op == token.SUB {
			return true
		}
	case *ssa.Phi:
		for _, e := range x.Edges {
			if negatedValue(e, d+1, seen) {
				return true
			}
		}
	}
	return false
}

func runC14(c *Ctx) {
	p, r := c.P, c.R
	r.MinInst["C14.R1"] = 1
	r.MinInst["C14.R2"] = 1
	r.MinInst["C14.R3"] = 8
	r.MinInst["C14.R4"] = 1
	r.MinInst["C14.R5"] = 1
	checkC14Extras(c)
	r.MinInst["C14.R6"] = 6
	checkC14Round4(c)
	// ---- R1
	if fn := p.Func("pkg/pdfcpu/types.DateString"); fn == nil {
		r.Bad("C14.R1", "pkg/pdfcpu/types.DateString", "anchor", "", "UNRESOLVED-ANCHOR")
	} else {
		decided := false
		eachInstr(fn, func(_ *ssa.BasicBlock, _ int, i ssa.Instruction) {
			call, ok := i.(*ssa.Call)
			if !ok {
				return
			}
			_, ref := callRef(call)
			switch {
			case ref == "fmt.Sprintf" || ref == "fmt.Fprintf" || ref == "fmt.Appendf":
				for _, a := range call.Call.Args {
					f, ok := constString(a)
					if !ok || !strings.Contains(f, "%") {
						continue
					}
					zero, width := numericVerbs(f)
					if len(width) < 6 {
						continue
					}
					decided = true
					want := []int{4, 2, 2, 2, 2, 2, 2, 2}
					names := []string{"year", "month", "day", "hour", "minute", "second", "offset hours", "offset minutes"}
					var bad []string
					for k := range width {
						if k >= len(want) {
							break
						}
						if !zero[k] || width[k] != want[k] {
							bad = append(bad, fmt.Sprintf("%s is not zero padded to %d digits", names[k], want[k]))
						}
					}
					if !strings.HasPrefix(f, "D:") {
						bad = append(bad, "the D: prefix is missing")
					}
					if len(bad) > 0 {
						r.Bad("C14.R1", FuncID(fn), "date format", p.Pos(call.Pos()), "format "+fmt.Sprintf("%q", f)+": "+strings.Join(bad, "; ")+" — ISO 32000 dates are D:YYYYMMDDHHmmSSOHH'mm', a narrower field shifts every field after it and the string is not a valid date")
					} else {
						r.OK("C14.R1", FuncID(fn), "date format", p.Pos(call.Pos()), fmt.Sprintf("%q: %d zero padded numeric fields with the widths of the date grammar", f, len(width)), true)
					}
				}
			case strings.HasSuffix(ref, "time.Time.Format") || strings.HasSuffix(ref, "time.Time.AppendFormat"):
				for _, a := range call.Call.Args {
					if f, ok := constString(a); ok && strings.Contains(f, "20060102150405") {
						decided = true
						// the zone: Go's layouts with offset minutes are -0700, -07:00 (and the Z variants); "-07" followed by
						// anything else prints the hours only (a quoted '00' is a literal)
						zone := f[strings.Index(f, "20060102150405")+len("20060102150405"):]
						hasMinutes := false
						for _, z := range []string{"-0700", "-07:00", "Z0700", "Z07:00"} {
							if strings.Contains(zone, z) {
								hasMinutes = true
							}
						}
						switch {
						case !strings.HasPrefix(f, "D:"):
							r.Bad("C14.R1", FuncID(fn), "date format", p.Pos(call.Pos()), "layout "+fmt.Sprintf("%q", f)+": the D: prefix is missing")
						case strings.Contains(zone, "07") && !hasMinutes:
							r.Bad("C14.R1", FuncID(fn), "date format", p.Pos(call.Pos()), "layout "+fmt.Sprintf("%q", f)+" prints the hours of the UTC offset only (the text after -07 is literal): an offset of +05:30 is written as +05'00' and reads back as another instant's offset")
						case !hasMinutes && zone != "":
							r.Bad("C14.R1", FuncID(fn), "date format", p.Pos(call.Pos()), "layout "+fmt.Sprintf("%q", f)+" has no UTC offset with minutes after the seconds")
						default:
							r.OK("C14.R1", FuncID(fn), "date format", p.Pos(call.Pos()), "time layout 20060102150405 (fixed widths) with an offset layout that carries minutes", true)
						}
					}
				}
			}
		})
		if !decided {
			r.Bad("C14.R1", FuncID(fn), "date format", p.Pos(fn.Pos()), "UNDECIDED: no constant format with the six date fields found in DateString")
		}
	}
	// ---- R2
	if fn := p.Func("pkg/pdfcpu/types.parseTimezone"); fn == nil {
		r.Bad("C14.R2", "pkg/pdfcpu/types.parseTimezone", "anchor", "", "UNRESOLVED-ANCHOR")
	} else {
		n := 0
		for _, ret := range returnsOf(fn) {
			if len(ret.Results) < 3 {
				continue
			}
			h, m := ret.Results[0], ret.Results[1]
			if _, isConst := m.(*ssa.Const); isConst {
				continue // no minutes on this path
			}
			n++
			construct := fmt.Sprintf("return#%d sign", n)
			hn := negatedValue(h, 0, map[ssa.Value]bool{})
			mn := negatedValue(m, 0, map[ssa.Value]bool{})
			switch {
			case hn && !mn:
				r.Bad("C14.R2", FuncID(fn), construct, posOrFn(p, ret, fn), "the hours returned here can be negated for a negative offset but the minutes never are: the caller adds hours·3600 + minutes·60, so −03'30' is read as −02:30 (and −00'30' as +00:30) — another instant and another offset than the one written")
			case !hn && mn:
				r.Bad("C14.R2", FuncID(fn), construct, posOrFn(p, ret, fn), "the minutes returned here can be negated but the hours never are")
			default:
				r.OK("C14.R2", FuncID(fn), construct, posOrFn(p, ret, fn), "hours and minutes carry the sign alike", true)
			}
		}
		if n == 0 {
			r.Bad("C14.R2", FuncID(fn), "sign", p.Pos(fn.Pos()), "UNRESOLVED-ANCHOR: no return with computed minutes")
		}
	}
	// ---- R3
	bounds := map[string][]int64{
		"pkg/pdfcpu/types.parseMonth":           {0, 12},
		"pkg/pdfcpu/types.parseDay":             {0, 31},
		"pkg/pdfcpu/types.parseHour":            {23},
		"pkg/pdfcpu/types.parseMinute":          {59},
		"pkg/pdfcpu/types.parseSecond":          {59},
		"pkg/pdfcpu/types.parseTimezoneMinutes": {59},
	}
	// fields the property lets run over their whole two-digit range (offset hours up to 23): any cut of a parsed
	// number strictly inside (-24, 23) rejects a date the writer can produce
	widest := map[string]int64{
		"pkg/pdfcpu/types.parseTimezone":      23,
		"pkg/pdfcpu/types.parseTimezoneHours": 23,
	}
	for f := range widest {
		bounds[f] = nil
	}
	var fids []string
	for f := range bounds {
		fids = append(fids, f)
	}
	sort.Strings(fids)
	for _, fid := range fids {
		fn := p.Func(fid)
		if fn == nil {
			r.Bad("C14.R3", fid, "anchor", "", "UNRESOLVED-ANCHOR")
			continue
		}
		got := map[int64]bool{}
		eachInstr(fn, func(_ *ssa.BasicBlock, _ int, i ssa.Instruction) {
			b, ok := i.(*ssa.BinOp)
			if !ok {
				return
			}
			switch b.Op {
			case token.LSS, token.LEQ, token.GTR, token.GEQ:
			default:
				return
			}
			op := b.Op
			k, isC := constInt(b.Y)
			other := b.X
			if !isC {
				k, isC = constInt(b.X)
				other = b.Y
				op = mirrorOp(op)
			}
			if !isC {
				return
			}
			// only comparisons of parsed numbers (Atoi results), not of lengths
			if call, ok := other.(*ssa.Call); ok {
				if bi, ok := call.Call.Value.(*ssa.Builtin); ok && bi.Name() == "len" {
					return
				}
			}
			switch op {
			case token.LEQ, token.GTR:
				got[k] = true
			case token.LSS, token.GEQ:
				got[k-1] = true
			}
		})
		if lim, ok := widest[fid]; ok {
			var inside []string
			for g := range got {
				if g < lim && g >= -lim-1 {
					inside = append(inside, fmt.Sprint(g))
				}
			}
			sort.Strings(inside)
			if len(inside) == 0 {
				r.OK("C14.R3", fid, "field bounds", p.Pos(fn.Pos()), fmt.Sprintf("no parsed number is cut inside (-%d, %d): offsets of up to 23 hours pass", lim+1, lim), true)
			} else {
				r.Bad("C14.R3", fid, "field bounds", p.Pos(fn.Pos()), "a parsed number is cut after {"+strings.Join(inside, ", ")+fmt.Sprintf("}: the property covers offsets of up to %d:59, a date with a larger offset hour than the cut is written by DateString and then rejected or read with another offset", lim))
			}
			continue
		}
		var want, have []string
		okAll := true
		for _, w := range bounds[fid] {
			want = append(want, fmt.Sprint(w))
			if !got[w] {
				okAll = false
			}
		}
		for g := range got {
			have = append(have, fmt.Sprint(g))
			found := false
			for _, w := range bounds[fid] {
				if w == g {
					found = true
				}
			}
			if !found {
				okAll = false
			}
		}
		sort.Strings(have)
		if okAll {
			r.OK("C14.R3", fid, "field bounds", p.Pos(fn.Pos()), "the field is cut exactly after "+strings.Join(want, " and "), true)
		} else {
			r.Bad("C14.R3", fid, "field bounds", p.Pos(fn.Pos()), "the field's comparisons cut after {"+strings.Join(have, ", ")+"}, the date grammar needs {"+strings.Join(want, ", ")+"}: a valid date is rejected or an invalid one accepted")
		}
	}
}

// ---------------- round 3 seeds: sign decided on the whole offset; complete leap rule ----------------

// divisorChain: v = x / c1 / c2 … -> (x, c1*c2*…)
func divisorChain(v ssa.Value) (ssa.Value, int64) {
	d := int64(1)
	for {
		switch x := v.(type) {
		case *ssa.BinOp:
			if x.Op == token.QUO {
				if k, ok := constInt(x.Y); ok && k > 0 {
					d *= k
					v = x.X
					continue
				}
			}
		case *ssa.Convert:
			v = x.X
			continue
		}
		return v, d
	}
}

func checkC14Extras(c *Ctx) {
	p, r := c.P, c.R
	// R4: the sign of the written offset is decided on a value that is non-zero for every non-zero whole-minute offset
	if fn := p.Func("pkg/pdfcpu/types.DateString"); fn != nil {
		var zone ssa.Value
		eachInstr(fn, func(_ *ssa.BasicBlock, _ int, i ssa.Instruction) {
			if ex, ok := i.(*ssa.Extract); ok && ex.Index == 1 {
				if call, ok := ex.Tuple.(*ssa.Call); ok {
					if _, ref := callRef(call); strings.HasSuffix(ref, "time.Time.Zone") || strings.HasSuffix(ref, "(time.Time).Zone") {
						zone = ex
					}
				}
			}
		})
		n := 0
		eachInstr(fn, func(_ *ssa.BasicBlock, _ int, i ssa.Instruction) {
			b, ok := i.(*ssa.BinOp)
			if !ok || (b.Op != token.LSS && b.Op != token.GEQ && b.Op != token.GTR && b.Op != token.LEQ) {
				return
			}
			k, isC := constInt(b.Y)
			v := b.X
			if !isC {
				k, isC = constInt(b.X)
				v = b.Y
			}
			if !isC || k != 0 {
				return
			}
			root, div := divisorChain(v)
			if zone == nil || root != zone {
				return
			}
			// only the test that decides the sign string matters: it controls a φ of "+" / "-"
			n++
			construct := fmt.Sprintf("sign test#%d", n)
			if div <= 60 {
				r.OK("C14.R4", FuncID(fn), construct, p.Pos(b.Pos()), fmt.Sprintf("the offset in seconds divided by %d is compared with 0: non-zero for every non-zero whole-minute offset", div), true)
			} else {
				r.Bad("C14.R4", FuncID(fn), construct, p.Pos(b.Pos()), fmt.Sprintf("the sign of the offset is decided on the offset divided by %d: integer division truncates towards zero, so an offset between −00:01 and −00:59 has hour part 0, is written with '+', and reads back as another instant", div))
			}
		})
		if zone != nil && n == 0 {
			r.Bad("C14.R4", FuncID(fn), "sign test", p.Pos(fn.Pos()), "UNDECIDED: no comparison of the zone offset with 0 found in DateString")
		}
		if zone == nil {
			r.OK("C14.R4", FuncID(fn), "sign test", p.Pos(fn.Pos()), "the offset is not taken from Time.Zone here (a time layout writes it)", false)
		}
	}
	// R5: the calendar is delegated to package time, or a hand-written leap rule has all three clauses
	rems := map[int64]string{}
	for _, fn := range p.Funcs {
		if p.File(fn.Pos()) != "pkg/pdfcpu/types/date.go" {
			continue
		}
		fn := fn
		eachInstr(fn, func(_ *ssa.BasicBlock, _ int, i ssa.Instruction) {
			if b, ok := i.(*ssa.BinOp); ok && b.Op == token.REM {
				if k, ok := constInt(b.Y); ok && (k == 4 || k == 100 || k == 400) {
					rems[k] = FuncID(fn) + " (" + p.Pos(b.Pos()) + ")"
				}
			}
		})
	}
	switch {
	case len(rems) == 0:
		r.OK("C14.R5", "pkg/pdfcpu/types/date.go", "leap years", "", "no hand-written leap-year arithmetic: month lengths come from package time", true)
	case len(rems) == 3:
		r.OK("C14.R5", "pkg/pdfcpu/types/date.go", "leap years", "", "a hand-written leap rule with the 4, 100 and 400 year clauses", true)
	default:
		var have []string
		for k, w := range rems {
			have = append(have, fmt.Sprintf("%%%d in %s", k, w))
		}
		sort.Strings(have)
		r.Bad("C14.R5", "pkg/pdfcpu/types/date.go", "leap years", "", "a hand-written leap-year rule lacks one of the clauses y%4, y%100, y%400 (found "+strings.Join(have, "; ")+"): 29 February of such a year is written by DateString and rejected (or accepted wrongly) by the strict parser")
	}
}

// ---------------- C14.R6 / R7 (round 4 seeds C14-E, C14-F) ----------------

// variadicByIndex: index -> value stored into the implicit slice of a variadic call.
func variadicByIndex(call *ssa.Call) map[int64]ssa.Value {
	out := map[int64]ssa.Value{}
	args := call.Call.Args
	if len(args) == 0 {
		return out
	}
	sl, ok := args[len(args)-1].(*ssa.Slice)
	if !ok {
		return out
	}
	al, ok := sl.X.(*ssa.Alloc)
	if !ok {
		return out
	}
	for _, rf := range *al.Referrers() {
		ia, ok := rf.(*ssa.IndexAddr)
		if !ok {
			continue
		}
		k, ok := constInt(ia.Index)
		if !ok {
			continue
		}
		for _, rr := range *ia.Referrers() {
			if st, ok := rr.(*ssa.Store); ok && st.Addr == ssa.Value(ia) {
				out[k] = st.Val
			}
		}
	}
	return out
}

func checkC14Round4(c *Ctx) {
	p, r := c.P, c.R
	// R6: the fields of a date are decimal. Every number the functions of date.go parse is parsed in base 10:
	// strconv.Atoi, or ParseInt/ParseUint with the constant base 10. Base 0 reads the zero-padded fields the writer
	// produces ("0123", "08") as octal.
	n := 0
	for _, fn := range p.Funcs {
		if !isSubject(fn) || !strings.HasSuffix(p.File(fn.Pos()), "pkg/pdfcpu/types/date.go") {
			continue
		}
		k := 0
		eachInstr(fn, func(_ *ssa.BasicBlock, _ int, i ssa.Instruction) {
			call, ok := i.(*ssa.Call)
			if !ok {
				return
			}
			_, ref := callRef(call)
			switch ref {
			case "strconv.Atoi":
				k++
				n++
				r.OK("C14.R6", FuncID(fn), fmt.Sprintf("number parse#%d", k), p.Pos(call.Pos()), "strconv.Atoi (decimal)", true)
			case "strconv.ParseInt", "strconv.ParseUint":
				k++
				n++
				if b, ok := constInt(call.Call.Args[1]); ok && b == 10 {
					r.OK("C14.R6", FuncID(fn), fmt.Sprintf("number parse#%d", k), p.Pos(call.Pos()), ref+" with base 10", true)
				} else {
					r.Bad("C14.R6", FuncID(fn), fmt.Sprintf("number parse#%d", k), p.Pos(call.Pos()), ref+" is not called with the constant base 10: with base 0 a zero-padded field is read as octal (year 0123 becomes 83, 0008 is rejected), so dates the writer produces do not read back")
				}
			}
		})
	}
	if n == 0 {
		r.Bad("C14.R6", "pkg/pdfcpu/types/date.go", "anchor", "", "UNRESOLVED-ANCHOR: no strconv number parse in date.go")
	}
	// R7: the six calendar fields DateString formats are what package time says they are: results of
	// t.Year/Month/Day/Hour/Minute/Second or of t.Date()/t.Clock() at the matching position, for the parameter t.
	// Hand-written arithmetic on Unix seconds is not decided (and is wrong before 1970 with Go's truncating %).
	fn := p.Func("pkg/pdfcpu/types.DateString")
	if fn == nil || len(fn.Params) != 1 {
		r.Bad("C14.R7", "pkg/pdfcpu/types.DateString", "anchor", "", "UNRESOLVED-ANCHOR")
		return
	}
	t := fn.Params[0]
	onT := func(call *ssa.Call) bool {
		if len(call.Call.Args) == 0 {
			return false
		}
		for _, l := range valueLeaves(call.Call.Args[0]) {
			if l == ssa.Value(t) {
				return true
			}
			if ld, ok := l.(*ssa.UnOp); ok && ld.Op == token.MUL {
				if al, ok := ld.X.(*ssa.Alloc); ok {
					// the spilled parameter
					for _, rf := range *al.Referrers() {
						if st, ok := rf.(*ssa.Store); ok && st.Val == ssa.Value(t) {
							return true
						}
					}
				}
			}
		}
		return false
	}
	names := []string{"Year", "Month", "Day", "Hour", "Minute", "Second"}
	decided := false
	eachInstr(fn, func(_ *ssa.BasicBlock, _ int, i ssa.Instruction) {
		call, ok := i.(*ssa.Call)
		if !ok {
			return
		}
		if _, ref := callRef(call); ref != "fmt.Sprintf" {
			return
		}
		args := variadicByIndex(call)
		if len(args) < 6 {
			return
		}
		decided = true
		for k := 0; k < 6; k++ {
			v := args[int64(k)]
			for {
				switch x := v.(type) {
				case *ssa.MakeInterface:
					v = x.X
					continue
				case *ssa.Convert:
					v = x.X
					continue
				case *ssa.ChangeType:
					v = x.X
					continue
				}
				break
			}
			construct := "field " + names[k]
			okField := false
			switch x := v.(type) {
			case *ssa.Call:
				_, ref := callRef(x)
				okField = strings.HasSuffix(ref, "time.Time."+names[k]) && onT(x)
			case *ssa.Extract:
				if cl, ok := x.Tuple.(*ssa.Call); ok && onT(cl) {
					_, ref := callRef(cl)
					okField = (strings.HasSuffix(ref, "time.Time.Date") && k < 3 && x.Index == k) || (strings.HasSuffix(ref, "time.Time.Clock") && k >= 3 && x.Index == k-3)
				}
			}
			if okField {
				r.OK("C14.R7", FuncID(fn), construct, p.Pos(call.Pos()), "taken from package time's accessor for the parameter", true)
			} else {
				r.Bad("C14.R7", FuncID(fn), construct, p.Pos(call.Pos()), "UNDECIDED: the "+names[k]+" field of the written date is "+exprName(v)+", not package time's "+names[k]+"() (or Date()/Clock()) of the time being written: hand-written calendar arithmetic is not decided here (seconds-of-day by % on Unix time is negative before 1970)")
			}
		}
	})
	if !decided {
		r.Note("C14.R7: DateString has no Sprintf with six fields (a time layout is decided by R1)")
	}
}
