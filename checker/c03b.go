package main

import (
	"fmt"
	"go/constant"
	"go/token"
	"go/types"
	"sort"
	"strings"

	"golang.org/x/tools/go/ssa"
)

// C03.R5 / C03.R6 (round 3 of seeding): where the result goes is decided by exact identity of the two paths.

// inOutParams: the string parameters named inFile and outFile.
func inOutParams(fn *ssa.Function) (in, out *ssa.Parameter) {
	for _, p := range fn.Params {
		if b, ok := p.Type().Underlying().(*types.Basic); !ok || b.Kind() != types.String {
			continue
		}
		switch p.Name() {
		case "inFile":
			in = p
		case "outFile":
			out = p
		}
	}
	return
}

// c03IdentityFuncs: predicates that decide "same file" exactly.
var c03IdentityFuncs = map[string]bool{
	"pkg/api.outputAliasesInput": true, "pkg/api.outputAliasesInputWith": true, "os.SameFile": true,
}

var c03WholePathFuncs = map[string]bool{
	"path/filepath.Clean": true, "path/filepath.Abs": true, "path/filepath.EvalSymlinks": true, "path/filepath.ToSlash": true,
	"path/filepath.FromSlash": true, "path.Clean": true, "strings.ToLower": true, "strings.ToUpper": true, "strings.TrimSpace": true,
	"strings.ToValidUTF8": true, "golang.org/x/text/unicode/norm.Form.String": true,
}

// derivesStr: v is the parameter or a string computed from it by strings / path / filepath functions.
func derivesStr(v ssa.Value, prm *ssa.Parameter, d int) bool {
	if v == nil || d > 4 {
		return false
	}
	if v == ssa.Value(prm) {
		return true
	}
	switch x := v.(type) {
	case *ssa.Call:
		_, ref := callRef(x)
		// whole-path transformations only: comparing extensions or base names is not an identity decision
		if c03WholePathFuncs[ref] {
			for _, a := range x.Call.Args {
				if derivesStr(a, prm, d+1) {
					return true
				}
			}
		}
	case *ssa.Extract:
		return derivesStr(x.Tuple, prm, d+1)
	case *ssa.Convert:
		return derivesStr(x.X, prm, d+1)
	}
	return false
}

// exactIdentity: cond decides identity of a and b by string (in)equality or a file-identity predicate,
// possibly through a module wrapper whose every result is such a decision.
func exactIdentity(cond ssa.Value, a, b ssa.Value, d int) string {
	if d > 3 {
		return "wrapper depth exceeded"
	}
	switch x := cond.(type) {
	case *ssa.BinOp:
		if (x.Op == token.EQL || x.Op == token.NEQ) && ((x.X == a && x.Y == b) || (x.X == b && x.Y == a)) {
			return ""
		}
		return "compares " + x.X.Name() + " " + x.Op.String() + " " + x.Y.Name()
	case *ssa.UnOp:
		if x.Op == token.NOT {
			return exactIdentity(x.X, a, b, d)
		}
	case *ssa.Extract:
		return exactIdentity(x.Tuple, a, b, d)
	case *ssa.Call:
		_, ref := callRef(x)
		if c03IdentityFuncs[ref] {
			return ""
		}
		callee := staticCallee(x)
		if callee == nil || !isSubject(callee) || len(callee.Blocks) == 0 {
			return "decided by " + ref
		}
		// map the two values to the callee's parameters
		var pa, pb ssa.Value
		for i, arg := range x.Call.Args {
			if i >= len(callee.Params) {
				break
			}
			if arg == a {
				pa = callee.Params[i]
			}
			if arg == b {
				pb = callee.Params[i]
			}
		}
		if pa == nil || pb == nil {
			return "decided by " + ref + " on derived values"
		}
		for _, ret := range returnsOf(callee) {
			if len(ret.Results) == 0 {
				continue
			}
			rv := ret.Results[0]
			if cst, ok := rv.(*ssa.Const); ok && cst.Value != nil && cst.Value.Kind() == constant.Bool {
				continue
			}
			if why := exactIdentity(rv, pa, pb, d+1); why != "" {
				return callee.Name() + ": " + why
			}
		}
		return ""
	case *ssa.Phi:
		for _, e := range x.Edges {
			if _, isConst := e.(*ssa.Const); isConst {
				continue
			}
			if why := exactIdentity(e, a, b, d); why != "" {
				return why
			}
		}
		return ""
	}
	return "decided by " + cond.String()
}

// checkPathIdentityDecisions (C03.R5): in every pkg/api / pkg/cli function with inFile and outFile parameters, a
// branch condition that depends on both decides by exact string (in)equality or by file identity. A looser
// predicate (case folding, cleaning, prefix tests) sends the result of "in.pdf → IN.pdf" to the wrong file.
func checkPathIdentityDecisions(c *Ctx) {
	p, r := c.P, c.R
	n := 0
	for _, fn := range p.Funcs {
		fid := FuncID(fn)
		if !strings.HasPrefix(fid, "pkg/api.") && !strings.HasPrefix(fid, "pkg/cli.") {
			continue
		}
		in, out := inOutParams(fn)
		if in == nil || out == nil {
			continue
		}
		if c03IdentityFuncs[fid] {
			continue
		}
		k := 0
		fn := fn
		eachInstr(fn, func(_ *ssa.BasicBlock, _ int, i ssa.Instruction) {
			v, ok := i.(ssa.Value)
			if !ok {
				return
			}
			if bt, ok := v.Type().Underlying().(*types.Basic); !ok || bt.Kind() != types.Bool {
				return
			}
			var ops []ssa.Value
			switch x := i.(type) {
			case *ssa.BinOp:
				ops = []ssa.Value{x.X, x.Y}
			case *ssa.Call:
				ops = x.Call.Args
			default:
				return
			}
			hasIn, hasOut := false, false
			for _, o := range ops {
				if derivesStr(o, in, 0) {
					hasIn = true
				}
				if derivesStr(o, out, 0) {
					hasOut = true
				}
			}
			if !hasIn || !hasOut {
				return
			}
			k++
			n++
			construct := fmt.Sprintf("in/out decision#%d", k)
			pos := p.Pos(v.Pos())
			if why := exactIdentity(v, in, out, 0); why != "" {
				r.Bad("C03.R5", fid, construct, pos, "whether the output is the input is not decided by exact equality of the two paths or by file identity ("+why+"): two different files whose names the predicate identifies are treated as one, the input is rewritten and the requested output is never produced")
			} else {
				r.OK("C03.R5", fid, construct, pos, "inFile and outFile are compared for exact (in)equality or file identity", true)
			}
		})
	}
	if n == 0 {
		r.Bad("C03.R5", "pkg/api", "anchor", "", "UNRESOLVED-ANCHOR: no in/out decision found")
	}
}

// checkInputWrittenOnlyInPlace (C03.R6): a write-capable open of inFile (os.OpenFile with O_RDWR / O_WRONLY, os.Create)
// is reached only where the operation is in place: outFile == "" or outFile == inFile on every way in.
func checkInputWrittenOnlyInPlace(c *Ctx) {
	p, r := c.P, c.R
	n := 0
	for _, fn := range p.Funcs {
		fid := FuncID(fn)
		if !strings.HasPrefix(fid, "pkg/api.") && !strings.HasPrefix(fid, "pkg/cli.") {
			continue
		}
		in, out := inOutParams(fn)
		if in == nil || out == nil {
			continue
		}
		genE := map[Edge][]string{}
		eachInstr(fn, func(_ *ssa.BasicBlock, _ int, i ssa.Instruction) {
			b, ok := i.(*ssa.BinOp)
			if !ok || (b.Op != token.EQL && b.Op != token.NEQ) {
				return
			}
			same := (b.X == ssa.Value(in) && b.Y == ssa.Value(out)) || (b.X == ssa.Value(out) && b.Y == ssa.Value(in))
			empty := false
			if b.X == ssa.Value(out) {
				if s, ok := constString(b.Y); ok && s == "" {
					empty = true
				}
			}
			if b.Y == ssa.Value(out) {
				if s, ok := constString(b.X); ok && s == "" {
					empty = true
				}
			}
			if !same && !empty {
				return
			}
			for _, e := range condEdges(b, b.Op == token.EQL) {
				genE[e] = append(genE[e], "inplace")
			}
		})
		var ff *FactFlow
		k := 0
		fn := fn
		eachInstr(fn, func(_ *ssa.BasicBlock, _ int, i ssa.Instruction) {
			call, ok := i.(*ssa.Call)
			if !ok {
				return
			}
			_, ref := callRef(call)
			write := false
			switch ref {
			case "os.Create":
				write = len(call.Call.Args) == 1 && call.Call.Args[0] == ssa.Value(in)
			case "os.OpenFile":
				if len(call.Call.Args) == 3 && call.Call.Args[0] == ssa.Value(in) {
					if fl, ok := constInt(call.Call.Args[1]); ok && fl&3 != 0 { // O_WRONLY=1, O_RDWR=2
						write = true
					}
				}
			}
			if !write {
				return
			}
			k++
			n++
			if ff == nil {
				ff = NewFactFlow(fn, nil, genE, nil, nil)
			}
			construct := fmt.Sprintf("write-open of inFile#%d", k)
			if ff.Holds(call, "inplace") {
				r.OK("C03.R6", fid, construct, p.Pos(call.Pos()), "reached only where outFile is empty or equal to inFile", true)
			} else {
				r.Bad("C03.R6", fid, construct, p.Pos(call.Pos()), "the input file is opened for writing on a path where a distinct output file was requested: the input is modified and the output never produced")
			}
		})
	}
	if n == 0 {
		r.Bad("C03.R6", "pkg/api", "anchor", "", "UNRESOLVED-ANCHOR: no write-open of an input path found (the increment writers in pkg/api/annotation.go)")
	}
}

// ---------------- C03.R7 (round 4 seed C03-G and a side observation): no success without output ----------------

// checkStreamOpsWriteOnSuccess: the *File wrappers of pkg/api stage an output file, run the stream operation
// func(rs io.ReadSeeker, w io.Writer, …) error on it and COMMIT the staged file when it returns nil. A stream
// operation that returns nil without having written the document to w therefore publishes an empty file (and an
// in-place call truncates the input). Rule: in every exported function of pkg/api with an io.ReadSeeker and an
// io.Writer parameter and an error result, every return with a nil error is reached only through an instruction
// that hands w on (a call that takes w, or a closure that captures it).
func checkStreamOpsWriteOnSuccess(c *Ctx) {
	p, r := c.P, c.R
	n := 0
	var fns []*ssa.Function
	for _, fn := range p.Funcs {
		if isSubject(fn) && fn.Pkg != nil && fn.Pkg.Pkg.Path() == modPath+"/pkg/api" && fn.Object() != nil && fn.Object().Exported() && fn.Signature.Recv() == nil {
			fns = append(fns, fn)
		}
	}
	sort.Slice(fns, func(i, j int) bool { return FuncID(fns[i]) < FuncID(fns[j]) })
	for _, fn := range fns {
		var rs, w *ssa.Parameter
		for _, q := range fn.Params {
			switch q.Type().String() {
			case "io.ReadSeeker":
				rs = q
			case "io.Writer":
				w = q
			}
		}
		res := fn.Signature.Results()
		if rs == nil || w == nil || res.Len() != 1 || !isErrorType(res.At(0).Type()) {
			continue
		}
		usesW := func(b *ssa.BasicBlock) bool {
			for _, in := range b.Instrs {
				switch x := in.(type) {
				case ssa.CallInstruction:
					for _, a := range x.Common().Args {
						for _, l := range valueLeaves(a) {
							if l == ssa.Value(w) {
								return true
							}
							if mi, ok := l.(*ssa.MakeInterface); ok && mi.X == ssa.Value(w) {
								return true
							}
						}
					}
				case *ssa.MakeClosure:
					for _, bnd := range x.Bindings {
						if bnd == ssa.Value(w) {
							return true
						}
						// the parameter spilled to a cell that the closure captures
						if al, ok := bnd.(*ssa.Alloc); ok {
							for _, rf := range *al.Referrers() {
								if st, ok := rf.(*ssa.Store); ok && st.Val == ssa.Value(w) {
									return true
								}
							}
						}
					}
				}
			}
			return false
		}
		free := map[*ssa.BasicBlock]bool{fn.Blocks[0]: true}
		work := []*ssa.BasicBlock{fn.Blocks[0]}
		for len(work) > 0 {
			b := work[len(work)-1]
			work = work[:len(work)-1]
			if usesW(b) {
				continue
			}
			for _, s := range b.Succs {
				if !free[s] {
					free[s] = true
					work = append(work, s)
				}
			}
		}
		// successful exits: with a deferred fault.Catch the nil is stored into the named result before the exit block
		k := 0
		okFn := true
		var firstBad token.Pos
		for _, b := range fn.Blocks {
			if !free[b] || usesW(b) {
				continue
			}
			for _, in := range b.Instrs {
				switch x := in.(type) {
				case *ssa.Store:
					if al, ok := x.Addr.(*ssa.Alloc); ok && isErrorType(al.Type().(*types.Pointer).Elem()) && isNilConst(x.Val) {
						k++
						okFn = false
						if firstBad == token.NoPos {
							firstBad = x.Pos()
						}
					}
				case *ssa.Return:
					if kind, ok := returnErrKind(x); ok && kind == errNil {
						if _, spilled := x.Results[0].(*ssa.UnOp); !spilled {
							k++
							okFn = false
							if firstBad == token.NoPos {
								firstBad = x.Pos()
							}
						}
					}
				}
			}
		}
		n++
		switch {
		case okFn:
			r.OK("C03.R7", FuncID(fn), "no success without output", p.Pos(fn.Pos()), "every nil-error exit is reached through an instruction that hands the writer on", true)
		case c03NoOutputOnSuccess[FuncID(fn)] != "":
			r.OK("C03.R7", FuncID(fn), "no success without output", p.Pos(firstBad), "table: "+c03NoOutputOnSuccess[FuncID(fn)], false)
		default:
			r.Bad("C03.R7", FuncID(fn), "no success without output", p.Pos(firstBad), fmt.Sprintf("the operation can return nil without having handed its writer to anything (%d such exits): the *File wrapper commits the staged output on nil, so the published file is empty — and an in-place call replaces the input with an empty file", k))
		}
	}
	if n == 0 {
		r.Bad("C03.R7", "pkg/api", "anchor", "", "UNRESOLVED-ANCHOR: no stream operations func(rs, w, …) error found")
	}
}

// c03NoOutputOnSuccess: stream operations whose nil return without output is not published by a *File wrapper.
var c03NoOutputOnSuccess = map[string]string{}
