package main

import (
	"fmt"
	"go/token"
	"sort"
	"strings"

	"golang.org/x/tools/go/ssa"
)

// A small symbolic normal form for integer SSA expressions: polynomials over atoms with integer coefficients.
// Atoms are parameters, floor divisions of a polynomial by a constant (x/c, x>>k) and opaque values. Two
// expressions with the same normal form compute the same function (overflow aside); nothing is evaluated.
// Calls of the module's checked arithmetic helpers (safemath.AddInt/MultiplyInt/…, result #0) are the operation.

type poly map[string]int64 // monomial (atoms sorted, joined by '*'; "" = constant term) -> coefficient

func polyConst(k int64) poly {
	if k == 0 {
		return poly{}
	}
	return poly{"": k}
}
func polyAtom(a string) poly { return poly{a: 1} }

func (a poly) add(b poly, sign int64) poly {
	out := poly{}
	for m, c := range a {
		out[m] += c
	}
	for m, c := range b {
		out[m] += sign * c
	}
	for m, c := range out {
		if c == 0 {
			delete(out, m)
		}
	}
	return out
}

func (a poly) mul(b poly) poly {
	out := poly{}
	for m1, c1 := range a {
		for m2, c2 := range b {
			var atoms []string
			if m1 != "" {
				atoms = append(atoms, strings.Split(m1, "*")...)
			}
			if m2 != "" {
				atoms = append(atoms, strings.Split(m2, "*")...)
			}
			sort.Strings(atoms)
			out[strings.Join(atoms, "*")] += c1 * c2
		}
	}
	for m, c := range out {
		if c == 0 {
			delete(out, m)
		}
	}
	return out
}

func (a poly) String() string {
	var ms []string
	for m := range a {
		ms = append(ms, m)
	}
	sort.Strings(ms)
	var parts []string
	for _, m := range ms {
		switch {
		case m == "":
			parts = append(parts, fmt.Sprint(a[m]))
		case a[m] == 1:
			parts = append(parts, m)
		default:
			parts = append(parts, fmt.Sprintf("%d*%s", a[m], m))
		}
	}
	if len(parts) == 0 {
		return "0"
	}
	return strings.Join(parts, " + ")
}

// polyOf normalises v. ok=false when v contains a φ whose edges differ or an operation outside the fragment.
func polyOf(v ssa.Value, d int) (poly, bool) {
	if d > 12 {
		return nil, false
	}
	switch x := v.(type) {
	case *ssa.Const:
		if k, ok := c31ConstInt(x); ok {
			return polyConst(k), true
		}
	case *ssa.Parameter:
		return polyAtom(x.Name()), true
	case *ssa.Convert:
		return polyOf(x.X, d+1)
	case *ssa.ChangeType:
		return polyOf(x.X, d+1)
	case *ssa.Phi:
		var first poly
		for i, e := range x.Edges {
			pe, ok := polyOf(e, d+1)
			if !ok {
				return nil, false
			}
			if i == 0 {
				first = pe
			} else if pe.String() != first.String() {
				return nil, false
			}
		}
		return first, first != nil
	case *ssa.BinOp:
		a, ok1 := polyOf(x.X, d+1)
		b, ok2 := polyOf(x.Y, d+1)
		if !ok1 || !ok2 {
			return nil, false
		}
		switch x.Op {
		case token.ADD:
			return a.add(b, 1), true
		case token.SUB:
			return a.add(b, -1), true
		case token.MUL:
			return a.mul(b), true
		case token.QUO:
			if len(b) == 1 && b[""] > 0 {
				return polyAtom(fmt.Sprintf("floor((%s)/%d)", a, b[""])), true
			}
		case token.SHR:
			if len(b) == 1 && b[""] > 0 && b[""] < 62 {
				return polyAtom(fmt.Sprintf("floor((%s)/%d)", a, int64(1)<<uint(b[""]))), true
			}
		case token.SHL:
			if len(b) == 1 && b[""] > 0 && b[""] < 62 {
				return a.mul(polyConst(int64(1) << uint(b[""]))), true
			}
		}
	case *ssa.Extract:
		if call, ok := x.Tuple.(*ssa.Call); ok && x.Index == 0 {
			callee := staticCallee(call)
			if callee != nil && callee.Pkg != nil && strings.HasSuffix(callee.Pkg.Pkg.Path(), "/safemath") && len(call.Call.Args) == 2 {
				a, ok1 := polyOf(call.Call.Args[0], d+1)
				b, ok2 := polyOf(call.Call.Args[1], d+1)
				if ok1 && ok2 {
					n := callee.Name()
					switch {
					case strings.HasPrefix(n, "Add"):
						return a.add(b, 1), true
					case strings.HasPrefix(n, "Sub"):
						return a.add(b, -1), true
					case strings.HasPrefix(n, "Multiply"):
						return a.mul(b), true
					}
				}
			}
		}
	}
	return nil, false
}
