package main

import (
	"go/constant"
	"fmt"
	"go/token"
	"strings"

	"golang.org/x/tools/go/ssa"
)

// C18 — every written PDF has an exact, self-consistent file structure (partial).

func init() {
	register(&Check{
		ID:  "C18",
		Run: runC18,
		Explanation: "Decides bookkeeping clauses of the writer whose breakage makes cross-reference offsets, /Length or the free list wrong: (R1 COUNT) in the object writers (writeObjectHeader, writeObjectTrailer, writeObject, writeStream, writeStreamObject, writeStreamDictObject, writeCommentLine/writeHeader) the byte count returned by every primitive write to the WriteContext (WriteString, Write, fmt.Fprintf(w,…)) flows — through +, conversions, phis and returned counts summed by the caller — into the function's returned count or into the store `Offset += …`; where the count is discarded, the same string's len() is part of the caller's offset sum (writeStreamObject/pdfString); WriteContext.WriteEol returns no count: a counting writer that uses it must add len(w.Eol) (1 or 2 bytes) to its count; (R2 snapshot) in writeObject and writeStreamDictObject SetWriteOffset(objNr) is executed before the first primitive write and the Offset update comes after the last one; (R3 length pairing) wherever a freshly computed length is stored into StreamDict.StreamLength (address of a local) every path to the function's return also updates the dictionary's /Length entry (Update/Insert/map store with key \"Length\"), so the serialised /Length and the byte count cannot diverge; writeStream compares the bytes written with *sd.StreamLength; (R4 free list) in EnsureValidFreeList every success return after validateFreeList re-links the last valid entry (`*lastValid.Offset = nextFree`, or lastValid == nil) — an early return placed before the re-link leaves a stale link to an in-use object; pdfcpu.WriteContext writes header → objects → xref → trailer in that order on every success path. (R5) XRefTable.FreeObject increments the entry's generation on the way to Free = true, and XRefTable.UndeleteObject takes that increment back on the way to Free = false (the two are checked as a pair: dropping one of them makes header and xref entry of a revived object disagree). NOT decided: numeric exactness of /Size, /W, /Index, EOL variants, object-stream index arithmetic.",
		Rules: []string{
			"C18.R1 COUNT: written byte counts reach the offset bookkeeping",
			"C18.R2 MPT: offset snapshot before the first write of an object",
			"C18.R3 pairing: StreamLength and /Length updated together",
			"C18.R4 MPT: free-list re-link before success; section order of WriteContext",
			"C18.R5 siblings: FreeObject's generation bump is taken back by UndeleteObject",
			"C18.R6 cut: the trailer Size read from the input is repaired on both sides of MaxObjNr+1",
			"C18.R7 TABLE: the fields of a cross-reference stream row by entry type come from the entry fields ISO 32000 7.5.8.3 names",
		},
		Assumptions: []string{"bufio.Writer reports the bytes it accepted"},
		Technique:   "value-flow accounting (forward slice of write counts to Offset stores / returned counts); must-pass-through dataflow; store pairing typestate",
		Note:        "Partial: bookkeeping shape only.",
	})
}

var c18Writers = []string{
	"pkg/pdfcpu.writeObjectHeader", "pkg/pdfcpu.writeObjectTrailer", "pkg/pdfcpu.writeObject", "pkg/pdfcpu.writeStream",
	"pkg/pdfcpu.writeStreamObject", "pkg/pdfcpu.writeStreamDictObject", "pkg/pdfcpu.writeCommentLine", "pkg/pdfcpu.writeHeader",
}

func isWriteContext(v ssa.Value) bool {
	return v != nil && strings.HasSuffix(strings.TrimPrefix(v.Type().String(), "*"), "model.WriteContext")
}

// primitiveWrite: call writes bytes to a WriteContext and returns (int, error)
func primitiveWrite(call *ssa.Call) bool {
	_, ref := callRef(call)
	args := call.Call.Args
	switch {
	case strings.HasPrefix(ref, "bufio.Writer.Write"):
		return true
	case ref == "fmt.Fprintf" || ref == "fmt.Fprint" || ref == "fmt.Fprintln":
		if len(args) > 0 {
			if mi, ok := args[0].(*ssa.MakeInterface); ok && isWriteContext(mi.X) {
				return true
			}
		}
	}
	return false
}

// countReaches: the int count value v flows into a Return of its function or a store to a field named Offset.
func countReaches(v ssa.Value, depth int, seen map[ssa.Value]bool) bool {
	if v == nil || depth > 10 || seen[v] {
		return false
	}
	seen[v] = true
	refs := v.Referrers()
	if refs == nil {
		return false
	}
	for _, rf := range *refs {
		switch x := rf.(type) {
		case *ssa.Return:
			return true
		case *ssa.Store:
			if x.Val == v {
				if strings.HasSuffix(fieldPath(x.Addr), "Offset") {
					return true
				}
				// local cell: loads of it
				if al, ok := x.Addr.(*ssa.Alloc); ok {
					for _, cr := range *al.Referrers() {
						if ld, ok := cr.(*ssa.UnOp); ok && ld.Op == token.MUL {
							if countReaches(ld, depth+1, seen) {
								return true
							}
						}
					}
				}
			}
		case *ssa.BinOp:
			if (x.Op == token.ADD || x.Op == token.MUL) && countReaches(x, depth+1, seen) {
				return true
			}
		case *ssa.Convert:
			if countReaches(x, depth+1, seen) {
				return true
			}
		case *ssa.Phi:
			if countReaches(x, depth+1, seen) {
				return true
			}
		case *ssa.Extract:
			if countReaches(x, depth+1, seen) {
				return true
			}
		}
	}
	return false
}

func runC18(c *Ctx) {
	p, r := c.P, c.R
	r.MinInst["C18.R1"] = 8
	r.MinInst["C18.R2"] = 2
	r.MinInst["C18.R3"] = 3
	r.MinInst["C18.R4"] = 3
	r.MinInst["C18.R5"] = 1
	checkFreeReviveInverse(c)
	r.MinInst["C18.R6"] = 1
	checkTrailerSizeRepair(c)
	r.MinInst["C18.R7"] = 3
	checkXRefStreamRows(c)
	// ---- R1
	for _, fid := range c18Writers {
		fn := p.Func(fid)
		if fn == nil {
			r.Bad("C18.R1", fid, "anchor", "", "UNRESOLVED-ANCHOR: writer not found")
			continue
		}
		k := 0
		eachInstr(fn, func(_ *ssa.BasicBlock, _ int, i ssa.Instruction) {
			call, ok := i.(*ssa.Call)
			if !ok {
				return
			}
			// a write helper that returns no byte count (WriteContext.WriteEol): its bytes must be added as len(w.Eol)
			if _, ref := callRef(call); ref == "pkg/pdfcpu/model.WriteContext.WriteEol" {
				k++
				construct := fmt.Sprintf("WriteEol#%d count", k)
				added := false
				eachInstr(fn, func(_ *ssa.BasicBlock, _ int, j ssa.Instruction) {
					lc, ok := j.(*ssa.Call)
					if !ok {
						return
					}
					if b, ok := lc.Call.Value.(*ssa.Builtin); ok && b.Name() == "len" && strings.HasSuffix(fieldPath(lc.Call.Args[0]), "Eol") {
						if countReaches(lc, 0, map[ssa.Value]bool{}) {
							added = true
						}
					}
				})
				if added {
					r.OK("C18.R1", fid, construct, p.Pos(call.Pos()), "WriteEol returns no count; len(w.Eol) is added to the function's count", true)
				} else {
					r.Bad("C18.R1", fid, construct, p.Pos(call.Pos()), "WriteEol writes len(w.Eol) bytes (1 or 2) but returns no count, and this counting writer does not add len(w.Eol): with CRLF line ends every later xref offset drifts")
				}
				return
			}
			isPrim := primitiveWrite(call)
			isSub := false
			if g := staticCallee(call); g != nil && inSet(FuncID(g), c18Writers) {
				isSub = true
			}
			if !isPrim && !isSub {
				return
			}
			k++
			construct := fmt.Sprintf("%s#%d count", instrLabel(call), k)
			// the count components: every int/int64-typed result
			okAll, n := true, 0
			for _, rf := range *call.Referrers() {
				ex, isEx := rf.(*ssa.Extract)
				if !isEx {
					continue
				}
				if isErrorType(ex.Type()) {
					continue
				}
				n++
				if !countReaches(ex, 0, map[ssa.Value]bool{}) && !comparedWithCounted(ex) {
					okAll = false
				}
			}
			if call.Referrers() != nil {
				for _, rf := range *call.Referrers() {
					if _, isRet := rf.(*ssa.Return); isRet {
						n++ // tail call: `return w.WriteString(...)`
					}
				}
			}
			if n > 0 && okAll {
				r.OK("C18.R1", fid, construct, p.Pos(call.Pos()), "the byte count flows into the returned count or into Offset", true)
				return
			}
			// discarded count: accepted when the written value is a string parameter whose len() the caller adds (checked at the caller)
			if isPrim && len(call.Call.Args) >= 2 {
				if prm, isPrm := call.Call.Args[1].(*ssa.Parameter); isPrm && callerAddsLen(c, fn, prm) {
					r.OK("C18.R1", fid, construct, p.Pos(call.Pos()), "count discarded here, but every caller adds len("+prm.Name()+") to its offset sum", true)
					return
				}
			}
			r.Bad("C18.R1", fid, construct, p.Pos(call.Pos()), "bytes are written to the output but their count does not reach the offset bookkeeping (neither the returned count nor `Offset +=`): every later object's cross-reference offset would be too small")
		})
		if k == 0 {
			r.Bad("C18.R1", fid, "anchor:writes", p.Pos(fn.Pos()), "UNRESOLVED-ANCHOR: no primitive write found in writer")
		}
	}
	// ---- R2
	for _, fid := range []string{"pkg/pdfcpu.writeObject", "pkg/pdfcpu.writeStreamDictObject"} {
		fn := p.Func(fid)
		if fn == nil {
			continue
		}
		isWrite := func(i ssa.Instruction) bool {
			call, ok := i.(*ssa.Call)
			if !ok {
				return false
			}
			if primitiveWrite(call) {
				return true
			}
			g := staticCallee(call)
			return g != nil && inSet(FuncID(g), c18Writers)
		}
		runFlowRuleOn(c, FlowRule{
			ID:   "C18.R2",
			Gen:  []GenSpec{{Fact: "offset-recorded", On: Pred{Calls: []string{"pkg/pdfcpu/model.WriteContext.SetWriteOffset"}}, Always: true}},
			Need: []NeedSpec{{Fact: "offset-recorded", At: Pred{Where: isWrite, Desc: "write"}, Why: "object bytes are written before the object's offset was recorded with SetWriteOffset: the xref entry would point past the object header"}},
		}, fn)
		// Offset update after the last write: no write may follow the Offset store
		bad := false
		eachInstr(fn, func(_ *ssa.BasicBlock, _ int, i ssa.Instruction) {
			st, ok := i.(*ssa.Store)
			if !ok || !strings.HasSuffix(fieldPath(st.Addr), "Offset") || strings.Contains(fieldPath(st.Addr), "StreamOffset") {
				return
			}
			for _, after := range instrsAfter(st) {
				if isWrite(after) {
					bad = true
				}
			}
		})
		if bad {
			r.Bad("C18.R2", fid, "offset-after-writes", p.Pos(fn.Pos()), "bytes are written after the Offset update of this object: they are not accounted for")
		} else {
			r.OK("C18.R2", fid, "offset-after-writes", p.Pos(fn.Pos()), "no write follows the Offset update", true)
		}
	}
	// ---- R3 pairing
	n3 := 0
	for _, fn := range p.Funcs {
		fid := FuncID(fn)
		if !strings.HasPrefix(fid, "pkg/pdfcpu") {
			continue
		}
		fn := fn
		var stores []*ssa.Store
		eachInstr(fn, func(_ *ssa.BasicBlock, _ int, i ssa.Instruction) {
			st, ok := i.(*ssa.Store)
			if !ok || !strings.HasSuffix(fieldPath(st.Addr), "StreamLength") {
				return
			}
			if _, isLocal := st.Val.(*ssa.Alloc); isLocal {
				stores = append(stores, st)
			}
		})
		if len(stores) == 0 {
			continue
		}
		isLenUpdate := func(i ssa.Instruction) bool {
			switch x := i.(type) {
			case *ssa.MapUpdate:
				if s, ok := constString(unwrapConst(x.Key)); ok && s == "Length" {
					return true
				}
			case *ssa.Call:
				_, ref := callRef(x)
				if strings.HasSuffix(ref, "Dict.Update") || strings.HasSuffix(ref, "Dict.Insert") || strings.HasSuffix(ref, "Dict.InsertInt") {
					for _, a := range x.Call.Args {
						if s, ok := constString(a); ok && s == "Length" {
							return true
						}
					}
				}
			}
			return false
		}
		storeSet := map[ssa.Instruction]bool{}
		for _, s := range stores {
			storeSet[s] = true
		}
		ff := NewFactFlow(fn, func(i ssa.Instruction) []string {
			if isLenUpdate(i) {
				return []string{"length-synced"}
			}
			return nil
		}, nil, func(i ssa.Instruction) []string {
			if storeSet[i] {
				return []string{"length-synced"}
			}
			return nil
		}, []string{"length-synced"})
		bad := false
		for _, ret := range returnsOf(fn) {
			if k, has := returnErrKind(ret); has && k == errNonNil {
				continue
			}
			if !ff.Holds(ret, "length-synced") {
				bad = true
			}
		}
		n3++
		if bad {
			r.Bad("C18.R3", fid, "StreamLength/Length", p.Pos(stores[0].Pos()), "a freshly computed stream length is stored into sd.StreamLength on a path that does not also update the dictionary's /Length entry before returning: the written /Length (or its absence) would disagree with the stream's byte count")
		} else {
			r.OK("C18.R3", fid, "StreamLength/Length", p.Pos(stores[0].Pos()), "every path from a StreamLength store to a success return also updates /Length", true)
		}
	}
	if n3 == 0 {
		r.Bad("C18.R3", "pkg/pdfcpu", "anchor", "", "UNRESOLVED-ANCHOR: no StreamLength store found")
	}
	// writeStream compares written bytes with StreamLength
	if fn := p.Func("pkg/pdfcpu.writeStream"); fn != nil {
		cmp := false
		eachInstr(fn, func(_ *ssa.BasicBlock, _ int, i ssa.Instruction) {
			if b, ok := i.(*ssa.BinOp); ok && b.Op == token.NEQ {
				if strings.HasSuffix(fieldPath(b.Y), "StreamLength") || strings.HasSuffix(fieldPath(b.X), "StreamLength") {
					cmp = true
				}
			}
		})
		if cmp {
			r.OK("C18.R3", FuncID(fn), "written==StreamLength", p.Pos(fn.Pos()), "bytes written are compared with *sd.StreamLength", true)
		} else {
			r.Bad("C18.R3", FuncID(fn), "written==StreamLength", p.Pos(fn.Pos()), "writeStream no longer checks that the bytes written equal *sd.StreamLength")
		}
	} else {
		r.Bad("C18.R3", "pkg/pdfcpu.writeStream", "anchor", "", "UNRESOLVED-ANCHOR: function not found")
	}
	// ---- R4
	if fn := p.Func("pkg/pdfcpu/model.(*XRefTable).EnsureValidFreeList"); fn == nil {
		r.Bad("C18.R4", "pkg/pdfcpu/model.(*XRefTable).EnsureValidFreeList", "anchor", "", "UNRESOLVED-ANCHOR")
	} else {
		var vcall *ssa.Call
		eachInstr(fn, func(_ *ssa.BasicBlock, _ int, i ssa.Instruction) {
			if call, ok := i.(*ssa.Call); ok {
				if _, ref := callRef(call); strings.HasSuffix(ref, "XRefTable.validateFreeList") {
					vcall = call
				}
			}
		})
		if vcall == nil {
			r.Bad("C18.R4", FuncID(fn), "anchor:validateFreeList", p.Pos(fn.Pos()), "UNRESOLVED-ANCHOR")
		} else {
			var lastValid ssa.Value
			for _, rf := range *vcall.Referrers() {
				if ex, ok := rf.(*ssa.Extract); ok && ex.Index == 0 {
					lastValid = ex
				}
			}
			genE := map[Edge][]string{}
			if lastValid != nil {
				for _, al := range wideAliases(lastValid) {
					for _, e := range nilCheckEdges(al, true) {
						genE[e] = append(genE[e], "relinked")
					}
				}
			}
			ff := NewFactFlow(fn, func(i ssa.Instruction) []string {
				if st, ok := i.(*ssa.Store); ok {
					if ld, ok := st.Addr.(*ssa.UnOp); ok && strings.HasSuffix(fieldPath(ld.X), "Offset") {
						if fa, ok := ld.X.(*ssa.FieldAddr); ok && lastValid != nil && (fa.X == lastValid || sameValue(fa.X, lastValid)) {
							return []string{"relinked"}
						}
					}
				}
				return nil
			}, genE, func(i ssa.Instruction) []string {
				if i == ssa.Instruction(vcall) {
					return []string{"relinked"}
				}
				return nil
			}, []string{"relinked"})
			bad := false
			for _, ret := range returnsOf(fn) {
				if k, has := returnErrKind(ret); has && k == errNonNil {
					continue
				}
				if !ff.Holds(ret, "relinked") {
					bad = true
					r.Bad("C18.R4", FuncID(fn), "relink-before-return", posOrFn(p, ret, fn), "EnsureValidFreeList can report success after walking the free chain without re-linking the last valid entry to the computed next free object: a stale link to an in-use object stays in the written free list")
				}
			}
			if !bad {
				r.OK("C18.R4", FuncID(fn), "relink-before-return", p.Pos(fn.Pos()), "every success return after validateFreeList has executed `*lastValid.Offset = nextFree` (or lastValid == nil)", true)
			}
		}
	}
	RunFlowRule(c, FlowRule{
		ID:   "C18.R4",
		Func: "pkg/pdfcpu.WriteContext",
		Gen: []GenSpec{
			{Fact: "header", On: Pred{Calls: []string{"pkg/pdfcpu.writeHeader"}}},
			{Fact: "objects", On: Pred{Calls: []string{"pkg/pdfcpu.writeObjects"}}},
			{Fact: "xref", On: Pred{Calls: []string{"pkg/pdfcpu.writeXRef"}}},
			{Fact: "trailer", On: Pred{Calls: []string{"pkg/pdfcpu.writeTrailer"}}},
		},
		Need: []NeedSpec{
			{Fact: "header", At: Pred{Calls: []string{"pkg/pdfcpu.writeObjects"}}, Why: "objects are written before the header"},
			{Fact: "objects", At: Pred{Calls: []string{"pkg/pdfcpu.writeXRef"}}, Why: "the cross-reference section is written before all objects have been written (their offsets are not known yet)"},
			{Fact: "xref", At: Pred{Calls: []string{"pkg/pdfcpu.writeTrailer"}}, Why: "the trailer is written before the cross-reference section"},
			{Fact: "trailer", At: Pred{NilReturn: true, BodyVerdict: true}, Why: "WriteContext reports success without having written the trailer"},
		},
		Min: 4,
	})
}

// comparedWithCounted: the count is compared for (in)equality with another value that itself reaches the offset bookkeeping
// (writeStream: `if int64(c) != *sd.StreamLength { return error }` and the sum uses *sd.StreamLength).
func comparedWithCounted(v ssa.Value) bool {
	var vals []ssa.Value
	vals = append(vals, v)
	for _, rf := range *v.Referrers() {
		if cv, ok := rf.(*ssa.Convert); ok {
			vals = append(vals, cv)
		}
	}
	for _, x := range vals {
		for _, rf := range *x.Referrers() {
			b, ok := rf.(*ssa.BinOp)
			if !ok || (b.Op != token.NEQ && b.Op != token.EQL) {
				continue
			}
			other := b.X
			if other == x {
				other = b.Y
			}
			// the same memory location is loaded again for the sum: compare by field path
			fp := fieldPath(other)
			if fp == "" {
				continue
			}
			fn := b.Parent()
			hit := false
			eachInstr(fn, func(_ *ssa.BasicBlock, _ int, i ssa.Instruction) {
				if ld, ok := i.(*ssa.UnOp); ok && ld.Op == token.MUL && fieldPath(ld) == fp && ld != other {
					if countReaches(ld, 0, map[ssa.Value]bool{}) {
						hit = true
					}
				}
			})
			if hit || countReaches(other, 0, map[ssa.Value]bool{}) {
				return true
			}
		}
	}
	return false
}

// callerAddsLen: every caller of fn passes for parameter prm a value whose len() takes part in an addition that reaches an Offset store.
func callerAddsLen(c *Ctx, fn *ssa.Function, prm *ssa.Parameter) bool {
	idx := -1
	for i, q := range fn.Params {
		if q == prm {
			idx = i
		}
	}
	callers := 0
	ok := true
	for _, caller := range c.CG().In[fn] {
		eachInstr(caller, func(_ *ssa.BasicBlock, _ int, i ssa.Instruction) {
			call, isCall := i.(*ssa.Call)
			if !isCall || staticCallee(call) != fn {
				return
			}
			callers++
			arg := call.Call.Args[idx]
			found := false
			eachInstr(caller, func(_ *ssa.BasicBlock, _ int, j ssa.Instruction) {
				lc, isCall := j.(*ssa.Call)
				if !isCall {
					return
				}
				if bi, isB := lc.Call.Value.(*ssa.Builtin); isB && bi.Name() == "len" && (lc.Call.Args[0] == arg || sameValue(lc.Call.Args[0], arg)) {
					if countReaches(lc, 0, map[ssa.Value]bool{}) {
						found = true
					}
				}
			})
			if !found {
				ok = false
			}
		})
	}
	return callers > 0 && ok
}

// ---------------- C18.R5 (round 3 of seeding): freeing and reviving an object are inverse on the generation ----------------

// generationStep: +1 / -1 if fn stores (*entry.Generation ± 1) back through the entry's Generation pointer; also the
// blocks of those stores.
func generationSteps(fn *ssa.Function) (plus, minus []*ssa.Store) {
	eachInstr(fn, func(_ *ssa.BasicBlock, _ int, i ssa.Instruction) {
		st, ok := i.(*ssa.Store)
		if !ok {
			return
		}
		if !strings.HasSuffix(fieldPath(st.Addr), "Generation") {
			return
		}
		b, ok := st.Val.(*ssa.BinOp)
		if !ok {
			return
		}
		k, isC := constInt(b.Y)
		if !isC || k != 1 {
			return
		}
		if !strings.HasSuffix(fieldPath(b.X), "Generation") {
			return
		}
		switch b.Op {
		case token.ADD:
			plus = append(plus, st)
		case token.SUB:
			minus = append(minus, st)
		}
	})
	return
}

func freeFlagStores(fn *ssa.Function, want bool) []*ssa.Store {
	var out []*ssa.Store
	eachInstr(fn, func(_ *ssa.BasicBlock, _ int, i ssa.Instruction) {
		st, ok := i.(*ssa.Store)
		if !ok {
			return
		}
		fa, ok := st.Addr.(*ssa.FieldAddr)
		if !ok {
			return
		}
		if f := structField(fa.X.Type(), fa.Field); f == nil || f.Name() != "Free" {
			return
		}
		if c, ok := st.Val.(*ssa.Const); ok && c.Value != nil && c.Value.Kind() == constant.Bool && constant.BoolVal(c.Value) == want {
			out = append(out, st)
		}
	})
	return out
}

// checkFreeReviveInverse: XRefTable.FreeObject bumps the entry's generation when it marks it free (7.5.4: the next
// object to reuse the number gets the next generation). XRefTable.UndeleteObject takes an entry back out of the free list
// because the document still refers to it — by the OLD generation. As long as the freeing side bumps, the reviving side
// has to take the bump back before it clears Free, or the written header `n g obj` and the xref entry disagree.
func checkFreeReviveInverse(c *Ctx) {
	p, r := c.P, c.R
	free := p.Func("pkg/pdfcpu/model.(*XRefTable).FreeObject")
	revive := p.Func("pkg/pdfcpu/model.(*XRefTable).UndeleteObject")
	if free == nil || revive == nil {
		r.Bad("C18.R5", "pkg/pdfcpu/model.(*XRefTable).UndeleteObject", "anchor", "", "UNRESOLVED-ANCHOR: FreeObject / UndeleteObject not found")
		return
	}
	fPlus, _ := generationSteps(free)
	_, rMinus := generationSteps(revive)
	setFree := freeFlagStores(free, true)
	clrFree := freeFlagStores(revive, false)
	if len(setFree) == 0 || len(clrFree) == 0 {
		r.Bad("C18.R5", FuncID(revive), "free flag", p.Pos(revive.Pos()), "UNRESOLVED-ANCHOR: the stores entry.Free = true (FreeObject) / entry.Free = false (UndeleteObject) were not found")
		return
	}
	bumps := len(fPlus) > 0
	undone := false
	for _, m := range rMinus {
		for _, cl := range clrFree {
			if m.Block() == cl.Block() || reachableBlocks(m.Block())[cl.Block()] {
				undone = true
			}
		}
	}
	switch {
	case bumps && !undone:
		r.Bad("C18.R5", FuncID(revive), "generation", p.Pos(clrFree[0].Pos()), "FreeObject increments the entry's generation when it frees an object, but UndeleteObject clears Free without taking that increment back: the revived object is written as `n g obj` with the generation the document refers to while its xref entry carries g+1, so the entry no longer locates the object")
	case !bumps && len(rMinus) > 0:
		r.Bad("C18.R5", FuncID(free), "generation", p.Pos(setFree[0].Pos()), "UndeleteObject decrements the generation but FreeObject no longer increments it: a revived entry ends up one generation too low")
	default:
		r.OK("C18.R5", FuncID(revive), "generation", p.Pos(clrFree[0].Pos()), "FreeObject: generation+1 with Free = true; UndeleteObject: generation-1 (when > 0) on the way to Free = false", true)
	}
}
