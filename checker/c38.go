package main

import (
	"fmt"
	"go/constant"
	"go/token"
	"go/types"
	"sort"
	"strings"

	"golang.org/x/tools/go/ssa"
)

// C38 (one clause): the marked-content wrapper the watermark writer emits is the one the remover and the detector
// search for. The property as a whole (page content equal to the original after add+remove) is behavioural; what is
// visible in the code is a writer/reader agreement on a handful of string constants, and a disagreement is
// invisible to any test that only adds, or only removes: detection says "no watermarks", removal leaves them.

func init() {
	register(&Check{
		ID:  "C38",
		Run: runC38,
		Explanation: "Decides ONE structural clause of 'after adding watermarks and removing them no watermark remains, and detection reports a watermark exactly on documents that have one': the writer and the two readers of the watermark wrapper agree on its text. " +
			"(R1 marker) the content the writer emits for a watermark comes from one format constant (pkg/pdfcpu.wmContent) that opens a marked-content sequence; every string constant in pkg/pdfcpu that a function searches content for with strings.Index / bytes.Index / Contains and that starts the same way ('/Artifact') is a substring of that format, and both removeArtifacts and detectArtifacts have one. " +
			"(R2 terminator) the constant removeArtifacts searches for the end of the sequence occurs in the format after the marker, and the number of bytes it cuts beyond the found position equals that constant's length (a shorter cut leaves operator bytes behind, a longer one eats page content). " +
			"(R3 resources) the operators by which removeArtifacts finds the resources to release (' gs', ' Do') are the operators the format applies to its two resource names, and the name prefixes it looks for and rebuilds ('/GS' → \"GS\"…, '/Fm' → \"Fm\"…) are the prefixes updatePageWatermarkResource is called with. " +
			"(R4 siblings) for /Contents arrays the remover and the detector index the same set of positions, containing 0 and len-1 (where the writer puts watermarks and stamps). " +
			"(R5) in removeArtifactsFromContentArray the call for the last element is not control-dependent on the found-result of the call for the first; (R6) in addPageWatermarkResources every successful return is preceded by an update of the page dictionary's Resources entry. " +
			"NOT decided: that the page content after removal equals the original (value-level), watermarks of other producers, rotated pages, which content stream of a page is inspected, the form/ExtGState objects themselves.",
		Rules: []string{
			"C38.R1 TABLE: the readers' marker constants are substrings of the writer's format",
			"C38.R2 TABLE: the end-of-sequence constant is in the format and the cut equals its length",
			"C38.R3 TABLE: resource operators and name prefixes agree between writer and remover",
			"C38.R5 independence: the remover inspects the last content stream whatever it found in the first",
			"C38.R6 MPT: the writer leaves each watermarked page with a /Resources entry of its own (the remover requires one)",
			"C38.R7 TABLE: the end of the watermark's sequence is the first end operator after the marker (Index, not LastIndex)",
			"C38.R8 shape: the detection walk leaves the loop over a page tree node's kids on ctx.Watermarked (the per-page detector assigns the field for every page)",
			"C38.R4 siblings: remover and detector inspect the same positions of a /Contents array, the first and the last among them",
		},
		Assumptions: []string{"watermark content is produced by wmContent's format constant only"},
		Level:       "other",
		Technique:   "writer/reader constant table agreement on SSA string constants and one slice-offset constant",
		Note:        "Partial: wrapper text agreement only.",
	})
}

// searchConstants: string constants handed as the needle to strings.Index/Contains/bytes.Index… in fn.
func searchConstants(fn *ssa.Function) []struct {
	s   string
	pos token.Pos
} {
	var out []struct {
		s   string
		pos token.Pos
	}
	eachInstr(fn, func(_ *ssa.BasicBlock, _ int, i ssa.Instruction) {
		call, ok := i.(*ssa.Call)
		if !ok {
			return
		}
		_, ref := callRef(call)
		switch ref {
		case "strings.Index", "strings.Contains", "strings.LastIndex", "bytes.Index", "bytes.Contains", "bytes.LastIndex", "strings.HasPrefix", "strings.HasSuffix":
		default:
			return
		}
		if len(call.Call.Args) < 2 {
			return
		}
		for _, l := range valueLeaves(call.Call.Args[1]) {
			if s, ok := constString(l); ok {
				out = append(out, struct {
					s   string
					pos token.Pos
				}{s, call.Pos()})
			} else if cv, ok := l.(*ssa.Convert); ok {
				if s, ok := constString(cv.X); ok {
					out = append(out, struct {
						s   string
						pos token.Pos
					}{s, call.Pos()})
				}
			}
		}
	})
	return out
}

func runC38(c *Ctx) {
	p, r := c.P, c.R
	r.MinInst["C38.R1"] = 2
	r.MinInst["C38.R2"] = 2
	r.MinInst["C38.R3"] = 4
	r.MinInst["C38.R4"] = 1
	checkC38Positions(c)
	r.MinInst["C38.R5"] = 1
	checkC38BothEnds(c)
	r.MinInst["C38.R6"] = 1
	checkC38PageResourcesWritten(c)
	r.MinInst["C38.R7"] = 1
	checkC38FirstTerminator(c)
	r.MinInst["C38.R8"] = 1
	checkC38DetectionStops(c)
	const marker = "/Artifact"
	// ---- the writer's format
	wfn := p.Func("pkg/pdfcpu.wmContent")
	var format string
	var fpos token.Pos
	if wfn != nil {
		eachInstr(wfn, func(_ *ssa.BasicBlock, _ int, i ssa.Instruction) {
			for _, op := range i.Operands(nil) {
				if op == nil || *op == nil {
					continue
				}
				if cst, ok := (*op).(*ssa.Const); ok && cst.Value != nil && cst.Value.Kind() == constant.String {
					s := constant.StringVal(cst.Value)
					if strings.Contains(s, marker) && strings.Contains(s, "%") {
						format, fpos = s, i.Pos()
					}
				}
			}
		})
	}
	if format == "" {
		r.Bad("C38.R1", "pkg/pdfcpu.wmContent", "anchor", "", "UNRESOLVED-ANCHOR: the watermark writer's format constant (a marked-content wrapper with verbs) was not found")
		return
	}
	_ = fpos
	// ---- R1: readers' markers
	readers := map[string]bool{}
	var fns []*ssa.Function
	for _, fn := range p.Funcs {
		if isSubject(fn) && fn.Pkg != nil && fn.Pkg.Pkg.Path() == modPath+"/pkg/pdfcpu" {
			fns = append(fns, fn)
		}
	}
	sort.Slice(fns, func(i, j int) bool { return FuncID(fns[i]) < FuncID(fns[j]) })
	var theMarker string
	for _, fn := range fns {
		k := 0
		for _, sc := range searchConstants(fn) {
			if !strings.HasPrefix(strings.TrimSpace(sc.s), marker) {
				continue
			}
			k++
			readers[fn.Name()] = true
			construct := fmt.Sprintf("marker search#%d", k)
			if strings.Contains(format, sc.s) {
				theMarker = sc.s
				r.OK("C38.R1", FuncID(fn), construct, p.Pos(sc.pos), fmt.Sprintf("searches %q, which the writer's format contains", sc.s), true)
			} else {
				r.Bad("C38.R1", FuncID(fn), construct, p.Pos(sc.pos), fmt.Sprintf("searches content for %q, the writer emits %q: the two differ, so watermarks pdfcpu adds are not found — detection reports none and removal leaves them on the page", sc.s, format[:min(len(format), 70)]))
			}
		}
	}
	for _, need := range []string{"removeArtifacts", "detectArtifacts"} {
		if !readers[need] {
			r.Bad("C38.R1", "pkg/pdfcpu."+need, "marker search", "", "UNRESOLVED-ANCHOR: "+need+" no longer searches content for a constant that starts with "+marker)
		}
	}
	// ---- R2 / R3 in removeArtifacts
	rfn := p.Func("pkg/pdfcpu.removeArtifacts")
	if rfn == nil {
		r.Bad("C38.R2", "pkg/pdfcpu.removeArtifacts", "anchor", "", "UNRESOLVED-ANCHOR")
		return
	}
	rest := format
	if theMarker != "" {
		rest = format[strings.Index(format, theMarker)+len(theMarker):]
	}
	var term string
	var ops, prefixes []string
	for _, sc := range searchConstants(rfn) {
		switch {
		case strings.HasPrefix(strings.TrimSpace(sc.s), marker):
		case strings.HasPrefix(sc.s, "/"):
			prefixes = append(prefixes, sc.s)
		case strings.HasPrefix(sc.s, " "):
			ops = append(ops, sc.s)
		default:
			term = sc.s
			if strings.Contains(rest, sc.s) {
				r.OK("C38.R2", FuncID(rfn), "end-of-sequence constant", p.Pos(sc.pos), fmt.Sprintf("%q occurs in the writer's format after the marker", sc.s), true)
			} else {
				r.Bad("C38.R2", FuncID(rfn), "end-of-sequence constant", p.Pos(sc.pos), fmt.Sprintf("the remover looks for %q to find the end of a watermark, the writer's format does not contain it after the marker: no watermark is ever removed", sc.s))
			}
		}
	}
	if term == "" {
		r.Bad("C38.R2", FuncID(rfn), "end-of-sequence constant", p.Pos(rfn.Pos()), "UNDECIDED: no constant searched for the end of the marked-content sequence")
	} else {
		// the cut: a slice of Content whose low bound is <something> + constant
		n := 0
		eachInstr(rfn, func(_ *ssa.BasicBlock, _ int, i ssa.Instruction) {
			sl, ok := i.(*ssa.Slice)
			if !ok || sl.Low == nil || !strings.HasSuffix(fieldPath(sl.X), "Content") {
				return
			}
			alts := linOf(&Ctx{P: p, R: r}, sl.Low, 0)
			if len(alts) != 1 {
				return
			}
			n++
			if alts[0].k == int64(len(term)) {
				r.OK("C38.R2", FuncID(rfn), "cut beyond the end constant", p.Pos(sl.Pos()), fmt.Sprintf("content is resumed %d bytes after the found position = len(%q)", alts[0].k, term), true)
			} else {
				r.Bad("C38.R2", FuncID(rfn), "cut beyond the end constant", p.Pos(sl.Pos()), fmt.Sprintf("content is resumed %d bytes after the position of %q, whose length is %d: bytes of the operator stay in the page content (a syntax error for every viewer) or page content after the watermark is deleted", alts[0].k, term, len(term)))
			}
		})
		if n == 0 {
			r.Bad("C38.R2", FuncID(rfn), "cut beyond the end constant", p.Pos(rfn.Pos()), "UNDECIDED: no slice of Content with a computed low bound")
		}
	}
	// R3: operators
	for _, op := range ops {
		if strings.Contains(rest, "/%s"+op) {
			r.OK("C38.R3", FuncID(rfn), "operator"+op, p.Pos(rfn.Pos()), "the writer's format applies this operator to a resource name", true)
		} else {
			r.Bad("C38.R3", FuncID(rfn), "operator"+op, p.Pos(rfn.Pos()), fmt.Sprintf("the remover finds a resource name by the operator %q, the writer's format has no '/<name>%s': the watermark's resources are never released", op, op))
		}
	}
	// prefixes: those the writer registers resources with
	writerPrefixes := map[string]bool{}
	for _, fn := range fns {
		eachInstr(fn, func(_ *ssa.BasicBlock, _ int, i ssa.Instruction) {
			call, ok := i.(*ssa.Call)
			if !ok {
				return
			}
			if f := staticCallee(call); f == nil || f.Name() != "updatePageWatermarkResource" {
				return
			}
			for _, a := range call.Call.Args {
				if s, ok := constString(a); ok {
					writerPrefixes[s] = true
				}
			}
		})
	}
	// the constants the remover rebuilds names with: left operands of string concatenations
	rebuilt := map[string]bool{}
	eachInstr(rfn, func(_ *ssa.BasicBlock, _ int, i ssa.Instruction) {
		if bo, ok := i.(*ssa.BinOp); ok && bo.Op == token.ADD {
			if s, ok := constString(bo.X); ok {
				rebuilt[s] = true
			}
		}
	})
	for _, pf := range prefixes {
		name := strings.TrimPrefix(pf, "/")
		switch {
		case !writerPrefixes[name]:
			r.Bad("C38.R3", FuncID(rfn), "resource prefix "+pf, p.Pos(rfn.Pos()), fmt.Sprintf("the remover looks for resource names starting with %q, the writer registers watermark resources with the prefixes %v: the names do not meet", pf, keysOf(writerPrefixes)))
		case !rebuilt[name]:
			r.Bad("C38.R3", FuncID(rfn), "resource prefix "+pf, p.Pos(rfn.Pos()), fmt.Sprintf("the remover finds %q but rebuilds the resource name with another prefix (%v): the wrong resource is released", pf, keysOf(rebuilt)))
		default:
			r.OK("C38.R3", FuncID(rfn), "resource prefix "+pf, p.Pos(rfn.Pos()), "found by, rebuilt with and registered under the same prefix", true)
		}
	}
}

func keysOf(m map[string]bool) []string {
	var out []string
	for k := range m {
		out = append(out, k)
	}
	sort.Strings(out)
	return out
}

// R4 (siblings): for a page whose /Contents is an array the writer puts the wrapper into the first stream
// (watermark: prepended) or into a stream appended at the end (stamp). The remover and the detector are two readers
// of the same layout: the positions of the array they inspect must be the same set, and that set must contain the
// first (index 0) and the last (len-1) element.
func checkC38Positions(c *Ctx) {
	p, r := c.P, c.R
	positions := func(fn *ssa.Function) []string {
		set := map[string]bool{}
		var arr *ssa.Parameter
		for _, q := range fn.Params {
			if strings.HasSuffix(types.Unalias(q.Type()).String(), "types.Array") {
				arr = q
			}
		}
		if arr == nil {
			return nil
		}
		eachInstr(fn, func(_ *ssa.BasicBlock, _ int, i ssa.Instruction) {
			var idx ssa.Value
			switch x := i.(type) {
			case *ssa.IndexAddr:
				if x.X == ssa.Value(arr) {
					idx = x.Index
				}
			case *ssa.Index:
				if x.X == ssa.Value(arr) {
					idx = x.Index
				}
			}
			if idx == nil {
				return
			}
			if k, ok := c31ConstInt(idx); ok {
				set[fmt.Sprint(k)] = true
				return
			}
			if bo, ok := idx.(*ssa.BinOp); ok && bo.Op == token.SUB {
				if la := lenArgOf(bo.X); la == ssa.Value(arr) {
					if k, ok := c31ConstInt(bo.Y); ok {
						set[fmt.Sprintf("len-%d", k)] = true
						return
					}
				}
			}
			set["other"] = true
		})
		return keysOf(set)
	}
	rem, det := p.Func("pkg/pdfcpu.removeArtifactsFromContentArray"), p.Func("pkg/pdfcpu.detectArtifactsFromContentArray")
	if rem == nil || det == nil {
		r.Bad("C38.R4", "pkg/pdfcpu.removeArtifactsFromContentArray", "anchor", "", "UNRESOLVED-ANCHOR: the content-array readers were not found")
		return
	}
	a, b := positions(rem), positions(det)
	has := func(xs []string, s string) bool {
		for _, x := range xs {
			if x == s {
				return true
			}
		}
		return false
	}
	switch {
	case strings.Join(a, ",") != strings.Join(b, ","):
		r.Bad("C38.R4", FuncID(det), "positions inspected", p.Pos(det.Pos()), fmt.Sprintf("the detector inspects the elements {%s} of a /Contents array, the remover {%s}: a watermark one of them finds the other does not — detection and removal disagree about the same document", strings.Join(b, ", "), strings.Join(a, ", ")))
	case !has(a, "0") || !has(a, "len-1"):
		r.Bad("C38.R4", FuncID(rem), "positions inspected", p.Pos(rem.Pos()), fmt.Sprintf("the readers inspect {%s}; the writer puts a watermark into the first stream and a stamp into a stream appended at the end, so both index 0 and len-1 have to be looked at", strings.Join(a, ", ")))
	default:
		r.OK("C38.R4", FuncID(rem), "positions inspected", p.Pos(rem.Pos()), "remover and detector both inspect {"+strings.Join(a, ", ")+"}", true)
	}
}

// R5: the remover looks at both ends of a /Contents array whatever it found at the first: the inspection of the last
// element is not control-dependent on the first inspection's "found" result (a page can carry a watermark in its
// first stream and a stamp in its last).
func checkC38BothEnds(c *Ctx) {
	p, r := c.P, c.R
	const fid = "pkg/pdfcpu.removeArtifactsFromContentArray"
	fn := p.Func(fid)
	if fn == nil {
		r.Bad("C38.R5", fid, "anchor", "", "UNRESOLVED-ANCHOR")
		return
	}
	var calls []*ssa.Call
	eachInstr(fn, func(_ *ssa.BasicBlock, _ int, i ssa.Instruction) {
		if call, ok := i.(*ssa.Call); ok {
			if f := staticCallee(call); f != nil && f.Name() == "removeArtifactsFromContentRef" {
				calls = append(calls, call)
			}
		}
	})
	if len(calls) < 2 {
		r.Bad("C38.R5", fid, "both ends inspected", p.Pos(fn.Pos()), fmt.Sprintf("UNDECIDED: %d calls of removeArtifactsFromContentRef, expected one for each end of the array", len(calls)))
		return
	}
	first, last := calls[0], calls[len(calls)-1]
	found := map[ssa.Value]bool{}
	if first.Referrers() != nil {
		for _, rf := range *first.Referrers() {
			if ex, ok := rf.(*ssa.Extract); ok && ex.Index == 0 {
				for v := range taintFrom(c, []ssa.Value{ex}) {
					found[v] = true
				}
			}
		}
	}
	dependent := false
	for _, x := range fn.Blocks {
		if len(x.Instrs) == 0 {
			continue
		}
		ifi, ok := x.Instrs[len(x.Instrs)-1].(*ssa.If)
		if !ok || !found[ifi.Cond] {
			continue
		}
		for si := range x.Succs {
			if edgeDominates(Edge{x, si}, last.Block()) {
				dependent = true
			}
		}
	}
	if dependent {
		r.Bad("C38.R5", fid, "both ends inspected", p.Pos(last.Pos()), "the last content stream is inspected only when the first one had no watermark: a page with a watermark (first stream) and a stamp (last stream) keeps the stamp after removal, which reports success")
	} else {
		r.OK("C38.R5", fid, "both ends inspected", p.Pos(last.Pos()), "the inspection of the last element does not depend on what the first inspection found", true)
	}
}

// R6: the remover finds a page's watermark resources in the page's own /Resources entry
// (locatePageContentAndResourceDict fails without one). The writer therefore leaves every page it watermarks with a
// /Resources entry of its own: in addPageWatermarkResources every successful return is preceded by an update of the
// key "Resources" in the page dictionary, directly or through insertPageResourcesForWM.
func checkC38PageResourcesWritten(c *Ctx) {
	p, r := c.P, c.R
	const fid = "pkg/pdfcpu.addPageWatermarkResources"
	fn := p.Func(fid)
	if fn == nil {
		r.Bad("C38.R6", fid, "anchor", "", "UNRESOLVED-ANCHOR")
		return
	}
	writes := func(b *ssa.BasicBlock) bool {
		for _, in := range b.Instrs {
			switch x := in.(type) {
			case *ssa.MapUpdate:
				if k, ok := constString(x.Key); ok && k == "Resources" {
					return true
				}
			case *ssa.Call:
				callee := staticCallee(x)
				if callee == nil {
					continue
				}
				if callee.Name() == "insertPageResourcesForWM" {
					return true
				}
				if callee.Name() == "Update" || callee.Name() == "Insert" || callee.Name() == "InsertName" {
					for _, a := range x.Call.Args {
						if k, ok := constString(a); ok && k == "Resources" {
							return true
						}
					}
				}
			}
		}
		return false
	}
	free := map[*ssa.BasicBlock]bool{fn.Blocks[0]: true}
	work := []*ssa.BasicBlock{fn.Blocks[0]}
	for len(work) > 0 {
		b := work[len(work)-1]
		work = work[:len(work)-1]
		if writes(b) {
			continue
		}
		for _, s := range b.Succs {
			if !free[s] {
				free[s] = true
				work = append(work, s)
			}
		}
	}
	n := 0
	for _, ret := range returnsOf(fn) {
		if k, ok := returnErrKind(ret); ok && k == errNonNil {
			continue
		}
		n++
		construct := fmt.Sprintf("successful return#%d", n)
		if free[ret.Block()] && !writes(ret.Block()) {
			r.Bad("C38.R6", fid, construct, posOrFn(p, ret, fn), "a page can leave the watermark writer without a /Resources entry of its own (the inherited dictionary was updated in place): the remover looks the watermark's resources up in the page's own /Resources and fails with 'no resource dict found', so the watermark cannot be removed")
		} else {
			r.OK("C38.R6", fid, construct, posOrFn(p, ret, fn), "the page dictionary's Resources entry is written on every path to this return", true)
		}
	}
	if n == 0 {
		r.Bad("C38.R6", fid, "successful returns", p.Pos(fn.Pos()), "UNDECIDED")
	}
}

// R7: a marked-content sequence ends at the FIRST end operator after its begin: removeArtifacts looks the terminator up
// with strings.Index / bytes.Index relative to the marker, never with a LastIndex (which would also delete page content
// between the watermark and a later EMC — tagged content, or a stamp in the same stream).
func checkC38FirstTerminator(c *Ctx) {
	p, r := c.P, c.R
	const fid = "pkg/pdfcpu.removeArtifacts"
	fn := p.Func(fid)
	if fn == nil {
		r.Bad("C38.R7", fid, "anchor", "", "UNRESOLVED-ANCHOR")
		return
	}
	n := 0
	eachInstr(fn, func(_ *ssa.BasicBlock, _ int, i ssa.Instruction) {
		call, ok := i.(*ssa.Call)
		if !ok || len(call.Call.Args) < 2 {
			return
		}
		_, ref := callRef(call)
		if !strings.HasPrefix(ref, "strings.") && !strings.HasPrefix(ref, "bytes.") {
			return
		}
		s, ok := constString(call.Call.Args[1])
		if !ok || strings.HasPrefix(s, "/") || strings.HasPrefix(s, " ") {
			return
		}
		n++
		if strings.Contains(ref, "LastIndex") {
			r.Bad("C38.R7", fid, "end of the sequence is the first "+s, p.Pos(call.Pos()), "the end of the watermark's marked-content sequence is searched from the END of the stream: page content between the watermark and a later "+s+" (tagged content, a stamp in the same stream) is deleted together with the watermark")
		} else {
			r.OK("C38.R7", fid, "end of the sequence is the first "+s, p.Pos(call.Pos()), ref+" finds the first occurrence after the marker", true)
		}
	})
	if n == 0 {
		r.Bad("C38.R7", fid, "end of the sequence", p.Pos(fn.Pos()), "UNDECIDED: no search for the end operator")
	}
}

// R8: detection walks the page tree and records its verdict in ctx.Watermarked, which the per-page detector ASSIGNS
// (true or false) for every page it looks at. What makes the verdict "some page has a watermark" is that the walk stops
// at the first page that has one: in detectPageTreeNodeWatermarks the loop over the kids leaves the loop on a test of
// the field Watermarked. Without that exit (or with a local result that a nested /Pages kid does not hand up) a later
// clean page overwrites the verdict of an earlier watermarked one.
func checkC38DetectionStops(c *Ctx) {
	p, r := c.P, c.R
	const fid = "pkg/pdfcpu.detectPageTreeNodeWatermarks"
	fn := p.Func(fid)
	if fn == nil {
		r.Bad("C38.R8", fid, "anchor", "", "UNRESOLVED-ANCHOR")
		return
	}
	n := 0
	for _, l := range naturalLoops(fn) {
		calls := false
		for b := range l.blocks {
			for _, in := range b.Instrs {
				if call, ok := in.(*ssa.Call); ok {
					if f := staticCallee(call); f != nil && f.Name() == "detectPageTreeChildWatermarks" {
						calls = true
					}
				}
			}
		}
		if !calls {
			continue
		}
		n++
		stops := false
		for b := range l.blocks {
			if len(b.Instrs) == 0 {
				continue
			}
			ifi, ok := b.Instrs[len(b.Instrs)-1].(*ssa.If)
			if !ok {
				continue
			}
			if !strings.HasSuffix(fieldPath(ifi.Cond), "Watermarked") {
				continue
			}
			if !l.blocks[b.Succs[0]] {
				stops = true
			}
		}
		if stops {
			r.OK("C38.R8", fid, "walk stops at the first watermarked page", p.Pos(lastPos(l.header)), "the loop over the kids is left on ctx.Watermarked", true)
		} else {
			r.Bad("C38.R8", fid, "walk stops at the first watermarked page", p.Pos(lastPos(l.header)), "the loop over the page tree's kids is not left on ctx.Watermarked: the per-page detector assigns that field for every page, so a clean page visited after a watermarked one resets the verdict and detection reports 'no watermark' for a document that has one")
		}
	}
	if n == 0 {
		r.Bad("C38.R8", fid, "walk stops at the first watermarked page", p.Pos(fn.Pos()), "UNDECIDED: no loop over the kids that calls detectPageTreeChildWatermarks")
	}
}
