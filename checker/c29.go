package main

import (
	"fmt"
	"go/token"
	"go/types"
	"sort"
	"strings"

	"golang.org/x/tools/go/ssa"
)

// C29 — removing signatures removes them all and nothing else (partial: the no-signatures gate and the key tables).

func init() {
	register(&Check{
		ID:  "C29",
		Run: runC29,
		Explanation: "Decides three structural clauses: (R1 gate) 'on a document without signatures the operation fails with the no-signatures error and writes nothing': in api.ReadAndValidate the call of RemoveAllSignatures is reached only on the `len(ctx.Signatures) != 0` edge and the empty branch returns ErrNoSignatures when the command is REMOVESIGNATURES; api.RemoveSignatures sets conf.Cmd = REMOVESIGNATURES before reading; api.optimize reaches WriteContext only after ReadValidateAndOptimize returned nil. " +
			"(R2 key agreement) every constant key that any function of the module deletes from or stores into the document catalog (a value reached through the RootDict field) is a catalog key the validator's own table in validate.validateRootObject knows (plus Type/Version/Extensions/AcroForm/Pages): a misspelt key silently removes nothing. " +
			"(R3 coverage) XRefTable.RemoveAllSignatures deletes the catalog entries that carry signature state — Perms (DocMDP certification and UR3 usage rights) and DSS — on every path, and removes SigFlags (or the whole AcroForm) when signature fields were dropped. " +
			"(R4 walk) in model.removeSignatureFields a field is dropped (removeSigAnnot) only on the edge where its own or inherited type is Sig, and a field with field kids is kept only after the walk descended into them. NOT decided: widgets of signature fields with several widget kids, that nothing else changes in general, and the page content.",
		Rules: []string{
			"C29.R1 MPT: RemoveAllSignatures only when signatures exist; empty => ErrNoSignatures; write only after a successful read",
			"C29.R2 table agreement: catalog keys written/deleted are keys of the validator's catalog table",
			"C29.R4 MPT: the field walk drops only /FT /Sig fields and descends into every group before keeping it",
			"C29.R6 MPT: a /Fields entry keeps its own reference only where there is nothing to match or after the page-widget match was tried",
			"C29.R5 pairing: the annotation reference removed from a page is the reference of the widget whose /P named the page",
			"C29.R7 dominance: on the no-signatures edge a nil-error exit is behind conf.Cmd != REMOVESIGNATURES",
			"C29.R8 shape: the widget reference is removed from a page's /Annots at every position (the loop over the array is not left at the first match)",
			"C29.R10 MPT: a signature widget without the optional /P entry is still taken off the pages (no silent return)",
			"C29.R9 TABLE: AllowRemoveSignatures names MERGEAPPEND, MERGECREATE, MERGECREATEZIP and OPTIMIZE",
			"C29.R3 coverage: RemoveAllSignatures deletes Perms and DSS on every path, SigFlags/AcroForm when fields were dropped",
		},
		Assumptions: []string{"the validator's catalog table (validate.validateRootObject) lists the ISO 32000 catalog keys"},
		Technique:   "must-pass-through dataflow on SSA edges; extraction of the validator's key table (constants stored into the table literal) and comparison with constant map keys used on RootDict",
		Note:        "Partial. R2 found a genuine defect on the unchanged tree: RemoveAllSignatures deleted \"Perm\" instead of \"Perms\", so certification/usage-rights signatures survived `signatures remove` (fixed in /repo).",
	})
}

// catalogKeysOfValidator: the string constants stored into the entry table literal of validate.validateRootObject.
func catalogKeysOfValidator(p *Program) map[string]bool {
	out := map[string]bool{}
	fn := p.Func("pkg/pdfcpu/validate.validateRootObject")
	if fn == nil {
		return out
	}
	eachInstr(fn, func(_ *ssa.BasicBlock, _ int, i ssa.Instruction) {
		st, ok := i.(*ssa.Store)
		if !ok {
			return
		}
		if s, ok := constString(st.Val); ok {
			if fa, ok := st.Addr.(*ssa.FieldAddr); ok && fa.Field == 0 {
				out[s] = true
			}
		}
	})
	return out
}

func isRootDictValue(v ssa.Value) bool {
	ap := accessPath(v)
	return strings.HasSuffix(ap, ".RootDict") || ap == "RootDict"
}

func runC29(c *Ctx) {
	p, r := c.P, c.R
	r.MinInst["C29.R1"] = 4
	r.MinInst["C29.R2"] = 10
	r.MinInst["C29.R3"] = 3
	r.MinInst["C29.R4"] = 2
	r.MinInst["C29.R5"] = 2
	checkWidgetPairing(c)
	r.MinInst["C29.R6"] = 3
	checkSigFieldNormalisation(c)
	checkSignatureFieldWalk(c)
	r.MinInst["C29.R7"] = 1
	checkExplicitRemoveFailsWhenEmpty(c)
	r.MinInst["C29.R8"] = 1
	checkAnnotRemovalComplete(c)
	r.MinInst["C29.R9"] = 1
	checkRemoveSignaturesModes(c)
	r.MinInst["C29.R10"] = 2
	checkWidgetWithoutPNotSkipped(c)

	// ---------- R1
	if fn := p.Func("pkg/api.ReadAndValidate"); fn == nil {
		r.Bad("C29.R1", "pkg/api.ReadAndValidate", "anchor", "", "UNRESOLVED-ANCHOR")
	} else {
		genE := map[Edge][]string{}
		var emptyEdges []Edge
		eachInstr(fn, func(_ *ssa.BasicBlock, _ int, i ssa.Instruction) {
			b, ok := i.(*ssa.BinOp)
			if !ok || (b.Op != token.EQL && b.Op != token.NEQ && b.Op != token.GTR) {
				return
			}
			la := lenArgOf(b.X)
			if la == nil || !strings.HasSuffix(accessPath(la), ".Signatures") {
				return
			}
			if k, ok := constInt(b.Y); !ok || k != 0 {
				return
			}
			nonEmptyWhen := b.Op != token.EQL // NEQ / GTR true => non-empty
			for _, e := range condEdges(b, nonEmptyWhen) {
				genE[e] = append(genE[e], "nonempty")
			}
			emptyEdges = append(emptyEdges, condEdges(b, !nonEmptyWhen)...)
		})
		ff := NewFactFlow(fn, nil, genE, nil, nil)
		n := 0
		eachInstr(fn, func(_ *ssa.BasicBlock, _ int, i ssa.Instruction) {
			if _, ref := callRef(i); ref == "pkg/pdfcpu/model.XRefTable.RemoveAllSignatures" {
				n++
				if ff.Holds(i, "nonempty") {
					r.OK("C29.R1", FuncID(fn), "call RemoveAllSignatures", p.Pos(i.Pos()), "reached only on the len(ctx.Signatures) != 0 edge", true)
				} else {
					r.Bad("C29.R1", FuncID(fn), "call RemoveAllSignatures", p.Pos(i.Pos()), "signature removal runs (and the document is then written) on a path where the document may have no signatures: the no-signatures error is skipped")
				}
			}
		})
		if n == 0 {
			r.Bad("C29.R1", FuncID(fn), "call RemoveAllSignatures", p.Pos(fn.Pos()), "UNRESOLVED-ANCHOR: RemoveAllSignatures is no longer called from ReadAndValidate")
		}
		// the empty branch returns ErrNoSignatures (with a deferred fault.Catch the value is stored into the named result first)
		found := false
		eachInstr(fn, func(blk *ssa.BasicBlock, _ int, i ssa.Instruction) {
			ld, ok := i.(*ssa.UnOp)
			if !ok {
				return
			}
			g, ok := ld.X.(*ssa.Global)
			if !ok || g.Name() != "ErrNoSignatures" {
				return
			}
			dominated := false
			for _, e := range emptyEdges {
				if edgeDominates(e, blk) {
					dominated = true
				}
			}
			if !dominated {
				return
			}
			// the loaded error flows to the function result: stored into a result cell or returned directly
			for _, rf := range *ld.Referrers() {
				switch y := rf.(type) {
				case *ssa.Return:
					found = true
				case *ssa.Store:
					if _, isAlloc := y.Addr.(*ssa.Alloc); isAlloc {
						found = true
					}
				}
			}
		})
		if found {
			r.OK("C29.R1", FuncID(fn), "empty => ErrNoSignatures", p.Pos(fn.Pos()), "a return of ErrNoSignatures is dominated by the len(ctx.Signatures) == 0 edge", true)
		} else {
			r.Bad("C29.R1", FuncID(fn), "empty => ErrNoSignatures", p.Pos(fn.Pos()), "no return of ErrNoSignatures on the empty-signatures branch: removing signatures from an unsigned document would succeed and write an output")
		}
	}
	// RemoveSignatures sets the command before reading
	if fn := p.Func("pkg/api.RemoveSignatures"); fn == nil {
		r.Bad("C29.R1", "pkg/api.RemoveSignatures", "anchor", "", "UNRESOLVED-ANCHOR")
	} else {
		genI := func(i ssa.Instruction) []string {
			if st, ok := i.(*ssa.Store); ok {
				if cst, ok := st.Val.(*ssa.Const); ok && strings.HasSuffix(accessPath(st.Addr), ".Cmd") && commandModeName(p, cst) == "REMOVESIGNATURES" {
					return []string{"cmd"}
				}
			}
			return nil
		}
		ff := NewFactFlow(fn, genI, nil, nil, nil)
		n := 0
		eachInstr(fn, func(_ *ssa.BasicBlock, _ int, i ssa.Instruction) {
			if _, ref := callRef(i); ref == "pkg/api.optimize" {
				n++
				if ff.Holds(i, "cmd") {
					r.OK("C29.R1", FuncID(fn), "Cmd before read", p.Pos(i.Pos()), "conf.Cmd = REMOVESIGNATURES is stored on every path before the document is read", true)
				} else {
					r.Bad("C29.R1", FuncID(fn), "Cmd before read", p.Pos(i.Pos()), "the document is read without conf.Cmd = REMOVESIGNATURES: ReadAndValidate would neither remove signatures nor report their absence")
				}
			}
		})
		if n == 0 {
			r.Bad("C29.R1", FuncID(fn), "Cmd before read", p.Pos(fn.Pos()), "UNRESOLVED-ANCHOR: api.optimize not called")
		}
	}
	if fn := p.Func("pkg/api.optimize"); fn == nil {
		r.Bad("C29.R1", "pkg/api.optimize", "anchor", "", "UNRESOLVED-ANCHOR")
	} else {
		genE := map[Edge][]string{}
		eachInstr(fn, func(_ *ssa.BasicBlock, _ int, i ssa.Instruction) {
			if call, ok := i.(*ssa.Call); ok {
				if _, ref := callRef(call); ref == "pkg/api.ReadValidateAndOptimize" {
					es, _ := successEdges(call)
					for _, e := range es {
						genE[e] = append(genE[e], "read")
					}
				}
			}
		})
		ff := NewFactFlow(fn, nil, genE, nil, nil)
		n := 0
		eachInstr(fn, func(_ *ssa.BasicBlock, _ int, i ssa.Instruction) {
			if _, ref := callRef(i); ref == "pkg/api.WriteContext" {
				n++
				if ff.Holds(i, "read") {
					r.OK("C29.R1", FuncID(fn), "write after read", p.Pos(i.Pos()), "WriteContext is reached only after ReadValidateAndOptimize returned nil", true)
				} else {
					r.Bad("C29.R1", FuncID(fn), "write after read", p.Pos(i.Pos()), "the output is written on a path where reading/validating (and the no-signatures gate inside it) failed")
				}
			}
		})
		if n == 0 {
			r.Bad("C29.R1", FuncID(fn), "write after read", p.Pos(fn.Pos()), "UNRESOLVED-ANCHOR: WriteContext not called")
		}
	}

	// ---------- R2
	keys := catalogKeysOfValidator(p)
	if len(keys) < 20 {
		r.Bad("C29.R2", "pkg/pdfcpu/validate.validateRootObject", "table", "", fmt.Sprintf("UNRESOLVED-ANCHOR: only %d catalog keys extracted from the validator table", len(keys)))
	}
	for _, k := range []string{"Type", "Version", "Extensions", "AcroForm", "Pages", "Metadata"} {
		keys[k] = true
	}
	for _, fn := range p.Funcs {
		fid := FuncID(fn)
		if !strings.HasPrefix(fid, "pkg/") {
			continue
		}
		fn := fn
		eachInstr(fn, func(_ *ssa.BasicBlock, _ int, i ssa.Instruction) {
			var m, kv ssa.Value
			op := ""
			switch x := i.(type) {
			case *ssa.MapUpdate:
				m, kv, op = x.Map, x.Key, "store"
			case *ssa.Call:
				if b, ok := x.Call.Value.(*ssa.Builtin); ok && b.Name() == "delete" && len(x.Call.Args) == 2 {
					m, kv, op = x.Call.Args[0], x.Call.Args[1], "delete"
				}
			}
			if m == nil || !isRootDictValue(m) {
				return
			}
			k, ok := constString(kv)
			if !ok {
				return
			}
			if keys[k] {
				r.OK("C29.R2", fid, op+" "+k, p.Pos(i.Pos()), "catalog key known to the validator's table", true)
			} else {
				r.Bad("C29.R2", fid, op+" "+k, p.Pos(i.Pos()), fmt.Sprintf("%q is not a document catalog key (the validator's table has no such entry; nearest: %s): the %s has no effect on what readers see", k, nearestKey(k, keys), op))
			}
		})
	}

	// ---------- R3
	if fn := p.Func("pkg/pdfcpu/model.(*XRefTable).RemoveAllSignatures"); fn == nil {
		r.Bad("C29.R3", "pkg/pdfcpu/model.(*XRefTable).RemoveAllSignatures", "anchor", "", "UNRESOLVED-ANCHOR")
	} else {
		genI := func(i ssa.Instruction) []string {
			if call, ok := i.(*ssa.Call); ok {
				if b, ok := call.Call.Value.(*ssa.Builtin); ok && b.Name() == "delete" && len(call.Call.Args) == 2 {
					if k, ok := constString(call.Call.Args[1]); ok {
						if isRootDictValue(call.Call.Args[0]) {
							return []string{"root:" + k}
						}
						if strings.HasSuffix(accessPath(call.Call.Args[0]), ".Form") {
							return []string{"form:" + k}
						}
					}
				}
			}
			return nil
		}
		ff := NewFactFlow(fn, genI, nil, nil, nil)
		for _, k := range []string{"Perms", "DSS"} {
			bad := ""
			for _, ret := range returnsOf(fn) {
				if kind, _ := returnErrKind(ret); kind == errNonNil {
					continue
				}
				if !ff.Holds(ret, "root:"+k) {
					bad = p.Pos(ret.Pos())
				}
			}
			if bad == "" {
				r.OK("C29.R3", FuncID(fn), "deletes "+k, p.Pos(fn.Pos()), "the catalog entry "+k+" is deleted on every path to a successful return", true)
			} else {
				r.Bad("C29.R3", FuncID(fn), "deletes "+k, bad, "a successful return is reachable without the catalog entry "+k+" having been deleted: signature state (certification / usage rights / validation data) survives the removal")
			}
		}
		// fields dropped => SigFlags or AcroForm removed
		bad := ""
		for _, ret := range returnsOf(fn) {
			if kind, _ := returnErrKind(ret); kind == errNonNil {
				continue
			}
			facts, unreachable := ff.At(ret)
			if unreachable {
				continue
			}
			// only returns after the field loop matter: those dominated by a DereferenceArray success are after the early exits
			if !facts["form:SigFlags"] && !facts["root:AcroForm"] {
				// early exit `if xRefTable.Form == nil` is fine: no form at all
				if isFormNilExit(ret) {
					continue
				}
				bad = p.Pos(ret.Pos())
			}
		}
		if bad == "" {
			r.OK("C29.R3", FuncID(fn), "SigFlags/AcroForm", p.Pos(fn.Pos()), "every successful return (other than 'no form') follows delete(Form, SigFlags) or delete(catalog, AcroForm)", true)
		} else {
			r.Bad("C29.R3", FuncID(fn), "SigFlags/AcroForm", bad, "a successful return leaves the AcroForm with SigFlags in place although the signature fields were dropped")
		}
	}
}

// isFormNilExit: the return sits on the true edge of `xRefTable.Form == nil`.
func isFormNilExit(ret *ssa.Return) bool {
	fn := ret.Parent()
	ok := false
	eachInstr(fn, func(_ *ssa.BasicBlock, _ int, i ssa.Instruction) {
		b, isB := i.(*ssa.BinOp)
		if !isB || b.Op != token.EQL || !isNilConst(b.Y) || !strings.HasSuffix(accessPath(b.X), ".Form") {
			return
		}
		for _, e := range condEdges(b, true) {
			if edgeDominates(e, ret.Block()) {
				ok = true
			}
		}
	})
	return ok
}

func nearestKey(k string, keys map[string]bool) string {
	var cands []string
	for c := range keys {
		if strings.HasPrefix(c, k) || strings.HasPrefix(k, c) {
			cands = append(cands, c)
		}
	}
	sort.Strings(cands)
	if len(cands) == 0 {
		return "-"
	}
	return strings.Join(cands, ",")
}

// ---------------- C29.R4: the field walk removes signature fields at any depth and nothing else ----------------
//
// In model.removeSignatureFields (a) removeSigAnnot — the only place a field is dropped together with its widget — is reached
// only on the edge where the (own or inherited) field type equals "Sig"; (b) from the edge where a field has field kids, every
// path to `append(arr, indRef)` (keeping the node) passes the recursive call on those kids, so a signature field below an
// untyped group is still found; (c) the recursion is depth-guarded (C08.R1 covers that).
func checkSignatureFieldWalk(c *Ctx) {
	p, r := c.P, c.R
	fid := "pkg/pdfcpu/model.removeSignatureFields"
	fn := p.Func(fid)
	if fn == nil {
		r.Bad("C29.R4", fid, "anchor", "", "UNRESOLVED-ANCHOR")
		return
	}
	genE := map[Edge][]string{}
	var kidsEdges []Edge
	eachInstr(fn, func(_ *ssa.BasicBlock, _ int, i ssa.Instruction) {
		b, ok := i.(*ssa.BinOp)
		if !ok {
			return
		}
		if b.Op == token.EQL || b.Op == token.NEQ {
			if s, ok := constString(b.Y); ok && s == "Sig" {
				for _, e := range condEdges(b, b.Op == token.EQL) {
					genE[e] = append(genE[e], "sig")
				}
			}
		}
		if b.Op == token.GTR || b.Op == token.NEQ {
			if la := lenArgOf(b.X); la != nil {
				if k, ok := constInt(b.Y); ok && k == 0 {
					if call, ok := la.(*ssa.Call); ok {
						if _, ref := callRef(call); ref == "pkg/pdfcpu/model.fieldKids" {
							kidsEdges = append(kidsEdges, condEdges(b, true)...)
						}
					}
				}
			}
		}
	})
	genI := func(i ssa.Instruction) []string {
		if call, ok := i.(*ssa.Call); ok {
			if f := staticCallee(call); f != nil && unwrapSynthetic(f) == fn {
				return []string{"descended"}
			}
		}
		return nil
	}
	ff := NewFactFlow(fn, genI, genE, nil, nil)
	n := 0
	eachInstr(fn, func(_ *ssa.BasicBlock, _ int, i ssa.Instruction) {
		call, ok := i.(*ssa.Call)
		if !ok {
			return
		}
		if _, ref := callRef(call); ref == "pkg/pdfcpu/model.removeSigAnnot" {
			n++
			if ff.Holds(i, "sig") {
				r.OK("C29.R4", fid, "drop only /FT /Sig", p.Pos(call.Pos()), "removeSigAnnot is reached only on the edge where the field type equals \"Sig\"", true)
			} else {
				r.Bad("C29.R4", fid, "drop only /FT /Sig", p.Pos(call.Pos()), "a field is dropped (and its widget removed from the page) on a path that did not establish that its type is Sig: non-signature fields disappear from the form")
			}
		}
	})
	if n == 0 {
		r.Bad("C29.R4", fid, "drop only /FT /Sig", p.Pos(fn.Pos()), "UNRESOLVED-ANCHOR: removeSigAnnot is not called")
	}
	// (b) keep-after-descent
	if len(kidsEdges) == 0 {
		r.Bad("C29.R4", fid, "descend into kids", p.Pos(fn.Pos()), "UNRESOLVED-ANCHOR: no `len(fieldKids(...)) > 0` test found")
		return
	}
	bad := ""
	for _, e := range kidsEdges {
		seen := map[*ssa.BasicBlock]bool{}
		var walk func(b *ssa.BasicBlock, done bool)
		walk = func(b *ssa.BasicBlock, done bool) {
			if seen[b] && !done {
				return
			}
			if !done {
				seen[b] = true
			}
			for _, in := range b.Instrs {
				if cc, ok := in.(*ssa.Call); ok {
					if f := staticCallee(cc); f != nil && unwrapSynthetic(f) == fn {
						done = true
					}
					if bi, ok := cc.Call.Value.(*ssa.Builtin); ok && bi.Name() == "append" && !done {
						// appending the node itself without having descended
						bad = p.Pos(cc.Pos())
					}
				}
			}
			if done {
				return
			}
			for _, s := range b.Succs {
				if edgeDominates(e, s) {
					walk(s, done)
				} else if bad == "" {
					// leaving the "has field kids" region without having descended
					bad = p.Pos(lastPos(b))
				}
			}
		}
		walk(e.From.Succs[e.Succ], false)
	}
	if bad == "" {
		r.OK("C29.R4", fid, "descend into kids", p.Pos(fn.Pos()), "a field with field kids is kept only after the walk descended into the kids", true)
	} else {
		r.Bad("C29.R4", fid, "descend into kids", bad, "a field that has field kids can be kept without the walk descending into them: a signature field below such a group (hierarchical names like grp.sig1) survives the removal together with its signature value and widget")
	}
}

// ---------------- C29.R5 (round 3 of seeding): the annotation removed is the one whose /P named the page ----------------

// derefSourceOf: the reference a dictionary value was dereferenced from (xRefTable.DereferenceDict(ref)), or the
// parameter it is (pairing is then checked at the call sites).
func derefSourceOf(v ssa.Value) (ref ssa.Value, param *ssa.Parameter) {
	for _, l := range valueLeaves(v) {
		switch x := l.(type) {
		case *ssa.Parameter:
			return nil, x
		case *ssa.Extract:
			if call, ok := x.Tuple.(*ssa.Call); ok {
				if _, rf := callRef(call); strings.HasSuffix(rf, "DereferenceDict") && len(call.Call.Args) >= 2 {
					return call.Call.Args[1], nil
				}
			}
		case *ssa.Call:
			if _, rf := callRef(x); strings.HasSuffix(rf, "DereferenceDict") && len(x.Call.Args) >= 2 {
				return x.Call.Args[1], nil
			}
		}
	}
	return nil, nil
}

func sameRefValue(a, b ssa.Value) bool {
	if a == b {
		return true
	}
	// loads of the same cell, conversions to interface of the same value
	strip := func(v ssa.Value) ssa.Value {
		for {
			switch x := v.(type) {
			case *ssa.MakeInterface:
				v = x.X
			case *ssa.ChangeType:
				v = x.X
			case *ssa.UnOp:
				if x.Op == token.MUL {
					if al, ok := x.X.(*ssa.Alloc); ok {
						// single stored value?
						var stored ssa.Value
						n := 0
						for _, rf := range *al.Referrers() {
							if st, ok := rf.(*ssa.Store); ok && st.Addr == ssa.Value(al) {
								stored = st.Val
								n++
							}
						}
						if n == 1 {
							v = stored
							continue
						}
					}
				}
				return v
			default:
				return v
			}
		}
	}
	return strip(a) == strip(b)
}

// checkWidgetPairing: removePageAnnotationForSig(x, page, annot) removes `annot` from the /Annots of `page`. The page is
// read from the /P entry of some widget dictionary D; `annot` has to be the reference D was dereferenced from. Through
// helper parameters the pairing (ref, dict) is followed to the call sites.
func checkWidgetPairing(c *Ctx) {
	p, r := c.P, c.R
	cg := c.CG()
	target := "pkg/pdfcpu/model.removePageAnnotationForSig"
	n := 0
	var check func(fn *ssa.Function, refV, dictV ssa.Value, depth int) string
	check = func(fn *ssa.Function, refV, dictV ssa.Value, depth int) string {
		if depth > 3 {
			return ""
		}
		src, prm := derefSourceOf(dictV)
		if src != nil {
			if sameRefValue(src, refV) {
				return ""
			}
			return "the dictionary was dereferenced from " + exprName(src) + " but the reference handed on is " + exprName(refV) + " (" + p.Pos(refV.Pos()) + ")"
		}
		if prm == nil {
			return ""
		}
		// refV should be a parameter too; follow to callers
		var rprm *ssa.Parameter
		for _, l := range valueLeaves(refV) {
			if x, ok := l.(*ssa.Parameter); ok {
				rprm = x
			}
		}
		if rprm == nil {
			return ""
		}
		ri, di := paramIndex(fn, rprm), paramIndex(fn, prm)
		if ri < 0 || di < 0 {
			return ""
		}
		for _, caller := range cg.In[fn] {
			var why string
			eachInstr(caller, func(_ *ssa.BasicBlock, _ int, i ssa.Instruction) {
				call, ok := i.(*ssa.Call)
				if !ok || why != "" {
					return
				}
				if callee := staticCallee(call); callee == nil || unwrapSynthetic(callee) != fn {
					return
				}
				if ri >= len(call.Call.Args) || di >= len(call.Call.Args) {
					return
				}
				if w := check(caller, call.Call.Args[ri], call.Call.Args[di], depth+1); w != "" {
					why = "at " + p.Pos(call.Pos()) + " in " + FuncID(caller) + ": " + w
				}
			})
			if why != "" {
				return why
			}
		}
		return ""
	}
	for _, fn := range p.Funcs {
		if fn.Pkg == nil || fn.Pkg.Pkg.Path() != modPath+"/pkg/pdfcpu/model" {
			continue
		}
		fn := fn
		k := 0
		eachInstr(fn, func(_ *ssa.BasicBlock, _ int, i ssa.Instruction) {
			call, ok := i.(*ssa.Call)
			if !ok {
				return
			}
			if _, rf := callRef(call); rf != target || len(call.Call.Args) < 3 {
				return
			}
			k++
			n++
			construct := fmt.Sprintf("removePageAnnotationForSig#%d", k)
			// the page argument: *p where p = D.IndirectRefEntry("P")
			var dictV ssa.Value
			for _, l := range valueLeaves(call.Call.Args[1]) {
				v := l
				if ld, ok := v.(*ssa.UnOp); ok && ld.Op == token.MUL {
					v = ld.X
				}
				if pc, ok := v.(*ssa.Call); ok {
					if _, prf := callRef(pc); strings.HasSuffix(prf, "IndirectRefEntry") && len(pc.Call.Args) >= 2 {
						if key, ok := constString(pc.Call.Args[1]); ok && key == "P" {
							dictV = pc.Call.Args[0]
						}
					}
				}
			}
			if dictV == nil {
				r.OK("C29.R5", FuncID(fn), construct, p.Pos(call.Pos()), "the page reference does not come from a widget's /P entry here", false)
				return
			}
			if why := check(fn, call.Call.Args[2], dictV, 0); why != "" {
				r.Bad("C29.R5", FuncID(fn), construct, p.Pos(call.Pos()), "the annotation reference removed from the page is not the reference of the widget whose /P named that page ("+why+"): the page's /Annots lists the widget's own reference, so nothing is removed and the signature widget stays on the page")
			} else {
				r.OK("C29.R5", FuncID(fn), construct, p.Pos(call.Pos()), "the reference removed from the page's /Annots is the one the widget dictionary (whose /P named the page) was dereferenced from", true)
			}
		})
	}
	if n == 0 {
		r.Bad("C29.R5", target, "anchor", "", "UNRESOLVED-ANCHOR: no call of removePageAnnotationForSig")
	}
}

// ---------------- C29.R6 (round 3 of seeding): signed visible signature fields are normalised to their page widget ----------------

// checkSigFieldNormalisation: removal drops a signature field's widget from the page by looking the FIELD's reference up in
// the page's /Annots. That works because validation (pageAnnotIndRefForAcroField) first replaces a /Fields entry that
// merely duplicates a page widget by the widget's own reference. The function may hand the field's own reference back only
// where there is nothing to match — no /Rect, an unsigned signature field (no /V), an invisible rectangle — or after the
// appearance/rectangle match (locateAnnForAPAndRect) was tried. A blanket "signature fields keep their object" leaves a
// visible, signed duplicate in /Fields whose widget removal can never find.
func checkSigFieldNormalisation(c *Ctx) {
	p, r := c.P, c.R
	fid := "pkg/pdfcpu/validate.pageAnnotIndRefForAcroField"
	fn := p.Func(fid)
	if fn == nil {
		r.Bad("C29.R6", fid, "anchor", "", "UNRESOLVED-ANCHOR")
		return
	}
	var own *ssa.Alloc // the spilled indRef parameter
	for _, prm := range fn.Params {
		if typeNameOf(prm.Type()) == "IndirectRef" && prm.Referrers() != nil {
			for _, rf := range *prm.Referrers() {
				if st, ok := rf.(*ssa.Store); ok {
					if al, ok := st.Addr.(*ssa.Alloc); ok {
						own = al
					}
				}
			}
		}
	}
	if own == nil {
		r.Bad("C29.R6", fid, "own reference", p.Pos(fn.Pos()), "UNRESOLVED-ANCHOR: the field's own reference is not handed back by address any more")
		return
	}
	genE := map[Edge][]string{}
	tried := map[ssa.Instruction]bool{}
	eachInstr(fn, func(_ *ssa.BasicBlock, _ int, i ssa.Instruction) {
		call, ok := i.(*ssa.Call)
		if !ok {
			return
		}
		_, ref := callRef(call)
		switch {
		case ref == "pkg/pdfcpu/validate.locateAnnForAPAndRect":
			tried[i] = true
		case strings.HasSuffix(ref, "Dict.Find") || strings.HasSuffix(ref, "(Dict).Find"):
			if len(call.Call.Args) >= 2 {
				if k, ok := constString(call.Call.Args[1]); ok && k == "V" {
					for _, rf := range *call.Referrers() {
						if ex, ok := rf.(*ssa.Extract); ok && ex.Index == 1 {
							for _, e := range condEdges(ex, false) {
								genE[e] = append(genE[e], "nomatch")
							}
						}
					}
				}
			}
		case strings.HasSuffix(ref, "Rectangle.Visible") || strings.HasSuffix(ref, "(*Rectangle).Visible") || strings.HasSuffix(ref, ".Visible"):
			for _, e := range condEdges(call, false) {
				genE[e] = append(genE[e], "nomatch")
			}
		case strings.HasSuffix(ref, "DereferenceArray"):
			// arr == nil: no /Rect
			for _, rf := range *call.Referrers() {
				if ex, ok := rf.(*ssa.Extract); ok && ex.Index == 0 {
					for _, e := range nilCheckEdges(ex, true) {
						genE[e] = append(genE[e], "nomatch")
					}
				}
			}
		}
	})
	ff := NewFactFlow(fn, func(i ssa.Instruction) []string {
		if tried[i] {
			return []string{"tried"}
		}
		return nil
	}, genE, nil, nil)
	n := 0
	for _, ret := range returnsOf(fn) {
		if len(ret.Results) == 0 || ret.Results[0] != ssa.Value(own) {
			continue
		}
		n++
		construct := fmt.Sprintf("own reference return#%d", n)
		if ff.Holds(ret, "tried") || ff.Holds(ret, "nomatch") {
			r.OK("C29.R6", fid, construct, posOrFn(p, ret, fn), "the field keeps its own reference only where there is nothing to match (no /Rect, unsigned, invisible) or after the widget match was tried", true)
		} else {
			r.Bad("C29.R6", fid, construct, posOrFn(p, ret, fn), "a field can keep its own reference although it may duplicate a page widget and no match was attempted: signature removal looks the field's reference up in the page's /Annots, finds nothing, and leaves the signature widget (and its signature dictionary) on the page")
		}
	}
	if n == 0 {
		r.Bad("C29.R6", fid, "own reference", p.Pos(fn.Pos()), "UNRESOLVED-ANCHOR: no return of the field's own reference found")
	}
}

// ---------------- C29.R7 (round 4 seed C29-C): the explicit command never succeeds on an unsigned document ----------------

// checkExplicitRemoveFailsWhenEmpty: removal can be asked for in two ways — the command (conf.Cmd ==
// REMOVESIGNATURES) and the option (ctx.RemoveSignatures with a command that allows it). Only for the option is
// "nothing to remove" a success. On the len(ctx.Signatures) == 0 edge of api.ReadAndValidate every exit with a nil
// error is therefore behind the edge on which conf.Cmd is known to differ from REMOVESIGNATURES.
func checkExplicitRemoveFailsWhenEmpty(c *Ctx) {
	p, r := c.P, c.R
	const fid = "pkg/api.ReadAndValidate"
	fn := p.Func(fid)
	if fn == nil {
		r.Bad("C29.R7", fid, "anchor", "", "UNRESOLVED-ANCHOR")
		return
	}
	var emptyEdges, notCmdEdges []Edge
	eachInstr(fn, func(_ *ssa.BasicBlock, _ int, i ssa.Instruction) {
		b, ok := i.(*ssa.BinOp)
		if !ok {
			return
		}
		if la := lenArgOf(b.X); la != nil && strings.HasSuffix(accessPath(la), ".Signatures") {
			if k, ok := constInt(b.Y); ok && k == 0 {
				switch b.Op {
				case token.EQL:
					emptyEdges = append(emptyEdges, condEdges(b, true)...)
				case token.NEQ, token.GTR:
					emptyEdges = append(emptyEdges, condEdges(b, false)...)
				}
			}
			return
		}
		if b.Op != token.EQL && b.Op != token.NEQ {
			return
		}
		for _, pair := range [][2]ssa.Value{{b.X, b.Y}, {b.Y, b.X}} {
			cst, ok := pair[1].(*ssa.Const)
			if !ok || !strings.HasSuffix(accessPath(pair[0]), ".Cmd") || commandModeName(p, cst) != "REMOVESIGNATURES" {
				continue
			}
			notCmdEdges = append(notCmdEdges, condEdges(b, b.Op == token.NEQ)...)
		}
	})
	if len(emptyEdges) == 0 {
		r.Bad("C29.R7", fid, "empty edge", p.Pos(fn.Pos()), "UNRESOLVED-ANCHOR: no test of len(ctx.Signatures) against 0")
		return
	}
	n := 0
	for _, b := range fn.Blocks {
		onEmpty := false
		for _, e := range emptyEdges {
			if edgeDominates(e, b) {
				onEmpty = true
			}
		}
		if !onEmpty {
			continue
		}
		success := false
		var at ssa.Instruction
		for _, in := range b.Instrs {
			switch x := in.(type) {
			case *ssa.Store:
				if al, ok := x.Addr.(*ssa.Alloc); ok && isErrorType(al.Type().(*types.Pointer).Elem()) && isNilConst(x.Val) {
					success, at = true, in
				}
			case *ssa.Return:
				if k, ok := returnErrKind(x); ok && k == errNil {
					if _, spilled := x.Results[len(x.Results)-1].(*ssa.UnOp); !spilled {
						success, at = true, in
					}
				}
			}
		}
		if !success {
			continue
		}
		n++
		construct := fmt.Sprintf("success exit#%d on the no-signatures edge", n)
		behind := false
		for _, e := range notCmdEdges {
			if edgeDominates(e, b) {
				behind = true
			}
		}
		if behind {
			r.OK("C29.R7", fid, construct, p.Pos(at.Pos()), "behind conf.Cmd != REMOVESIGNATURES: only the option treats an unsigned document as nothing to do", true)
		} else {
			r.Bad("C29.R7", fid, construct, p.Pos(at.Pos()), "with no signatures in the document the function can succeed although conf.Cmd may be REMOVESIGNATURES: the explicit removal then writes an output instead of failing with ErrNoSignatures")
		}
	}
	if n == 0 {
		r.OK("C29.R7", fid, "success exits on the no-signatures edge", p.Pos(fn.Pos()), "none: every exit on the no-signatures edge is an error", false)
	}
}

// ---------------- C29.R8 (round 4 seed C29-D): the widget is taken out of /Annots wherever it is listed ----------------

// checkAnnotRemovalComplete: "no … widget annotations" remain. removePageAnnotationForSig filters the page's
// /Annots array by comparing each element with the widget's reference; an array may list a reference more than
// once (validation accepts it), so the loop that does the comparison must run to the end of the array: its only
// exits are the loop head's (range exhausted) and error returns.
func checkAnnotRemovalComplete(c *Ctx) {
	p, r := c.P, c.R
	const fid = "pkg/pdfcpu/model.removePageAnnotationForSig"
	fn := p.Func(fid)
	if fn == nil || len(fn.Params) < 3 {
		r.Bad("C29.R8", fid, "anchor", "", "UNRESOLVED-ANCHOR")
		return
	}
	ref := fn.Params[2]
	isRef := func(v ssa.Value) bool {
		for {
			switch x := v.(type) {
			case *ssa.MakeInterface:
				v = x.X
				continue
			case *ssa.ChangeInterface:
				v = x.X
				continue
			}
			return v == ssa.Value(ref)
		}
	}
	n := 0
	for _, l := range naturalLoops(fn) {
		compares := false
		for b := range l.blocks {
			for _, in := range b.Instrs {
				if bo, ok := in.(*ssa.BinOp); ok && (bo.Op == token.EQL || bo.Op == token.NEQ) && (isRef(bo.X) || isRef(bo.Y)) {
					compares = true
				}
			}
		}
		if !compares {
			continue
		}
		n++
		var early []string
		for b := range l.blocks {
			if b == l.header {
				continue
			}
			for _, s := range b.Succs {
				if l.blocks[s] {
					continue
				}
				errOnly := true
				blocks := reachableBlocks(s)
				blocks[s] = true
				for bb := range blocks {
					if len(bb.Instrs) == 0 {
						continue
					}
					if ret, ok := bb.Instrs[len(bb.Instrs)-1].(*ssa.Return); ok {
						if k, ok := returnErrKind(ret); !ok || k != errNonNil {
							errOnly = false
						}
					}
				}
				if !errOnly {
					early = append(early, p.Pos(lastPos(b)))
				}
			}
		}
		sort.Strings(early)
		if len(early) > 0 {
			r.Bad("C29.R8", fid, "loop over /Annots", early[0], "the loop that compares the page's annotation references with the widget's reference is left before the end of the array: a widget listed twice in /Annots stays on the page (and keeps the signature field and value reachable) while the removal reports success")
		} else {
			r.OK("C29.R8", fid, "loop over /Annots", p.Pos(lastPos(l.header)), "the comparing loop is left only when the array is exhausted (or with an error)", true)
		}
	}
	if n == 0 {
		r.Bad("C29.R8", fid, "loop over /Annots", p.Pos(fn.Pos()), "UNDECIDED: no loop that compares array elements with the widget's reference")
	}
}

// ---------------- C29.R9 (round 4 seed C29-H): the option applies to every command the gate names ----------------

// checkRemoveSignaturesModes: the option conf.RemoveSignatures removes signatures as part of optimize and of the three
// merge commands; the gate in ReadAndValidate asks CommandMode.AllowRemoveSignatures. The set of command modes that
// predicate compares with must be {MERGEAPPEND, MERGECREATE, MERGECREATEZIP, OPTIMIZE}: a missing mode makes that command
// skip the removal silently — the signed inputs' widgets and values are written to the output with --rmsig given.
func checkRemoveSignaturesModes(c *Ctx) {
	p, r := c.P, c.R
	const fid = "pkg/pdfcpu/model.(CommandMode).AllowRemoveSignatures"
	fn := p.Func(fid)
	if fn == nil {
		r.Bad("C29.R9", fid, "anchor", "", "UNRESOLVED-ANCHOR")
		return
	}
	got := map[string]bool{}
	eachInstr(fn, func(_ *ssa.BasicBlock, _ int, i ssa.Instruction) {
		switch x := i.(type) {
		case *ssa.BinOp:
			if x.Op == token.EQL {
				for _, v := range []ssa.Value{x.X, x.Y} {
					if cst, ok := v.(*ssa.Const); ok {
						if name := commandModeName(p, cst); name != "" {
							got[name] = true
						}
					}
				}
			}
		}
	})
	want := []string{"MERGEAPPEND", "MERGECREATE", "MERGECREATEZIP", "OPTIMIZE"}
	var miss []string
	for _, w := range want {
		if !got[w] {
			miss = append(miss, w)
		}
	}
	if len(miss) == 0 {
		r.OK("C29.R9", fid, "modes of the option", p.Pos(fn.Pos()), "compares with "+strings.Join(want, ", "), true)
	} else {
		r.Bad("C29.R9", fid, "modes of the option", p.Pos(fn.Pos()), "the predicate no longer names "+strings.Join(miss, ", ")+": with the RemoveSignatures option that command skips the removal without a word and writes the signature fields, widgets and values of its signed inputs")
	}
}

// ---------------- C29.R10 (round 4: a side observation of seed C29-G's agent, reproduced and repaired) ----------------

// checkWidgetWithoutPNotSkipped: the /P entry of a widget annotation is optional. In model.removeSigAnnot the edge on
// which the widget has no /P (IndirectRefEntry("P") == nil) must not lead to a return before something was called that
// takes the widget off a page (removePageAnnotationForSig, directly or through a helper): otherwise the removal reports
// success and the widget — with its field and signature value — stays on the page.
func checkWidgetWithoutPNotSkipped(c *Ctx) {
	p, r := c.P, c.R
	cg := c.CG()
	const fid = "pkg/pdfcpu/model.removeSigAnnot"
	fn := p.Func(fid)
	if fn == nil {
		r.Bad("C29.R10", fid, "anchor", "", "UNRESOLVED-ANCHOR")
		return
	}
	target := p.Func("pkg/pdfcpu/model.removePageAnnotationForSig")
	reaches := func(f *ssa.Function) bool {
		if f == nil {
			return false
		}
		if f == target {
			return true
		}
		for _, o := range cg.Out[f] {
			if o == target {
				return true
			}
		}
		return false
	}
	removes := func(b *ssa.BasicBlock) bool {
		for _, in := range b.Instrs {
			if call, ok := in.(*ssa.Call); ok {
				if f := staticCallee(call); f != nil && reaches(unwrapSynthetic(f)) {
					return true
				}
			}
		}
		return false
	}
	n := 0
	scope := []*ssa.Function{fn}
	for _, o := range cg.Out[fn] {
		if o.Pkg == fn.Pkg && o != target && len(o.Blocks) > 0 {
			scope = append(scope, o)
		}
	}
	for _, sf := range scope {
	sfid := FuncID(sf)
	eachInstr(sf, func(_ *ssa.BasicBlock, _ int, i ssa.Instruction) {
		bo, ok := i.(*ssa.BinOp)
		if !ok || (bo.Op != token.EQL && bo.Op != token.NEQ) {
			return
		}
		var other ssa.Value
		switch {
		case isNilConst(bo.Y):
			other = bo.X
		case isNilConst(bo.X):
			other = bo.Y
		default:
			return
		}
		call, ok := other.(*ssa.Call)
		if !ok {
			return
		}
		if f := staticCallee(call); f == nil || f.Name() != "IndirectRefEntry" || len(call.Call.Args) != 2 {
			return
		}
		if k, ok := constString(call.Call.Args[1]); !ok || k != "P" {
			return
		}
		for _, e := range condEdges(bo, bo.Op == token.EQL) {
			n++
			construct := fmt.Sprintf("widget without /P#%d", n)
			start := e.From.Succs[e.Succ]
			skipped := false
			seen := map[*ssa.BasicBlock]bool{start: true}
			work := []*ssa.BasicBlock{start}
			for len(work) > 0 && !skipped {
				b := work[len(work)-1]
				work = work[:len(work)-1]
				if removes(b) {
					continue
				}
				if len(b.Instrs) > 0 {
					if ret, ok := b.Instrs[len(b.Instrs)-1].(*ssa.Return); ok {
						if k, ok := returnErrKind(ret); !ok || k != errNonNil {
							skipped = true
						}
						continue
					}
				}
				for _, s := range b.Succs {
					if !seen[s] {
						seen[s] = true
						work = append(work, s)
					}
				}
			}
			if skipped {
				r.Bad("C29.R10", sfid, construct, p.Pos(bo.Pos()), "a signature widget that has no /P entry (the entry is optional) is skipped: the function returns without taking the widget off any page, the removal reports success, and the widget, its field and the signature value stay in the written document")
			} else {
				r.OK("C29.R10", sfid, construct, p.Pos(bo.Pos()), "without /P the widget is still taken off the pages before the function returns", true)
			}
		}
	})
	}
	if n == 0 {
		r.Bad("C29.R10", fid, "widget without /P", p.Pos(fn.Pos()), "UNDECIDED: no nil test of the widget's /P entry")
	}
}
