package main

import (
	"fmt"
	"go/constant"
	"go/token"
	"sort"
	"strings"

	"golang.org/x/tools/go/ssa"
)

// C35 (three structural clauses): document metadata edits behave like a key/value store.

func init() {
	register(&Check{
		ID:  "C35",
		Run: runC35,
		Explanation: "Decides three structural necessary conditions of 'after any sequence of metadata edits, listing returns exactly the state those edits describe': the edit functions and the functions that read the state back are separate code (edits write dictionary entries, listing reads what validation collected while reading the written file), so they must agree on names and separators. " +
			"(R1 decoded once) property names are dictionary keys of the Info dictionary; the writer escapes keys, the parser decodes them. In the functions of pkg/pdfcpu/validate/info.go, pkg/pdfcpu/property.go and pkg/pdfcpu/keyword.go no value that is a dictionary key (the key of a range over a types.Dict, or a string parameter that receives one at a call site in these files) is handed to types.DecodeName: a second decode turns '100#25' into '100%' and rejects 'C#'. The pinned tree did exactly that (repaired, 6a8eceee). " +
			"(R2 separators) keywords are stored as one text string: the separator the writer joins them with (the constant handed to strings.Join in finalizeKeywords), with white space trimmed, consists of characters the reader splits at (the rune constants compared in the FieldsFunc callback of validateKeywords), and the reader trims white space. " +
			"(R3 keys) each of the three viewer settings is set and reset by one file of pkg/api: the constant keys stored into the catalog there are the same as the keys deleted there, and all of them are keys of the validator's catalog table (which is what the listing is filled from). " +
			"(R4 depth) Node.HandleLeaf must not split a full leaf by pushing it down in place without rebalancing: the reader limits name-tree depth, sorted insertion makes the depth linear. Today it does (known finding: 255 attachments are written but none is listed). " +
			"NOT decided: set semantics over edit histories, keywords or values that contain a separator, attachment bytes and name-tree handling (C39), the text encoding of values (C13).",
		Rules: []string{
			"C35.R1 like-with-like: Info dictionary keys are not name-decoded a second time",
			"C35.R2 TABLE: the keyword writer's separator is one the keyword reader splits at",
			"C35.R3 siblings/TABLE: set and reset of a viewer setting use the same catalog key, known to the validator",
			"C35.R5 cut (= C13.R8): values that end in a character outside the BMP decode (surrogate bounds test)",
			"C35.R6 MPT: finalizeKeywords reaches the XMP clean-up on every successful path when the catalog has XMP metadata",
			"C35.R7 like-with-like: in-memory Info dictionary keys are accessed as they are, not name-encoded",
			"C35.R8 MPT: a name-tree node's own dictionary is deep-deleted only after its Kids entry was taken out",
			"C35.R9 like-with-like: the bytes of a hex string never reach Unescape (names are written as hex strings of raw bytes)",
			"C35.R10 flow: SetViewerPreferences populates the document's record from the caller's values, not the other way round",
			"C35.R11 independence: the name tree root is (re)bound in the Names dictionary whatever the dictionary already holds",
			"C35.R4 shape: the name-tree writer does not deepen a path by splitting a leaf in place (the reader refuses deep trees) — violated on the tree, known finding",
		},
		Assumptions: []string{"the parser decodes names (model.parseName calls types.DecodeName); listing reads the fields validation fills"},
		Level:       "other",
		Technique:   "writer/reader constant agreement and a who-may-decode rule on SSA",
		Note:        "Partial: names, separators and keys only.",
	})
}

func runC35(c *Ctx) {
	p, r := c.P, c.R
	r.MinInst["C35.R1"] = 2
	r.MinInst["C35.R2"] = 1
	r.MinInst["C35.R3"] = 3
	r.MinInst["C35.R4"] = 1
	checkNameTreeSplit(c)
	r.MinInst["C35.R5"] = 1
	checkSurrogateBounds(c, "C35.R5")
	r.MinInst["C35.R6"] = 1
	checkKeywordsXMPCleanup(c)
	r.MinInst["C35.R7"] = 2
	checkInfoKeysNotEncodedForAccess(c)
	r.MinInst["C35.R8"] = 1
	checkNameTreeNodeDeletion(c)
	r.MinInst["C35.R9"] = 3
	checkHexBytesNotUnescaped(c, "C35.R9")
	r.MinInst["C35.R10"] = 1
	checkViewerPrefMergeDirection(c)
	r.MinInst["C35.R11"] = 1
	checkNameTreeRootRebound(c)
	files := []string{"pkg/pdfcpu/validate/info.go", "pkg/pdfcpu/property.go", "pkg/pdfcpu/keyword.go"}
	inFiles := func(fn *ssa.Function) bool {
		f := p.File(fn.Pos())
		for _, x := range files {
			if strings.HasSuffix(f, x) {
				return true
			}
		}
		return false
	}
	var fns []*ssa.Function
	for _, fn := range p.Funcs {
		if isSubject(fn) && inFiles(fn) {
			fns = append(fns, fn)
		}
	}
	sort.Slice(fns, func(i, j int) bool { return FuncID(fns[i]) < FuncID(fns[j]) })
	// ---- R1: dictionary keys
	isDictRangeKey := func(v ssa.Value) bool {
		ex, ok := v.(*ssa.Extract)
		if !ok || ex.Index != 1 {
			return false
		}
		nx, ok := ex.Tuple.(*ssa.Next)
		if !ok {
			return false
		}
		rg, ok := nx.Iter.(*ssa.Range)
		return ok && strings.HasSuffix(rg.X.Type().String(), "types.Dict")
	}
	keyParams := map[*ssa.Parameter]bool{}
	for changed := true; changed; {
		changed = false
		for _, fn := range fns {
			eachInstr(fn, func(_ *ssa.BasicBlock, _ int, i ssa.Instruction) {
				call, ok := i.(*ssa.Call)
				if !ok {
					return
				}
				callee := staticCallee(call)
				if callee == nil || !inFiles(callee) {
					return
				}
				for k, a := range call.Call.Args {
					if k >= len(callee.Params) {
						break
					}
					isKey := false
					for _, l := range valueLeaves(a) {
						if isDictRangeKey(l) {
							isKey = true
						}
						if pa, ok := l.(*ssa.Parameter); ok && keyParams[pa] {
							isKey = true
						}
					}
					if isKey && !keyParams[callee.Params[k]] {
						keyParams[callee.Params[k]] = true
						changed = true
					}
				}
			})
		}
	}
	n := 0
	for _, fn := range fns {
		usesKey := false
		var badPos token.Pos
		eachInstr(fn, func(_ *ssa.BasicBlock, _ int, i ssa.Instruction) {
			switch x := i.(type) {
			case *ssa.Range:
				if strings.HasSuffix(x.X.Type().String(), "types.Dict") {
					usesKey = true
				}
			case *ssa.Call:
				if _, ref := callRef(x); strings.HasSuffix(ref, "types.DecodeName") && len(x.Call.Args) == 1 {
					for _, l := range valueLeaves(x.Call.Args[0]) {
						if isDictRangeKey(l) {
							badPos = x.Pos()
						}
						if pa, ok := l.(*ssa.Parameter); ok && keyParams[pa] {
							badPos = x.Pos()
						}
					}
				}
			}
		})
		for _, pa := range fn.Params {
			if keyParams[pa] {
				usesKey = true
			}
		}
		if !usesKey {
			continue
		}
		n++
		if badPos != token.NoPos {
			r.Bad("C35.R1", FuncID(fn), "dictionary keys are not decoded again", p.Pos(badPos), "a dictionary key — already decoded by the parser — is handed to types.DecodeName: a property name that contains '#' is listed under another name, and one in which '#' is not followed by two hex digits makes the document pdfcpu wrote fail to read")
		} else {
			r.OK("C35.R1", FuncID(fn), "dictionary keys are not decoded again", p.Pos(fn.Pos()), "handles dictionary keys and never hands one to DecodeName", true)
		}
	}
	if n == 0 {
		r.Bad("C35.R1", "pkg/pdfcpu/validate/info.go", "anchor", "", "UNRESOLVED-ANCHOR: no function that handles Info dictionary keys found")
	}
	// ---- R2: keyword separators
	wfn, rfn := p.Func("pkg/pdfcpu.finalizeKeywords"), p.Func("pkg/pdfcpu/validate.validateKeywords")
	if wfn == nil || rfn == nil {
		r.Bad("C35.R2", "pkg/pdfcpu.finalizeKeywords", "anchor", "", "UNRESOLVED-ANCHOR: keyword writer or reader not found")
	} else {
		sep, found := "", false
		var spos token.Pos
		eachInstr(wfn, func(_ *ssa.BasicBlock, _ int, i ssa.Instruction) {
			if call, ok := i.(*ssa.Call); ok {
				if _, ref := callRef(call); ref == "strings.Join" && len(call.Call.Args) == 2 {
					if s, ok := constString(call.Call.Args[1]); ok {
						sep, found, spos = s, true, call.Pos()
					}
				}
			}
		})
		splitAt := map[rune]bool{}
		trims := false
		var visit func(fn *ssa.Function)
		visit = func(fn *ssa.Function) {
			eachInstr(fn, func(_ *ssa.BasicBlock, _ int, i ssa.Instruction) {
				switch x := i.(type) {
				case *ssa.BinOp:
					if x.Op == token.EQL {
						for _, side := range []ssa.Value{x.X, x.Y} {
							if cst, ok := side.(*ssa.Const); ok && cst.Value != nil && cst.Value.Kind() == constant.Int && fn != rfn {
								if v, ok := constant.Int64Val(cst.Value); ok {
									splitAt[rune(v)] = true
								}
							}
						}
					}
				case *ssa.Call:
					if _, ref := callRef(x); ref == "strings.TrimSpace" {
						trims = true
					}
					if _, ref := callRef(x); ref == "strings.Split" && len(x.Call.Args) == 2 {
						if s, ok := constString(x.Call.Args[1]); ok {
							for _, ch := range s {
								splitAt[ch] = true
							}
						}
					}
				}
			})
			for _, a := range fn.AnonFuncs {
				visit(a)
			}
		}
		visit(rfn)
		core := strings.TrimSpace(sep)
		switch {
		case !found:
			r.Bad("C35.R2", FuncID(wfn), "keyword separator", p.Pos(wfn.Pos()), "UNDECIDED: the keyword writer does not join the keywords with a constant separator")
		case core == "":
			r.Bad("C35.R2", FuncID(wfn), "keyword separator", p.Pos(spos), fmt.Sprintf("the keyword writer joins with %q, which is white space only: the reader does not split at white space, so all keywords read back as one", sep))
		default:
			okAll := true
			for _, ch := range core {
				if !splitAt[ch] {
					okAll = false
				}
			}
			if core != sep && !trims {
				okAll = false
			}
			var at []string
			for ch := range splitAt {
				at = append(at, fmt.Sprintf("%q", ch))
			}
			sort.Strings(at)
			if okAll {
				r.OK("C35.R2", FuncID(wfn), "keyword separator", p.Pos(spos), fmt.Sprintf("written with %q; the reader splits at %s and trims white space", sep, strings.Join(at, " ")), true)
			} else {
				r.Bad("C35.R2", FuncID(wfn), "keyword separator", p.Pos(spos), fmt.Sprintf("the keyword writer joins with %q, the reader splits at %s (trims white space: %v): the keywords that were added read back as one keyword, or with stray characters", sep, strings.Join(at, " "), trims))
			}
		}
	}
	// ---- R3: viewer settings keys
	valid := catalogKeysOfValidator(p)
	for _, file := range []string{"pkg/api/pageLayout.go", "pkg/api/pageMode.go", "pkg/api/viewerPreferences.go"} {
		stored, deleted := map[string]bool{}, map[string]bool{}
		var pos token.Pos
		collect := func(fn *ssa.Function) {
			eachInstr(fn, func(_ *ssa.BasicBlock, _ int, i ssa.Instruction) {
				switch x := i.(type) {
				case *ssa.MapUpdate:
					if isRootDictValue(x.Map) {
						if k, ok := constString(x.Key); ok {
							stored[k] = true
							pos = x.Pos()
						}
					}
				case *ssa.Call:
					if b, ok := x.Call.Value.(*ssa.Builtin); ok && b.Name() == "delete" && len(x.Call.Args) == 2 && isRootDictValue(x.Call.Args[0]) {
						if k, ok := constString(x.Call.Args[1]); ok {
							deleted[k] = true
							pos = x.Pos()
						}
					}
				}
			})
		}
		for _, fn := range p.Funcs {
			if isSubject(fn) && strings.HasSuffix(p.File(fn.Pos()), file) {
				collect(fn)
				// one level of callees in pkg/pdfcpu/model that store into the catalog (ViewerPreferences are bound there)
				eachInstr(fn, func(_ *ssa.BasicBlock, _ int, i ssa.Instruction) {
					if call, ok := i.(*ssa.Call); ok {
						if f := staticCallee(call); f != nil && f.Pkg != nil && strings.HasSuffix(f.Pkg.Pkg.Path(), "/pkg/pdfcpu/model") && strings.Contains(f.Name(), "iewerPref") {
							collect(f)
						}
					}
				})
			}
		}
		s, d := keysOf(stored), keysOf(deleted)
		construct := "catalog key of " + strings.TrimSuffix(file[strings.LastIndex(file, "/")+1:], ".go")
		var bad []string
		if len(s) == 0 || len(d) == 0 {
			bad = append(bad, fmt.Sprintf("UNDECIDED: stores %v, deletes %v — a setter or a resetter with a constant key is missing", s, d))
		} else if strings.Join(s, ",") != strings.Join(d, ",") {
			bad = append(bad, fmt.Sprintf("the setting is stored under %v and reset by deleting %v", s, d))
		}
		for _, k := range append(append([]string{}, s...), d...) {
			if !valid[k] {
				bad = append(bad, fmt.Sprintf("%q is not a key of the validator's catalog table, so listing (filled by validation) never sees it", k))
			}
		}
		if len(bad) > 0 {
			r.Bad("C35.R3", file, construct, p.Pos(pos), strings.Join(bad, "; "))
		} else {
			r.OK("C35.R3", file, construct, p.Pos(pos), fmt.Sprintf("set and reset use %v, a key of the validator's catalog table", s), true)
		}
	}
}

// R4 (depth): attachments live in the EmbeddedFiles name tree. The reader refuses a name tree deeper than the
// recursion limit (strict: error; relaxed: the tree is dropped, the attachments vanish from every listing), so the
// writer has to keep its own trees shallow. Node.HandleLeaf splits a full leaf by turning that leaf itself into an
// intermediate node with two new kid leaves (a store into the receiver's Kids field of a slice built there): each
// split lengthens that path by one and nothing on the insertion path (Add, updateNameTreeLimits) ever rebalances, so
// inserting names in sorted order — what adding files f0001, f0002 … does — builds a chain whose depth grows linearly
// (one level per two insertions with maxEntries = 3). The rule reports the push-down split; on today's tree it is a
// genuine defect (255 attachments: depth 101 > limit 100, listing returns nothing) and is recorded as a known finding,
// because the repair is a rebalancing insertion, not a small patch.
func checkNameTreeSplit(c *Ctx) {
	p, r := c.P, c.R
	const fid = "pkg/pdfcpu/model.(*Node).HandleLeaf"
	fn := p.Func(fid)
	if fn == nil || len(fn.Params) == 0 {
		r.Bad("C35.R4", fid, "anchor", "", "UNRESOLVED-ANCHOR")
		return
	}
	recv := fn.Params[0]
	n := 0
	eachInstr(fn, func(_ *ssa.BasicBlock, _ int, i ssa.Instruction) {
		st, ok := i.(*ssa.Store)
		if !ok {
			return
		}
		fa, ok := st.Addr.(*ssa.FieldAddr)
		if !ok || fa.X != ssa.Value(recv) {
			return
		}
		f := structField(fa.X.Type(), fa.Field)
		if f == nil || f.Name() != "Kids" {
			return
		}
		if isNilConst(st.Val) {
			return
		}
		n++
		r.Bad("C35.R4", fid, "leaf split pushes down", p.Pos(st.Pos()), "a full leaf is split by making the leaf itself an intermediate node with two new kids; nothing on the insertion path rebalances, so names inserted in sorted order build a chain whose depth grows with the number of entries — beyond the recursion limit the reader drops the whole tree and every attachment disappears from listing and extraction")
	})
	if n == 0 {
		r.OK("C35.R4", fid, "leaf split pushes down", p.Pos(fn.Pos()), "the leaf handler does not deepen the tree in place", true)
	}
}


// R6: listing takes the union of the Info dictionary's Keywords and the catalog XMP's pdf:Keywords / dc:subject, so an
// edit has to update both. In finalizeKeywords every successful return is either behind CatalogXMPMeta == nil or after
// the call that removes the keywords from the metadata stream.
func checkKeywordsXMPCleanup(c *Ctx) {
	p, r := c.P, c.R
	const fid = "pkg/pdfcpu.finalizeKeywords"
	fn := p.Func(fid)
	if fn == nil {
		r.Bad("C35.R6", fid, "anchor", "", "UNRESOLVED-ANCHOR")
		return
	}
	var nilEdges []Edge
	eachInstr(fn, func(_ *ssa.BasicBlock, _ int, i ssa.Instruction) {
		bo, ok := i.(*ssa.BinOp)
		if !ok || (bo.Op != token.EQL && bo.Op != token.NEQ) {
			return
		}
		var other ssa.Value
		switch {
		case isNilConst(bo.Y):
			other = bo.X
		case isNilConst(bo.X):
			other = bo.Y
		default:
			return
		}
		if strings.HasSuffix(fieldPath(other), "CatalogXMPMeta") {
			nilEdges = append(nilEdges, condEdges(bo, bo.Op == token.EQL)...)
		}
	})
	cleans := func(b *ssa.BasicBlock) bool {
		for _, in := range b.Instrs {
			if call, ok := in.(*ssa.Call); ok {
				if f := staticCallee(call); f != nil && f.Name() == "removeKeywordsFromMetadata" {
					return true
				}
			}
		}
		return false
	}
	free := map[*ssa.BasicBlock]bool{fn.Blocks[0]: true}
	work := []*ssa.BasicBlock{fn.Blocks[0]}
	for len(work) > 0 {
		b := work[len(work)-1]
		work = work[:len(work)-1]
		if cleans(b) {
			continue
		}
		for si, s := range b.Succs {
			isNilEdge := false
			for _, e := range nilEdges {
				if e.From == b && e.Succ == si {
					isNilEdge = true // no XMP on this edge: nothing to clean
				}
			}
			if isNilEdge {
				continue
			}
			if !free[s] {
				free[s] = true
				work = append(work, s)
			}
		}
	}
	n := 0
	for _, ret := range returnsOf(fn) {
		if k, ok := returnErrKind(ret); ok && k == errNonNil {
			continue
		}
		n++
		construct := fmt.Sprintf("successful return#%d", n)
		b := ret.Block()
		switch {
		case !free[b] || cleans(b):
			r.OK("C35.R6", fid, construct, posOrFn(p, ret, fn), "every path to this return cleans the XMP keywords or takes the CatalogXMPMeta == nil edge", true)
		default:
			r.Bad("C35.R6", fid, construct, posOrFn(p, ret, fn), "the keyword edit can finish without updating the catalog's XMP metadata although the document may have some: listing takes the union of both, so keywords that were just removed are listed again")
		}
	}
	if n == 0 {
		r.Bad("C35.R6", fid, "successful returns", p.Pos(fn.Pos()), "UNDECIDED")
	}
}

// R7: the mirror image of R1. Keys of a dictionary in memory are decoded; a lookup, store or delete with
// types.EncodeName(k) as the key addresses an entry only when the name needs no escape. In property.go and keyword.go
// no result of EncodeName is used as a key of a types.Dict.
func checkInfoKeysNotEncodedForAccess(c *Ctx) {
	p, r := c.P, c.R
	n := 0
	for _, fn := range p.Funcs {
		if !isSubject(fn) {
			continue
		}
		f := p.File(fn.Pos())
		if !strings.HasSuffix(f, "pkg/pdfcpu/property.go") && !strings.HasSuffix(f, "pkg/pdfcpu/keyword.go") {
			continue
		}
		isEncoded := func(v ssa.Value) bool {
			for _, l := range valueLeaves(v) {
				if call, ok := l.(*ssa.Call); ok {
					if _, ref := callRef(call); strings.HasSuffix(ref, "types.EncodeName") {
						return true
					}
				}
			}
			return false
		}
		isDict := func(v ssa.Value) bool { return strings.HasSuffix(v.Type().String(), "types.Dict") }
		k := 0
		eachInstr(fn, func(_ *ssa.BasicBlock, _ int, i ssa.Instruction) {
			var key ssa.Value
			switch x := i.(type) {
			case *ssa.MapUpdate:
				if isDict(x.Map) {
					key = x.Key
				}
			case *ssa.Lookup:
				if isDict(x.X) {
					key = x.Index
				}
			case *ssa.Call:
				if b, ok := x.Call.Value.(*ssa.Builtin); ok && b.Name() == "delete" && len(x.Call.Args) == 2 && isDict(x.Call.Args[0]) {
					key = x.Call.Args[1]
				}
			}
			if key == nil {
				return
			}
			if _, isConst := key.(*ssa.Const); isConst {
				return
			}
			k++
			n++
			construct := fmt.Sprintf("dictionary access with a computed key#%d", k)
			if isEncoded(key) {
				r.Bad("C35.R7", FuncID(fn), construct, p.Pos(i.Pos()), "an in-memory dictionary is accessed with types.EncodeName(k) as the key; keys are held decoded, so an entry whose name needs an escape (a blank, '#', a delimiter) is not found — removing such a property reports success and leaves it in place")
			} else {
				r.OK("C35.R7", FuncID(fn), construct, p.Pos(i.Pos()), "the key is used as it is", true)
			}
		})
	}
	if n == 0 {
		r.Bad("C35.R7", "pkg/pdfcpu/property.go", "anchor", "", "UNRESOLVED-ANCHOR: no dictionary access with a computed key in property.go / keyword.go")
	}
}

// R8: removing a name-tree entry may collapse a node. xRefTable.DeleteObject is a DEEP delete: it frees everything the
// object refers to. A node's dictionary D still lists the node's kids under /Kids, so wherever a Node method hands its
// own receiver's D to DeleteObject while kids survive, the Kids entry has to be taken out of that dictionary first:
// every such call is dominated by a Delete("Kids") on the same field. (A kid that was just emptied is a leaf; its D has
// no Kids.) Violated on the pinned tree — removing attachments one by one freed the remaining ones — repaired.
func checkNameTreeNodeDeletion(c *Ctx) {
	p, r := c.P, c.R
	n := 0
	for _, fn := range p.Funcs {
		if !isSubject(fn) || !strings.HasSuffix(p.File(fn.Pos()), "pkg/pdfcpu/model/nameTree.go") || fn.Signature.Recv() == nil || len(fn.Params) == 0 {
			continue
		}
		recv := fn.Params[0]
		isRecvD := func(v ssa.Value) bool {
			for {
				switch x := v.(type) {
				case *ssa.MakeInterface:
					v = x.X
					continue
				case *ssa.UnOp:
					if x.Op == token.MUL {
						if fa, ok := x.X.(*ssa.FieldAddr); ok && fa.X == ssa.Value(recv) {
							f := structField(fa.X.Type(), fa.Field)
							return f != nil && f.Name() == "D"
						}
					}
				}
				return false
			}
		}
		// blocks in which Kids is taken out of the receiver's D
		strips := map[*ssa.BasicBlock]bool{}
		eachInstr(fn, func(b *ssa.BasicBlock, _ int, i ssa.Instruction) {
			call, ok := i.(*ssa.Call)
			if !ok {
				return
			}
			if bt, ok := call.Call.Value.(*ssa.Builtin); ok && bt.Name() == "delete" && len(call.Call.Args) == 2 && isRecvD(call.Call.Args[0]) {
				if k, ok := constString(call.Call.Args[1]); ok && k == "Kids" {
					strips[b] = true
				}
				return
			}
			if f := staticCallee(call); f != nil && f.Name() == "Delete" && len(call.Call.Args) == 2 && isRecvD(call.Call.Args[0]) {
				if k, ok := constString(call.Call.Args[1]); ok && k == "Kids" {
					strips[b] = true
				}
			}
		})
		k := 0
		eachInstr(fn, func(b *ssa.BasicBlock, idx int, i ssa.Instruction) {
			call, ok := i.(*ssa.Call)
			if !ok {
				return
			}
			f := staticCallee(call)
			if f == nil || f.Name() != "DeleteObject" || len(call.Call.Args) != 2 || !isRecvD(call.Call.Args[1]) {
				return
			}
			k++
			n++
			construct := fmt.Sprintf("deep delete of the node's own dictionary#%d", k)
			// must-pass-through: the call is not reachable from the entry without a strip, taking the edge on which the
			// dictionary is nil as satisfied (nothing to delete)
			var nilEdges []Edge
			eachInstr(fn, func(_ *ssa.BasicBlock, _ int, in ssa.Instruction) {
				bo, ok := in.(*ssa.BinOp)
				if !ok || (bo.Op != token.EQL && bo.Op != token.NEQ) {
					return
				}
				if (isNilConst(bo.Y) && isRecvD(bo.X)) || (isNilConst(bo.X) && isRecvD(bo.Y)) {
					nilEdges = append(nilEdges, condEdges(bo, bo.Op == token.EQL)...)
				}
			})
			free := map[*ssa.BasicBlock]bool{fn.Blocks[0]: true}
			work := []*ssa.BasicBlock{fn.Blocks[0]}
			for len(work) > 0 {
				x := work[len(work)-1]
				work = work[:len(work)-1]
				if strips[x] && x != b {
					continue
				}
				for si, sx := range x.Succs {
					skip := false
					for _, e := range nilEdges {
						if e.From == x && e.Succ == si {
							skip = true
						}
					}
					if skip || free[sx] {
						continue
					}
					free[sx] = true
					work = append(work, sx)
				}
			}
			okSite := !free[b] || strips[b]
			if okSite {
				r.OK("C35.R8", FuncID(fn), construct, p.Pos(call.Pos()), "the Kids entry is taken out of the dictionary first", true)
			} else {
				r.Bad("C35.R8", FuncID(fn), construct, p.Pos(call.Pos()), "a node's dictionary is deep-deleted while it still lists the node's kids: the subtree of the kid that is being kept — the values of all remaining names, e.g. the file specifications of the other attachments — is freed as well and the written document does not validate")
			}
		})
	}
	if n == 0 {
		r.Bad("C35.R8", "pkg/pdfcpu/model/nameTree.go", "anchor", "", "UNRESOLVED-ANCHOR: no deep delete of a node's own dictionary found")
	}
}

// R9 (like with like): a hex string <…> carries its bytes literally — there is no escape mechanism (ISO 32000 7.3.4.3) —
// and pdfcpu writes name-tree keys and bookmark destinations as hex strings of the raw bytes. Nothing that derives from
// HexLiteral.Bytes() is handed to types.Unescape (module-wide). Violated on the pinned tree by HexLiteralToString
// (a backslash in an attachment name was read back as an escape), repaired.
func checkHexBytesNotUnescaped(c *Ctx, rule string) {
	p, r := c.P, c.R
	n, readers := 0, 0
	for _, fn := range p.Funcs {
		if !isSubject(fn) {
			continue
		}
		var fromHex []ssa.Value
		eachInstr(fn, func(_ *ssa.BasicBlock, _ int, i ssa.Instruction) {
			if call, ok := i.(*ssa.Call); ok {
				if _, ref := callRef(call); strings.HasSuffix(ref, "types.HexLiteral.Bytes") {
					if call.Referrers() != nil {
						for _, rf := range *call.Referrers() {
							if ex, ok := rf.(*ssa.Extract); ok && ex.Index == 0 {
								fromHex = append(fromHex, ex)
							}
						}
					}
				}
			}
		})
		if len(fromHex) == 0 {
			continue
		}
		readers++
		t := taintFrom(c, fromHex)
		bad := token.NoPos
		eachInstr(fn, func(_ *ssa.BasicBlock, _ int, i ssa.Instruction) {
			call, ok := i.(*ssa.Call)
			if !ok {
				return
			}
			if _, ref := callRef(call); !strings.HasSuffix(ref, "types.Unescape") {
				return
			}
			for _, a := range call.Call.Args {
				if t[a] {
					bad = call.Pos()
				}
			}
		})
		n++
		if bad != token.NoPos {
			r.Bad(rule, FuncID(fn), "hex string bytes are literal", p.Pos(bad), "the decoded bytes of a hex string are run through Unescape: a backslash in them (pdfcpu writes name-tree keys and destinations as hex strings of the raw bytes) is taken for an escape, so the name read back is not the name that was written")
		} else {
			r.OK(rule, FuncID(fn), "hex string bytes are literal", p.Pos(fn.Pos()), "the bytes of the hex string never reach Unescape", true)
		}
	}
	if readers == 0 {
		r.Bad(rule, "pkg/pdfcpu/types", "anchor", "", "UNRESOLVED-ANCHOR: no caller of HexLiteral.Bytes found")
	}
}

// R10: setting viewer preferences merges the NEW values into what the document has: in api.SetViewerPreferences the
// receiver of ViewerPreferences.Populate is the context's record and the argument is the caller's — Populate copies its
// argument over its receiver, so with the roles swapped a preference that is already present can never be changed.
func checkViewerPrefMergeDirection(c *Ctx) {
	p, r := c.P, c.R
	const fid = "pkg/api.SetViewerPreferences"
	fn := p.Func(fid)
	if fn == nil {
		r.Bad("C35.R10", fid, "anchor", "", "UNRESOLVED-ANCHOR")
		return
	}
	n := 0
	eachInstr(fn, func(_ *ssa.BasicBlock, _ int, i ssa.Instruction) {
		call, ok := i.(*ssa.Call)
		if !ok {
			return
		}
		if f := staticCallee(call); f == nil || f.Name() != "Populate" || len(call.Call.Args) != 2 {
			return
		}
		n++
		fromCtx := func(v ssa.Value) bool { return strings.Contains(accessPath(v), "ViewerPref") }
		if fromCtx(call.Call.Args[0]) && !fromCtx(call.Call.Args[1]) {
			r.OK("C35.R10", fid, "merge direction", p.Pos(call.Pos()), "the document's record is populated from the caller's values", true)
		} else {
			r.Bad("C35.R10", fid, "merge direction", p.Pos(call.Pos()), "Populate copies its argument over its receiver; here the receiver is not the document's record (or the argument is): values already in the document override the new ones, so a preference that is present cannot be changed although the call reports success")
		}
	})
	if n == 0 {
		r.Bad("C35.R10", fid, "merge direction", p.Pos(fn.Pos()), "UNDECIDED: SetViewerPreferences does not call Populate")
	}
}

// R11: when the name trees are bound for writing, the root node's dictionary is stored into the catalog's Names
// dictionary UNCONDITIONALLY: a removal may have collapsed the tree into another node (the root dictionary changes
// identity), so "keep the existing entry" leaves the Names entry pointing at the old, now empty root — the attachments
// that remain are not written. In bindNameTreeNodeDict the Update of the Names entry with the node's dictionary is not
// control-dependent on a lookup of that entry.
func checkNameTreeRootRebound(c *Ctx) {
	p, r := c.P, c.R
	var fn *ssa.Function
	for _, f := range p.Funcs {
		if isSubject(f) && f.Name() == "bindNameTreeNodeDict" {
			fn = f
		}
	}
	if fn == nil {
		r.Bad("C35.R11", "pkg/pdfcpu/model.bindNameTreeNodeDict", "anchor", "", "UNRESOLVED-ANCHOR")
		return
	}
	n := 0
	eachInstr(fn, func(b *ssa.BasicBlock, _ int, i ssa.Instruction) {
		call, ok := i.(*ssa.Call)
		if !ok {
			return
		}
		f := staticCallee(call)
		if f == nil || f.Name() != "Update" || len(call.Call.Args) != 3 {
			return
		}
		if !strings.HasSuffix(fieldPath(call.Call.Args[2]), "D") && !strings.Contains(exprName(call.Call.Args[2]), "D") {
			// value is not a node dictionary
		}
		n++
		// control dependence on a Find/lookup of the same dictionary
		dependent := false
		for _, x := range fn.Blocks {
			if len(x.Instrs) == 0 {
				continue
			}
			ifi, ok := x.Instrs[len(x.Instrs)-1].(*ssa.If)
			if !ok {
				continue
			}
			if edgeDominates(Edge{x, 0}, b) == edgeDominates(Edge{x, 1}, b) {
				continue
			}
			for _, l := range valueLeaves(ifi.Cond) {
				v := l
				if u, ok := v.(*ssa.UnOp); ok {
					v = u.X
				}
				if ex, ok := v.(*ssa.Extract); ok {
					if cl, ok := ex.Tuple.(*ssa.Call); ok {
						if g := staticCallee(cl); g != nil && (g.Name() == "Find" || strings.HasSuffix(g.Name(), "Entry")) && len(cl.Call.Args) > 0 && cl.Call.Args[0] == call.Call.Args[0] {
							dependent = true
						}
					}
					if _, ok := ex.Tuple.(*ssa.Lookup); ok {
						dependent = true
					}
				}
			}
		}
		if dependent {
			r.Bad("C35.R11", FuncID(fn), fmt.Sprintf("Names entry rebound#%d", n), p.Pos(call.Pos()), "the tree root is stored into the Names dictionary only when the entry is missing: after a removal collapsed the tree into another node the entry keeps pointing at the old, empty root, and the remaining attachments are written nowhere (listing returns nothing although the removal reported success)")
		} else {
			r.OK("C35.R11", FuncID(fn), fmt.Sprintf("Names entry rebound#%d", n), p.Pos(call.Pos()), "stored whatever the Names dictionary holds", true)
		}
	})
	if n == 0 {
		r.Bad("C35.R11", FuncID(fn), "Names entry rebound", p.Pos(fn.Pos()), "UNDECIDED: no Update of the Names dictionary in bindNameTreeNodeDict")
	}
}
