package main

import (
	"fmt"
	"go/token"
	"go/types"
	"sort"
	"strings"

	"golang.org/x/tools/go/ssa"
)

// C40 — concurrent use of the API is race-free (partial: shared-state discipline).

func init() {
	register(&Check{
		ID:  "C40",
		Run: runC40,
		Explanation: "Decides the shared-state discipline that makes concurrent API use race-free: (R1 guarded-by) every read and write of font.userFontMetrics happens with font.userFontMetricsLock held (RLock suffices for reads), of font.loadUserFontsErr with font.loadUserFontsMutex held, and of the fields of pdfcpu.trustedCertificatePool with its embedded RWMutex held — lock state is a per-function must-dataflow (Lock/RLock gen, non-deferred Unlock kill) with entry states inherited from all call sites (requires-lock summaries) and, for closures, from the point where the closure is created (sync.Once.Do bodies); (R2 closed world) every package-level variable of the module that is written, or on which a method is invoked through an interface/pointer value, in code reachable from an exported function of pkg/api or pkg/pdfcpu is either in the guarded-by table, of a sync/atomic type, written only in package initialisers, or listed in the configuration-time / concurrency-safe tables with a reason (loggers, ConfigPath/UserFontDir/TrustedCertDir set while loading configuration — the property presupposes the configuration directory disabled); a new stateful package-level object (e.g. a shared hash.Hash or buffer) is reported; (R3 lock hygiene) every Lock/RLock in these packages is paired with a deferred or all-path Unlock on the same mutex, no function acquires font.loadUserFontsMutex while already inside loadUserFontsOnce.Do (the established order is mutex → once), and no RLock→Lock upgrade. NOT decided: determinism of results, races on data reachable only from caller-owned *model.Context values, std-lib internals.",
		Rules: []string{
			"C40.R1 LOCK: guarded-by table with lock-state dataflow and call-site summaries",
			"C40.R2 closed world of shared package-level state reachable from the API",
			"C40.R3 lock hygiene and lock order (mutex before once)",
		},
		Assumptions: []string{"configuration directory disabled (documented multi-threaded mode); loggers are configured before concurrent use"},
		Technique:   "lock-set must-dataflow on SSA with interprocedural entry-state summaries over the call graph; reachability-restricted enumeration of package-level state accesses; lock-order check",
		Note:        "Partial: shared-state discipline, not a race proof for all memory.",
	})
}

type guardedVar struct {
	global string // "pkg/font.userFontMetrics" ; fields of a struct global use the global's name
	lock   string // lock key
	why    string
}

var c40Guarded = []guardedVar{
	{"pkg/font.userFontMetrics", "pkg/font.userFontMetricsLock", "user font metrics map, rebuilt by ReloadUserFonts"},
	{"pkg/font.loadUserFontsErr", "pkg/font.loadUserFontsMutex", "result of the last user font load"},
	{"pkg/pdfcpu.trustedCertificatePool", "pkg/pdfcpu.trustedCertificatePool", "certificate pool cache (embedded RWMutex)"},
	{"pkg/pdfcpu/model.UserCertPool", "pkg/pdfcpu.trustedCertificatePool", "exported mirror of the cached pool, written together with it"},
}

// configuration-time / concurrency-safe globals: name -> reason
var c40ConfigTime = map[string]string{
	"pkg/pdfcpu/model.ConfigPath":            "set by DisableConfigDir / configuration loading before concurrent use (documented)",
	"pkg/font.UserFontDir":                   "set while loading the configuration directory (disabled in the multi-threaded mode)",
	"pkg/pdfcpu/model.TrustedCertDir":        "set while loading the configuration directory",
	"pkg/pdfcpu/model.loadedDefaultConfig":   "configuration cache filled while loading the configuration directory",
	"pkg/pdfcpu/model.Perms":                 "configuration-time permission defaults",
	"pkg/log.CLI":                            "logger: set through log.SetCLILogger before concurrent use; pkg/cli only",
	"pkg/log.Debug":                          "logger (configuration-time)", "pkg/log.Info": "logger (configuration-time)", "pkg/log.Stats": "logger (configuration-time)",
	"pkg/log.Trace":                          "logger (configuration-time)", "pkg/log.Parse": "logger (configuration-time)", "pkg/log.Read": "logger (configuration-time)",
	"pkg/log.Validate":                       "logger (configuration-time)", "pkg/log.Optimize": "logger (configuration-time)", "pkg/log.Write": "logger (configuration-time)",
}

func globalRef(g *ssa.Global) string {
	pp := strings.TrimPrefix(strings.TrimPrefix(g.Pkg.Pkg.Path(), modPath), "/")
	return pp + "." + g.Name()
}

// globalOf: the module Global that address/value v is (a field/element of), following loads, field and index addressing.
func globalOf(v ssa.Value, depth int) *ssa.Global {
	for i := 0; i < 8 && v != nil; i++ {
		switch x := v.(type) {
		case *ssa.Global:
			if x.Pkg != nil && strings.HasPrefix(x.Pkg.Pkg.Path(), modPath) {
				return x
			}
			return nil
		case *ssa.FieldAddr:
			v = x.X
		case *ssa.IndexAddr:
			v = x.X
		case *ssa.UnOp:
			if x.Op != token.MUL {
				return nil
			}
			v = x.X
		case *ssa.Field:
			v = x.X
		case *ssa.ChangeType:
			v = x.X
		default:
			return nil
		}
	}
	return nil
}

// lockEvent classifies a call as Lock/RLock/Unlock/RUnlock on a module-global mutex; returns the lock key.
func lockEvent(call ssa.CallInstruction) (kind, key string) {
	cc := call.Common()
	f := cc.StaticCallee()
	if f == nil || f.Object() == nil || f.Object().Pkg() == nil || f.Object().Pkg().Path() != "sync" {
		return "", ""
	}
	name := f.Name()
	switch name {
	case "Lock", "RLock", "Unlock", "RUnlock":
	default:
		return "", ""
	}
	if len(cc.Args) == 0 {
		return "", ""
	}
	g := globalOf(cc.Args[0], 0)
	if g == nil {
		return "", ""
	}
	return name, globalRef(g)
}

type lockState struct {
	c      *Ctx
	flows  map[*ssa.Function]*FactFlow
	entry  map[*ssa.Function]map[string]bool
	inProg map[*ssa.Function]bool
}

func (ls *lockState) flow(fn *ssa.Function) *FactFlow {
	if ff, ok := ls.flows[fn]; ok {
		return ff
	}
	var init []string
	for k := range ls.entryState(fn) {
		init = append(init, k)
	}
	sort.Strings(init)
	ff := NewFactFlow(fn, func(i ssa.Instruction) []string {
		call, ok := i.(*ssa.Call)
		if !ok {
			return nil
		}
		switch kind, key := lockEvent(call); kind {
		case "Lock":
			return []string{"L:" + key}
		case "RLock":
			return []string{"R:" + key}
		}
		return nil
	}, nil, func(i ssa.Instruction) []string {
		call, ok := i.(*ssa.Call) // deferred unlocks are *ssa.Defer: they do not kill
		if !ok {
			return nil
		}
		switch kind, key := lockEvent(call); kind {
		case "Unlock":
			return []string{"L:" + key}
		case "RUnlock":
			return []string{"R:" + key}
		}
		return nil
	}, init)
	ls.flows[fn] = ff
	return ff
}

// entryState: locks held on entry = intersection over all call sites (closures: at their creation site).
func (ls *lockState) entryState(fn *ssa.Function) map[string]bool {
	if st, ok := ls.entry[fn]; ok {
		return st
	}
	if ls.inProg[fn] {
		return map[string]bool{}
	}
	ls.inProg[fn] = true
	defer func() { ls.inProg[fn] = false }()
	var res map[string]bool
	meet := func(s map[string]bool) {
		if res == nil {
			res = copySet(s)
			return
		}
		for k := range res {
			if !s[k] {
				delete(res, k)
			}
		}
	}
	if par := fn.Parent(); par != nil {
		eachInstr(par, func(_ *ssa.BasicBlock, _ int, i ssa.Instruction) {
			uses := false
			if mc, ok := i.(*ssa.MakeClosure); ok && mc.Fn == fn {
				uses = true
			}
			for _, op := range i.Operands(nil) {
				if op != nil && *op == ssa.Value(fn) {
					uses = true // closure without free variables: a plain function value
				}
			}
			if uses {
				if _, isDefer := i.(*ssa.Defer); isDefer {
					meet(map[string]bool{})
					return
				}
				facts, un := ls.flow(par).At(i)
				if !un {
					meet(facts)
				}
			}
		})
	} else if fn.Object() != nil && !fn.Object().Exported() {
		for _, caller := range ls.c.CG().In[fn] {
			eachInstr(caller, func(_ *ssa.BasicBlock, _ int, i ssa.Instruction) {
				call, ok := i.(ssa.CallInstruction)
				if !ok || staticCallee(call) != fn {
					return
				}
				if _, isDefer := i.(*ssa.Defer); isDefer {
					meet(map[string]bool{})
					return
				}
				facts, un := ls.flow(caller).At(i)
				if !un {
					meet(facts)
				}
			})
		}
	}
	if res == nil {
		res = map[string]bool{}
	}
	ls.entry[fn] = res
	return res
}

func runC40(c *Ctx) {
	p, r := c.P, c.R
	r.MinInst["C40.R1"] = 10
	r.MinInst["C40.R2"] = 5
	r.MinInst["C40.R3"] = 4
	ls := &lockState{c: c, flows: map[*ssa.Function]*FactFlow{}, entry: map[*ssa.Function]map[string]bool{}, inProg: map[*ssa.Function]bool{}}
	guarded := map[string]guardedVar{}
	for _, g := range c40Guarded {
		guarded[g.global] = g
	}
	resolved := map[string]bool{}
	// ---- R1
	for _, fn := range p.Funcs {
		if strings.HasPrefix(fn.Name(), "init") && fn.Parent() == nil {
			continue
		}
		fn := fn
		cnt := map[string]int{}
		eachInstr(fn, func(_ *ssa.BasicBlock, _ int, i ssa.Instruction) {
			var addr ssa.Value
			write := false
			switch x := i.(type) {
			case *ssa.Store:
				addr, write = x.Addr, true
			case *ssa.UnOp:
				if x.Op == token.MUL {
					addr = x.X
				}
			case *ssa.MapUpdate:
				addr, write = x.Map, true
			case *ssa.Lookup:
				addr = x.X
			case *ssa.Range:
				addr = x.X
			default:
				return
			}
			g := globalOf(addr, 0)
			if g == nil {
				return
			}
			gv, ok := guarded[globalRef(g)]
			if !ok {
				return
			}
			// the mutex itself (embedded field) is not data
			if fa, isFA := addr.(*ssa.FieldAddr); isFA {
				if f := structField(fa.X.Type(), fa.Field); f != nil && strings.Contains(f.Type().String(), "sync.") {
					return
				}
			}
			// a load of the map header followed by Lookup/Range/MapUpdate is reported at that instruction; skip the bare load of a map/pointer global
			if ld, isLd := i.(*ssa.UnOp); isLd {
				if _, isG := ld.X.(*ssa.Global); isG {
					if _, isMap := ld.Type().Underlying().(*types.Map); isMap {
						return
					}
				}
			}
			resolved[gv.global] = true
			facts, un := ls.flow(fn).At(i)
			if un {
				return
			}
			kind := map[bool]string{true: "write", false: "read"}[write]
			cnt[gv.global+kind]++
			construct := fmt.Sprintf("%s %s#%d", kind, gv.global, cnt[gv.global+kind])
			held := facts["L:"+gv.lock] || (!write && facts["R:"+gv.lock])
			if held {
				r.OK("C40.R1", FuncID(fn), construct, p.Pos(i.Pos()), "accessed with "+gv.lock+" held", true)
			} else {
				r.Bad("C40.R1", FuncID(fn), construct, p.Pos(i.Pos()), fmt.Sprintf("%s of %s without %s held (%s): concurrent API calls race with ReloadUserFonts / certificate reloads", kind, gv.global, gv.lock, gv.why))
			}
		})
	}
	for _, g := range c40Guarded {
		if !resolved[g.global] {
			r.Bad("C40.R1", g.global, "anchor", "", "UNRESOLVED-ANCHOR: guarded variable "+g.global+" is not accessed anywhere (renamed?)")
		}
	}
	// ---- R2 closed world
	var roots []*ssa.Function
	for _, fn := range p.Funcs {
		if fn.Parent() == nil && fn.Object() != nil && fn.Object().Exported() {
			id := FuncID(fn)
			if strings.HasPrefix(id, "pkg/api.") || strings.HasPrefix(id, "pkg/pdfcpu.") {
				roots = append(roots, fn)
			}
		}
	}
	reach := c.CG().Reachable(roots)
	type acc struct {
		fn   *ssa.Function
		pos  token.Pos
		what string
	}
	writes := map[string][]acc{}
	invokes := map[string][]acc{}
	for fn := range reach {
		if strings.HasPrefix(fn.Name(), "init") && fn.Parent() == nil {
			continue
		}
		fn := fn
		eachInstr(fn, func(_ *ssa.BasicBlock, _ int, i ssa.Instruction) {
			switch x := i.(type) {
			case *ssa.Store:
				if g := globalOf(x.Addr, 0); g != nil {
					writes[globalRef(g)] = append(writes[globalRef(g)], acc{fn, i.Pos(), "store"})
				}
			case *ssa.MapUpdate:
				if g := globalOf(x.Map, 0); g != nil {
					writes[globalRef(g)] = append(writes[globalRef(g)], acc{fn, i.Pos(), "map update"})
				}
			case *ssa.Call:
				// method invoked on an interface / pointer value loaded from a global
				var recv ssa.Value
				if x.Call.IsInvoke() {
					recv = x.Call.Value
				} else if f := x.Call.StaticCallee(); f != nil && f.Signature.Recv() != nil && len(x.Call.Args) > 0 {
					if _, isPtr := f.Signature.Recv().Type().(*types.Pointer); isPtr {
						recv = x.Call.Args[0]
					}
				}
				if recv == nil {
					return
				}
				if kind, _ := lockEvent(x); kind != "" {
					return
				}
				if g := globalOf(recv, 0); g != nil {
					if ptr, ok := g.Type().(*types.Pointer); ok && isErrorType(ptr.Elem()) {
						return // sentinel errors: immutable values
					}
					invokes[globalRef(g)] = append(invokes[globalRef(g)], acc{fn, i.Pos(), "method " + instrLabel(x)})
				}
			}
		})
	}
	classify := func(name string, as []acc, kind string) {
		sort.Slice(as, func(a, b int) bool { return FuncID(as[a].fn) < FuncID(as[b].fn) })
		first := as[0]
		construct := kind + " " + name
		if _, ok := guarded[name]; ok {
			r.OK("C40.R2", name, construct, p.Pos(first.pos), "guarded-by table (R1)", false)
			return
		}
		if why, ok := c40ConfigTime[name]; ok {
			r.OK("C40.R2", name, construct, p.Pos(first.pos), "configuration-time: "+why, false)
			return
		}
		// sync / atomic typed globals
		if g := findGlobal(p, name); g != nil {
			ts := g.Type().String()
			if strings.Contains(ts, "sync.") || strings.Contains(ts, "sync/atomic.") || strings.Contains(ts, "atomic.") {
				r.OK("C40.R2", name, construct, p.Pos(first.pos), "synchronisation primitive / atomic", false)
				return
			}
			if kind == "invoke" {
				// value types with pointer receivers declared in std and documented safe
				for _, safe := range []string{"regexp.Regexp", "text/template", "encoding/base64.Encoding", "math/big.Int", "unicode.RangeTable", "time.Location", "strings.Replacer"} {
					if strings.Contains(ts, safe) {
						r.OK("C40.R2", name, construct, p.Pos(first.pos), "immutable / documented concurrency-safe std type "+safe, false)
						return
					}
				}
			}
		}
		r.Bad("C40.R2", name, construct, p.Pos(first.pos), fmt.Sprintf("package-level variable %s is %s in %s, which is reachable from the exported API, and is neither guarded by a lock, atomic, nor listed as configuration-time state: concurrent operations on independent inputs would share it (%d site(s))", name, map[string]string{"write": "written", "invoke": "mutated through a method call"}[kind], FuncID(first.fn), len(as)))
	}
	var names []string
	for n := range writes {
		names = append(names, n)
	}
	sort.Strings(names)
	for _, n := range names {
		classify(n, writes[n], "write")
	}
	names = names[:0]
	for n := range invokes {
		names = append(names, n)
	}
	sort.Strings(names)
	for _, n := range names {
		classify(n, invokes[n], "invoke")
	}
	// ---- R3 hygiene
	for _, fn := range p.Funcs {
		fn := fn
		k := 0
		eachInstr(fn, func(_ *ssa.BasicBlock, _ int, i ssa.Instruction) {
			call, ok := i.(*ssa.Call)
			if !ok {
				return
			}
			kind, key := lockEvent(call)
			if kind != "Lock" && kind != "RLock" {
				return
			}
			k++
			construct := fmt.Sprintf("%s %s#%d", kind, key, k)
			un := map[string]string{"Lock": "Unlock", "RLock": "RUnlock"}[kind]
			// released: a deferred unlock of the same key registered after this lock on every path, or an unlock on every path to every return
			released := false
			genI := map[ssa.Instruction]bool{}
			eachInstr(fn, func(_ *ssa.BasicBlock, _ int, j ssa.Instruction) {
				if cj, ok := j.(ssa.CallInstruction); ok {
					if k2, key2 := lockEvent(cj); k2 == un && key2 == key {
						genI[j] = true
					}
				}
			})
			ff := NewFactFlow(fn, func(j ssa.Instruction) []string {
				if genI[j] {
					return []string{"released"}
				}
				return nil
			}, nil, func(j ssa.Instruction) []string {
				if j == ssa.Instruction(call) {
					return []string{"released"}
				}
				return nil
			}, []string{"released"})
			released = true
			for _, ret := range returnsOf(fn) {
				if !ff.Holds(ret, "released") {
					released = false
				}
			}
			// upgrade / re-entry
			facts, _ := ls.flow(fn).At(call)
			reentry := facts["L:"+key] || facts["R:"+key]
			switch {
			case !released:
				r.Bad("C40.R3", FuncID(fn), construct, p.Pos(call.Pos()), "this lock is not released (deferred or on every path) before the function returns")
			case reentry:
				r.Bad("C40.R3", FuncID(fn), construct, p.Pos(call.Pos()), "the mutex is already held here (re-entry or RLock→Lock upgrade): sync mutexes are not reentrant, this deadlocks")
			default:
				r.OK("C40.R3", FuncID(fn), construct, p.Pos(call.Pos()), "released on every path; not held on entry", true)
			}
		})
	}
	// lock order: loadUserFontsMutex must not be acquired inside a sync.Once.Do closure of loadUserFontsOnce
	for _, fn := range p.Funcs {
		if fn.Parent() == nil {
			continue
		}
		// is this closure passed to (*sync.Once).Do ?
		par := fn.Parent()
		isOnceBody := false
		onceKey := ""
		eachInstr(par, func(_ *ssa.BasicBlock, _ int, i ssa.Instruction) {
			call, ok := i.(*ssa.Call)
			if !ok {
				return
			}
			f := call.Call.StaticCallee()
			if f == nil || f.Name() != "Do" || f.Object() == nil || f.Object().Pkg() == nil || f.Object().Pkg().Path() != "sync" {
				return
			}
			body := call.Call.Args[1]
			if mc, ok := body.(*ssa.MakeClosure); ok {
				body = mc.Fn
			}
			if body == ssa.Value(fn) {
				isOnceBody = true
				if g := globalOf(call.Call.Args[0], 0); g != nil {
					onceKey = globalRef(g)
				}
			}
		})
		if !isOnceBody {
			continue
		}
		bad := false
		var visit func(f *ssa.Function, depth int)
		seen := map[*ssa.Function]bool{}
		visit = func(f *ssa.Function, depth int) {
			if seen[f] || depth > 4 {
				return
			}
			seen[f] = true
			eachInstr(f, func(_ *ssa.BasicBlock, _ int, i ssa.Instruction) {
				call, ok := i.(ssa.CallInstruction)
				if !ok {
					return
				}
				if kind, key := lockEvent(call); (kind == "Lock" || kind == "RLock") && strings.HasSuffix(key, "Mutex") && strings.HasPrefix(key, strings.TrimSuffix(onceKey, onceKey[strings.LastIndex(onceKey, ".")+1:])) {
					// a mutex of the same package taken inside the once body
					if !ls.entryState(fn)["L:"+key] {
						bad = true
					}
				}
				if g := staticCallee(call); g != nil && isSubject(g) {
					visit(g, depth+1)
				}
			})
		}
		visit(fn, 0)
		if bad {
			r.Bad("C40.R3", FuncID(fn), "lock-order "+onceKey, p.Pos(fn.Pos()), "a package mutex is acquired inside the body of "+onceKey+".Do while other code (ReloadUserFonts) acquires that mutex first and then enters the same Once: the two orders can deadlock")
		} else {
			r.OK("C40.R3", FuncID(fn), "lock-order "+onceKey, p.Pos(fn.Pos()), "no package mutex is newly acquired inside the Once body (order: mutex → once)", true)
		}
	}
}

func findGlobal(p *Program, name string) *ssa.Global {
	dot := strings.LastIndex(name, ".")
	sp := p.SSAPkgs[modPath+"/"+name[:dot]]
	if sp == nil {
		return nil
	}
	if g, ok := sp.Members[name[dot+1:]].(*ssa.Global); ok {
		return g
	}
	return nil
}
