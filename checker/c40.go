package main

import (
	"go/constant"
	"fmt"
	"go/token"
	"go/types"
	"sort"
	"strings"

	"golang.org/x/tools/go/ssa"
)

// C40 — concurrent use of the API is race-free (partial: shared-state discipline).

func init() {
	register(&Check{
		ID:  "C40",
		Run: runC40,
		Explanation: "Decides the shared-state discipline that makes concurrent API use race-free: (R1 guarded-by) every read and write of font.userFontMetrics happens with font.userFontMetricsLock held (RLock suffices for reads), of font.loadUserFontsErr with font.loadUserFontsMutex held, and of the fields of pdfcpu.trustedCertificatePool with its embedded RWMutex held — lock state is a per-function must-dataflow (Lock/RLock gen, non-deferred Unlock kill) with entry states inherited from all call sites (requires-lock summaries) and, for closures, from the point where the closure is created (sync.Once.Do bodies); (R2 closed world) every package-level variable of the module that is written, or on which a method is invoked through an interface/pointer value, in code reachable from an exported function of pkg/api or pkg/pdfcpu is either in the guarded-by table, of a sync/atomic type, written only in package initialisers, or listed in the configuration-time / concurrency-safe tables with a reason (loggers, ConfigPath/UserFontDir/TrustedCertDir set while loading configuration — the property presupposes the configuration directory disabled); a new stateful package-level object (e.g. a shared hash.Hash or buffer) is reported; (R3 lock hygiene) every Lock/RLock in these packages is paired with a deferred or all-path Unlock on the same mutex, no function acquires font.loadUserFontsMutex while already inside loadUserFontsOnce.Do (the established order is mutex → once), and no RLock→Lock upgrade; (R4 escape) the address of a package-level variable of the module (taken as a value: assigned, passed, returned) is followed through locals, phis, parameters of statically resolved callees and results back to the call sites, and no store goes through a pointer that may hold it — a flow is cut only where the pointer was just compared nil or its pointee compared non-zero and the variable is an integer that starts at zero (the zero-sentinel idiom of the xref reader: `if off == nil || *off != 0`); addresses parked in heap fields are counted but not followed (stated limit); (R7 shared reference values) the value of a package-level map or slice (other than the guarded and configuration-time ones) is followed through locals, φ, parameters and results; no MapUpdate or element store is applied to it away from the variable itself; (R6 table elements) no store goes through a pointer obtained by indexing a package-level map or slice with pointer elements (types.PaperSize: d := PaperSize[v]; d.Width, d.Height = … changes the table for the whole process); (R5 optimistic reads) a function that reads shared on-disk state without holding its lock and validates the read against a revision counter (buildCurrentCertificatePool against model.CertificateStoreRevision) reads the revision before the data on every path, hands back that earlier revision with the data, and reaches a success return only over the edge where a second revision read, made after the data read, equals the first. NOT decided: determinism of results, races on data reachable only from caller-owned *model.Context values, std-lib internals.",
		Rules: []string{
			"C40.R1 LOCK: guarded-by table with lock-state dataflow and call-site summaries",
			"C40.R2 closed world of shared package-level state reachable from the API",
			"C40.R4 escape: no store through a pointer that may hold the address of a package-level variable",
			"C40.R5 shape: optimistic (revision-validated) reads of shared on-disk state",
			"C40.R6 escape: no store through an element pointer of a package-level table",
			"C40.R7 escape: a package-level map/slice value that is handed out is not written by a receiver",
			"C40.R3 lock hygiene and lock order (mutex before once)",
		},
		Assumptions: []string{"configuration directory disabled (documented multi-threaded mode); loggers are configured before concurrent use"},
		Technique:   "lock-set must-dataflow on SSA with interprocedural entry-state summaries over the call graph; reachability-restricted enumeration of package-level state accesses; lock-order check",
		Note:        "Partial: shared-state discipline, not a race proof for all memory.",
	})
}

type guardedVar struct {
	global string // "pkg/font.userFontMetrics" ; fields of a struct global use the global's name
	lock   string // lock key
	why    string
}

var c40Guarded = []guardedVar{
	{"pkg/font.userFontMetrics", "pkg/font.userFontMetricsLock", "user font metrics map, rebuilt by ReloadUserFonts"},
	{"pkg/font.loadUserFontsErr", "pkg/font.loadUserFontsMutex", "result of the last user font load"},
	{"pkg/pdfcpu.trustedCertificatePool", "pkg/pdfcpu.trustedCertificatePool", "certificate pool cache (embedded RWMutex)"},
	{"pkg/pdfcpu/model.UserCertPool", "pkg/pdfcpu.trustedCertificatePool", "exported mirror of the cached pool, written together with it"},
}

// configuration-time / concurrency-safe globals: name -> reason
var c40ConfigTime = map[string]string{
	"pkg/pdfcpu/model.ConfigPath":            "set by DisableConfigDir / configuration loading before concurrent use (documented)",
	"pkg/font.UserFontDir":                   "set while loading the configuration directory (disabled in the multi-threaded mode)",
	"pkg/pdfcpu/model.TrustedCertDir":        "set while loading the configuration directory",
	"pkg/pdfcpu/model.loadedDefaultConfig":   "configuration cache filled while loading the configuration directory",
	"pkg/pdfcpu/model.Perms":                 "configuration-time permission defaults",
	"pkg/log.CLI":                            "logger: set through log.SetCLILogger before concurrent use; pkg/cli only",
	"pkg/log.Debug":                          "logger (configuration-time)", "pkg/log.Info": "logger (configuration-time)", "pkg/log.Stats": "logger (configuration-time)",
	"pkg/log.Trace":                          "logger (configuration-time)", "pkg/log.Parse": "logger (configuration-time)", "pkg/log.Read": "logger (configuration-time)",
	"pkg/log.Validate":                       "logger (configuration-time)", "pkg/log.Optimize": "logger (configuration-time)", "pkg/log.Write": "logger (configuration-time)",
}

func globalRef(g *ssa.Global) string {
	pp := strings.TrimPrefix(strings.TrimPrefix(g.Pkg.Pkg.Path(), modPath), "/")
	return pp + "." + g.Name()
}

// globalOf: the module Global that address/value v is (a field/element of), following loads, field and index addressing.
func globalOf(v ssa.Value, depth int) *ssa.Global {
	for i := 0; i < 8 && v != nil; i++ {
		switch x := v.(type) {
		case *ssa.Global:
			if x.Pkg != nil && strings.HasPrefix(x.Pkg.Pkg.Path(), modPath) {
				return x
			}
			return nil
		case *ssa.FieldAddr:
			v = x.X
		case *ssa.IndexAddr:
			v = x.X
		case *ssa.UnOp:
			if x.Op != token.MUL {
				return nil
			}
			v = x.X
		case *ssa.Field:
			v = x.X
		case *ssa.ChangeType:
			v = x.X
		default:
			return nil
		}
	}
	return nil
}

// lockEvent classifies a call as Lock/RLock/Unlock/RUnlock on a module-global mutex; returns the lock key.
func lockEvent(call ssa.CallInstruction) (kind, key string) {
	cc := call.Common()
	f := cc.StaticCallee()
	if f == nil || f.Object() == nil || f.Object().Pkg() == nil || f.Object().Pkg().Path() != "sync" {
		return "", ""
	}
	name := f.Name()
	switch name {
	case "Lock", "RLock", "Unlock", "RUnlock":
	default:
		return "", ""
	}
	if len(cc.Args) == 0 {
		return "", ""
	}
	g := globalOf(cc.Args[0], 0)
	if g == nil {
		return "", ""
	}
	return name, globalRef(g)
}

type lockState struct {
	c      *Ctx
	flows  map[*ssa.Function]*FactFlow
	entry  map[*ssa.Function]map[string]bool
	inProg map[*ssa.Function]bool
}

func (ls *lockState) flow(fn *ssa.Function) *FactFlow {
	if ff, ok := ls.flows[fn]; ok {
		return ff
	}
	var init []string
	for k := range ls.entryState(fn) {
		init = append(init, k)
	}
	sort.Strings(init)
	ff := NewFactFlow(fn, func(i ssa.Instruction) []string {
		call, ok := i.(*ssa.Call)
		if !ok {
			return nil
		}
		switch kind, key := lockEvent(call); kind {
		case "Lock":
			return []string{"L:" + key}
		case "RLock":
			return []string{"R:" + key}
		}
		return nil
	}, nil, func(i ssa.Instruction) []string {
		call, ok := i.(*ssa.Call) // deferred unlocks are *ssa.Defer: they do not kill
		if !ok {
			return nil
		}
		switch kind, key := lockEvent(call); kind {
		case "Unlock":
			return []string{"L:" + key}
		case "RUnlock":
			return []string{"R:" + key}
		}
		return nil
	}, init)
	ls.flows[fn] = ff
	return ff
}

// entryState: locks held on entry = intersection over all call sites (closures: at their creation site).
func (ls *lockState) entryState(fn *ssa.Function) map[string]bool {
	if st, ok := ls.entry[fn]; ok {
		return st
	}
	if ls.inProg[fn] {
		return map[string]bool{}
	}
	ls.inProg[fn] = true
	defer func() { ls.inProg[fn] = false }()
	var res map[string]bool
	meet := func(s map[string]bool) {
		if res == nil {
			res = copySet(s)
			return
		}
		for k := range res {
			if !s[k] {
				delete(res, k)
			}
		}
	}
	if par := fn.Parent(); par != nil {
		eachInstr(par, func(_ *ssa.BasicBlock, _ int, i ssa.Instruction) {
			uses := false
			if mc, ok := i.(*ssa.MakeClosure); ok && mc.Fn == fn {
				uses = true
			}
			for _, op := range i.Operands(nil) {
				if op != nil && *op == ssa.Value(fn) {
					uses = true // closure without free variables: a plain function value
				}
			}
			if uses {
				if _, isDefer := i.(*ssa.Defer); isDefer {
					meet(map[string]bool{})
					return
				}
				facts, un := ls.flow(par).At(i)
				if !un {
					meet(facts)
				}
			}
		})
	} else if fn.Object() != nil && !fn.Object().Exported() {
		for _, caller := range ls.c.CG().In[fn] {
			eachInstr(caller, func(_ *ssa.BasicBlock, _ int, i ssa.Instruction) {
				call, ok := i.(ssa.CallInstruction)
				if !ok || staticCallee(call) != fn {
					return
				}
				if _, isDefer := i.(*ssa.Defer); isDefer {
					meet(map[string]bool{})
					return
				}
				facts, un := ls.flow(caller).At(i)
				if !un {
					meet(facts)
				}
			})
		}
	}
	if res == nil {
		res = map[string]bool{}
	}
	ls.entry[fn] = res
	return res
}

func runC40(c *Ctx) {
	c.R.MinInst["C40.R6"] = 1
	checkTableElementsNotWritten(c)
	c.R.MinInst["C40.R7"] = 1
	checkSharedReferenceValuesNotWritten(c)
	p, r := c.P, c.R
	r.MinInst["C40.R1"] = 10
	r.MinInst["C40.R2"] = 5
	r.MinInst["C40.R3"] = 4
	r.MinInst["C40.R4"] = 1
	r.MinInst["C40.R5"] = 1
	checkGlobalAddressEscapes(c)
	checkOptimisticReads(c)
	ls := &lockState{c: c, flows: map[*ssa.Function]*FactFlow{}, entry: map[*ssa.Function]map[string]bool{}, inProg: map[*ssa.Function]bool{}}
	guarded := map[string]guardedVar{}
	for _, g := range c40Guarded {
		guarded[g.global] = g
	}
	resolved := map[string]bool{}
	// ---- R1
	for _, fn := range p.Funcs {
		if strings.HasPrefix(fn.Name(), "init") && fn.Parent() == nil {
			continue
		}
		fn := fn
		cnt := map[string]int{}
		eachInstr(fn, func(_ *ssa.BasicBlock, _ int, i ssa.Instruction) {
			var addr ssa.Value
			write := false
			switch x := i.(type) {
			case *ssa.Store:
				addr, write = x.Addr, true
			case *ssa.UnOp:
				if x.Op == token.MUL {
					addr = x.X
				}
			case *ssa.MapUpdate:
				addr, write = x.Map, true
			case *ssa.Lookup:
				addr = x.X
			case *ssa.Range:
				addr = x.X
			default:
				return
			}
			g := globalOf(addr, 0)
			if g == nil {
				return
			}
			gv, ok := guarded[globalRef(g)]
			if !ok {
				return
			}
			// the mutex itself (embedded field) is not data
			if fa, isFA := addr.(*ssa.FieldAddr); isFA {
				if f := structField(fa.X.Type(), fa.Field); f != nil && strings.Contains(f.Type().String(), "sync.") {
					return
				}
			}
			// a load of the map header followed by Lookup/Range/MapUpdate is reported at that instruction; skip the bare load of a map/pointer global
			if ld, isLd := i.(*ssa.UnOp); isLd {
				if _, isG := ld.X.(*ssa.Global); isG {
					if _, isMap := ld.Type().Underlying().(*types.Map); isMap {
						return
					}
				}
			}
			resolved[gv.global] = true
			facts, un := ls.flow(fn).At(i)
			if un {
				return
			}
			kind := map[bool]string{true: "write", false: "read"}[write]
			cnt[gv.global+kind]++
			construct := fmt.Sprintf("%s %s#%d", kind, gv.global, cnt[gv.global+kind])
			held := facts["L:"+gv.lock] || (!write && facts["R:"+gv.lock])
			if held {
				r.OK("C40.R1", FuncID(fn), construct, p.Pos(i.Pos()), "accessed with "+gv.lock+" held", true)
			} else {
				r.Bad("C40.R1", FuncID(fn), construct, p.Pos(i.Pos()), fmt.Sprintf("%s of %s without %s held (%s): concurrent API calls race with ReloadUserFonts / certificate reloads", kind, gv.global, gv.lock, gv.why))
			}
		})
	}
	for _, g := range c40Guarded {
		if !resolved[g.global] {
			r.Bad("C40.R1", g.global, "anchor", "", "UNRESOLVED-ANCHOR: guarded variable "+g.global+" is not accessed anywhere (renamed?)")
		}
	}
	// ---- R2 closed world
	var roots []*ssa.Function
	for _, fn := range p.Funcs {
		if fn.Parent() == nil && fn.Object() != nil && fn.Object().Exported() {
			id := FuncID(fn)
			if strings.HasPrefix(id, "pkg/api.") || strings.HasPrefix(id, "pkg/pdfcpu.") {
				roots = append(roots, fn)
			}
		}
	}
	reach := c.CG().Reachable(roots)
	type acc struct {
		fn   *ssa.Function
		pos  token.Pos
		what string
	}
	writes := map[string][]acc{}
	invokes := map[string][]acc{}
	for fn := range reach {
		if strings.HasPrefix(fn.Name(), "init") && fn.Parent() == nil {
			continue
		}
		fn := fn
		eachInstr(fn, func(_ *ssa.BasicBlock, _ int, i ssa.Instruction) {
			switch x := i.(type) {
			case *ssa.Store:
				if g := globalOf(x.Addr, 0); g != nil {
					writes[globalRef(g)] = append(writes[globalRef(g)], acc{fn, i.Pos(), "store"})
				}
			case *ssa.MapUpdate:
				if g := globalOf(x.Map, 0); g != nil {
					writes[globalRef(g)] = append(writes[globalRef(g)], acc{fn, i.Pos(), "map update"})
				}
			case *ssa.Call:
				// method invoked on an interface / pointer value loaded from a global
				var recv ssa.Value
				if x.Call.IsInvoke() {
					recv = x.Call.Value
				} else if f := x.Call.StaticCallee(); f != nil && f.Signature.Recv() != nil && len(x.Call.Args) > 0 {
					if _, isPtr := f.Signature.Recv().Type().(*types.Pointer); isPtr {
						recv = x.Call.Args[0]
					}
				}
				if recv == nil {
					return
				}
				if kind, _ := lockEvent(x); kind != "" {
					return
				}
				if g := globalOf(recv, 0); g != nil {
					if ptr, ok := g.Type().(*types.Pointer); ok && isErrorType(ptr.Elem()) {
						return // sentinel errors: immutable values
					}
					invokes[globalRef(g)] = append(invokes[globalRef(g)], acc{fn, i.Pos(), "method " + instrLabel(x)})
				}
			}
		})
	}
	classify := func(name string, as []acc, kind string) {
		sort.Slice(as, func(a, b int) bool { return FuncID(as[a].fn) < FuncID(as[b].fn) })
		first := as[0]
		construct := kind + " " + name
		if _, ok := guarded[name]; ok {
			r.OK("C40.R2", name, construct, p.Pos(first.pos), "guarded-by table (R1)", false)
			return
		}
		if why, ok := c40ConfigTime[name]; ok {
			r.OK("C40.R2", name, construct, p.Pos(first.pos), "configuration-time: "+why, false)
			return
		}
		// sync / atomic typed globals
		if g := findGlobal(p, name); g != nil {
			ts := g.Type().String()
			if strings.Contains(ts, "sync.") || strings.Contains(ts, "sync/atomic.") || strings.Contains(ts, "atomic.") {
				r.OK("C40.R2", name, construct, p.Pos(first.pos), "synchronisation primitive / atomic", false)
				return
			}
			if kind == "invoke" {
				// value types with pointer receivers declared in std and documented safe
				for _, safe := range []string{"regexp.Regexp", "text/template", "encoding/base64.Encoding", "math/big.Int", "unicode.RangeTable", "time.Location", "strings.Replacer"} {
					if strings.Contains(ts, safe) {
						r.OK("C40.R2", name, construct, p.Pos(first.pos), "immutable / documented concurrency-safe std type "+safe, false)
						return
					}
				}
			}
		}
		r.Bad("C40.R2", name, construct, p.Pos(first.pos), fmt.Sprintf("package-level variable %s is %s in %s, which is reachable from the exported API, and is neither guarded by a lock, atomic, nor listed as configuration-time state: concurrent operations on independent inputs would share it (%d site(s))", name, map[string]string{"write": "written", "invoke": "mutated through a method call"}[kind], FuncID(first.fn), len(as)))
	}
	var names []string
	for n := range writes {
		names = append(names, n)
	}
	sort.Strings(names)
	for _, n := range names {
		classify(n, writes[n], "write")
	}
	names = names[:0]
	for n := range invokes {
		names = append(names, n)
	}
	sort.Strings(names)
	for _, n := range names {
		classify(n, invokes[n], "invoke")
	}
	// ---- R3 hygiene
	for _, fn := range p.Funcs {
		fn := fn
		k := 0
		eachInstr(fn, func(_ *ssa.BasicBlock, _ int, i ssa.Instruction) {
			call, ok := i.(*ssa.Call)
			if !ok {
				return
			}
			kind, key := lockEvent(call)
			if kind != "Lock" && kind != "RLock" {
				return
			}
			k++
			construct := fmt.Sprintf("%s %s#%d", kind, key, k)
			un := map[string]string{"Lock": "Unlock", "RLock": "RUnlock"}[kind]
			// released: a deferred unlock of the same key registered after this lock on every path, or an unlock on every path to every return
			released := false
			genI := map[ssa.Instruction]bool{}
			eachInstr(fn, func(_ *ssa.BasicBlock, _ int, j ssa.Instruction) {
				if cj, ok := j.(ssa.CallInstruction); ok {
					if k2, key2 := lockEvent(cj); k2 == un && key2 == key {
						genI[j] = true
					}
				}
			})
			ff := NewFactFlow(fn, func(j ssa.Instruction) []string {
				if genI[j] {
					return []string{"released"}
				}
				return nil
			}, nil, func(j ssa.Instruction) []string {
				if j == ssa.Instruction(call) {
					return []string{"released"}
				}
				return nil
			}, []string{"released"})
			released = true
			for _, ret := range returnsOf(fn) {
				if !ff.Holds(ret, "released") {
					released = false
				}
			}
			// upgrade / re-entry
			facts, _ := ls.flow(fn).At(call)
			reentry := facts["L:"+key] || facts["R:"+key]
			switch {
			case !released:
				r.Bad("C40.R3", FuncID(fn), construct, p.Pos(call.Pos()), "this lock is not released (deferred or on every path) before the function returns")
			case reentry:
				r.Bad("C40.R3", FuncID(fn), construct, p.Pos(call.Pos()), "the mutex is already held here (re-entry or RLock→Lock upgrade): sync mutexes are not reentrant, this deadlocks")
			default:
				r.OK("C40.R3", FuncID(fn), construct, p.Pos(call.Pos()), "released on every path; not held on entry", true)
			}
		})
	}
	// lock order: loadUserFontsMutex must not be acquired inside a sync.Once.Do closure of loadUserFontsOnce
	for _, fn := range p.Funcs {
		if fn.Parent() == nil {
			continue
		}
		// is this closure passed to (*sync.Once).Do ?
		par := fn.Parent()
		isOnceBody := false
		onceKey := ""
		eachInstr(par, func(_ *ssa.BasicBlock, _ int, i ssa.Instruction) {
			call, ok := i.(*ssa.Call)
			if !ok {
				return
			}
			f := call.Call.StaticCallee()
			if f == nil || f.Name() != "Do" || f.Object() == nil || f.Object().Pkg() == nil || f.Object().Pkg().Path() != "sync" {
				return
			}
			body := call.Call.Args[1]
			if mc, ok := body.(*ssa.MakeClosure); ok {
				body = mc.Fn
			}
			if body == ssa.Value(fn) {
				isOnceBody = true
				if g := globalOf(call.Call.Args[0], 0); g != nil {
					onceKey = globalRef(g)
				}
			}
		})
		if !isOnceBody {
			continue
		}
		bad := false
		var visit func(f *ssa.Function, depth int)
		seen := map[*ssa.Function]bool{}
		visit = func(f *ssa.Function, depth int) {
			if seen[f] || depth > 4 {
				return
			}
			seen[f] = true
			eachInstr(f, func(_ *ssa.BasicBlock, _ int, i ssa.Instruction) {
				call, ok := i.(ssa.CallInstruction)
				if !ok {
					return
				}
				if kind, key := lockEvent(call); (kind == "Lock" || kind == "RLock") && strings.HasSuffix(key, "Mutex") && strings.HasPrefix(key, strings.TrimSuffix(onceKey, onceKey[strings.LastIndex(onceKey, ".")+1:])) {
					// a mutex of the same package taken inside the once body
					if !ls.entryState(fn)["L:"+key] {
						bad = true
					}
				}
				if g := staticCallee(call); g != nil && isSubject(g) {
					visit(g, depth+1)
				}
			})
		}
		visit(fn, 0)
		if bad {
			r.Bad("C40.R3", FuncID(fn), "lock-order "+onceKey, p.Pos(fn.Pos()), "a package mutex is acquired inside the body of "+onceKey+".Do while other code (ReloadUserFonts) acquires that mutex first and then enters the same Once: the two orders can deadlock")
		} else {
			r.OK("C40.R3", FuncID(fn), "lock-order "+onceKey, p.Pos(fn.Pos()), "no package mutex is newly acquired inside the Once body (order: mutex → once)", true)
		}
	}
}

func findGlobal(p *Program, name string) *ssa.Global {
	dot := strings.LastIndex(name, ".")
	sp := p.SSAPkgs[modPath+"/"+name[:dot]]
	if sp == nil {
		return nil
	}
	if g, ok := sp.Members[name[dot+1:]].(*ssa.Global); ok {
		return g
	}
	return nil
}

// ---------------- round 2 of seeding: C40.R4 escaped addresses of package-level variables, C40.R5 optimistic reads ----------------

// checkGlobalAddressEscapes (C40.R4): the closed world of R2 classifies package-level variables by who writes them *by name*.
// A variable whose address is taken (&zero) can also be written through the pointer. The set of SSA values that may hold the
// address of a package-level variable of the module is propagated through phis, local cells, static call arguments and
// returned values; a store through such a pointer outside an init function writes shared state behind R2's back — two
// goroutines reading PDFs would race on it (and see each other's values).
func checkGlobalAddressEscapes(c *Ctx) {
	p, r := c.P, c.R
	cg := c.CG()
	_ = cg
	may := map[ssa.Value]*ssa.Global{}
	heapEscapes := map[*ssa.Global]int{} // stores of &G into a heap field or element
	may0 := map[*ssa.Global]bool{}        // globals whose address is used as a value at all
	valueGuarded := 0                     // flows cut because the pointee was just seen non-zero (or the pointer nil)
	var work []ssa.Value
	add := func(v ssa.Value, g *ssa.Global) {
		if v == nil {
			return
		}
		if _, ok := may[v]; ok {
			return
		}
		may[v] = g
		work = append(work, v)
	}
	isShared := func(g *ssa.Global) bool {
		if g.Pkg == nil || !strings.HasPrefix(g.Pkg.Pkg.Path(), modPath) {
			return false
		}
		t := g.Type().(*types.Pointer).Elem()
		switch t.Underlying().(type) {
		case *types.Basic, *types.Struct, *types.Array:
			s := t.String()
			return !strings.HasPrefix(s, "sync.") && !strings.Contains(s, "atomic.")
		}
		return false
	}
	// seeds: a Global used as a value (not merely as the address operand of a load/store/field access)
	for _, fn := range p.Funcs {
		eachInstr(fn, func(_ *ssa.BasicBlock, _ int, i ssa.Instruction) {
			for _, op := range i.Operands(nil) {
				g, ok := (*op).(*ssa.Global)
				if !ok || !isShared(g) {
					continue
				}
				switch x := i.(type) {
				case *ssa.UnOp:
					continue // load
				case *ssa.Store:
					if x.Addr == ssa.Value(g) {
						continue // direct store: R2's business
					}
					// the address itself is stored somewhere: a local cell is followed (its loads may hold it),
					// a heap field is not (see heapEscapes below)
					if al, ok := x.Addr.(*ssa.Alloc); ok {
						for _, r2 := range *al.Referrers() {
							if ld, ok := r2.(*ssa.UnOp); ok && ld.Op == token.MUL {
								add(ld, g)
							}
						}
					} else {
						heapEscapes[g]++
					}
					may0[g] = true
				case *ssa.FieldAddr, *ssa.IndexAddr:
					continue // access path, not an escape of the whole address (kept simple)
				case *ssa.Phi:
					add(x, g)
				case ssa.CallInstruction:
					callee := staticCallee(x)
					if callee == nil || !isSubject(callee) {
						continue
					}
					for k, a := range x.Common().Args {
						if a == ssa.Value(g) && k < len(callee.Params) {
							add(callee.Params[k], g)
						}
					}
				case *ssa.Return:
					// returned to callers
					for ri, rv := range x.Results {
						if rv == ssa.Value(g) {
							for _, caller := range cg.In[fn] {
								eachInstr(caller, func(_ *ssa.BasicBlock, _ int, ci ssa.Instruction) {
									cc, ok := ci.(*ssa.Call)
									if !ok {
										return
									}
									if f := staticCallee(cc); f == nil || unwrapSynthetic(f) != fn {
										return
									}
									if len(x.Results) == 1 {
										add(cc, g)
									} else {
										for _, rf := range *cc.Referrers() {
											if ex, ok := rf.(*ssa.Extract); ok && ex.Index == ri {
												add(ex, g)
											}
										}
									}
								})
							}
						}
					}
				case *ssa.MakeInterface, *ssa.ChangeType, *ssa.Convert:
					add(i.(ssa.Value), g)
				}
			}
		})
	}
	// propagation
	for len(work) > 0 {
		v := work[len(work)-1]
		work = work[:len(work)-1]
		g := may[v]
		refs := v.Referrers()
		if refs == nil {
			continue
		}
		var nsf *FactFlow
		if zeroForever(g) {
			nsf = notSentinelFlow(v)
		}
		excluded := func(at ssa.Instruction) bool {
			if nsf == nil {
				return false
			}
			if ph, ok := at.(*ssa.Phi); ok {
				// the value arrives over the predecessor edge(s) carrying v
				for k, ev := range ph.Edges {
					if ev != v {
						continue
					}
					pred := ph.Block().Preds[k]
					okEdge := nsf.Holds(pred.Instrs[len(pred.Instrs)-1], "x")
					for si, sb := range pred.Succs {
						if sb == ph.Block() && len(nsf.genE[Edge{pred, si}]) > 0 {
							okEdge = true
						}
					}
					if !okEdge {
						return false
					}
				}
				return true
			}
			return nsf.Holds(at, "x")
		}
		for _, rf := range *refs {
			if excluded(rf) {
				valueGuarded++
				continue
			}
			switch x := rf.(type) {
			case *ssa.Phi:
				add(x, g)
			case *ssa.Store:
				if x.Val == v {
					// pointer stored into a local cell: loads of that cell may hold it
					if al, ok := x.Addr.(*ssa.Alloc); ok {
						for _, r2 := range *al.Referrers() {
							if ld, ok := r2.(*ssa.UnOp); ok && ld.Op == token.MUL {
								add(ld, g)
							}
						}
					}
				}
			case ssa.CallInstruction:
				callee := staticCallee(x)
				if callee == nil || !isSubject(callee) {
					continue
				}
				for k, a := range x.Common().Args {
					if a == v && k < len(callee.Params) {
						add(callee.Params[k], g)
					}
				}
			case *ssa.Return:
				fn := x.Parent()
				for ri, rv := range x.Results {
					if rv != v {
						continue
					}
					for _, caller := range cg.In[fn] {
						eachInstr(caller, func(_ *ssa.BasicBlock, _ int, ci ssa.Instruction) {
							cc, ok := ci.(*ssa.Call)
							if !ok {
								return
							}
							if f := staticCallee(cc); f == nil || unwrapSynthetic(f) != fn {
								return
							}
							if len(x.Results) == 1 {
								add(cc, g)
							} else {
								for _, r3 := range *cc.Referrers() {
									if ex, ok := r3.(*ssa.Extract); ok && ex.Index == ri {
										add(ex, g)
									}
								}
							}
						})
					}
				}
			case *ssa.ChangeType:
				add(x, g)
			}
		}
	}
	// stores through such pointers
	n := 0
	perGlobal := map[*ssa.Global]string{}
	for _, fn := range p.Funcs {
		if strings.HasPrefix(fn.Name(), "init") && fn.Parent() == nil {
			continue
		}
		fn := fn
		eachInstr(fn, func(_ *ssa.BasicBlock, _ int, i ssa.Instruction) {
			st, ok := i.(*ssa.Store)
			if !ok {
				return
			}
			if _, isG := st.Addr.(*ssa.Global); isG {
				return
			}
			if g, ok := may[st.Addr]; ok {
				n++
				perGlobal[g] = p.Pos(st.Pos()) + " in " + FuncID(fn)
			}
		})
	}
	escaped := map[*ssa.Global]bool{}
	for _, g := range may {
		escaped[g] = true
	}
	for g := range may0 {
		escaped[g] = true
	}
	var gs []*ssa.Global
	for g := range escaped {
		gs = append(gs, g)
	}
	sort.Slice(gs, func(i, j int) bool { return gs[i].String() < gs[j].String() })
	for _, g := range gs {
		name := strings.TrimPrefix(g.Pkg.Pkg.Path(), modPath+"/") + "." + g.Name()
		if where, bad := perGlobal[g]; bad {
			r.Bad("C40.R4", name, "address escapes", p.Pos(g.Pos()), "the address of package-level variable "+g.Name()+" reaches a pointer that is stored through ("+where+"): concurrent API calls write the same shared variable without a lock, and each call sees the other's value")
		} else {
			msg := "the address is handed around (locals, parameters, results) but nothing is stored through it"
			if k := heapEscapes[g]; k > 0 {
				msg += fmt.Sprintf("; it is also stored into %d heap field(s), which this rule does not follow (stated limit)", k)
			}
			r.OK("C40.R4", name, "address escapes", p.Pos(g.Pos()), msg, true)
		}
	}
	r.Note(fmt.Sprintf("C40.R4: %d flow(s) of a zero sentinel's address cut by a dominating \"*p != 0\" / \"p == nil\" test", valueGuarded))
	if len(gs) == 0 {
		r.Bad("C40.R4", "-", "anchor", "", "UNRESOLVED-ANCHOR: no package-level variable has its address taken (the rule would be vacuous; the pinned tree has pkg/pdfcpu.zero)")
	}
}

// c40OptimisticReads: functions that read shared on-disk state without a lock and validate the read with a revision counter.
var c40OptimisticReads = map[string]struct{ version, data string }{
	"pkg/pdfcpu.buildCurrentCertificatePool": {"pkg/pdfcpu/model.CertificateStoreRevision", "pkg/pdfcpu.buildCertificatePool"},
}

// checkOptimisticReads (C40.R5): the revision is read before the data, the value returned with the data is that earlier
// revision, and a success return is reached only on the edge where a second revision read (after the data) equals the first.
func checkOptimisticReads(c *Ctx) {
	p, r := c.P, c.R
	for fid, spec := range c40OptimisticReads {
		fn := p.Func(fid)
		if fn == nil {
			r.Bad("C40.R5", fid, "anchor", "", "UNRESOLVED-ANCHOR")
			continue
		}
		var versions []*ssa.Call
		var data *ssa.Call
		eachInstr(fn, func(_ *ssa.BasicBlock, _ int, i ssa.Instruction) {
			if call, ok := i.(*ssa.Call); ok {
				_, ref := callRef(call)
				if ref == spec.version {
					versions = append(versions, call)
				}
				if ref == spec.data {
					data = call
				}
			}
		})
		pos := p.Pos(fn.Pos())
		if data == nil || len(versions) == 0 {
			r.Bad("C40.R5", fid, "optimistic read", pos, "UNRESOLVED-ANCHOR: revision or data read not found")
			continue
		}
		// V1: a revision read that is executed before the data read on every path
		ff := NewFactFlow(fn, func(i ssa.Instruction) []string {
			for k, v := range versions {
				if i == ssa.Instruction(v) {
					return []string{fmt.Sprintf("v%d", k)}
				}
			}
			return nil
		}, nil, func(i ssa.Instruction) []string {
			// a new loop iteration starts over
			return nil
		}, nil)
		var before *ssa.Call
		for k, v := range versions {
			if ff.Holds(data, fmt.Sprintf("v%d", k)) {
				before = v
			}
		}
		okReturn := before != nil
		why := ""
		if before == nil {
			why = "no revision read precedes the data read"
		} else {
			// the comparison before == <later revision read>
			var eqEdges []Edge
			for _, rf := range *before.Referrers() {
				cmp, ok := rf.(*ssa.BinOp)
				if !ok || (cmp.Op != token.EQL && cmp.Op != token.NEQ) {
					continue
				}
				other := cmp.Y
				if cmp.Y == ssa.Value(before) {
					other = cmp.X
				}
				oc, ok := other.(*ssa.Call)
				if !ok {
					continue
				}
				if _, ref := callRef(oc); ref != spec.version {
					continue
				}
				eqEdges = append(eqEdges, condEdges(cmp, cmp.Op == token.EQL)...)
			}
			for _, ret := range returnsOf(fn) {
				if k, has := returnErrKind(ret); has && k == errNonNil {
					continue
				}
				dom := false
				for _, e := range eqEdges {
					if edgeDominates(e, ret.Block()) {
						dom = true
					}
				}
				returnsBefore := false
				for _, rv := range ret.Results {
					if rv == ssa.Value(before) {
						returnsBefore = true
					}
				}
				if !dom || !returnsBefore {
					okReturn = false
					why = "a success return is not on the edge where the revision read before the data equals the one read after it, or does not return the earlier revision"
				}
			}
		}
		if okReturn {
			r.OK("C40.R5", fid, "optimistic read", pos, "revision read before the data, re-read and compared after it; the data is returned with the earlier revision only on the equal edge", true)
		} else {
			r.Bad("C40.R5", fid, "optimistic read", pos, why+": a concurrent import between listing the directory and tagging the result marks a stale snapshot as current, and every later validation in the process trusts the stale pool")
		}
	}
}

// notSentinelFlow computes where pointer v provably differs from the address of a package-level scalar that is
// zero for the whole run: past the true edge of "v == nil" or of "*v != 0" (and the false edge of "*v == 0").
// The argument is inductive: while nothing is stored through &G, *(&G) == 0, so a pointer whose pointee
// was just seen non-zero is not &G.
func notSentinelFlow(v ssa.Value) *FactFlow {
	fn := v.Parent()
	if fn == nil {
		return nil
	}
	genE := map[Edge][]string{}
	for _, e := range nilCheckEdges(v, true) {
		genE[e] = append(genE[e], "x")
	}
	for _, a := range aliasesOf(v) {
		refs := a.Referrers()
		if refs == nil {
			continue
		}
		for _, r := range *refs {
			ld, ok := r.(*ssa.UnOp)
			if !ok || ld.Op != token.MUL || ld.X != a || ld.Referrers() == nil {
				continue
			}
			for _, r2 := range *ld.Referrers() {
				b, ok := r2.(*ssa.BinOp)
				if !ok || (b.Op != token.EQL && b.Op != token.NEQ) {
					continue
				}
				other := b.Y
				if b.X != ssa.Value(ld) {
					other = b.X
				}
				k, ok := other.(*ssa.Const)
				if !ok || k.Value == nil || k.Value.Kind() != constant.Int {
					continue
				}
				if z, exact := constant.Int64Val(k.Value); !exact || z != 0 {
					continue
				}
				for _, e := range condEdges(b, b.Op == token.NEQ) {
					genE[e] = append(genE[e], "x")
				}
			}
		}
	}
	if len(genE) == 0 {
		return nil
	}
	return NewFactFlow(fn, nil, genE, nil, nil)
}

// zeroForever: G is an integer variable whose initial value is zero (no initialiser, or the constant 0).
func zeroForever(g *ssa.Global) bool {
	b, ok := g.Type().(*types.Pointer).Elem().Underlying().(*types.Basic)
	if !ok || b.Info()&types.IsInteger == 0 {
		return false
	}
	init := g.Pkg.Func("init")
	okInit := true
	if init != nil {
		eachInstr(init, func(_ *ssa.BasicBlock, _ int, i ssa.Instruction) {
			if st, ok := i.(*ssa.Store); ok && st.Addr == ssa.Value(g) {
				k, ok := st.Val.(*ssa.Const)
				if !ok || k.Value == nil {
					okInit = false
					return
				}
				if z, exact := constant.Int64Val(k.Value); !exact || z != 0 {
					okInit = false
				}
			}
		})
	}
	return okInit
}

// ---------------- C40.R6 (round 3): no store through an element pointer of a package-level table ----------------

// tableElementPointer: v is (possibly through φ / comma-ok extraction) the result of indexing a package-level map or
// slice whose elements are pointers — a pointer INTO state shared by every operation of the process.
func tableElementPointer(v ssa.Value, d int, seen map[ssa.Value]bool) *ssa.Global {
	if v == nil || d > 6 || seen[v] {
		return nil
	}
	seen[v] = true
	switch x := v.(type) {
	case *ssa.Lookup:
		if ld, ok := x.X.(*ssa.UnOp); ok && ld.Op == token.MUL {
			if g, ok := ld.X.(*ssa.Global); ok && g.Pkg != nil && strings.HasPrefix(g.Pkg.Pkg.Path(), modPath) {
				return g
			}
		}
	case *ssa.Extract:
		return tableElementPointer(x.Tuple, d+1, seen)
	case *ssa.Phi:
		for _, e := range x.Edges {
			if g := tableElementPointer(e, d+1, seen); g != nil {
				return g
			}
		}
	case *ssa.UnOp:
		if x.Op == token.MUL {
			// element of a package-level slice/array of pointers: *(&G[i])
			if ia, ok := x.X.(*ssa.IndexAddr); ok {
				if ld, ok := ia.X.(*ssa.UnOp); ok && ld.Op == token.MUL {
					if g, ok := ld.X.(*ssa.Global); ok && g.Pkg != nil && strings.HasPrefix(g.Pkg.Pkg.Path(), modPath) {
						return g
					}
				}
			}
			// a local cell holding such a pointer
			if al, ok := x.X.(*ssa.Alloc); ok {
				for _, rf := range *al.Referrers() {
					if st, ok := rf.(*ssa.Store); ok && st.Addr == ssa.Value(al) {
						if g := tableElementPointer(st.Val, d+1, seen); g != nil {
							return g
						}
					}
				}
			}
		}
	}
	return nil
}

// checkTableElementsNotWritten: the paper-size table (types.PaperSize, map[string]*Dim) and its like are looked up by
// every operation. A store through an element pointer — d := types.PaperSize[v]; d.Width, d.Height = d.Height, d.Width —
// changes the table for every later and every concurrent operation of the process.
func checkTableElementsNotWritten(c *Ctx) {
	p, r := c.P, c.R
	n, lookups := 0, 0
	for _, fn := range p.Funcs {
		if !isSubject(fn) {
			continue
		}
		if strings.HasPrefix(fn.Name(), "init") && fn.Parent() == nil {
			continue
		}
		fn := fn
		k := 0
		eachInstr(fn, func(_ *ssa.BasicBlock, _ int, i ssa.Instruction) {
			if lk, ok := i.(*ssa.Lookup); ok {
				if tableElementPointer(lk, 0, map[ssa.Value]bool{}) != nil {
					if _, isPtr := lk.Type().Underlying().(*types.Pointer); isPtr {
						lookups++
					} else if tup, ok := lk.Type().(*types.Tuple); ok && tup.Len() == 2 {
						if _, isPtr := tup.At(0).Type().Underlying().(*types.Pointer); isPtr {
							lookups++
						}
					}
				}
			}
			st, ok := i.(*ssa.Store)
			if !ok {
				return
			}
			var base ssa.Value
			switch a := st.Addr.(type) {
			case *ssa.FieldAddr:
				base = a.X
			case *ssa.IndexAddr:
				base = a.X
			default:
				return
			}
			if _, isPtr := base.Type().Underlying().(*types.Pointer); !isPtr {
				return
			}
			g := tableElementPointer(base, 0, map[ssa.Value]bool{})
			if g == nil {
				return
			}
			k++
			n++
			name := strings.TrimPrefix(g.Pkg.Pkg.Path(), modPath+"/") + "." + g.Name()
			r.Bad("C40.R6", FuncID(fn), fmt.Sprintf("store through element of %s#%d", name, k), p.Pos(st.Pos()), "a field of an element of the package-level table "+name+" is written through the pointer the lookup returned: the table is shared by every operation of the process, so every later call and every concurrent goroutine sees the changed entry (and two such calls race)")
		})
	}
	if lookups == 0 {
		r.Bad("C40.R6", "-", "anchor", "", "UNRESOLVED-ANCHOR: no lookup of a pointer element in a package-level table found (types.PaperSize on the pinned tree)")
		return
	}
	if n == 0 {
		r.OK("C40.R6", "module", "stores through table element pointers", "", fmt.Sprintf("%d lookups of pointer elements in package-level tables; none of the pointers is stored through", lookups), true)
	}
}

// ---------------- C40.R7 (round 3 of seeding): shared reference values handed out and written by the receiver ----------------

// checkSharedReferenceValuesNotWritten: a package-level map, slice or pointer variable is shared state even when only its
// VALUE (the reference) travels: `return noFilterParms` hands every caller the same map, and a caller that inserts a key
// writes state that all other operations read. The value loaded from such a variable is followed through φ, local cells,
// parameters of statically resolved callees and results back to the call sites; a MapUpdate on it, or a store through an
// element or field of it, is reported — unless the variable is in the guarded-by or configuration-time tables (R1/R2).
func checkSharedReferenceValuesNotWritten(c *Ctx) {
	p, r := c.P, c.R
	cg := c.CG()
	exempt := map[string]bool{}
	for _, g := range c40Guarded {
		exempt[g.global] = true
	}
	for k := range c40ConfigTime {
		exempt[k] = true
	}
	gname := func(g *ssa.Global) string { return strings.TrimPrefix(g.Pkg.Pkg.Path(), modPath+"/") + "." + g.Name() }
	may := map[ssa.Value]*ssa.Global{}
	var work []ssa.Value
	add := func(v ssa.Value, g *ssa.Global) {
		if v == nil {
			return
		}
		if _, ok := may[v]; ok {
			return
		}
		may[v] = g
		work = append(work, v)
	}
	seeds := 0
	for _, fn := range p.Funcs {
		if !isSubject(fn) {
			continue
		}
		eachInstr(fn, func(_ *ssa.BasicBlock, _ int, i ssa.Instruction) {
			ld, ok := i.(*ssa.UnOp)
			if !ok || ld.Op != token.MUL {
				return
			}
			g, ok := ld.X.(*ssa.Global)
			if !ok || g.Pkg == nil || !strings.HasPrefix(g.Pkg.Pkg.Path(), modPath) || exempt[gname(g)] {
				return
			}
			switch ld.Type().Underlying().(type) {
			case *types.Map, *types.Slice:
			default:
				return
			}
			seeds++
			add(ld, g)
		})
	}
	type esc struct{ how, pos string }
	escapes := map[*ssa.Global]esc{}
	for len(work) > 0 {
		v := work[len(work)-1]
		work = work[:len(work)-1]
		g := may[v]
		refs := v.Referrers()
		if refs == nil {
			continue
		}
		for _, rf := range *refs {
			switch x := rf.(type) {
			case *ssa.Phi:
				add(x, g)
			case *ssa.ChangeType:
				add(x, g)
			case *ssa.Store:
				if x.Val == v {
					if al, ok := x.Addr.(*ssa.Alloc); ok {
						for _, r2 := range *al.Referrers() {
							if ld, ok := r2.(*ssa.UnOp); ok && ld.Op == token.MUL {
								add(ld, g)
							}
						}
					}
				}
			case *ssa.Return:
				fn := x.Parent()
				for ri, rv := range x.Results {
					if rv != v {
						continue
					}
					if _, seen := escapes[g]; !seen {
						escapes[g] = esc{"returned by " + FuncID(fn), p.Pos(x.Pos())}
					}
					for _, caller := range cg.In[fn] {
						eachInstr(caller, func(_ *ssa.BasicBlock, _ int, ci ssa.Instruction) {
							cc, ok := ci.(*ssa.Call)
							if !ok {
								return
							}
							if f := staticCallee(cc); f == nil || unwrapSynthetic(f) != fn {
								return
							}
							if len(x.Results) == 1 {
								add(cc, g)
							} else {
								for _, r3 := range *cc.Referrers() {
									if ex, ok := r3.(*ssa.Extract); ok && ex.Index == ri {
										add(ex, g)
									}
								}
							}
						})
					}
				}
			case ssa.CallInstruction:
				callee := staticCallee(x)
				if callee == nil || !isSubject(callee) {
					continue
				}
				for k, a := range x.Common().Args {
					if a == v && k < len(callee.Params) {
						add(callee.Params[k], g)
					}
				}
			}
		}
	}
	// sinks
	n := 0
	reported := map[*ssa.Global]bool{}
	for _, fn := range p.Funcs {
		if !isSubject(fn) || (strings.HasPrefix(fn.Name(), "init") && fn.Parent() == nil) {
			continue
		}
		fn := fn
		eachInstr(fn, func(_ *ssa.BasicBlock, _ int, i ssa.Instruction) {
			var target ssa.Value
			switch x := i.(type) {
			case *ssa.MapUpdate:
				target = x.Map
			case *ssa.Store:
				if ia, ok := x.Addr.(*ssa.IndexAddr); ok {
					target = ia.X
				}
			}
			if target == nil {
				return
			}
			g, ok := may[target]
			if !ok {
				return
			}
			// a direct update of the variable's own value inside its owner is R2's business; here: the value travelled
			if ld, ok := target.(*ssa.UnOp); ok {
				if _, direct := ld.X.(*ssa.Global); direct {
					return
				}
			}
			if reported[g] {
				return
			}
			reported[g] = true
			n++
			e := escapes[g]
			r.Bad("C40.R7", gname(g), "value written by a receiver", p.Pos(i.Pos()), "the map/slice held by package-level variable "+g.Name()+" is handed out ("+e.how+", "+e.pos+") and written here in "+FuncID(fn)+": every operation that receives the same value sees the entry, and concurrent operations race on it")
		})
	}
	if seeds == 0 {
		r.Bad("C40.R7", "-", "anchor", "", "UNRESOLVED-ANCHOR: no package-level map or slice is read in subject code")
		return
	}
	if n == 0 {
		r.OK("C40.R7", "module", "shared reference values", "", fmt.Sprintf("%d reads of package-level maps/slices followed (%d values); none reaches a map update or element store outside the variable's own accessors", seeds, len(may)), true)
	}
}
