package main

import (
	"fmt"
	"go/token"
	"go/types"
	"sort"
	"strings"

	"golang.org/x/tools/go/ssa"
)

// natural loops and reference-chain loops (C08.R2 / C36.R1).

type natLoop struct {
	fn     *ssa.Function
	header *ssa.BasicBlock
	blocks map[*ssa.BasicBlock]bool
	backs  []*ssa.BasicBlock // sources of back edges
}

// naturalLoops returns the natural loops of fn, one per header (back edges to the same header are merged).
func naturalLoops(fn *ssa.Function) []*natLoop {
	byHeader := map[*ssa.BasicBlock]*natLoop{}
	var order []*ssa.BasicBlock
	for _, b := range fn.Blocks {
		for _, s := range b.Succs {
			if s.Dominates(b) {
				l := byHeader[s]
				if l == nil {
					l = &natLoop{fn: fn, header: s, blocks: map[*ssa.BasicBlock]bool{s: true}}
					byHeader[s] = l
					order = append(order, s)
				}
				l.backs = append(l.backs, b)
				// blocks that reach b without passing the header
				stack := []*ssa.BasicBlock{b}
				for len(stack) > 0 {
					x := stack[len(stack)-1]
					stack = stack[:len(stack)-1]
					if l.blocks[x] {
						continue
					}
					l.blocks[x] = true
					stack = append(stack, x.Preds...)
				}
			}
		}
	}
	var out []*natLoop
	for _, h := range order {
		out = append(out, byHeader[h])
	}
	return out
}

// derefReachers: functions from which a resolver (a read of XRefTable.Table) is reachable.
func derefReachers(p *Program, cg *CG) map[*ssa.Function]bool {
	res := resolvers(p)
	out := map[*ssa.Function]bool{}
	var stack []*ssa.Function
	for f := range res {
		out[f] = true
		stack = append(stack, f)
	}
	for len(stack) > 0 {
		f := stack[len(stack)-1]
		stack = stack[:len(stack)-1]
		for _, g := range cg.In[f] {
			if !out[g] {
				out[g] = true
				stack = append(stack, g)
			}
		}
	}
	return out
}

// chainLoop: a loop with a loop-carried value whose next value is computed from the current one through a call that can
// resolve an indirect reference: the loop follows a chain of references through the document (Next, Parent, Prev, Kids[0] ...).
type chainLoop struct {
	loop *natLoop
	phi  *ssa.Phi
	via  []string // resolving calls on the carried path
}

func chainLoops(fn *ssa.Function, cg *CG, deref map[*ssa.Function]bool) []chainLoop {
	var out []chainLoop
	for _, l := range naturalLoops(fn) {
		for _, ins := range l.header.Instrs {
			phi, ok := ins.(*ssa.Phi)
			if !ok {
				break
			}
			if !chainType(phi.Type()) {
				continue
			}
			via := map[string]bool{}
			carried := false
			for i, pred := range l.header.Preds {
				if !l.blocks[pred] {
					continue
				}
				// backward slice from the back-edge value, inside the loop
				seen := map[ssa.Value]bool{}
				var walk func(v ssa.Value, resolved bool, calls []string)
				walk = func(v ssa.Value, resolved bool, calls []string) {
					if v == phi {
						if resolved {
							carried = true
							for _, c := range calls {
								via[c] = true
							}
						}
						return
					}
					if seen[v] && !resolved {
						return
					}
					if seen[v] {
						// revisit once with resolved=true
						if _, again := v.(*ssa.Phi); again {
							return
						}
					}
					seen[v] = true
					ins, ok := v.(ssa.Instruction)
					if !ok || ins.Block() == nil || !l.blocks[ins.Block()] {
						return
					}
					if call, ok := v.(*ssa.Call); ok {
						tgts := cg.calleesOf(call)
						for _, g := range tgts {
							if deref[g] {
								resolved = true
								_, ref := callRef(call)
								calls = append(calls, ref)
								break
							}
						}
					}
					if ld, ok := v.(*ssa.UnOp); ok {
						// load of a local cell: follow stores into it inside the loop
						if al, ok := cellRoot(ld.X).(*ssa.Alloc); ok {
							for _, r := range *al.Referrers() {
								if st, ok := r.(*ssa.Store); ok && st.Addr == al && l.blocks[st.Block()] {
									walk(st.Val, resolved, calls)
								}
							}
						}
					}
					for _, op := range ins.Operands(nil) {
						if *op != nil {
							walk(*op, resolved, calls)
						}
					}
				}
				walk(phi.Edges[i], false, nil)
			}
			if carried {
				var vs []string
				for c := range via {
					vs = append(vs, c)
				}
				sort.Strings(vs)
				out = append(out, chainLoop{loop: l, phi: phi, via: vs})
			}
		}
	}
	return out
}

// chainType: the types a reference chain is carried in.
func chainType(t types.Type) bool {
	s := t.String()
	switch {
	case strings.HasSuffix(s, "types.IndirectRef"), strings.HasSuffix(s, "types.Dict"), strings.HasSuffix(s, "types.Object"),
		strings.HasSuffix(s, "types.StreamDict"), strings.HasSuffix(s, "types.Array"):
		return true
	}
	if b, ok := t.Underlying().(*types.Basic); ok && b.Info()&types.IsInteger != 0 {
		return true // object numbers
	}
	if p, ok := t.Underlying().(*types.Pointer); ok {
		return chainType(p.Elem())
	}
	return false
}

func init() {
	extraDebug["chainloops"] = func(p *Program) {
		cg := BuildCG(p)
		deref := derefReachers(p, cg)
		n := 0
		for _, fn := range p.Funcs {
			for _, cl := range chainLoops(fn, cg, deref) {
				n++
				name := cl.phi.Comment
				fmt.Printf("%s  %s  carried=%s:%s via %s\n", p.Fset.Position(cl.phi.Pos()), FuncID(fn), name, cl.phi.Type(), strings.Join(cl.via, ","))
			}
		}
		fmt.Println("chain loops:", n)
	}
}

// calleesOf: the subject functions a call instruction may enter (static callee, or the CHA targets with the invoked method's name).
func (g *CG) calleesOf(c ssa.CallInstruction) []*ssa.Function {
	if f := staticCallee(c); f != nil {
		return []*ssa.Function{unwrapSynthetic(f)}
	}
	cc := c.Common()
	var out []*ssa.Function
	if cc.IsInvoke() {
		for _, t := range g.Out[c.Parent()] {
			if t.Name() == cc.Method.Name() && t.Signature.Recv() != nil {
				out = append(out, t)
			}
		}
		return out
	}
	if fld := fieldOfValue(cc.Value); fld != nil {
		out = append(out, g.Bindings[fld]...)
	}
	return out
}

// exitDependsOnPhi: the loop has an exit whose condition is computed from the carried value without passing through a call
// (ir != nil, f != 0, ...): the loop runs until the chain ends, not over a finite collection.
func exitDependsOnPhi(l *natLoop, phi *ssa.Phi) bool {
	for b := range l.blocks {
		iff, ok := b.Instrs[len(b.Instrs)-1].(*ssa.If)
		if !ok {
			continue
		}
		exits := false
		for _, s := range b.Succs {
			if !l.blocks[s] {
				exits = true
			}
		}
		if !exits {
			continue
		}
		seen := map[ssa.Value]bool{}
		var dep func(v ssa.Value, d int) bool
		dep = func(v ssa.Value, d int) bool {
			if v == ssa.Value(phi) {
				return true
			}
			if seen[v] || d > 6 {
				return false
			}
			seen[v] = true
			switch x := v.(type) {
			case *ssa.BinOp:
				return dep(x.X, d+1) || dep(x.Y, d+1)
			case *ssa.UnOp:
				return dep(x.X, d+1)
			case *ssa.Phi:
				// short-circuit conditions
				if x.Block() != l.header {
					for _, e := range x.Edges {
						if dep(e, d+1) {
							return true
						}
					}
				}
			case *ssa.ChangeType:
				return dep(x.X, d+1)
			case *ssa.Convert:
				return dep(x.X, d+1)
			}
			return false
		}
		if dep(iff.Cond, 0) {
			return true
		}
	}
	return false
}

// c08LoopTriage: reference-chain loops without a guard of their own, confirmed terminating by reading. Keyed by function.
var c08LoopTriage = map[string]triage{
	"pkg/pdfcpu/validate.validateOutlineTreeDepth": {"D", "every item list it walks was scanned by scanAndFixOutlineItems first (rules C08.R2p and C08.R2s)", []string{"pkg/pdfcpu/validate.scanAndFixOutlineItems"}},
	"pkg/pdfcpu.attachWrappedSourceOutlines":       {"D", "merge works on validated contexts: the outline item lists were scanned (cycles rejected or repaired) by validate.scanAndFixOutlineItems", nil},
	"pkg/pdfcpu.foldExistingOutlines":              {"D", "see attachWrappedSourceOutlines", nil},
	"pkg/pdfcpu.reparentOutlineItems":              {"D", "see attachWrappedSourceOutlines", nil},
	"pkg/pdfcpu/model.(*XRefTable).validateFreeList": {"D", "each iteration removes f from the finite set m of recorded free objects, except for one restart guarded by lastValid == nil", nil},
	"pkg/pdfcpu/model.(*XRefTable).freeList":         {"D", "logging helper; the free list was made a proper chain ending at 0 by EnsureValidFreeList while reading", nil},
}

// c08Scanners: functions whose chain loop establishes that a chain is finite for later, unguarded consumers.
// consumers: every call of a consumer must come after a successful call of the scanner in the calling function.
var c08Scanners = map[string][]string{
	"pkg/pdfcpu/validate.scanAndFixOutlineItems": {"pkg/pdfcpu/validate.validateOutlineTreeDepth", "pkg/pdfcpu/validate.validateOutlineTree"},
}

// runC08Scanners: (R2s) a scanner's chain loop is left towards a plain success return only by the end-of-chain test;
// (R2p) consumers are called only after the scanner succeeded.
func runC08Scanners(c *Ctx, gs *guardSet) { runScannersAs(c, gs, "C08") }

// runScannersAs runs the scanner / consumer rules under another property's rule ids (C36 shares them: reading
// bookmarks validates the outline tree first, and that scan is what bounds the unguarded outline walks).
func runScannersAs(c *Ctx, gs *guardSet, prop string) {
	p, r := c.P, c.R
	cg := c.CG()
	deref := derefReachers(p, cg)
	for sid, consumers := range c08Scanners {
		fn := p.funcByID[sid]
		if fn == nil {
			r.Bad(prop+".R2s", sid, "scanner", "", "scanner function not found")
			continue
		}
		n := 0
		for _, cl := range chainLoops(fn, cg, deref) {
			if !exitDependsOnPhi(cl.loop, cl.phi) {
				continue
			}
			n++
			l := cl.loop
			var bad []string
			for b := range l.blocks {
				for si, s := range b.Succs {
					if l.blocks[s] {
						continue
					}
					// exit edge b -> s
					if iff, ok := b.Instrs[len(b.Instrs)-1].(*ssa.If); ok && condOnPhi(iff.Cond, cl.phi, l) {
						continue // end-of-chain test
					}
					_ = si
					if ret, ok := s.Instrs[len(s.Instrs)-1].(*ssa.Return); ok {
						if k, has := returnErrKind(ret); has && k != errNil {
							continue // error or handler result
						}
					}
					bad = append(bad, p.Fset.Position(lastPos(b)).String())
				}
			}
			sort.Strings(bad)
			pos := p.Fset.Position(cl.phi.Pos()).String()
			if len(bad) > 0 {
				r.Bad(prop+".R2s", sid, "scanner loop on "+cl.phi.Comment, pos, "the scan can stop with success before the end of the chain (exit at "+strings.Join(bad, ", ")+"): items behind that point are never checked for cycles, but consumers follow the chain to its end")
			} else {
				r.OK(prop+".R2s", sid, "scanner loop on "+cl.phi.Comment, pos, "the loop is left only by the end-of-chain test, an error, or a repair handler's result", true)
			}
		}
		if n == 0 {
			r.Bad(prop+".R2s", sid, "scanner", p.Fset.Position(fn.Pos()).String(), "no chain loop found in scanner")
		}
		for _, cid := range consumers {
			cons := p.funcByID[cid]
			if cons == nil {
				r.Bad(prop+".R2p", cid, "consumer", "", "consumer function not found")
				continue
			}
			for _, caller := range cg.In[cons] {
				if caller != cons && containsString(consumers, FuncID(caller)) {
					continue // forwarding wrapper, itself a consumer: its callers carry the obligation
				}
				genE := map[Edge][]string{}
				eachInstr(caller, func(_ *ssa.BasicBlock, _ int, i ssa.Instruction) {
					if call, ok := i.(*ssa.Call); ok {
						if f := staticCallee(call); f != nil && unwrapSynthetic(f) == fn {
							es, _ := successEdges(call)
							for _, e := range es {
								genE[e] = append(genE[e], "scanned")
							}
						}
					}
				})
				ff := NewFactFlow(caller, nil, genE, nil, nil)
				eachInstr(caller, func(_ *ssa.BasicBlock, _ int, i ssa.Instruction) {
					call, ok := i.(ssa.CallInstruction)
					if !ok {
						return
					}
					if f := staticCallee(call); f == nil || unwrapSynthetic(f) != cons {
						return
					}
					pos := p.Fset.Position(call.Pos()).String()
					if ff.Holds(i, "scanned") {
						r.OK(prop+".R2p", FuncID(caller), "call "+cons.Name(), pos, "reached only after "+fn.Name()+" returned nil", true)
					} else {
						r.Bad(prop+".R2p", FuncID(caller), "call "+cons.Name(), pos, cons.Name()+" follows item chains without a guard of its own and is reachable here without a successful "+fn.Name()+" before it")
					}
				})
			}
		}
	}
}

// condOnPhi: the condition tests the carried value itself (ir != nil).
func condOnPhi(v ssa.Value, phi *ssa.Phi, l *natLoop) bool {
	switch x := v.(type) {
	case *ssa.BinOp:
		return x.X == ssa.Value(phi) || x.Y == ssa.Value(phi)
	case *ssa.UnOp:
		return condOnPhi(x.X, phi, l)
	}
	return false
}

func runC08R2(c *Ctx, gs *guardSet, rule string, only func(string) bool) {
	p, r := c.P, c.R
	cg := c.CG()
	deref := derefReachers(p, cg)
	for _, fn := range p.Funcs {
		fid := FuncID(fn)
		if only != nil && !only(fid) {
			continue
		}
		for _, cl := range chainLoops(fn, cg, deref) {
			if !exitDependsOnPhi(cl.loop, cl.phi) {
				continue
			}
			gf := gs.factsMode(fn, nil, true)
			first := cl.loop.header.Instrs[0]
			ff := gf.flow(map[ssa.Instruction]bool{first: true})
			pos := p.Fset.Position(cl.phi.Pos()).String()
			construct := "chain loop on " + cl.phi.Comment
			var bad []string
			for _, b := range cl.loop.backs {
				term := b.Instrs[len(b.Instrs)-1]
				if len(gf.all) == 0 || !gf.satisfied(ff, term) {
					bad = append(bad, p.Fset.Position(lastPos(b)).String())
				}
			}
			if len(bad) == 0 {
				r.OK(rule, fid, construct, pos, fmt.Sprintf("loop follows %s through %s; every path from the loop head to the next iteration passes a guard (%s)", cl.phi.Comment, strings.Join(cl.via, ","), strings.Join(gf.desc, ",")), true)
				continue
			}
			if t, ok := c08LoopTriage[fid]; ok {
				if miss := missingRequired([]*ssa.Function{fn}, t.requires); len(miss) > 0 {
					r.Bad(rule, fid, construct, pos, fmt.Sprintf("loop is triaged as bounded (%s) but %s is no longer called", t.reason, strings.Join(miss, ",")))
				} else {
					r.OK(rule, fid, construct, pos, "class "+t.class+" — "+t.reason, false)
				}
				continue
			}
			r.Bad(rule, fid, construct, pos, fmt.Sprintf("loop follows %s through %s until the chain ends, but an iteration can complete without passing a visited or bound check (back edge at %s): a cyclic chain never ends", cl.phi.Comment, strings.Join(cl.via, ","), strings.Join(bad, ", ")))
		}
	}
}

func lastPos(b *ssa.BasicBlock) token.Pos {
	for i := len(b.Instrs) - 1; i >= 0; i-- {
		if b.Instrs[i].Pos().IsValid() {
			return b.Instrs[i].Pos()
		}
	}
	return b.Parent().Pos()
}

func init() {
	extraDebug["c08r2"] = func(p *Program) {
		c := &Ctx{P: p, R: NewReport("C08", "debug")}
		gs := newGuardSet(p)
		runC08R2(c, gs, "C08.R2", nil)
		runC08Scanners(c, gs)
		for _, o := range c.R.Obls {
			fmt.Printf("%s %s\n    %s\n", o.Verdict, o.Key, o.Witness)
		}
	}
}

func containsString(ss []string, s string) bool {
	for _, x := range ss {
		if x == s {
			return true
		}
	}
	return false
}
