package main

import (
	"fmt"
	"go/token"
	"go/types"
	"sort"
	"strings"

	"golang.org/x/tools/go/ssa"
)

// C04 — the CLI never overwrites existing outputs without --force.
//
// Value-based must-analysis: for every call of a pkg/cli command constructor, each argument that
// the constructor stores into Command.OutFile / OutFileJSON / OutDir must, on every path from the
// handler's entry, be (a) checked by an ensure* call whose failure leaves the function, (b) the same
// value as the constructor's input file (in place), (c) ""/"-"/stdoutForStdin(..), (d) a checked result
// of a helper, (e) a parameter checked at every caller, (f) known to be "-" on the path.

func init() {
	register(&Check{
		ID:  "C04",
		Run: runC04,
		Explanation: "Decides that every CLI path that names an output reaches the refusal check first: (R1) for each of the pkg/cli command constructors whose body stores a parameter into Command.OutFile/OutFileJSON/OutDir (found by reading the constructor's SSA, not by parameter name), every call site's argument value is proven checked on every CFG path by a forward must-dataflow over SSA values — facts ok(v) are generated on the success edge of ensureOutputFileAvailable(v) / ensureOutputDirEmpty(v) / ensureOutputDirOrFileAvailable(d,f), on the true edge of v == \"-\", and by helper summaries; phi nodes are proven per incoming edge; helper results through per-return proofs; parameters are re-posed at every caller; in-place use (output value = input value) and constants \"\"/\"-\" are accepted; (R2) the check functions themselves return nil only when the path is \"\"/\"-\", `force` is set, os.Stat/os.ReadDir reported not-exist, or the directory is empty, and `force` is the variable bound to the persistent flag --force; (R3) constructors documented to append to an existing destination (ImportImagesCommand, MergeAppendCommand) are exempt with reason. NOT decided: exit status (C41), what happens after the check (TOCTOU between check and write is closed by O_EXCL reservation — C01/C05), behaviour of os.Stat on symlinks.",
		Rules: []string{
			"C04.R1 MPT on values: every output argument of a command constructor is checked/in-place/stdout on every path",
			"C04.R2 the availability checks refuse unless empty/-/force/not-exist; force is bound to --force",
			"C04.R3 exemption table (append-to-existing commands)",
			"C04.R5 shape: no argument list reaches a …PDFArgs resolver with its tail cut off (the explicit output argument is never dropped before the availability check)",
		},
		Assumptions: []string{"commands reach pkg/cli only through the constructors (Command literals outside pkg/cli are reported)", "os.Stat/os.ReadDir semantics"},
		Technique:   "forward must-dataflow of checked(v) facts over SSA values with success-edge generation and helper summaries; constructor output parameters found by reading constructor SSA; exemption table",
		Note:        "Decides that the refusal check is reached with the same value that reaches the command, on every CFG path of every handler; does not decide exit status or that nothing ran before the check beyond what the dataflow shows. Two handlers whose idiom a value-based analysis cannot link get a residual rule (c04b.go).",
	})
}

const cmdPkg = "cmd/pdfcpu."

// constructors whose output is, by documented design, an existing file that is appended to / updated.
var c04Exempt = map[string]string{
	"pkg/cli.ImportImagesCommand": "documented: appends the images to outFile when it exists (resources_usage.go: 'If outFile already exists the page sequence will be appended')",
	"pkg/cli.MergeAppendCommand":  "documented: merge -mode append appends inFiles to an existing outFile",
}

type outParam struct {
	idx   int
	field string // OutFile | OutFileJSON | OutDir
}

type ctorInfo struct {
	fn   *ssa.Function
	outs []outParam
	ins  []int // parameter indices stored into InFile / InFiles
}

// analyseCtor reads a constructor body: which parameters reach which Command fields.
func analyseCtor(fn *ssa.Function) *ctorInfo {
	ci := &ctorInfo{fn: fn}
	fieldOfParam := func(pi int, p *ssa.Parameter) []string {
		var out []string
		holders := []ssa.Value{p}
		for _, rf := range *p.Referrers() {
			if st, ok := rf.(*ssa.Store); ok && st.Val == p {
				holders = append(holders, st.Addr) // spilled: new string (outFile)
			}
		}
		for _, h := range holders {
			refs := h.Referrers()
			if refs == nil {
				continue
			}
			for _, rf := range *refs {
				st, ok := rf.(*ssa.Store)
				if !ok || st.Val != h {
					continue
				}
				if fa, ok := st.Addr.(*ssa.FieldAddr); ok {
					if f := structField(fa.X.Type(), fa.Field); f != nil && strings.HasPrefix(objRef(f), "pkg/cli.Command.") {
						out = append(out, f.Name())
					}
				}
			}
		}
		return out
	}
	for pi, p := range fn.Params {
		for _, f := range fieldOfParam(pi, p) {
			switch f {
			case "OutFile", "OutFileJSON", "OutDir":
				ci.outs = append(ci.outs, outParam{pi, f})
			case "InFile", "InFiles":
				ci.ins = append(ci.ins, pi)
			}
		}
	}
	return ci
}

// sibling is the other output argument of the same constructor call (OutDir for an OutFile obligation and vice versa).
type sibling struct {
	v     ssa.Value
	isDir bool // v is the directory (the obligation is about the file)
}

// residual rules: idioms that a value-based analysis cannot link; each is checked by its own structural rule.
type c04Residual struct {
	param  string // parameter name the residual vouches for ("" = result)
	result int
	why    string
}

var c04Residuals = map[string]c04Residual{
	"cmd/pdfcpu.mergeCommandVariation": {param: "outFile", why: "outFile is checked by validateMergeFiles(mode, outFile, …) unless mode == append; the constructor is selected by the same mode value"},
	"cmd/pdfcpu.annotationRemovalArgs": {result: 1, why: "args[1] is checked inside the range loop at i == 1 under hasPDFExtension(arg) || arg == \"-\"; the returned outFile is recomputed by annotationOutFile under the same predicate"},
}

type c04State struct {
	c     *Ctx
	flows map[*ssa.Function]*FactFlow
	genE  map[*ssa.Function]map[Edge][]string
	sumP  map[string]int // helper param summary memo: 0 unknown/in progress, 1 yes, 2 no
	resid map[string]string
}

func strKey(v ssa.Value) string {
	if ld, ok := v.(*ssa.UnOp); ok && ld.Op == token.MUL {
		if ia, ok := ld.X.(*ssa.IndexAddr); ok {
			if n, ok := constInt(ia.Index); ok {
				return fmt.Sprintf("idx:%s[%d]", ia.X.Name(), n)
			}
		}
		root := cellRoot(ld.X)
		if _, isAlloc := root.(*ssa.Alloc); isAlloc && singleAssignedCell(root) {
			return "cell:" + root.Name() + "@" + root.Parent().Name()
		}
	}
	return "v:" + v.Name()
}

func isDashOrEmpty(v ssa.Value) bool {
	s, ok := constString(v)
	return ok && (s == "" || s == "-")
}

// flow builds (once per function) the ok(v) facts.
func (s *c04State) flow(fn *ssa.Function) *FactFlow {
	if ff, ok := s.flows[fn]; ok {
		return ff
	}
	s.flows[fn] = nil // recursion guard
	genE := map[Edge][]string{}
	add := func(edges []Edge, facts ...string) {
		for _, e := range edges {
			genE[e] = append(genE[e], facts...)
		}
	}
	eachInstr(fn, func(_ *ssa.BasicBlock, _ int, i ssa.Instruction) {
		switch x := i.(type) {
		case *ssa.BinOp:
			if x.Op != token.EQL && x.Op != token.NEQ {
				return
			}
			var v ssa.Value
			if c, ok := constString(x.Y); ok && c == "-" {
				v = x.X
			} else if c, ok := constString(x.X); ok && c == "-" {
				v = x.Y
			}
			if v != nil {
				add(condEdges(x, x.Op == token.EQL), "ok:"+strKey(v), "dash:"+strKey(v))
			}
		case *ssa.Call:
			_, ref := callRef(x)
			edges, has := successEdges(x)
			if !has {
				return
			}
			args := x.Call.Args
			switch ref {
			case cmdPkg + "ensureOutputFileAvailable":
				add(edges, "ok:"+strKey(args[0]))
			case cmdPkg + "ensureOutputDirEmpty":
				add(edges, "ok:"+strKey(args[0]), "okdir:"+strKey(args[0]))
			case cmdPkg + "ensureOutputDirOrFileAvailable":
				add(edges, "ok:"+strKey(args[0]), "ok:"+strKey(args[1]))
				if c, ok := constString(args[1]); ok && c == "" {
					add(edges, "okdir:"+strKey(args[0]))
				}
			default:
				callee := staticCallee(x)
				if callee == nil || !isSubject(callee) || callee.Blocks == nil || !strings.HasPrefix(FuncID(callee), cmdPkg) {
					return
				}
				for ai, a := range args {
					if ai < len(callee.Params) && isStringType(a.Type()) && s.paramChecked(callee, ai) {
						add(edges, "ok:"+strKey(a))
					}
				}
			}
		}
	})
	ff := NewFactFlow(fn, nil, genE, nil, nil)
	s.flows[fn] = ff
	s.genE[fn] = genE
	return ff
}

func isStringType(t types.Type) bool {
	b, ok := t.Underlying().(*types.Basic)
	return ok && b.Info()&types.IsString != 0
}

// paramChecked: helper g establishes ok(param i) on every return that may be a success.
func (s *c04State) paramChecked(g *ssa.Function, i int) bool {
	key := fmt.Sprintf("%s#%d", FuncID(g), i)
	switch s.sumP[key] {
	case 1:
		return true
	case 2, 3:
		return false
	}
	s.sumP[key] = 3
	ff := s.flow(g)
	ok := ff != nil
	n := 0
	if ok {
		for _, ret := range returnsOf(g) {
			if k, has := returnErrKind(ret); has && k == errNonNil {
				continue
			}
			n++
			if !ff.Holds(ret, "ok:"+strKey(g.Params[i])) {
				ok = false
			}
		}
	}
	if ok && n > 0 {
		s.sumP[key] = 1
		return true
	}
	s.sumP[key] = 2
	return false
}

// point is a program point: before instruction `at`, or on CFG edge e.
type point struct {
	at   ssa.Instruction
	edge *Edge
}

func (s *c04State) factsAt(fn *ssa.Function, pt point) map[string]bool {
	ff := s.flow(fn)
	if ff == nil {
		return map[string]bool{}
	}
	if pt.edge != nil {
		in, ok := ff.in[pt.edge.From]
		if !ok {
			return nil // unreachable
		}
		out := ff.transfer(pt.edge.From, in, len(pt.edge.From.Instrs))
		for _, f := range s.genE[fn][*pt.edge] {
			out[f] = true
		}
		return out
	}
	facts, un := ff.At(pt.at)
	if un {
		return nil
	}
	return facts
}

// prove returns "" when value v (in fn) is acceptable as an output path at pt; ins are the values used as input path(s).
func (s *c04State) prove(fn *ssa.Function, v ssa.Value, pt point, ins []ssa.Value, sib sibling, depth int, seen map[string]bool) string {
	if depth > 10 {
		return "proof too deep"
	}
	facts := s.factsAt(fn, pt)
	if facts == nil {
		return "" // unreachable point
	}
	if isDashOrEmpty(v) {
		return ""
	}
	k := strKey(v)
	if facts["ok:"+k] {
		return ""
	}
	// disjunctive acceptance: on every path one of the atoms was established
	atoms := []string{"ok:" + k}
	if sib.v != nil {
		if sib.isDir {
			atoms = append(atoms, "okdir:"+strKey(sib.v)) // file inside a directory checked to be empty
		} else {
			atoms = append(atoms, "dash:"+strKey(sib.v)) // directory unused when the file goes to stdout
			if c, ok := constString(sib.v); ok && c == "-" {
				return ""
			}
		}
	}
	if len(atoms) > 1 && s.holdsAny(fn, pt, atoms) {
		return ""
	}
	if r, ok := c04Residuals[FuncID(fn)]; ok {
		if p, isParam := v.(*ssa.Parameter); isParam && p.Name() == r.param {
			return s.residual(fn, r)
		}
	}
	for _, in := range ins {
		if in == v || strKey(in) == k && !strings.HasPrefix(k, "v:") {
			return "" // in place: output is the input file itself
		}
	}
	sk := fmt.Sprintf("%s|%s|%p|%v", FuncID(fn), v.Name(), pt.at, pt.edge)
	if seen[sk] {
		return ""
	}
	seen[sk] = true
	switch x := v.(type) {
	case *ssa.Call:
		_, ref := callRef(x)
		if ref == cmdPkg+"stdoutForStdin" {
			return ""
		}
		// single-result helper returning a string: prove its returns
		if g := staticCallee(x); g != nil && isSubject(g) && g.Blocks != nil && strings.HasPrefix(FuncID(g), cmdPkg) {
			return s.proveResult(g, 0, x, fn, ins, sib, depth, seen)
		}
		return "result of " + ref + " is not checked"
	case *ssa.Extract:
		if call, ok := x.Tuple.(*ssa.Call); ok {
			if g := staticCallee(call); g != nil && isSubject(g) && g.Blocks != nil && strings.HasPrefix(FuncID(g), cmdPkg) {
				if r, ok := c04Residuals[FuncID(g)]; ok && r.result == x.Index && r.param == "" {
					return s.residual(g, r)
				}
				return s.proveResult(g, x.Index, call, fn, ins, sib, depth, seen)
			}
			_, ref := callRef(call)
			return "result of " + ref + " is not checked"
		}
	case *ssa.Phi:
		blk := x.Block()
		for ei, e := range x.Edges {
			pred := blk.Preds[ei]
			si := -1
			for j, sc := range pred.Succs {
				if sc == blk {
					si = j
				}
			}
			ed := Edge{pred, si}
			if w := s.prove(fn, e, point{edge: &ed}, ins, sib, depth+1, seen); w != "" {
				return w
			}
		}
		return ""
	case *ssa.Parameter:
		idx := -1
		for i, pr := range fn.Params {
			if pr == x {
				idx = i
			}
		}
		var sites int
		for _, caller := range s.c.CG().In[fn] {
			var why string
			eachInstr(caller, func(_ *ssa.BasicBlock, _ int, i ssa.Instruction) {
				cc, ok := i.(ssa.CallInstruction)
				if !ok || staticCallee(cc) != fn || why != "" {
					return
				}
				sites++
				args := cc.Common().Args
				var ins2 []ssa.Value
				for _, in := range ins {
					for pi, pr := range fn.Params {
						if ssa.Value(pr) == in && pi < len(args) {
							ins2 = append(ins2, args[pi])
						}
					}
				}
				sib2 := sibling{isDir: sib.isDir}
				if sp, ok := sib.v.(*ssa.Parameter); ok {
					for pi, pr := range fn.Params {
						if pr == sp && pi < len(args) {
							sib2.v = args[pi]
						}
					}
				} else if sib.v != nil {
					if _, isConst := sib.v.(*ssa.Const); isConst {
						sib2.v = sib.v
					}
				}
				if w := s.prove(caller, args[idx], point{at: i}, ins2, sib2, depth+1, seen); w != "" {
					why = w + " (at call in " + FuncID(caller) + ", " + s.c.P.Pos(i.Pos()) + ")"
				}
			})
			if why != "" {
				return why
			}
		}
		if sites == 0 {
			return "parameter " + x.Name() + " of " + FuncID(fn) + " is not checked inside the function and the function is used as a handler value (no static caller to check it)"
		}
		return ""
	}
	return "value " + v.Name() + " (" + fmt.Sprintf("%T", v) + ") is not covered by an ensureOutput* check on every path"
}

// proveResult: result k of helper g (called at `call` in caller) is acceptable.
func (s *c04State) proveResult(g *ssa.Function, k int, call *ssa.Call, caller *ssa.Function, ins []ssa.Value, sib sibling, depth int, seen map[string]bool) string {
	sibIdx := -1
	if ex, ok := sib.v.(*ssa.Extract); ok && ex.Tuple == ssa.Value(call) {
		sibIdx = ex.Index
	}
	// which results of the same call does the caller use as inputs?
	var inIdx []int
	for _, in := range ins {
		if ex, ok := in.(*ssa.Extract); ok && ex.Tuple == ssa.Value(call) {
			inIdx = append(inIdx, ex.Index)
		}
	}
	// also: parameters of g that the caller passes input values for
	n := 0
	for _, ret := range returnsOf(g) {
		if kind, has := returnErrKind(ret); has && kind == errNonNil {
			continue
		}
		n++
		if k >= len(ret.Results) {
			return "helper result index out of range"
		}
		var ins2 []ssa.Value
		for _, j := range inIdx {
			ins2 = append(ins2, ret.Results[j])
		}
		for _, in := range ins {
			for ai, a := range call.Call.Args {
				if a == in && ai < len(g.Params) {
					ins2 = append(ins2, g.Params[ai])
				}
			}
		}
		sib2 := sibling{isDir: sib.isDir}
		if sibIdx >= 0 && sibIdx < len(ret.Results) {
			sib2.v = ret.Results[sibIdx]
		} else if sib.v != nil {
			for ai, a := range call.Call.Args {
				if a == sib.v && ai < len(g.Params) {
					sib2.v = g.Params[ai]
				}
			}
			if _, isConst := sib.v.(*ssa.Const); isConst {
				sib2.v = sib.v
			}
		}
		if w := s.prove(g, ret.Results[k], point{at: ret}, ins2, sib2, depth+1, seen); w != "" {
			return w + " (in helper " + FuncID(g) + ")"
		}
	}
	if n == 0 {
		return ""
	}
	return ""
}

func runC04(c *Ctx) {
	p, r := c.P, c.R
	r.MinInst["C04.R1"] = 40
	r.MinInst["C04.R2"] = 4
	r.MinInst["C04.R3"] = 2
	r.MinInst["C04.R5"] = 20
	checkOutputArgNotDropped(c)
	st := &c04State{c: c, flows: map[*ssa.Function]*FactFlow{}, genE: map[*ssa.Function]map[Edge][]string{}, sumP: map[string]int{}}

	// constructors
	ctors := map[*ssa.Function]*ctorInfo{}
	cliPkg := p.SSAPkgs[modPath+"/pkg/cli"]
	if cliPkg == nil {
		r.Bad("C04.R1", "pkg/cli", "anchor", "", "UNRESOLVED-ANCHOR: package pkg/cli not found")
		return
	}
	for _, m := range cliPkg.Members {
		fn, ok := m.(*ssa.Function)
		if !ok || fn.Blocks == nil {
			continue
		}
		res := fn.Signature.Results()
		if res.Len() != 1 || !namedTypeIs(res.At(0).Type(), modPath+"/pkg/cli", "Command") {
			continue
		}
		ci := analyseCtor(fn)
		if len(ci.outs) > 0 {
			ctors[fn] = ci
		}
	}
	if len(ctors) < 30 {
		r.Bad("C04.R1", "pkg/cli", "constructors", "", fmt.Sprintf("UNRESOLVED-ANCHOR: only %d output-taking command constructors recognised (expected about 60)", len(ctors)))
	}
	// Command literals outside pkg/cli would bypass the constructors
	for _, fn := range p.Funcs {
		if strings.HasPrefix(FuncID(fn), "pkg/cli.") || strings.HasPrefix(FuncID(fn), "pkg/cli/") {
			continue
		}
		eachInstr(fn, func(_ *ssa.BasicBlock, _ int, i ssa.Instruction) {
			if al, ok := i.(*ssa.Alloc); ok && namedTypeIs(al.Type(), modPath+"/pkg/cli", "Command") {
				r.Bad("C04.R1", FuncID(fn), "Command literal", p.Pos(al.Pos()), "cli.Command built outside pkg/cli: its output fields are not covered by the constructor-based check")
			}
		})
	}

	// call sites
	var callers []*ssa.Function
	for _, fn := range p.Funcs {
		if strings.HasPrefix(FuncID(fn), "pkg/cli.") {
			continue
		}
		callers = append(callers, fn)
	}
	exemptSeen := map[string]bool{}
	for _, fn := range callers {
		cnt := map[string]int{}
		eachInstr(fn, func(_ *ssa.BasicBlock, _ int, i ssa.Instruction) {
			cc, ok := i.(ssa.CallInstruction)
			if !ok {
				return
			}
			callee := staticCallee(cc)
			ci := ctors[callee]
			if ci == nil {
				return
			}
			cref := FuncID(callee)
			cnt[cref]++
			args := cc.Common().Args
			if why, ok := c04Exempt[cref]; ok {
				exemptSeen[cref] = true
				r.OK("C04.R3", FuncID(fn), fmt.Sprintf("%s#%d", cref, cnt[cref]), p.Pos(i.Pos()), "exempt: "+why, false)
				return
			}
			var ins []ssa.Value
			for _, pi := range ci.ins {
				ins = append(ins, args[pi])
			}
			// siblings: a file obligation may be discharged by its directory having been checked empty;
			// a directory obligation is void on paths where the file of the same constructor is "-" (stdout)
			var dirArg, fileArg ssa.Value
			for _, op := range ci.outs {
				if op.field == "OutDir" {
					dirArg = args[op.idx]
				}
				if op.field == "OutFile" {
					fileArg = args[op.idx]
				}
			}
			for _, op := range ci.outs {
				construct := fmt.Sprintf("%s#%d.%s", cref, cnt[cref], op.field)
				v := args[op.idx]
				sib := sibling{}
				if op.field == "OutDir" && fileArg != nil {
					sib = sibling{v: fileArg, isDir: false}
				} else if op.field != "OutDir" && dirArg != nil {
					sib = sibling{v: dirArg, isDir: true}
				}
				why := st.prove(fn, v, point{at: i}, ins, sib, 0, map[string]bool{})
				if why == "" {
					r.OK("C04.R1", FuncID(fn), construct, p.Pos(i.Pos()), "output argument is checked / in place / stdout on every path", true)
				} else {
					r.Bad("C04.R1", FuncID(fn), construct, p.Pos(i.Pos()), "output argument of "+cref+" ("+op.field+") can reach the command unchecked: "+why)
				}
			}
		})
	}
	var ex []string
	for k := range c04Exempt {
		ex = append(ex, k)
	}
	sort.Strings(ex)
	for _, k := range ex {
		if p.Func(k) == nil {
			r.Bad("C04.R3", k, "anchor", "", "UNRESOLVED-ANCHOR: exempt constructor no longer exists")
		}
	}

	// ---------- R2 ----------
	checkEnsureFunc(c, cmdPkg+"ensureOutputFileAvailable", "os.Stat", "os.Lstat")
	checkEnsureFunc(c, cmdPkg+"ensureOutputDirEmpty", "os.ReadDir")
	// ensureOutputDirOrFileAvailable: every success path passes one of the two checks (tail calls)
	if fn := p.Func(cmdPkg + "ensureOutputDirOrFileAvailable"); fn == nil {
		r.Bad("C04.R2", cmdPkg+"ensureOutputDirOrFileAvailable", "anchor", "", "UNRESOLVED-ANCHOR")
	} else {
		resetSummaries()
		if alwaysPasses(fn, Pred{Calls: []string{cmdPkg + "ensureOutputFileAvailable", cmdPkg + "ensureOutputDirEmpty"}}) {
			r.OK("C04.R2", FuncID(fn), "delegates", p.Pos(fn.Pos()), "every success path passes ensureOutputFileAvailable or ensureOutputDirEmpty", true)
		} else {
			r.Bad("C04.R2", FuncID(fn), "delegates", p.Pos(fn.Pos()), "a success path of ensureOutputDirOrFileAvailable passes neither availability check")
		}
	}
	// force is bound to --force
	bound := false
	for _, fn := range p.Funcs {
		if !strings.HasPrefix(FuncID(fn), cmdPkg) {
			continue
		}
		eachInstr(fn, func(_ *ssa.BasicBlock, _ int, i ssa.Instruction) {
			cc, ref := callRef(i)
			if cc == nil || !strings.HasPrefix(ref, "github.com/spf13/pflag.FlagSet.BoolVar") {
				return
			}
			args := cc.Common().Args
			if len(args) < 3 {
				return
			}
			g, isG := args[1].(*ssa.Global)
			name, _ := constString(args[2])
			if isG && g.Name() == "force" && name == "force" {
				bound = true
			}
		})
	}
	if bound {
		r.OK("C04.R2", cmdPkg+"force", "flag-binding", "", "global `force` is bound to the flag --force", false)
	} else {
		r.Bad("C04.R2", cmdPkg+"force", "flag-binding", "", "no BoolVar(&force, \"force\", …) found: the override is not tied to --force")
	}
	// force is written nowhere else
	for _, fn := range p.Funcs {
		eachInstr(fn, func(_ *ssa.BasicBlock, _ int, i ssa.Instruction) {
			if stt, ok := i.(*ssa.Store); ok {
				if g, ok := stt.Addr.(*ssa.Global); ok && g.Name() == "force" && g.Pkg != nil && g.Pkg.Pkg.Path() == modPath+"/cmd/pdfcpu" {
					if !strings.HasPrefix(fn.Synthetic, "package initializer") {
						r.Bad("C04.R2", FuncID(fn), "store force", p.Pos(i.Pos()), "`force` is assigned outside flag parsing")
					}
				}
			}
		})
	}
}

// checkEnsureFunc: nil returns only under {param == "", param == "-", force, IsNotExist(err of stat(param)), len(entries)==0}.
func checkEnsureFunc(c *Ctx, id string, statRefs ...string) {
	p, r := c.P, c.R
	fn := p.Func(id)
	if fn == nil {
		r.Bad("C04.R2", id, "anchor", "", "UNRESOLVED-ANCHOR: "+id+" not found")
		return
	}
	param := fn.Params[0]
	edges := map[Edge]bool{}
	var statCalls []*ssa.Call
	eachInstr(fn, func(_ *ssa.BasicBlock, _ int, i ssa.Instruction) {
		switch x := i.(type) {
		case *ssa.BinOp:
			if x.Op == token.EQL || x.Op == token.NEQ {
				if (x.X == ssa.Value(param) && isDashOrEmpty(x.Y)) || (x.Y == ssa.Value(param) && isDashOrEmpty(x.X)) {
					for _, e := range condEdges(x, x.Op == token.EQL) {
						edges[e] = true
					}
				}
				// len(entries) == 0
				if n, ok := constInt(x.Y); ok && n == 0 {
					if lc, ok := x.X.(*ssa.Call); ok {
						if _, ref := callRef(lc); ref == "builtin.len" {
							if ex, ok := lc.Call.Args[0].(*ssa.Extract); ok {
								if sc, ok := ex.Tuple.(*ssa.Call); ok {
									if _, sref := callRef(sc); sref == "os.ReadDir" && sc.Call.Args[0] == ssa.Value(param) {
										for _, e := range condEdges(x, x.Op == token.EQL) {
											edges[e] = true
										}
									}
								}
							}
						}
					}
				}
			}
		case *ssa.UnOp:
			if x.Op == token.MUL {
				if g, ok := x.X.(*ssa.Global); ok && g.Name() == "force" {
					for _, e := range condEdges(x, true) {
						edges[e] = true
					}
				}
			}
		case *ssa.Call:
			_, ref := callRef(x)
			for _, s := range statRefs {
				if ref == s && len(x.Call.Args) == 1 && x.Call.Args[0] == ssa.Value(param) {
					statCalls = append(statCalls, x)
				}
			}
			if ref == "os.IsNotExist" || ref == "errors.Is" {
				// argument must be the error of a stat call on the parameter
				a := x.Call.Args[0]
				okArg := false
				for _, sc := range statCalls {
					for _, ev := range errorResults(sc) {
						for _, al := range aliasesOf(ev) {
							if al == a {
								okArg = true
							}
						}
					}
				}
				if ref == "errors.Is" {
					okArg = okArg && isNotExistSentinel(x.Call.Args[1])
				}
				if okArg {
					for _, e := range condEdges(x, true) {
						edges[e] = true
					}
				}
			}
		}
	})
	if len(statCalls) == 0 {
		r.Bad("C04.R2", id, "stat", p.Pos(fn.Pos()), "the availability check no longer inspects the filesystem for its argument ("+strings.Join(statRefs, "/")+")")
	}
	runFlowRuleOn(c, FlowRule{
		ID:   "C04.R2",
		Gen:  []GenSpec{{Fact: "may-pass", edges: edges}},
		Need: []NeedSpec{{Fact: "may-pass", At: Pred{NilReturn: true}, Why: "the availability check returns nil on a path where the target was not shown to be empty/-/absent and --force was not given: an existing output would be overwritten silently"}},
	}, fn)
}

func isNotExistSentinel(v ssa.Value) bool {
	if ld, ok := v.(*ssa.UnOp); ok && ld.Op == token.MUL {
		if g, ok := ld.X.(*ssa.Global); ok {
			return g.Name() == "ErrNotExist"
		}
	}
	return false
}

// ---------------- C04.R5 (round 4 seed C04-H): the output argument reaches the resolver ----------------

// checkOutputArgNotDropped: the positional arguments end with the optional output file; the resolvers (functions of
// cmd/pdfcpu whose name ends in PDFArgs) are where an explicit output is checked against existing files. A handler may
// strip LEADING arguments (a description, a mode) before calling a resolver, but never the tail: no []string handed to a
// resolver is a slice with an upper bound (args[:1]) — that drops the output the user named, the resolver falls back
// to "write in place", and the named file (the input under another spelling, or a hard link to it) is rewritten
// without --force.
func checkOutputArgNotDropped(c *Ctx) {
	p, r := c.P, c.R
	n := 0
	for _, fn := range p.Funcs {
		if !isSubject(fn) || fn.Pkg == nil || !strings.HasSuffix(fn.Pkg.Pkg.Path(), "/cmd/pdfcpu") {
			continue
		}
		k := 0
		eachInstr(fn, func(_ *ssa.BasicBlock, _ int, i ssa.Instruction) {
			call, ok := i.(*ssa.Call)
			if !ok {
				return
			}
			callee := staticCallee(call)
			if callee == nil || !strings.HasSuffix(callee.Name(), "PDFArgs") || !isSubject(callee) {
				return
			}
			for _, a := range call.Call.Args {
				if a.Type().String() != "[]string" {
					continue
				}
				k++
				n++
				construct := fmt.Sprintf("arguments handed to %s#%d", callee.Name(), k)
				cut := false
				for _, l := range valueLeaves(a) {
					if sl, ok := l.(*ssa.Slice); ok && sl.High != nil {
						cut = true
					}
				}
				if cut {
					r.Bad("C04.R5", FuncID(fn), construct, p.Pos(call.Pos()), "the argument list can reach the resolver with its tail cut off (a slice with an upper bound): an explicit output file is dropped before it is checked against existing files, the command runs in place and rewrites a file the user named as output without --force")
				} else {
					r.OK("C04.R5", FuncID(fn), construct, p.Pos(call.Pos()), "the trailing arguments reach the resolver", true)
				}
			}
		})
	}
	if n == 0 {
		r.Bad("C04.R5", "cmd/pdfcpu", "anchor", "", "UNRESOLVED-ANCHOR: no call of a …PDFArgs resolver with an argument list")
	}
}
