package main

import (
	"fmt"
	"go/token"
	"sort"
	"strings"

	"golang.org/x/tools/go/ssa"
)

// c08Triage: residual recursion (cycles that remain after removing guarded call edges) confirmed terminating by reading.
// Keyed by one member function of the residual cycle. class "N": the cycle only descends into the direct nesting of values
// that are already in memory (the checker verifies that no call edge of the cycle hands on a value obtained from a resolving
// call); class "D": bounded by a stated structural reason the checker cannot see.
type triage struct {
	class, reason string
	// requires: functions that must still be called from inside the residual cycle (the construct the stated reason rests on)
	requires []string
}

var c08Triage = map[string]triage{
	// ---- bounded for a structural reason outside the cycle's own guards
	"pkg/pdfcpu.bypassXrefSection": {"D", "xref repair re-enters processTrailer with repairing=true, and parseTrailerDict returns before its bypassXrefSection call when repairing: nesting <= 1", []string{"pkg/pdfcpu.processTrailer"}},
	"pkg/pdfcpu.colorSpaceArrayComponents": {"D", "indexedColorSpaceComponents rejects a base colour space that is Indexed itself, so Indexed -> base nests once", []string{"pkg/pdfcpu.colorSpaceArrayName"}},
	"pkg/pdfcpu.migrateObject": {"D", "migrateObject returns early when migrated[objNr] is set and migrateIndRef records migrated[objNr] before the object is descended into", []string{"pkg/pdfcpu.migrateIndRef"}},
	"pkg/pdfcpu.writeIndirectObject": {"D", "writeIndirectObject returns when the object already has a write offset; writeObject assigns the offset before nested references are written", []string{"pkg/pdfcpu/model.WriteContext.HasWriteOffset"}},
	"pkg/pdfcpu/form.inheritedV": {"D", "walks /Parent; callers reach field dicts only after fullyQualifiedFieldName walked the same Parent chain under FormFieldVisit (cycle -> error)", []string{"pkg/pdfcpu/model.XRefTable.DereferenceDict"}},
	"pkg/pdfcpu/form.inheritedDV": {"D", "see inheritedV", []string{"pkg/pdfcpu/model.XRefTable.DereferenceDict"}},
	"pkg/pdfcpu/model.(*XRefTable).DeleteObject": {"D", "the object is freed before its content is descended into and locateObjForIndRef yields nil for a free entry, so each object is entered once", []string{"pkg/pdfcpu/model.XRefTable.FreeObject", "pkg/pdfcpu/model.XRefTable.locateObjForIndRef"}},
	"pkg/pdfcpu/validate.validatePagesAnnotations": {"D", "walks the page tree after the Pages validator (depth and PageTreeVisit guarded) accepted the same tree", []string{"pkg/pdfcpu/model.XRefTable.DereferenceDict"}},
	// ---- direct nesting inside reference-following walkers (the reference-following edge is guarded)
	"pkg/pdfcpu.(*annotationDeletionValidator).validateObject": {"N", "direct nesting of one parsed object; indirect references go through validateIndirectRef (visited set)", nil},
	"pkg/pdfcpu.fixDeepObject":  {"N", "direct nesting; indirect references go through fixIndirectObject (Optimize.Cache)", nil},
	"pkg/pdfcpu.traverse":       {"N", "direct nesting; the indirect reference branch is guarded by the duplObjs test-and-set", nil},
	// ---- in-memory nesting (bounded by the parser's depth guard, encoding/json's nesting limit, or construction in code)
	"pkg/log.(*logger).Printf":   {"N", "delegates to the wrapped Logger; wrappers are installed by SetXLogger calls, not by input", nil},
	"pkg/log.(*logger).Println":  {"N", "see Printf", nil},
	"pkg/log.(*logger).Fatalf":   {"N", "see Printf", nil},
	"pkg/log.(*logger).Fatalln":  {"N", "see Printf", nil},
	"pkg/pdfcpu.appendPDFObject": {"N", "serialises an in-memory object; nesting bounded by the parser depth guard", nil},
	"pkg/pdfcpu.decryptDeepObject": {"N", "walks the direct nesting of one parsed object", nil},
	"pkg/pdfcpu.encryptDeepObject": {"N", "walks the direct nesting of one parsed object", nil},
	"pkg/pdfcpu.patchObject":       {"N", "walks the direct nesting of one parsed object", nil},
	"pkg/pdfcpu/model.(CertificateDetails).string": {"N", "certificate chain built by x509 verification, finite list", nil},
	"pkg/pdfcpu/model.(Node).String":               {"N", "name tree nodes built by the depth-guarded name tree reader", nil},
	"pkg/pdfcpu/model.(Node).Value":                {"N", "see Node.String", nil},
	"pkg/pdfcpu/model.(*Node).Remove":              {"N", "see Node.String", nil},
	"pkg/pdfcpu/pkcs7.(asn1Structured).EncodeTo":   {"N", "encodes the tree built by the depth-guarded BER reader", nil},
	"pkg/pdfcpu/pkcs7.parseOctetString":            {"N", "segments of DER produced by the depth-guarded BER reader (nesting preserved)", nil},
	"pkg/pdfcpu/primitives.(*Content).validate":    {"N", "JSON page description; nesting bounded by encoding/json (10000)", nil},
	"pkg/pdfcpu/primitives.(*Content).render":      {"N", "JSON page description; nesting bounded by encoding/json (10000)", nil},
	"pkg/pdfcpu/types.(Array).Clone":               {"N", "direct nesting of one parsed object", nil},
	"pkg/pdfcpu/types.(Array).PDFString":           {"N", "direct nesting of one parsed object", nil},
	"pkg/pdfcpu/types.(Array).indentedString":      {"N", "direct nesting of one parsed object", nil},
}

func init() {
	for _, n := range []string{"Border", "FieldGroups", "Font", "ImageBoxes", "Margin", "Padding", "SimpleBoxes", "Tables", "TextBoxes"} {
		c08Triage["pkg/pdfcpu/primitives.(*Content).calc"+n] = triage{"N", "walks Content.parent, set while decoding nested JSON (bounded by encoding/json)", nil}
	}
	for _, n := range []string{"Border", "FieldGroup", "Font", "ImageBox", "Margin", "Padding", "SimpleBox", "Table", "TextBox"} {
		c08Triage["pkg/pdfcpu/primitives.(*Content).named"+n] = triage{"N", "walks Content.parent, set while decoding nested JSON (bounded by encoding/json)", nil}
	}
}

type sccEdge struct {
	from, to *ssa.Function
	call     ssa.CallInstruction
	status   string // guarded | nesting | deref
	why      string
}

// derefDerived: v is computed (inside its function) from the result of a call that can resolve an indirect reference.
func derefDerived(v ssa.Value, cg *CG, deref map[*ssa.Function]bool) (bool, string) {
	seen := map[ssa.Value]bool{}
	var hit string
	var walk func(x ssa.Value, d int) bool
	walk = func(x ssa.Value, d int) bool {
		if x == nil || seen[x] || d > 14 {
			return false
		}
		seen[x] = true
		switch y := x.(type) {
		case *ssa.Parameter, *ssa.FreeVar, *ssa.Const, *ssa.Global, *ssa.Function:
			return false
		case *ssa.Call:
			for _, g := range cg.calleesOf(y) {
				if deref[g] {
					_, hit = callRef(y)
					if hit == "" {
						hit = g.Name()
					}
					return true
				}
			}
		case *ssa.UnOp:
			if al, ok := cellRoot(y.X).(*ssa.Alloc); ok {
				for _, r := range *al.Referrers() {
					if st, ok := r.(*ssa.Store); ok && st.Addr == ssa.Value(al) {
						if walk(st.Val, d+1) {
							return true
						}
					}
				}
			}
		}
		if ins, ok := x.(ssa.Instruction); ok {
			for _, op := range ins.Operands(nil) {
				if *op != nil && walk(*op, d+1) {
					return true
				}
			}
		}
		return false
	}
	return walk(v, 0), hit
}

// objectish: argument types through which a document structure is handed on.
func objectish(v ssa.Value) bool {
	s := v.Type().String()
	for _, k := range []string{"types.Object", "types.Dict", "types.Array", "types.StreamDict", "types.IndirectRef", "model.Node", "types.XObjectStreamDict", "types.ObjectStreamDict"} {
		if strings.Contains(s, k) {
			return true
		}
	}
	return isIntType(v.Type()) // object numbers
}

func classifySCCEdges(gs *guardSet, cg *CG, deref map[*ssa.Function]bool, comp []*ssa.Function) []sccEdge {
	set := map[*ssa.Function]bool{}
	for _, f := range comp {
		set[f] = true
	}
	var out []sccEdge
	for _, f := range comp {
		gf := gs.facts(f, set)
		var ff *FactFlow
		if len(gf.all) > 0 {
			ff = gf.flow(nil)
		}
		eachInstr(f, func(_ *ssa.BasicBlock, _ int, i ssa.Instruction) {
			call, ok := i.(ssa.CallInstruction)
			if !ok {
				return
			}
			var tgts []*ssa.Function
			for _, g := range cg.calleesOf(call) {
				if set[g] {
					tgts = append(tgts, g)
				}
			}
			if len(tgts) == 0 {
				return
			}
			st, why := "nesting", ""
			if ff != nil && gf.satisfied(ff, i) {
				st, why = "guarded", strings.Join(gf.desc, ",")
			} else {
				args := call.Common().Args
				if call.Common().IsInvoke() {
					args = append([]ssa.Value{call.Common().Value}, args...)
				}
				for _, a := range args {
					if !objectish(a) {
						continue
					}
					if dd, via := derefDerived(a, cg, deref); dd {
						st, why = "deref", "argument "+a.Name()+" comes from "+via
						break
					}
				}
			}
			for _, g := range tgts {
				out = append(out, sccEdge{from: f, to: g, call: call, status: st, why: why})
			}
		})
		// closures of f calling back into the component count as edges of f (conservative: unguarded)
	}
	return out
}

// residualCycles: cyclic components of the graph formed by the non-guarded edges.
func residualCycles(comp []*ssa.Function, edges []sccEdge) [][]*ssa.Function {
	out := map[*ssa.Function][]*ssa.Function{}
	for _, e := range edges {
		if e.status != "guarded" {
			out[e.from] = append(out[e.from], e.to)
		}
	}
	g := &CG{Out: out, In: map[*ssa.Function][]*ssa.Function{}}
	var res [][]*ssa.Function
	for _, c := range g.SCCs(comp) {
		if len(c) > 1 {
			res = append(res, c)
			continue
		}
		for _, t := range out[c[0]] {
			if t == c[0] {
				res = append(res, c)
				break
			}
		}
	}
	return res
}

func funcNames(fs []*ssa.Function) []string {
	var ns []string
	for _, f := range fs {
		ns = append(ns, FuncID(f))
	}
	sort.Strings(ns)
	return ns
}

func runC08R1(c *Ctx, gs *guardSet) {
	p, r := c.P, c.R
	cg := c.CG()
	deref := derefReachers(p, cg)
	sccs := recursionSCCs(p, cg)
	used := map[string]bool{}
	for _, comp := range sccs {
		names := funcNames(comp)
		anchor := names[0]
		pos := p.Fset.Position(comp[0].Pos()).String()
		edges := classifySCCEdges(gs, cg, deref, comp)
		res := residualCycles(comp, edges)
		ng := 0
		var gdesc []string
		for _, e := range edges {
			if e.status == "guarded" {
				ng++
				gdesc = append(gdesc, FuncID(e.from)+"->"+e.to.Name()+" ["+e.why+"]")
			}
		}
		sort.Strings(gdesc)
		if len(res) == 0 {
			w := fmt.Sprintf("component of %d function(s) {%s}: every cycle passes a guarded call edge (%d guarded of %d intra-component call sites): %s", len(comp), strings.Join(names, ", "), ng, len(edges), strings.Join(dedupStrings(gdesc), "; "))
			r.OK("C08.R1", anchor, "recursion", pos, w, true)
			continue
		}
		for _, k := range res {
			kn := funcNames(k)
			kset := map[*ssa.Function]bool{}
			for _, f := range k {
				kset[f] = true
			}
			var derefEdges []string
			for _, e := range edges {
				if e.status == "deref" && kset[e.from] && kset[e.to] {
					derefEdges = append(derefEdges, fmt.Sprintf("%s: %s -> %s (%s)", p.Fset.Position(e.call.Pos()), FuncID(e.from), e.to.Name(), e.why))
				}
			}
			sort.Strings(derefEdges)
			var tr *triage
			var trKey string
			for _, n := range kn {
				if t, ok := c08Triage[n]; ok {
					tt := t
					tr, trKey = &tt, n
					break
				}
			}
			kpos := p.Fset.Position(k[0].Pos()).String()
			switch {
			case tr == nil && len(derefEdges) > 0:
				r.Bad("C08.R1", kn[0], "recursion", kpos, fmt.Sprintf("unguarded recursion {%s}: a cycle follows indirect references without passing a depth or visited guard: %s", strings.Join(kn, ", "), strings.Join(derefEdges, "; ")))
			case tr == nil:
				r.Bad("C08.R1", kn[0], "recursion", kpos, fmt.Sprintf("unclassified recursion {%s}: no guard on the cycle and no triage entry stating what bounds its depth", strings.Join(kn, ", ")))
			case tr.class == "N" && len(derefEdges) > 0:
				used[trKey] = true
				r.Bad("C08.R1", kn[0], "recursion", kpos, fmt.Sprintf("recursion {%s} is triaged as in-memory nesting (%s) but hands on resolved references: %s", strings.Join(kn, ", "), tr.reason, strings.Join(derefEdges, "; ")))
			case len(missingRequired(k, tr.requires)) > 0:
				used[trKey] = true
				r.Bad("C08.R1", kn[0], "recursion", kpos, fmt.Sprintf("recursion {%s} is triaged as bounded (%s) but the construct that reason rests on is gone: no call to %s inside the cycle", strings.Join(kn, ", "), tr.reason, strings.Join(missingRequired(k, tr.requires), ", ")))
			default:
				used[trKey] = true
				r.OK("C08.R1", kn[0], "recursion", kpos, fmt.Sprintf("residual cycle {%s}: class %s — %s (deref edges on the cycle: %d)", strings.Join(kn, ", "), tr.class, tr.reason, len(derefEdges)), tr.class == "N")
			}
		}
	}
	var stale []string
	for k := range c08Triage {
		if !used[k] {
			stale = append(stale, k)
		}
	}
	sort.Strings(stale)
	if len(stale) > 0 {
		r.Note("C08.R1 triage entries not needed on this build configuration: %s", strings.Join(stale, ", "))
	}
}

func dedupStrings(ss []string) []string {
	var out []string
	for i, s := range ss {
		if i == 0 || s != ss[i-1] {
			out = append(out, s)
		}
	}
	return out
}

func init() {
	extraDebug["c08r1"] = func(p *Program) {
		c := &Ctx{P: p, R: NewReport("C08", "debug")}
		gs := newGuardSet(p)
		runC08R1(c, gs)
		for _, o := range c.R.Obls {
			fmt.Printf("%s %s\n    %s\n", o.Verdict, o.Key, o.Witness)
		}
		for _, n := range c.R.Notes {
			fmt.Println("note:", n)
		}
	}
}

func missingRequired(k []*ssa.Function, req []string) []string {
	have := map[string]bool{}
	for _, f := range k {
		eachInstr(f, func(_ *ssa.BasicBlock, _ int, i ssa.Instruction) {
			if _, ref := callRef(i); ref != "" {
				have[ref] = true
			}
		})
	}
	var miss []string
	for _, q := range req {
		if !have[q] {
			miss = append(miss, q)
		}
	}
	return miss
}

// ---------------- registration ----------------

func init() {
	register(&Check{
		ID:  "C08",
		Run: runC08,
		Explanation: "Decides the stack-exhaustion and cyclic-reference clauses of the property, structurally, for the whole module: " +
			"(R1) every recursion component of the call graph (std-interface dispatch excluded) is bounded: after removing the call edges that are reached only after a guard " +
			"(model.CheckRecursionDepth / XRefTable.CheckRecursionDepth with a caller-supplied depth, a *Visit.Enter, a test-and-set on a caller-supplied visited map, the xref entry Valid/BeingValidated/BeingParsed flags, " +
			"an inline `depth > limit` on a parameter that is handed on, or a function summarised as always passing such a guard before a nil error / non-nil result) no cycle remains, or the remaining cycle only descends the direct nesting of in-memory values " +
			"(no call edge on it hands on a value obtained from a call that can resolve an indirect reference; triage table class N with the reason the nesting is bounded) or is listed with a structural reason (class D, with the calls the reason rests on required to be present). " +
			"(R1i) the parameter a depth guard decides on does not travel around a recursion cycle unchanged (some call on every cycle passes depth+c or a fresh value), so the bound can fire. " +
			"(R2) every loop that follows a chain of references until it ends (a loop-carried value recomputed through a resolving call, exit test on that value) passes a visited/bound guard on every path from the loop head to the next iteration, or is listed as consumer of a scanner; " +
			"(R2s) the scanner (validate.scanAndFixOutlineItems) leaves its loop towards a plain success return only by the end-of-chain test; (R2p) the unguarded consumer (validateOutlineTreeDepth) is called only after a successful scan. " +
			"(R3) a document-controlled array indexed by the position in a sibling array has len >= the sibling's established by make(len), a dominating comparison, or on every path to each call site. " +
			"(R0) the base guard functions still compare/test and return an error. " +
			"(R6) the free-list validator, whose repair is what lets the unguarded free-list walkers terminate, closes the list (stores 0 through an Offset field) on every early exit of its visited-set loop that is not an error return; (R5) every slice of a stream dictionary's Content or Raw with a computed bound is behind comparisons with the length of that same buffer (relational range argument shared with C31/C09); (R4) every constant index into a types.Array (165 sites) lies behind a dominating comparison of the array's length, indexes an array built in the same function, reads an array returned by a validate…ArrayEntry call whose arity validator closure fixes the length, is a parameter whose every static call site tests the length, or is in the triage table with its reason (sample generators, colour-space arrays of validated contexts, two disjunctive length tests). NOT decided: index/slice/nil/type-assertion panics in general (140 of 352 types.Array index sites have no syntactic proof; listed by `pdfcpu-verif debug arrayidx`), time bounds of loops that are not reference chains (e.g. the quadratic BER re-encoding found while building this check), allocation sizes, fonts/certificates parsing by the standard library.",
		Rules: []string{
			"C08.R0 shape: base guard functions compare a depth / test a visited set and return an error",
			"C08.R1 SCC: no unguarded recursion cycle that follows indirect references; residual cycles triaged N (verified deref-free) or D (required calls present)",
			"C08.R1i flow: the depth a depth guard decides on is not handed around a recursion cycle unchanged",
			"C08.R6 MPT: every early exit of the free-list validator's visited-set loop stores 0 into the last entry's Offset or is an error return",
			"C08.R5 range: slices of a stream's Content/Raw by computed offsets are bounded by the buffer's length",
			"C08.R4 guard: a constant index into a document array is behind a length test (dominating comparison, arity validator, call sites) or triaged",
			"C08.R2 MPT: reference-chain loops pass a guard per iteration",
			"C08.R2s shape: scanner loop exits", "C08.R2p MPT: consumer only after scanner",
			"C08.R4 guard: a constant index into a document array is behind a length test (dominating comparison, arity validator, call sites) or triaged", "C08.R3 relation: sibling-indexed document arrays have an established length relation",
		},
		Assumptions: []string{
			"in-memory types.Object values contain no cycles: pdfcpu never stores a dereferenced container into one of its own ancestors (not checked)",
			"encoding/json bounds the nesting of decoded JSON (10000)",
			"class D triage entries (c08Triage, c08LoopTriage, c08IndexTriage) were confirmed by reading and by the reproducers in findings/C08; only the presence of the calls they rest on is re-checked",
			"call graph: static calls, closures, struct-field function bindings and CHA for module interfaces; calls through std interfaces (error, Stringer, io.Reader/Writer) are not recursion edges",
		},
		Technique: "call-graph SCC analysis with per-call-edge must-pass-through guard dataflow (SSA), guard-function summaries to fixpoint, backward slices for reference-derived arguments and loop-carried values, natural-loop must-dataflow, length-relation facts on dominating edges",
		Note:      "Partial (structural necessary conditions). Found and repaired: 19 unbounded recursions/loops on cyclic references (validators, stream Filter/DecodeParms self reference, optimize/merge/trim/watermark walkers, EqualObjects, BER reader, outline Prev chain, TIFF IFD chain).",
	})
	register(&Check{
		ID:  "C36",
		Run: runC36,
		Explanation: "Decides only the termination clause ('reading bookmarks terminates on any outline, including cyclic ones'), structurally: in pkg/pdfcpu/bookmark.go and pkg/api/bookmark.go " +
			"(R1) every recursion component is cut by a guarded call edge (checkBookmarkRecursionDepth with the caller's depth / checkBookmarkCycle on the caller's visited set) — triage entries are not accepted here; " +
			"(R2) every loop that follows /Next (or any other reference chain) passes checkBookmarkCycle (or an equivalent test-and-set) on every path from the loop head to the next iteration, including the `continue` paths. " +
			"(R2s/R2p, shared with C08) reading bookmarks through the API validates the outline tree first: validate.scanAndFixOutlineItems leaves its loop towards success only by the end-of-chain test, and the unguarded walk validateOutlineTreeDepth runs only after a successful scan. " +
			"(R3, one clause of the round trip) where a bookmark's named destination is registered with Node.Add(…, m, keys), no dictionary entry named in keys is stored after the call: the registration renames a destination whose title is already taken and rewrites those entries, and a later store would undo that, making bookmarks with equal titles share one target. " +
			"(R4, writer/reader agreement) the outline item entries the reader takes only when present (/C → Bookmark.Color, /F → Bold/Italic) are stored by the writer under presence tests only — every branch condition that dominates the store is a nil test, a zero test or a flag, never a condition on the attribute's value (a colour or style that is skipped because it 'is the default' does not come back). " +
			"(R5, writer/reader agreement) every source of the value stored under /Title is the byte-order-marked UTF-16BE encoder (types.EscapedUTF16String, or types.Escape over types.EncodeUTF16String, followed through wrappers' return values): that is the one form the reader decodes without its valid-UTF-8-else-PDFDocEncoding guess. " +
			"(R6, writer/reader agreement) XRefTable.DereferenceDestArray consults the Dests name tree — where bmDict registers the destination of an imported bookmark — before the legacy catalog /Dests dictionary on every path. NOT decided: the rest of the export/import round trip (pages, nesting, order, numeric colour values) — value-level.",
		Rules:       []string{"C36.R1 SCC: bookmark recursion guarded", "C36.R2 MPT: bookmark chain loops guarded per iteration", "C36.R2s/R2p: the outline scan that validation runs before bookmarks are read is complete, and the unguarded outline walk runs only after it", "C36.R3 order: entries a name registration may rewrite are not stored after it", "C36.R4 agreement: optional outline entries stored under presence tests only", "C36.R5 agreement: title bytes come from the BOM-marked UTF-16BE encoder", "C36.R6 agreement: named destinations are resolved in the store the bookmark writer registers in, before the legacy /Dests dictionary", "C36.R7 shape: the UTF-16 encoder titles go through delegates to unicode/utf16 (surrogate pairs)", "C36.R8 TABLE: Bookmark.Style can return every combination of the italic and bold bits {0,1,2,3}"},
		Assumptions: []string{"same call graph and guard recognition as C08"},
		Technique:   "call-graph SCC analysis and natural-loop must-pass-through dataflow on SSA (shared with C08), restricted to the bookmark files; dominating-branch classification and value-source tracing (through callee return values) for the writer/reader agreement clauses",
		Note:        "Partial: termination clause, plus three structural clauses of the round trip.",
	})
}

func runC08(c *Ctx) {
	r := c.R
	r.MinInst["C08.R0"] = 5
	r.MinInst["C08.R1"] = 60
	r.MinInst["C08.R1i"] = 30
	r.MinInst["C08.R2"] = 8
	r.MinInst["C08.R2s"] = 1
	r.MinInst["C08.R2p"] = 2
	r.MinInst["C08.R3"] = 6
	gs := newGuardSet(c.P)
	runC08R0(c)
	runC08R1(c, gs)
	runC08R1i(c, gs)
	runC08R2(c, gs, "C08.R2", nil)
	runC08Scanners(c, gs)
	runC08R3(c)
	r.MinInst["C08.R4"] = 100
	runC08R4(c)
	r.MinInst["C08.R5"] = 3
	runC08R5(c)
	r.MinInst["C08.R6"] = 2
	runC08R6(c)
	var gl []string
	for k, v := range gs.funcs {
		gl = append(gl, k+" = "+v)
	}
	for k, v := range gs.ptrFuncs {
		gl = append(gl, k+" = "+v)
	}
	sort.Strings(gl)
	r.Extra["guard_functions"] = gl
}

// runC08R0: the trusted base guards still have the shape they are trusted for.
func runC08R0(c *Ctx) {
	p, r := c.P, c.R
	refs := []string{}
	for k := range c08BaseGuards {
		refs = append(refs, k)
	}
	for k := range c08TestAndSetCalls {
		refs = append(refs, k)
	}
	sort.Strings(refs)
	for _, ref := range refs {
		var fn *ssa.Function
		for _, f := range p.Funcs {
			if o := f.Object(); o != nil && objRef(o) == ref {
				fn = f
			}
		}
		if fn == nil {
			r.Bad("C08.R0", ref, "guard", "", "base guard function not found")
			continue
		}
		kind := c08BaseGuards[ref]
		cmp, lookup, update, errRet, flagSet, fieldIncr := false, false, false, false, false, false
		eachInstr(fn, func(_ *ssa.BasicBlock, _ int, i ssa.Instruction) {
			switch x := i.(type) {
			case *ssa.BinOp:
				if x.Op == token.GTR || x.Op == token.GEQ || x.Op == token.LSS || x.Op == token.LEQ {
					cmp = true
				}
			case *ssa.Lookup:
				lookup = true
			case *ssa.MapUpdate:
				update = true
			case *ssa.Store:
				if _, ok := x.Addr.(*ssa.FieldAddr); ok && isBoolType(x.Val.Type()) {
					flagSet = true
				}
				if _, ok := x.Addr.(*ssa.FieldAddr); ok {
					if add, ok := x.Val.(*ssa.BinOp); ok && add.Op == token.ADD {
						if k, ok := constInt(add.Y); ok && k > 0 {
							fieldIncr = true
						}
					}
				}
			case *ssa.Call:
				if _, cref := callRef(x); c08BaseGuards[cref] != "" || c08TestAndSetCalls[cref] != "" {
					cmp, lookup, update = true, true, true // delegates to another base guard
				}
			case *ssa.Return:
				if k, has := returnErrKind(x); has && k != errNil {
					errRet = true
				}
				if !isErrorResult(fn) {
					errRet = true
				}
			}
		})
		pos := p.Fset.Position(fn.Pos()).String()
		ok := false
		switch {
		case kind == "depth":
			ok = cmp && errRet
			// a depth guard without a depth parameter keeps the nesting in a struct field and must increment it itself
			hasIntParam := false
			for _, prm := range fn.Params {
				if isIntType(prm.Type()) {
					hasIntParam = true
				}
			}
			if !hasIntParam && !fieldIncr {
				ok = false
			}
		case kind == "visited":
			ok = lookup && update && errRet
		default: // test-and-set calls
			ok = (lookup && update) || flagSet
		}
		if ok {
			r.OK("C08.R0", ref, "guard", pos, "still compares/tests and reports", true)
		} else {
			r.Bad("C08.R0", ref, "guard", pos, fmt.Sprintf("base guard lost its shape (compare=%v lookup=%v update=%v flag=%v error-return=%v)", cmp, lookup, update, flagSet, errRet))
		}
	}
}

func isErrorResult(fn *ssa.Function) bool {
	res := fn.Signature.Results()
	return res.Len() > 0 && isErrorType(res.At(res.Len()-1).Type())
}

func inBookmarkFiles(p *Program, fn *ssa.Function) bool {
	f := p.Fset.Position(fn.Pos()).Filename
	return strings.HasSuffix(f, "pkg/pdfcpu/bookmark.go") || strings.HasSuffix(f, "pkg/api/bookmark.go")
}

func runC36(c *Ctx) {
	p, r := c.P, c.R
	r.MinInst["C36.R1"] = 3
	r.MinInst["C36.R2"] = 2
	gs := newGuardSet(p)
	cg := c.CG()
	deref := derefReachers(p, cg)
	for _, comp := range recursionSCCs(p, cg) {
		in := false
		for _, f := range comp {
			if inBookmarkFiles(p, f) {
				in = true
			}
		}
		if !in {
			continue
		}
		names := funcNames(comp)
		edges := classifySCCEdges(gs, cg, deref, comp)
		res := residualCycles(comp, edges)
		pos := p.Fset.Position(comp[0].Pos()).String()
		if len(res) == 0 {
			var gd []string
			for _, e := range edges {
				if e.status == "guarded" {
					gd = append(gd, FuncID(e.from)+"->"+e.to.Name()+" ["+e.why+"]")
				}
			}
			sort.Strings(gd)
			r.OK("C36.R1", names[0], "recursion", pos, fmt.Sprintf("{%s}: every cycle passes a guarded call edge: %s", strings.Join(names, ", "), strings.Join(dedupStrings(gd), "; ")), true)
			continue
		}
		for _, k := range res {
			r.Bad("C36.R1", funcNames(k)[0], "recursion", p.Fset.Position(k[0].Pos()).String(), fmt.Sprintf("bookmark recursion {%s} has a cycle without a depth or visited guard", strings.Join(funcNames(k), ", ")))
		}
	}
	r.MinInst["C36.R3"] = 2
	checkRegisteredKeysNotRewritten(c, "C36.R3")
	r.MinInst["C36.R6"] = 1
	checkDestinationStoreOrder(c)
	r.MinInst["C36.R2s"] = 1
	r.MinInst["C36.R2p"] = 2
	runScannersAs(c, gs, "C36")
	r.MinInst["C36.R4"] = 2
	r.MinInst["C36.R5"] = 1
	checkOptionalAttributesWritten(c)
	checkTitleEncoding(c)
	r.MinInst["C36.R7"] = 1
	r.MinInst["C36.R8"] = 1
	checkC36Round4(c)
	saved := c08LoopTriage
	c08LoopTriage = map[string]triage{}
	runC08R2(c, gs, "C36.R2", func(fid string) bool {
		fn := p.funcByID[fid]
		return fn != nil && inBookmarkFiles(p, fn)
	})
	c08LoopTriage = saved
}

// ---------------- C08.R1i: the depth handed around a depth-guarded cycle increases ----------------
//
// Nodes are (function, int parameter); an intra-component call that passes parameter j unchanged as argument k gives an edge
// of weight 0, `j + c` (c > 0) an edge of weight 1. A parameter that is the subject of a depth guard and lies on a cycle of
// weight-0 edges is a depth that never grows: the guard can never fire.
func runC08R1i(c *Ctx, gs *guardSet) { runC08R1iAs(c, gs, "C08.R1i") }

func runC08R1iAs(c *Ctx, gs *guardSet, rule string) {
	p, r := c.P, c.R
	cg := c.CG()
	type node struct {
		fn  *ssa.Function
		idx int
	}
	for _, comp := range recursionSCCs(p, cg) {
		set := map[*ssa.Function]bool{}
		for _, f := range comp {
			set[f] = true
		}
		same := map[node][]node{}
		type reset struct {
			from *ssa.Function
			to   node
			pos  token.Pos
		}
		var resets []reset
		var subjects []node
		for _, f := range comp {
			f := f
			eachInstr(f, func(_ *ssa.BasicBlock, _ int, i ssa.Instruction) {
				call, ok := i.(*ssa.Call)
				if !ok {
					return
				}
				if prm := gs.depthArgParam(call); prm != nil {
					subjects = append(subjects, node{f, paramIndex(f, prm)})
				}
				g := staticCallee(call)
				if g == nil || !set[unwrapSynthetic(g)] {
					return
				}
				g = unwrapSynthetic(g)
				args := call.Call.Args
				for k, a := range args {
					if k >= len(g.Params) || !isIntType(a.Type()) {
						continue
					}
					if prm, ok := a.(*ssa.Parameter); ok {
						n := node{f, paramIndex(f, prm)}
						same[n] = append(same[n], node{g, k})
					}
					if _, isC := a.(*ssa.Const); isC {
						resets = append(resets, reset{f, node{g, k}, call.Pos()})
					}
				}
			})
			// inline depth comparisons
			for _, prm := range f.Params {
				if !isIntType(prm.Type()) {
					continue
				}
				for _, rf := range *prm.Referrers() {
					if b, ok := rf.(*ssa.BinOp); ok && (b.Op == token.GTR || b.Op == token.GEQ) && b.X == ssa.Value(prm) && paramHandedOn(prm, set) {
						if _, isC := b.Y.(*ssa.Const); isC {
							subjects = append(subjects, node{f, paramIndex(f, prm)})
						}
					}
				}
			}
		}
		if len(subjects) == 0 {
			continue
		}
		isSubj := map[node]bool{}
		for _, s := range subjects {
			isSubj[s] = true
		}
		for ri, rs := range resets {
			if !isSubj[rs.to] {
				continue
			}
			// only the tight cycle: the depth-guarded function calls, directly, the function that restarts its depth
			// (its own depth-less wrapper). Longer cycles through a restart pass other guards or not — that is R1's question.
			direct := false
			eachInstr(rs.to.fn, func(_ *ssa.BasicBlock, _ int, i ssa.Instruction) {
				if call, ok := i.(*ssa.Call); ok {
					if g := staticCallee(call); g != nil && unwrapSynthetic(g) == rs.from {
						direct = true
					}
				}
			})
			if !direct {
				continue
			}
			name := "?"
			if rs.to.idx >= 0 && rs.to.idx < len(rs.to.fn.Params) {
				name = rs.to.fn.Params[rs.to.idx].Name()
			}
			r.Bad(rule, FuncID(rs.from), fmt.Sprintf("depth parameter %s of %s restarted#%d", name, rs.to.fn.Name(), ri+1), p.Pos(rs.pos), "a call inside the recursion cycle hands the guarded depth a constant: every level starts counting again, the bound never fires, and a deep or cyclic structure exhausts the stack")
		}
		seenSubj := map[node]bool{}
		for _, s := range subjects {
			if seenSubj[s] {
				continue
			}
			seenSubj[s] = true
			// is s on a cycle of weight-0 edges?
			onCycle := false
			visited := map[node]bool{}
			var dfs func(n node) bool
			dfs = func(n node) bool {
				for _, m := range same[n] {
					if m == s {
						return true
					}
					if !visited[m] {
						visited[m] = true
						if dfs(m) {
							return true
						}
					}
				}
				return false
			}
			onCycle = dfs(s)
			pos := p.Fset.Position(s.fn.Pos()).String()
			name := "?"
			if s.idx >= 0 && s.idx < len(s.fn.Params) {
				name = s.fn.Params[s.idx].Name()
			}
			if onCycle {
				r.Bad(rule, FuncID(s.fn), "depth parameter "+name, pos, "the depth tested by the guard is handed around a recursion cycle unchanged: it never grows, so the bound can never fire")
			} else {
				r.OK(rule, FuncID(s.fn), "depth parameter "+name, pos, "no recursion cycle hands this depth on unchanged (an increment or a fresh value lies on every cycle)", true)
			}
		}
	}
}

func init() {
	extraDebug["c08r1i"] = func(p *Program) {
		c := &Ctx{P: p, R: NewReport("C08", "debug")}
		gs := newGuardSet(p)
		runC08R1i(c, gs)
		for _, o := range c.R.Obls {
			fmt.Printf("%s %s\n    %s\n", o.Verdict, o.Key, o.Witness)
		}
	}
}

// checkRegisteredKeysNotRewritten (C36.R3): Node.Add(xRefTable, key, value, m, keys) registers a name in a name tree; when the
// name is taken it picks a fresh one and rewrites, in the dictionaries listed in m, the entries named by keys so that they keep
// pointing at the registered name. A store into such an entry *after* the call overwrites that correction: two bookmarks with
// the same title then share one destination. No constant key of the keys list may be stored into a types.Dict after the call.
func checkRegisteredKeysNotRewritten(c *Ctx, rule string) {
	p, r := c.P, c.R
	n := 0
	for _, fn := range p.Funcs {
		fid := FuncID(fn)
		if !strings.HasPrefix(fid, "pkg/") {
			continue
		}
		fn := fn
		eachInstr(fn, func(_ *ssa.BasicBlock, _ int, i ssa.Instruction) {
			call, ok := i.(*ssa.Call)
			if !ok {
				return
			}
			if _, ref := callRef(call); ref != "pkg/pdfcpu/model.Node.Add" || len(call.Call.Args) < 6 {
				return
			}
			// constant keys of the last argument (a slice literal)
			keys := map[string]bool{}
			if sl, ok := call.Call.Args[5].(*ssa.Slice); ok {
				if al, ok := sl.X.(*ssa.Alloc); ok {
					for _, rf := range *al.Referrers() {
						if ia, ok := rf.(*ssa.IndexAddr); ok {
							for _, r2 := range *ia.Referrers() {
								if st, ok := r2.(*ssa.Store); ok {
									if s, ok := constString(st.Val); ok {
										keys[s] = true
									}
								}
							}
						}
					}
				}
			}
			if len(keys) == 0 {
				return // keys not a literal here (forwarded): nothing to decide at this site
			}
			n++
			construct := fmt.Sprintf("Node.Add#%d", n)
			bad := ""
			for _, after := range instrsAfter(call) {
				if mu, ok := after.(*ssa.MapUpdate); ok && typeNameOf(mu.Map.Type()) == "Dict" {
					if k, ok := constString(mu.Key); ok && keys[k] {
						bad = k + " at " + p.Pos(mu.Pos())
					}
				}
			}
			if bad == "" {
				r.OK(rule, fid, construct, p.Pos(call.Pos()), "no entry that the registration may rewrite is stored after the call", true)
			} else {
				r.Bad(rule, fid, construct, p.Pos(call.Pos()), "the dictionary entry "+bad+" is stored after the name was registered: the registration's correction for a name that was already taken is overwritten, so entries with equal titles end up sharing one target")
			}
		})
	}
	if n == 0 {
		r.Bad(rule, "pkg/pdfcpu/model.Node.Add", "anchor", "", "UNRESOLVED-ANCHOR: no registration with a literal key list found")
	}
}
