package main

import (
	"fmt"
	"go/token"
	"go/types"
	"sort"
	"strings"

	"golang.org/x/tools/go/ssa"
)

// C30 — network fetches never reach private or local addresses.

func init() {
	register(&Check{
		ID:  "C30",
		Run: runC30,
		Explanation: "Decides the structural clauses of the egress policy: (R1) closed world of egress construction — http.Client/http.Transport literals, http.DefaultClient/DefaultTransport, http.Get/Post/Head/PostForm, ProxyFromEnvironment and every call returning net.Conn occur only in the guarded constructors / guarded dial closures (one reasoned exemption: the opt-in link validator, outside the property's enumerated fetch kinds); every client.Get/Post/Do/Head receives a client that traces back to a guarded constructor; (R2) the guarded http.Transport sets DialContext to a guarded dial factory, leaves Proxy nil and sets no other dial hook; the guarded http.Client uses that transport and a CheckRedirect that always passes the URL validator; (R3) in every guarded dial closure each underlying dial call is dominated by the success edges of net.SplitHostPort, LookupIPAddr and the IP validator applied to that lookup result, and its address argument is net.JoinHostPort(<element of the validated answer>.IP.String(), port) — never the original host name; (R4) the blocked-address predicates are, by exhaustive truth-table evaluation of their CFG over the six net.IP classifiers, exactly the OR of IsLoopback, IsPrivate, IsLinkLocalUnicast, IsLinkLocalMulticast, IsMulticast, IsUnspecified; the validators inspect every answer (loop left only at its header, a blocked answer leads to a non-nil error) and only the revocation validator has an early nil return, keyed on allowed[normalizeRevocationHost(host)]; (R5) every client.Get/Post in pkg/pdfcpu/sign is dominated by the success of validateRevocationURLString on the same URL value, remoteResource is only reached with the URL returned by imageBoxRemoteURL, and the URL validators reject non-http(s) schemes and credentials on every success path. NOT decided: how net.IP's classifiers treat particular encodings (IPv4-mapped, zones) — std-lib semantics; DNS behaviour.",
		Rules: []string{
			"C30.R1 WMC: who may construct egress / who may dial; client provenance",
			"C30.R2 shape of guarded transport and client",
			"C30.R3 MPT: dial gate (split, lookup, validate; dial the validated IP)",
			"C30.R4 TABLE: blocked-IP predicate truth table; validators cover all answers; allow-list exit",
			"C30.R5 MPT: URL gate before fetch; scheme/credential checks",
			"C30.R6 shape: the allow-list key is the whole host (the normaliser only folds case and trims)",
		},
		Assumptions: []string{"net/http connects only through Transport.DialContext when Proxy is nil and no DialTLS* hook is set", "semantics of net.IP classifier methods"},
	})
}

var c30GuardedClientCtors = map[string]string{
	"pkg/pdfcpu/sign.revocationHTTPClient":               "revocation client (CRL/OCSP)",
	"pkg/pdfcpu/primitives.(*PDF).imageBoxHTTPClient":    "image box client",
	"pkg/pdfcpu/primitives.imageBoxTransport":            "image box transport",
}

// exempt: constructs an unguarded client by design, outside the property's enumerated fetch kinds.
var c30ExemptCtors = map[string]string{
	"pkg/pdfcpu/validate.checkLinks":          "receives the link validator's client by value (see checkForBrokenLinks)",
	"pkg/pdfcpu/validate.checkForBrokenLinks": "opt-in link validation (conf.ValidateLinks) contacts the URIs of the document on the user's explicit request; not one of the fetch kinds enumerated by C30 (revocation, remote images). Noted in DESIGN.md §6 F10.",
}

var c30DialFactories = map[string]string{
	"pkg/pdfcpu/sign.revocationDialContext":      "pkg/pdfcpu/sign.validateRevocationIPs",
	"pkg/pdfcpu/primitives.imageBoxDialContext": "pkg/pdfcpu/primitives.rejectImageBoxIPs",
}

var sixClassifiers = []string{"IsLoopback", "IsPrivate", "IsLinkLocalUnicast", "IsLinkLocalMulticast", "IsMulticast", "IsUnspecified"}

func namedTypeIs(t types.Type, pkg, name string) bool {
	t = types.Unalias(t)
	if p, ok := t.(*types.Pointer); ok {
		t = types.Unalias(p.Elem())
	}
	n, ok := t.(*types.Named)
	return ok && n.Obj().Pkg() != nil && n.Obj().Pkg().Path() == pkg && n.Obj().Name() == name
}

func returnsNetConn(sig *types.Signature) bool {
	return sig != nil && sig.Results().Len() >= 1 && namedTypeIs(sig.Results().At(0).Type(), "net", "Conn")
}

func runC30(c *Ctx) {
	p, r := c.P, c.R
	resetSummaries()
	r.MinInst["C30.R1"] = 8
	r.MinInst["C30.R2"] = 6
	r.MinInst["C30.R3"] = 6
	r.MinInst["C30.R4"] = 4
	r.MinInst["C30.R5"] = 4
	r.MinInst["C30.R6"] = 1
	checkAllowListKeyIsWholeHost(c)

	for id := range c30GuardedClientCtors {
		if p.Func(id) == nil {
			r.Bad("C30.R1", id, "anchor", "", "UNRESOLVED-ANCHOR: guarded constructor "+id+" not found")
		}
	}
	dialClosures := map[*ssa.Function]string{} // closure -> validator ref
	for id, val := range c30DialFactories {
		f := p.Func(id)
		if f == nil {
			r.Bad("C30.R1", id, "anchor", "", "UNRESOLVED-ANCHOR: guarded dial factory "+id+" not found")
			continue
		}
		for _, cl := range closuresOf(f) {
			if returnsNetConn(cl.Signature) {
				dialClosures[cl] = val
			}
		}
	}

	// ---------- R1: closed world ----------
	for _, fn := range p.Funcs {
		fid := FuncID(fn)
		root := FuncID(rootFunc(fn))
		_, guardedCtor := c30GuardedClientCtors[root]
		exemptWhy, exempt := c30ExemptCtors[root]
		cnt := map[string]int{}
		eachInstr(fn, func(_ *ssa.BasicBlock, _ int, i ssa.Instruction) {
			pos := p.Pos(i.Pos())
			// literals
			if al, ok := i.(*ssa.Alloc); ok {
				for _, tn := range []string{"Client", "Transport"} {
					if namedTypeIs(al.Type(), "net/http", tn) {
						cnt["lit"+tn]++
						k := fmt.Sprintf("literal http.%s#%d", tn, cnt["lit"+tn])
						switch {
						case guardedCtor:
							r.OK("C30.R1", fid, k, pos, "inside guarded constructor", false)
						case exempt:
							r.OK("C30.R1", fid, k, pos, "exempt: "+exemptWhy, false)
						default:
							r.Bad("C30.R1", fid, k, pos, "http."+tn+" constructed outside the guarded constructors: its connections bypass the address filter")
						}
					}
				}
			}
			// globals
			for _, op := range i.Operands(nil) {
				if g, ok := (*op).(*ssa.Global); ok && g.Pkg != nil && g.Pkg.Pkg.Path() == "net/http" && (g.Name() == "DefaultClient" || g.Name() == "DefaultTransport") {
					cnt["glob"]++
					r.Bad("C30.R1", fid, fmt.Sprintf("http.%s#%d", g.Name(), cnt["glob"]), pos, "use of http."+g.Name()+": unfiltered egress (environment proxies, no address filter)")
				}
				if f, ok := (*op).(*ssa.Function); ok && f.Object() != nil {
					switch objRef(f.Object()) {
					case "net/http.ProxyFromEnvironment", "net/http.ProxyURL":
						cnt["proxy"]++
						r.Bad("C30.R1", fid, fmt.Sprintf("proxy#%d", cnt["proxy"]), pos, "proxy function referenced: connections would go to a proxy instead of the validated address")
					}
				}
			}
			cc, ref := callRef(i)
			if cc == nil {
				// bound method values of net.Dialer (dialer.DialContext passed as a function)
				if mc, ok := i.(*ssa.MakeClosure); ok {
					if f, ok := mc.Fn.(*ssa.Function); ok && f.Synthetic != "" && f.Object() != nil && strings.HasPrefix(objRef(f.Object()), "net.Dialer.Dial") {
						cnt["dialval"]++
						k := fmt.Sprintf("method value %s#%d", objRef(f.Object()), cnt["dialval"])
						if guardedCtor {
							// must flow only into a guarded dial factory call
							okFlow := true
							refs := *mc.Referrers()
							if len(refs) == 1 {
								if ct, ok := refs[0].(*ssa.ChangeType); ok {
									refs = *ct.Referrers() // conversion to a named func type
								}
							}
							for _, rf := range refs {
								call, isCall := rf.(*ssa.Call)
								if !isCall {
									okFlow = false
									continue
								}
								_, cref := callRef(call)
								if _, isFactory := c30DialFactories[cref]; !isFactory {
									okFlow = false
								}
							}
							if okFlow {
								r.OK("C30.R1", fid, k, pos, "dialer method value is handed only to a guarded dial factory", true)
							} else {
								r.Bad("C30.R1", fid, k, pos, "dialer method value escapes to something other than a guarded dial factory")
							}
						} else {
							r.Bad("C30.R1", fid, k, pos, "net.Dialer method value taken outside the guarded constructors")
						}
					}
				}
				return
			}
			switch ref {
			case "net/http.Get", "net/http.Post", "net/http.Head", "net/http.PostForm":
				cnt["pkgfetch"]++
				r.Bad("C30.R1", fid, fmt.Sprintf("call:%s#%d", ref, cnt["pkgfetch"]), pos, "package-level http fetch uses http.DefaultClient: unfiltered egress")
				return
			case "net/http.Client.Get", "net/http.Client.Post", "net/http.Client.Do", "net/http.Client.Head", "net/http.Client.PostForm":
				cnt["fetch"]++
				k := fmt.Sprintf("call:%s#%d", ref, cnt["fetch"])
				if exempt || c30ExemptCtors[fid] != "" || fid == "pkg/pdfcpu/validate.checkLinks" {
					r.OK("C30.R1", fid, k, pos, "exempt link validator", false)
					return
				}
				recv := cc.Common().Args[0]
				if why := traceClient(c, recv, 0, map[ssa.Value]bool{}); why == "" {
					r.OK("C30.R1", fid, k, pos, "client value traces back to a guarded constructor on every path", true)
				} else {
					r.Bad("C30.R1", fid, k, pos, "client used for the fetch does not trace back to a guarded constructor: "+why)
				}
				return
			}
			// dial calls: anything returning net.Conn
			var sig *types.Signature
			if cc.Common().IsInvoke() {
				sig, _ = cc.Common().Method.Type().(*types.Signature)
			} else {
				sig, _ = cc.Common().Value.Type().Underlying().(*types.Signature)
			}
			if returnsNetConn(sig) {
				if callee := staticCallee(cc); callee != nil && isSubject(callee) {
					return // module-internal helper; its own body is scanned
				}
				cnt["dial"]++
				k := fmt.Sprintf("dial#%d", cnt["dial"])
				if _, ok := dialClosures[fn]; ok {
					r.OK("C30.R1", fid, k, pos, "dial inside guarded dial closure (gated by R3)", false)
				} else {
					r.Bad("C30.R1", fid, k, pos, "network dial ("+ref+") outside the guarded dial closures")
				}
			}
		})
	}
	// stores to PDF.httpClient only inside imageBoxHTTPClient
	for _, fn := range p.Funcs {
		eachInstr(fn, func(_ *ssa.BasicBlock, _ int, i ssa.Instruction) {
			st, ok := i.(*ssa.Store)
			if !ok {
				return
			}
			fa, ok := st.Addr.(*ssa.FieldAddr)
			if !ok {
				return
			}
			f := structField(fa.X.Type(), fa.Field)
			if f == nil || objRef(f) != "pkg/pdfcpu/primitives.PDF.httpClient" {
				return
			}
			if FuncID(fn) == "pkg/pdfcpu/primitives.(*PDF).imageBoxHTTPClient" {
				r.OK("C30.R1", FuncID(fn), "store PDF.httpClient", p.Pos(i.Pos()), "cached client is stored by its guarded constructor", false)
			} else {
				r.Bad("C30.R1", FuncID(fn), "store PDF.httpClient", p.Pos(i.Pos()), "PDF.httpClient assigned outside imageBoxHTTPClient: an unguarded client could be injected")
			}
		})
	}

	// ---------- R2: shape ----------
	for id := range c30GuardedClientCtors {
		fn := p.Func(id)
		if fn == nil {
			continue
		}
		checkEgressLiteralShape(c, fn)
	}

	// ---------- R3: dial gate ----------
	var dcs []*ssa.Function
	for cl := range dialClosures {
		dcs = append(dcs, cl)
	}
	sort.Slice(dcs, func(i, j int) bool { return FuncID(dcs[i]) < FuncID(dcs[j]) })
	if len(dcs) < 2 {
		r.Bad("C30.R3", "-", "anchor", "", fmt.Sprintf("UNRESOLVED-ANCHOR: expected 2 guarded dial closures, found %d", len(dcs)))
	}
	for _, cl := range dcs {
		checkDialGate(c, cl, dialClosures[cl])
	}

	// ---------- R4: tables ----------
	for _, id := range []string{"pkg/pdfcpu/sign.revocationBlockedIP", "pkg/pdfcpu/primitives.imageBoxBlockedIP"} {
		checkBlockedPredicate(c, id)
	}
	checkIPValidator(c, "pkg/pdfcpu/sign.validateRevocationIPs", "pkg/pdfcpu/sign.revocationBlockedIP", true)
	checkIPValidator(c, "pkg/pdfcpu/primitives.rejectImageBoxIPs", "pkg/pdfcpu/primitives.imageBoxBlockedIP", false)

	// ---------- R5: URL gates ----------
	checkURLGates(c)
}

// traceClient returns "" if v certainly originates from a guarded constructor.
func traceClient(c *Ctx, v ssa.Value, depth int, seen map[ssa.Value]bool) string {
	if depth > 8 {
		return "trace too deep"
	}
	if seen[v] {
		return ""
	}
	seen[v] = true
	switch x := v.(type) {
	case *ssa.Call:
		_, ref := callRef(x)
		if _, ok := c30GuardedClientCtors[ref]; ok {
			return ""
		}
		if f := c.P.Func(strings.Replace(ref, "pkg/pdfcpu/primitives.PDF.", "pkg/pdfcpu/primitives.(*PDF).", 1)); f != nil {
			if _, ok := c30GuardedClientCtors[FuncID(f)]; ok {
				return ""
			}
		}
		return "result of " + ref
	case *ssa.Phi:
		for _, e := range x.Edges {
			if w := traceClient(c, e, depth+1, seen); w != "" {
				return w
			}
		}
		return ""
	case *ssa.Parameter:
		fn := x.Parent()
		idx := -1
		for i, pr := range fn.Params {
			if pr == x {
				idx = i
			}
		}
		callers := 0
		for _, caller := range c.CG().In[fn] {
			var why string
			eachInstr(caller, func(_ *ssa.BasicBlock, _ int, i ssa.Instruction) {
				cc, ok := i.(ssa.CallInstruction)
				if !ok || staticCallee(cc) != fn {
					return
				}
				callers++
				args := cc.Common().Args
				if idx < len(args) {
					if w := traceClient(c, args[idx], depth+1, seen); w != "" && why == "" {
						why = w + " (via " + FuncID(caller) + ")"
					}
				}
			})
			if why != "" {
				return why
			}
		}
		if callers == 0 {
			return "parameter " + x.Name() + " of " + FuncID(fn) + " has no resolvable callers"
		}
		return ""
	case *ssa.UnOp:
		if x.Op == token.MUL {
			if fa, ok := x.X.(*ssa.FieldAddr); ok {
				if f := structField(fa.X.Type(), fa.Field); f != nil && objRef(f) == "pkg/pdfcpu/primitives.PDF.httpClient" {
					return "" // stores to this field are restricted by R1
				}
			}
			if al, ok := x.X.(*ssa.Alloc); ok {
				// local variable: all stores
				for _, rf := range *al.Referrers() {
					if st, ok := rf.(*ssa.Store); ok && st.Addr == al {
						if w := traceClient(c, st.Val, depth+1, seen); w != "" {
							return w
						}
					}
				}
				return ""
			}
		}
	case *ssa.Alloc:
		if _, ok := c30GuardedClientCtors[FuncID(rootFunc(x.Parent()))]; ok {
			return ""
		}
		return "client literal in " + FuncID(x.Parent())
	}
	return fmt.Sprintf("unrecognised origin %T %s", v, v.Name())
}

// checkEgressLiteralShape inspects http.Transport / http.Client literals inside a guarded constructor.
func checkEgressLiteralShape(c *Ctx, fn *ssa.Function) {
	p, r := c.P, c.R
	fid := FuncID(fn)
	eachInstr(fn, func(_ *ssa.BasicBlock, _ int, i ssa.Instruction) {
		al, ok := i.(*ssa.Alloc)
		if !ok {
			return
		}
		isT := namedTypeIs(al.Type(), "net/http", "Transport")
		isC := namedTypeIs(al.Type(), "net/http", "Client")
		if !isT && !isC {
			return
		}
		fields := map[string]ssa.Value{}
		okOnlyFieldStores := true
		for _, rf := range *al.Referrers() {
			switch x := rf.(type) {
			case *ssa.FieldAddr:
				f := structField(x.X.Type(), x.Field)
				for _, rr := range *x.Referrers() {
					if st, ok := rr.(*ssa.Store); ok && st.Addr == x {
						fields[f.Name()] = st.Val
					}
				}
			case *ssa.Store:
				// whole-struct store into the literal (e.g. *t = *http.DefaultTransport.Clone())
				if x.Addr == al {
					okOnlyFieldStores = false
				}
			}
		}
		pos := p.Pos(al.Pos())
		if !okOnlyFieldStores {
			r.Bad("C30.R2", fid, "literal-copy", pos, "egress literal is initialised by copying another value (e.g. DefaultTransport): inherited proxy/dial settings")
		}
		if isT {
			// DialContext
			dc, has := fields["DialContext"]
			good := false
			if has {
				if call, ok := dc.(*ssa.Call); ok {
					_, ref := callRef(call)
					if _, ok := c30DialFactories[ref]; ok {
						good = true
					}
				}
			}
			if good {
				r.OK("C30.R2", fid, "Transport.DialContext", pos, "set to the result of a guarded dial factory", true)
			} else {
				r.Bad("C30.R2", fid, "Transport.DialContext", pos, "http.Transport.DialContext is not set to the result of a guarded dial factory: connections are not address-filtered")
			}
			if pv, has := fields["Proxy"]; has && !isNilConst(pv) {
				r.Bad("C30.R2", fid, "Transport.Proxy", pos, "http.Transport.Proxy is set: requests go to a proxy, not to the validated address")
			} else {
				r.OK("C30.R2", fid, "Transport.Proxy", pos, "Proxy is nil", true)
			}
			for _, hook := range []string{"Dial", "DialTLS", "DialTLSContext"} {
				if _, has := fields[hook]; has {
					r.Bad("C30.R2", fid, "Transport."+hook, pos, "http.Transport."+hook+" is set: bypasses the filtered DialContext")
				}
			}
		}
		if isC {
			tv, has := fields["Transport"]
			good := false
			if has {
				switch x := tv.(type) {
				case *ssa.Alloc:
					good = namedTypeIs(x.Type(), "net/http", "Transport") && x.Parent() == fn
				case *ssa.MakeInterface:
					switch y := x.X.(type) {
					case *ssa.Alloc:
						good = namedTypeIs(y.Type(), "net/http", "Transport") && y.Parent() == fn
					case *ssa.Call:
						_, ref := callRef(y)
						_, good = c30GuardedClientCtors[ref]
					}
				}
			}
			if good {
				r.OK("C30.R2", fid, "Client.Transport", pos, "uses the guarded transport", true)
			} else {
				r.Bad("C30.R2", fid, "Client.Transport", pos, "http.Client.Transport is not the guarded transport (nil means http.DefaultTransport)")
			}
			cr, has := fields["CheckRedirect"]
			good = false
			why := "CheckRedirect is not set: redirects are followed without re-validating the URL"
			if has {
				if rf := funcValue(cr); rf != nil && isSubject(rf) {
					if alwaysPasses(rf, Pred{Calls: []string{"pkg/pdfcpu/sign.validateRevocationURL", "pkg/pdfcpu/primitives.validateImageBoxRemoteURL"}}) {
						good = true
					} else {
						why = "CheckRedirect function " + FuncID(rf) + " does not pass the URL validator on every nil-return path"
					}
				} else {
					why = "CheckRedirect is not a module function"
				}
			}
			if good {
				r.OK("C30.R2", fid, "Client.CheckRedirect", pos, "redirect hook always validates the target URL", true)
			} else {
				r.Bad("C30.R2", fid, "Client.CheckRedirect", pos, why)
			}
		}
	})
}

// derivesFrom: v is computed from src through field/index/load/extract/range/phi/convert/method-call-on-receiver steps.
func derivesFrom(v, src ssa.Value, depth int, seen map[ssa.Value]bool) bool {
	if v == src {
		return true
	}
	if depth > 12 || seen[v] {
		return false
	}
	seen[v] = true
	switch x := v.(type) {
	case *ssa.UnOp:
		return derivesFrom(x.X, src, depth+1, seen)
	case *ssa.FieldAddr:
		return derivesFrom(x.X, src, depth+1, seen)
	case *ssa.Field:
		return derivesFrom(x.X, src, depth+1, seen)
	case *ssa.IndexAddr:
		return derivesFrom(x.X, src, depth+1, seen)
	case *ssa.Index:
		return derivesFrom(x.X, src, depth+1, seen)
	case *ssa.Extract:
		return derivesFrom(x.Tuple, src, depth+1, seen)
	case *ssa.Next:
		return derivesFrom(x.Iter, src, depth+1, seen)
	case *ssa.Range:
		return derivesFrom(x.X, src, depth+1, seen)
	case *ssa.ChangeType:
		return derivesFrom(x.X, src, depth+1, seen)
	case *ssa.Convert:
		return derivesFrom(x.X, src, depth+1, seen)
	case *ssa.Phi:
		for _, e := range x.Edges {
			if !derivesFrom(e, src, depth+1, seen) {
				return false
			}
		}
		return len(x.Edges) > 0
	case *ssa.Alloc:
		// local copy: all stores derive from src
		n := 0
		for _, rf := range *x.Referrers() {
			if st, ok := rf.(*ssa.Store); ok && st.Addr == x {
				n++
				if !derivesFrom(st.Val, src, depth+1, seen) {
					return false
				}
			}
		}
		return n > 0
	}
	return false
}

func checkDialGate(c *Ctx, cl *ssa.Function, validatorRef string) {
	p, r := c.P, c.R
	fid := FuncID(cl)
	// locate lookup result
	var lookups []*ssa.Call
	var validators []*ssa.Call
	eachInstr(cl, func(_ *ssa.BasicBlock, _ int, i ssa.Instruction) {
		call, ok := i.(*ssa.Call)
		if !ok {
			return
		}
		_, ref := callRef(call)
		if strings.HasSuffix(ref, ".LookupIPAddr") {
			lookups = append(lookups, call)
		}
		if ref == validatorRef {
			validators = append(validators, call)
		}
	})
	if len(lookups) == 0 || len(validators) == 0 {
		r.Bad("C30.R3", fid, "anchor", p.Pos(cl.Pos()), "dial closure has no LookupIPAddr / "+validatorRef+" call: addresses are not validated before dialing")
		return
	}
	// validator must be applied to the lookup result
	validatesLookup := func(i ssa.Instruction) bool {
		call, ok := i.(*ssa.Call)
		if !ok {
			return false
		}
		if _, ref := callRef(call); ref != validatorRef {
			return false
		}
		for _, a := range call.Call.Args {
			for _, lk := range lookups {
				if derivesFrom(a, lk, 0, map[ssa.Value]bool{}) {
					return true
				}
			}
		}
		return false
	}
	isDial := func(i ssa.Instruction) bool {
		cc, ok := i.(ssa.CallInstruction)
		if !ok {
			return false
		}
		var sig *types.Signature
		if cc.Common().IsInvoke() {
			sig, _ = cc.Common().Method.Type().(*types.Signature)
		} else {
			sig, _ = cc.Common().Value.Type().Underlying().(*types.Signature)
		}
		if !returnsNetConn(sig) {
			return false
		}
		if callee := staticCallee(cc); callee != nil && isSubject(callee) {
			return false
		}
		return true
	}
	runFlowRuleOn(c, FlowRule{
		ID: "C30.R3",
		Gen: []GenSpec{
			{Fact: "split", On: Pred{Calls: []string{"net.SplitHostPort"}}},
			{Fact: "resolved", On: Pred{Where: func(i ssa.Instruction) bool {
				_, ref := callRef(i)
				return strings.HasSuffix(ref, ".LookupIPAddr")
			}, Desc: "LookupIPAddr"}},
			{Fact: "validated", On: Pred{Where: validatesLookup, Desc: validatorRef + "(lookup result)"}},
		},
		Need: []NeedSpec{
			{Fact: "split", At: Pred{Where: isDial, Desc: "dial"}, Why: "dial without a successful net.SplitHostPort of the requested address"},
			{Fact: "resolved", At: Pred{Where: isDial, Desc: "dial"}, Why: "dial without a successful DNS lookup whose answers are checked"},
			{Fact: "validated", At: Pred{Where: isDial, Desc: "dial"}, Why: "a path reaches the dial without the IP validator having accepted the lookup result (fast path / fallback bypasses the address filter)"},
		},
		Min: 3,
	}, cl)
	// address argument
	n := 0
	eachInstr(cl, func(_ *ssa.BasicBlock, _ int, i ssa.Instruction) {
		if !isDial(i) {
			return
		}
		n++
		cc := i.(ssa.CallInstruction)
		args := cc.Common().Args
		addr := args[len(args)-1]
		k := fmt.Sprintf("dial#%d address", n)
		good := false
		why := "address argument is not net.JoinHostPort(<validated IP>.String(), port)"
		if jc, ok := addr.(*ssa.Call); ok {
			if _, ref := callRef(jc); ref == "net.JoinHostPort" {
				if sc, ok := jc.Call.Args[0].(*ssa.Call); ok {
					if _, sref := callRef(sc); sref == "net.IP.String" {
						for _, lk := range lookups {
							if derivesFrom(sc.Call.Args[0], lk, 0, map[ssa.Value]bool{}) {
								good = true
							}
						}
						if !good {
							why = "the IP handed to JoinHostPort does not come from the validated lookup result"
						}
					}
				}
			}
		}
		if good {
			r.OK("C30.R3", fid, k, p.Pos(i.Pos()), "dials net.JoinHostPort(ip.IP.String(), port) with ip from the validated answer", true)
		} else {
			r.Bad("C30.R3", fid, k, p.Pos(i.Pos()), why+": the dialer would resolve the name again (DNS rebinding) or connect to an unchecked address")
		}
	})
}

// checkBlockedPredicate evaluates the predicate's CFG for all 64 assignments of the six classifiers.
func checkBlockedPredicate(c *Ctx, id string) {
	p, r := c.P, c.R
	fn := p.Func(id)
	if fn == nil {
		r.Bad("C30.R4", id, "anchor", "", "UNRESOLVED-ANCHOR: blocked-address predicate "+id+" not found")
		return
	}
	pos := p.Pos(fn.Pos())
	if len(fn.Params) != 1 || !isBoolType(fn.Signature.Results().At(0).Type()) {
		r.Bad("C30.R4", id, "signature", pos, "predicate signature changed: unrecognised")
		return
	}
	for mask := 0; mask < 64; mask++ {
		assign := map[string]bool{}
		want := false
		for bi, name := range sixClassifiers {
			assign[name] = mask&(1<<bi) != 0
			want = want || assign[name]
		}
		got, err := evalBoolFunc(fn, assign)
		if err != "" {
			r.Bad("C30.R4", id, "truth-table", pos, "cannot evaluate predicate symbolically: "+err+" (unrecognised idiom)")
			return
		}
		if got != want {
			var on []string
			for _, n := range sixClassifiers {
				if assign[n] {
					on = append(on, n)
				}
			}
			r.Bad("C30.R4", id, "truth-table", pos, fmt.Sprintf("predicate returns %v for an address with {%s}: it must block exactly the union of loopback, private, link-local (uni/multicast), multicast and unspecified", got, strings.Join(on, ",")))
			return
		}
	}
	r.OK("C30.R4", id, "truth-table", pos, "64/64 assignments of the six net.IP classifiers evaluate to their OR", true)
}

// evalBoolFunc interprets a loop-free boolean function whose only calls are net.IP classifier methods on its parameter.
func evalBoolFunc(fn *ssa.Function, assign map[string]bool) (bool, string) {
	env := map[ssa.Value]bool{}
	val := func(v ssa.Value) (bool, string) {
		if b, ok := env[v]; ok {
			return b, ""
		}
		if cst, ok := v.(*ssa.Const); ok && cst.Value != nil && isBoolType(cst.Type()) {
			return cst.Value.String() == "true", ""
		}
		return false, "unknown value " + v.Name()
	}
	blk := fn.Blocks[0]
	var prev *ssa.BasicBlock
	for steps := 0; steps < 200; steps++ {
		for _, i := range blk.Instrs {
			switch x := i.(type) {
			case *ssa.Phi:
				for pi, pr := range blk.Preds {
					if pr == prev {
						b, e := val(x.Edges[pi])
						if e != "" {
							return false, e
						}
						env[x] = b
					}
				}
			case *ssa.Call:
				_, ref := callRef(x)
				name := strings.TrimPrefix(ref, "net.IP.")
				b, ok := assign[name]
				if !ok || !strings.HasPrefix(ref, "net.IP.") || len(x.Call.Args) != 1 || x.Call.Args[0] != ssa.Value(fn.Params[0]) {
					return false, "call other than a net.IP classifier on the parameter: " + ref
				}
				env[x] = b
			case *ssa.UnOp:
				if x.Op != token.NOT {
					return false, "unsupported unary op"
				}
				b, e := val(x.X)
				if e != "" {
					return false, e
				}
				env[x] = !b
			case *ssa.If:
				b, e := val(x.Cond)
				if e != "" {
					return false, e
				}
				prev = blk
				if b {
					blk = blk.Succs[0]
				} else {
					blk = blk.Succs[1]
				}
			case *ssa.Jump:
				prev = blk
				blk = blk.Succs[0]
			case *ssa.Return:
				return val(x.Results[0])
			case *ssa.DebugRef:
			default:
				return false, fmt.Sprintf("unsupported instruction %T", i)
			}
		}
	}
	return false, "did not terminate"
}

// checkIPValidator: loop over all answers; blocked answer => non-nil error; early nil only via allow-list.
func checkIPValidator(c *Ctx, id, predRef string, allowList bool) {
	p, r := c.P, c.R
	fn := p.Func(id)
	if fn == nil {
		r.Bad("C30.R4", id, "anchor", "", "UNRESOLVED-ANCHOR: IP validator "+id+" not found")
		return
	}
	pos := p.Pos(fn.Pos())
	// find the ips parameter ([]net.IPAddr)
	var ips *ssa.Parameter
	for _, pr := range fn.Params {
		if sl, ok := pr.Type().Underlying().(*types.Slice); ok && namedTypeIs(sl.Elem(), "net", "IPAddr") {
			ips = pr
		}
	}
	if ips == nil {
		r.Bad("C30.R4", id, "signature", pos, "validator has no []net.IPAddr parameter: unrecognised")
		return
	}
	// the per-element check: a call (to predRef or to a module function that itself reaches predRef) with an argument derived from ips
	var checks []*ssa.Call
	eachInstr(fn, func(_ *ssa.BasicBlock, _ int, i ssa.Instruction) {
		call, ok := i.(*ssa.Call)
		if !ok {
			return
		}
		_, ref := callRef(call)
		reaches := ref == predRef
		if !reaches {
			if callee := staticCallee(call); callee != nil && isSubject(callee) {
				reaches = c.CG().Reaches(callee, func(f *ssa.Function) bool { return FuncID(f) == predRef })
			}
		}
		if !reaches {
			return
		}
		for _, a := range call.Call.Args {
			if derivesFrom(a, ips, 0, map[ssa.Value]bool{}) {
				checks = append(checks, call)
				return
			}
		}
	})
	if len(checks) != 1 {
		r.Bad("C30.R4", id, "element-check", pos, fmt.Sprintf("expected exactly one per-answer check reaching %s, found %d", predRef, len(checks)))
		return
	}
	chk := checks[0]
	// loop structure
	loop := map[*ssa.BasicBlock]bool{}
	fromChk := reachableBlocks(chk.Block())
	if !fromChk[chk.Block()] {
		r.Bad("C30.R4", id, "loop", p.Pos(chk.Pos()), "the per-answer check is not inside a loop over the answers: only some answers are inspected")
		return
	}
	for b := range fromChk {
		if reachableBlocks(b)[chk.Block()] {
			loop[b] = true
		}
	}
	var header *ssa.BasicBlock
	for b := range loop {
		dom := true
		for o := range loop {
			if b != o && !b.Dominates(o) {
				dom = false
			}
		}
		if dom {
			header = b
		}
	}
	good := true
	// exits from the loop body (not header) must lead to non-nil error returns only
	for b := range loop {
		for _, s := range b.Succs {
			if loop[s] || b == header {
				continue
			}
			// s must only reach non-nil returns
			reach := reachableBlocks(s)
			reach[s] = true
			for rb := range reach {
				if ret, ok := rb.Instrs[len(rb.Instrs)-1].(*ssa.Return); ok {
					if k, _ := returnErrKind(ret); k != errNonNil {
						good = false
						r.Bad("C30.R4", id, "loop-exit", p.Pos(ret.Pos()), "the answer loop can be left from its body towards a nil return: remaining answers are not inspected (mixed public/private answer sets pass)")
					}
				}
			}
		}
	}
	// the check result decides: the edge on which the check reports 'blocked' must leave towards a non-nil return
	var blockedEdges []Edge
	if isBoolType(chk.Type()) {
		for _, a := range aliasesOf(chk) {
			blockedEdges = append(blockedEdges, condEdges(a, true)...)
		}
	} else {
		for _, e := range errorResults(chk) {
			blockedEdges = append(blockedEdges, nilCheckEdges(e, false)...)
		}
	}
	if len(blockedEdges) == 0 {
		good = false
		r.Bad("C30.R4", id, "check-result", p.Pos(chk.Pos()), "the result of the per-answer check does not control a branch: blocked answers are not rejected")
	}
	for _, e := range blockedEdges {
		s := e.From.Succs[e.Succ]
		reach := reachableBlocks(s)
		reach[s] = true
		if loop[s] {
			good = false
			r.Bad("C30.R4", id, "check-result", p.Pos(chk.Pos()), "a blocked answer continues the loop instead of failing")
			continue
		}
		for rb := range reach {
			if ret, ok := rb.Instrs[len(rb.Instrs)-1].(*ssa.Return); ok {
				if k, _ := returnErrKind(ret); k != errNonNil {
					good = false
					r.Bad("C30.R4", id, "check-result", p.Pos(ret.Pos()), "a blocked answer can still lead to a nil return")
				}
			}
		}
	}
	// nil returns before/without the loop
	for _, ret := range returnsOf(fn) {
		k, _ := returnErrKind(ret)
		if k == errNonNil {
			continue
		}
		viaLoop := header != nil && header.Dominates(ret.Block())
		if viaLoop {
			continue
		}
		if !allowList {
			good = false
			r.Bad("C30.R4", id, "early-nil", p.Pos(ret.Pos()), "validator can return nil without iterating over the answers")
			continue
		}
		// must be dominated by the true edge of allowed[normalizeRevocationHost(host)]
		ok := false
		eachInstr(fn, func(_ *ssa.BasicBlock, _ int, i ssa.Instruction) {
			lk, isLk := i.(*ssa.Lookup)
			if !isLk {
				return
			}
			if _, isMapParam := lk.X.(*ssa.Parameter); !isMapParam {
				return
			}
			kc, isCall := lk.Index.(*ssa.Call)
			if !isCall {
				return
			}
			if _, ref := callRef(kc); ref != "pkg/pdfcpu/sign.normalizeRevocationHost" {
				return
			}
			if _, isParam := kc.Call.Args[0].(*ssa.Parameter); !isParam {
				return
			}
			var vals []ssa.Value
			if lk.CommaOk {
				for _, rf := range *lk.Referrers() {
					if ex, ok := rf.(*ssa.Extract); ok {
						vals = append(vals, ex)
					}
				}
			} else {
				vals = append(vals, lk)
			}
			for _, v := range vals {
				for _, e := range condEdges(v, true) {
					if edgeDominates(e, ret.Block()) {
						ok = true
					}
				}
			}
		})
		if ok {
			r.OK("C30.R4", id, "allow-list exit", p.Pos(ret.Pos()), "early nil return is guarded by allowed[normalizeRevocationHost(host)]", true)
		} else {
			good = false
			r.Bad("C30.R4", id, "early-nil", p.Pos(ret.Pos()), "early nil return is not guarded by the allow-list lookup keyed on normalizeRevocationHost(host)")
		}
	}
	if good {
		r.OK("C30.R4", id, "all-answers", pos, "every DNS answer is checked; a blocked answer always yields an error", true)
	}
}

func checkURLGates(c *Ctx) {
	p, r := c.P, c.R
	// (a) fetches in pkg/pdfcpu/sign are dominated by validateRevocationURLString(url) success on the same value
	n := 0
	for _, fn := range p.Funcs {
		if !strings.HasPrefix(FuncID(fn), "pkg/pdfcpu/sign.") {
			continue
		}
		var fetches []ssa.CallInstruction
		eachInstr(fn, func(_ *ssa.BasicBlock, _ int, i ssa.Instruction) {
			if cc, ref := callRef(i); cc != nil && (ref == "net/http.Client.Get" || ref == "net/http.Client.Post" || ref == "net/http.Client.Head") {
				fetches = append(fetches, cc)
			}
		})
		for fi, fc := range fetches {
			n++
			urlArg := fc.Common().Args[1]
			gate := func(i ssa.Instruction) bool {
				cc, ref := callRef(i)
				if cc == nil || ref != "pkg/pdfcpu/sign.validateRevocationURLString" {
					return false
				}
				return sameValue(cc.Common().Args[0], urlArg)
			}
			target := fc
			runFlowRuleOn(c, FlowRule{
				ID:   "C30.R5",
				Gen:  []GenSpec{{Fact: fmt.Sprintf("url-validated#%d", fi+1), On: Pred{Where: gate, Desc: "validateRevocationURLString(url)"}}},
				Need: []NeedSpec{{Fact: fmt.Sprintf("url-validated#%d", fi+1), At: Pred{Where: func(i ssa.Instruction) bool { return i == target.(ssa.Instruction) }, Desc: "client fetch"}, Why: "revocation URL is fetched without validateRevocationURLString having accepted that same URL (scheme/credentials unchecked)"}},
			}, fn)
		}
	}
	if n == 0 {
		r.Bad("C30.R5", "pkg/pdfcpu/sign", "anchor", "", "UNRESOLVED-ANCHOR: no client.Get/Post found in pkg/pdfcpu/sign")
	}
	// client.Do in sign must not exist (would need request URL tracking)
	// (b) remoteResource callers
	rr := p.Func("pkg/pdfcpu/primitives.(*ImageBox).remoteResource")
	if rr == nil {
		r.Bad("C30.R5", "pkg/pdfcpu/primitives.(*ImageBox).remoteResource", "anchor", "", "UNRESOLVED-ANCHOR")
	} else {
		callers := 0
		for _, caller := range c.CG().In[rr] {
			eachInstr(caller, func(_ *ssa.BasicBlock, _ int, i ssa.Instruction) {
				cc, ok := i.(ssa.CallInstruction)
				if !ok || staticCallee(cc) != rr {
					return
				}
				callers++
				u := cc.Common().Args[1]
				good := false
				if ex, ok := u.(*ssa.Extract); ok && ex.Index == 0 {
					if call, ok := ex.Tuple.(*ssa.Call); ok {
						if _, ref := callRef(call); ref == "pkg/pdfcpu/primitives.imageBoxRemoteURL" {
							good = true
						}
					}
				}
				if good {
					r.OK("C30.R5", FuncID(caller), "remoteResource(u)", p.Pos(i.Pos()), "URL is result 0 of imageBoxRemoteURL", true)
				} else {
					r.Bad("C30.R5", FuncID(caller), "remoteResource(u)", p.Pos(i.Pos()), "remoteResource is called with a URL that is not the validated result of imageBoxRemoteURL")
				}
			})
		}
		if callers == 0 {
			r.Bad("C30.R5", FuncID(rr), "callers", "", "UNRESOLVED-ANCHOR: remoteResource has no callers")
		}
		// the request inside remoteResource is built from the parameter u
		eachInstr(rr, func(_ *ssa.BasicBlock, _ int, i ssa.Instruction) {
			cc, ref := callRef(i)
			if cc == nil || (ref != "net/http.NewRequest" && ref != "net/http.NewRequestWithContext") {
				return
			}
			args := cc.Common().Args
			urlArg := args[len(args)-2]
			good := false
			if sc, ok := urlArg.(*ssa.Call); ok {
				if _, sref := callRef(sc); sref == "net/url.URL.String" && derivesFrom(sc.Call.Args[0], rr.Params[1], 0, map[ssa.Value]bool{}) {
					good = true
				}
			}
			if good {
				r.OK("C30.R5", FuncID(rr), "request URL", p.Pos(i.Pos()), "request is built from the validated URL parameter", true)
			} else {
				r.Bad("C30.R5", FuncID(rr), "request URL", p.Pos(i.Pos()), "HTTP request is not built from the validated URL parameter")
			}
		})
	}
	// (c) imageBoxRemoteURL: a non-nil URL result requires validateImageBoxRemoteURL success and an http(s) scheme
	if fn := p.Func("pkg/pdfcpu/primitives.imageBoxRemoteURL"); fn == nil {
		r.Bad("C30.R5", "pkg/pdfcpu/primitives.imageBoxRemoteURL", "anchor", "", "UNRESOLVED-ANCHOR")
	} else {
		returnsURL := func(i ssa.Instruction) bool {
			ret, ok := i.(*ssa.Return)
			return ok && ret.Block() != fn.Recover && !isNilConst(ret.Results[0])
		}
		runFlowRuleOn(c, FlowRule{
			ID:  "C30.R5",
			Gen: append([]GenSpec{{Fact: "validated", On: Pred{Calls: []string{"pkg/pdfcpu/primitives.validateImageBoxRemoteURL"}}}}, schemeGens(fn)...),
			Need: []NeedSpec{
				{Fact: "validated", At: Pred{Where: returnsURL, Desc: "return of a URL"}, Why: "imageBoxRemoteURL hands out a URL that validateImageBoxRemoteURL did not accept"},
				{Fact: "scheme-http(s)", At: Pred{Where: returnsURL, Desc: "return of a URL"}, Why: "imageBoxRemoteURL hands out a URL whose scheme was not established to be http or https"},
			},
		}, fn)
	}
	// (d) URL validators: credentials and scheme
	for _, v := range []struct {
		id     string
		scheme bool
	}{{"pkg/pdfcpu/sign.validateRevocationURL", true}, {"pkg/pdfcpu/primitives.validateImageBoxRemoteURL", false}} {
		fn := p.Func(v.id)
		if fn == nil {
			r.Bad("C30.R5", v.id, "anchor", "", "UNRESOLVED-ANCHOR")
			continue
		}
		gens := userNilGens(fn)
		needs := []NeedSpec{{Fact: "no-credentials", At: Pred{NilReturn: true}, Why: "URL validator accepts a URL without having established u.User == nil"}}
		if v.scheme {
			gens = append(gens, schemeGens(fn)...)
			needs = append(needs, NeedSpec{Fact: "scheme-http(s)", At: Pred{NilReturn: true}, Why: "URL validator accepts a URL whose scheme was not established to be http or https"})
		}
		runFlowRuleOn(c, FlowRule{ID: "C30.R5", Gen: gens, Need: needs}, fn)
	}
}

// fieldLoadName: v is a load of <x>.<field> of a url.URL; returns field name.
func urlFieldLoad(v ssa.Value) string {
	var f *types.Var
	switch x := v.(type) {
	case *ssa.UnOp:
		if x.Op == token.MUL {
			if fa, ok := x.X.(*ssa.FieldAddr); ok && namedTypeIs(fa.X.Type(), "net/url", "URL") {
				f = structField(fa.X.Type(), fa.Field)
			}
		}
	case *ssa.Field:
		if namedTypeIs(x.X.Type(), "net/url", "URL") {
			f = structField(x.X.Type(), x.Field)
		}
	}
	if f == nil {
		return ""
	}
	return f.Name()
}

// schemeGens: edges on which u.Scheme == "http" or == "https" is established generate "scheme-http(s)".
func schemeGens(fn *ssa.Function) []GenSpec {
	edge := map[Edge]bool{}
	eachInstr(fn, func(_ *ssa.BasicBlock, _ int, i ssa.Instruction) {
		b, ok := i.(*ssa.BinOp)
		if !ok || (b.Op != token.EQL && b.Op != token.NEQ) {
			return
		}
		var cst string
		var okc bool
		if urlFieldLoad(b.X) == "Scheme" {
			cst, okc = constString(b.Y)
		} else if urlFieldLoad(b.Y) == "Scheme" {
			cst, okc = constString(b.X)
		}
		if !okc || (cst != "http" && cst != "https") {
			return
		}
		for _, e := range condEdges(b, b.Op == token.EQL) {
			edge[e] = true
		}
	})
	return []GenSpec{{Fact: "scheme-http(s)", On: Pred{Where: func(ssa.Instruction) bool { return false }}}, {Fact: "scheme-http(s)", edges: edge}}
}

func userNilGens(fn *ssa.Function) []GenSpec {
	edge := map[Edge]bool{}
	eachInstr(fn, func(_ *ssa.BasicBlock, _ int, i ssa.Instruction) {
		b, ok := i.(*ssa.BinOp)
		if !ok || (b.Op != token.EQL && b.Op != token.NEQ) {
			return
		}
		if (urlFieldLoad(b.X) == "User" && isNilConst(b.Y)) || (urlFieldLoad(b.Y) == "User" && isNilConst(b.X)) {
			for _, e := range condEdges(b, b.Op == token.EQL) {
				edge[e] = true
			}
		}
	})
	return []GenSpec{{Fact: "no-credentials", edges: edge}}
}

// ---------------- C30.R6 (round 3 of seeding): the allow-list key is the whole host ----------------

// checkAllowListKeyIsWholeHost: an allow-listed host skips the private-address filter, so the key under which allow-list
// entries are stored and dialled hosts are looked up has to identify ONE host. normalizeRevocationHost may fold case, trim
// white space and drop the trailing dot; anything that cuts the string (strings.Cut / Split / Index + slicing, a slice
// expression) maps different hosts — every IPv6 literal with the same first group — to the same key.
func checkAllowListKeyIsWholeHost(c *Ctx) {
	p, r := c.P, c.R
	fid := "pkg/pdfcpu/sign.normalizeRevocationHost"
	fn := p.Func(fid)
	if fn == nil {
		r.Bad("C30.R6", fid, "anchor", "", "UNRESOLVED-ANCHOR")
		return
	}
	allowed := map[string]bool{
		"strings.ToLower": true, "strings.TrimSpace": true, "strings.TrimSuffix": true, "strings.TrimRight": true,
		"strings.TrimPrefix": true, "strings.TrimLeft": true, "strings.Trim": true,
		"golang.org/x/net/idna.ToASCII": true, "golang.org/x/net/idna.Lookup.ToASCII": true,
	}
	var bad []string
	calls := 0
	eachInstr(fn, func(_ *ssa.BasicBlock, _ int, i ssa.Instruction) {
		switch x := i.(type) {
		case *ssa.Call:
			if _, isB := x.Call.Value.(*ssa.Builtin); isB {
				return
			}
			_, ref := callRef(x)
			calls++
			if !allowed[ref] {
				bad = append(bad, ref+" ("+p.Pos(x.Pos())+")")
			}
		case *ssa.Slice:
			if bt, ok := x.X.Type().Underlying().(*types.Basic); ok && bt.Info()&types.IsString != 0 {
				bad = append(bad, "a slice of the host string ("+p.Pos(x.Pos())+")")
			}
		}
	})
	// the same function is used on both sides
	users := 0
	for _, caller := range c.CG().In[fn] {
		_ = caller
		users++
	}
	switch {
	case len(bad) > 0:
		r.Bad("C30.R6", fid, "allow-list key", p.Pos(fn.Pos()), "the host normaliser does more than fold case and trim ("+strings.Join(bad, ", ")+"): it can map different hosts to one allow-list key, and an allow-listed key skips the private-address filter for every host that shares it")
	case calls == 0:
		r.Bad("C30.R6", fid, "allow-list key", p.Pos(fn.Pos()), "UNRESOLVED-ANCHOR: the normaliser calls nothing")
	case users < 2:
		r.Bad("C30.R6", fid, "allow-list key", p.Pos(fn.Pos()), "the normaliser is no longer shared by the allow-list builder and the dial gate: entries and dialled hosts are keyed differently")
	default:
		r.OK("C30.R6", fid, "allow-list key", p.Pos(fn.Pos()), fmt.Sprintf("%d canonicalising calls (case folding, trimming), shared by the allow-list builder and the dial gate", calls), true)
	}
}
