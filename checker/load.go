package main

import (
	"fmt"
	"go/ast"
	"go/token"
	"go/types"
	"os"
	"sort"
	"strings"

	"golang.org/x/tools/go/packages"
	"golang.org/x/tools/go/ssa"
	"golang.org/x/tools/go/ssa/ssautil"
)

const modPath = "github.com/pdfcpu/pdfcpu"

// BuildConfig names one build configuration of /repo that is analysed.
type BuildConfig struct {
	Name string
	Env  []string // GOOS=.., GOARCH=..
	Tags string
}

var quickConfigs = []BuildConfig{{Name: "linux/amd64", Env: []string{"GOOS=linux", "GOARCH=amd64"}}}

var thoroughConfigs = []BuildConfig{
	{Name: "linux/amd64", Env: []string{"GOOS=linux", "GOARCH=amd64"}},
	{Name: "windows/amd64", Env: []string{"GOOS=windows", "GOARCH=amd64"}},
	{Name: "linux/386", Env: []string{"GOOS=linux", "GOARCH=386"}},
	{Name: "linux/amd64+pdfcpu_eutl", Env: []string{"GOOS=linux", "GOARCH=amd64"}, Tags: "pdfcpu_eutl"},
	{Name: "js/wasm", Env: []string{"GOOS=js", "GOARCH=wasm"}},
}

// Program is the loaded, type-checked and SSA-built repository.
type Program struct {
	Cfg      BuildConfig
	RepoDir  string
	Fset     *token.FileSet
	Pkgs     []*packages.Package          // module packages only
	AllPkgs  map[string]*packages.Package // by path, incl. deps
	SSA      *ssa.Program
	SSAPkgs  map[string]*ssa.Package
	Funcs    []*ssa.Function // subject functions (module), incl. anonymous, sorted by name
	funcByID map[string]*ssa.Function
	NFuncs   int
	Overlay  map[string][]byte
	astFunc  map[*types.Func]*ast.FuncDecl
	fileOf   map[*ast.File]*packages.Package
}

func repoDir() string {
	if d := os.Getenv("VERIF_REPO"); d != "" {
		return d
	}
	return "/repo"
}

// Load loads ./... of the repository under cfg. Any load/type error is fatal
// for the check (returned as error).
func Load(cfg BuildConfig, overlay map[string][]byte) (*Program, error) {
	dir := repoDir()
	env := append(os.Environ(), "GOFLAGS=-mod=mod", "GOPROXY=off", "GOSUMDB=off", "GOTOOLCHAIN=local", "GOWORK=off", "CGO_ENABLED=0")
	env = append(env, "PATH=/opt/veriftools/go1.26.8/bin:"+os.Getenv("PATH"))
	env = append(env, cfg.Env...)
	pc := &packages.Config{
		Mode:    packages.LoadAllSyntax,
		Dir:     dir,
		Env:     env,
		Tests:   false,
		Overlay: overlay,
	}
	if cfg.Tags != "" {
		pc.BuildFlags = []string{"-tags=" + cfg.Tags}
	}
	pkgs, err := packages.Load(pc, "./...")
	if err != nil {
		return nil, fmt.Errorf("packages.Load: %w", err)
	}
	p := &Program{Cfg: cfg, RepoDir: dir, AllPkgs: map[string]*packages.Package{}, SSAPkgs: map[string]*ssa.Package{}, funcByID: map[string]*ssa.Function{}, Overlay: overlay,
		astFunc: map[*types.Func]*ast.FuncDecl{}, fileOf: map[*ast.File]*packages.Package{}}
	var errs []string
	packages.Visit(pkgs, nil, func(pk *packages.Package) {
		p.AllPkgs[pk.PkgPath] = pk
		if strings.HasPrefix(pk.PkgPath, modPath) {
			for _, e := range pk.Errors {
				errs = append(errs, e.Error())
			}
			if pk.IllTyped {
				errs = append(errs, pk.PkgPath+": ill-typed")
			}
		}
	})
	if len(errs) > 0 {
		sort.Strings(errs)
		if len(errs) > 10 {
			errs = errs[:10]
		}
		return nil, fmt.Errorf("type/load errors in module packages: %s", strings.Join(errs, "; "))
	}
	for _, pk := range pkgs {
		if strings.HasPrefix(pk.PkgPath, modPath) {
			p.Pkgs = append(p.Pkgs, pk)
		}
	}
	sort.Slice(p.Pkgs, func(i, j int) bool { return p.Pkgs[i].PkgPath < p.Pkgs[j].PkgPath })
	if len(p.Pkgs) < 25 {
		return nil, fmt.Errorf("only %d module packages loaded (expected >= 25)", len(p.Pkgs))
	}
	p.Fset = pkgs[0].Fset
	prog, spkgs := ssautil.AllPackages(pkgs, ssa.InstantiateGenerics)
	prog.Build()
	p.SSA = prog
	for i, sp := range spkgs {
		if sp != nil {
			p.SSAPkgs[pkgs[i].PkgPath] = sp
		}
	}
	for _, sp := range prog.AllPackages() {
		if _, ok := p.SSAPkgs[sp.Pkg.Path()]; !ok {
			p.SSAPkgs[sp.Pkg.Path()] = sp
		}
	}
	for fn := range ssautil.AllFunctions(prog) {
		if fn.Blocks == nil {
			continue
		}
		if isSubject(fn) {
			p.Funcs = append(p.Funcs, fn)
		}
	}
	sort.Slice(p.Funcs, func(i, j int) bool {
		a, b := FuncID(p.Funcs[i]), FuncID(p.Funcs[j])
		if a != b {
			return a < b
		}
		return p.Funcs[i].Pos() < p.Funcs[j].Pos()
	})
	for _, fn := range p.Funcs {
		id := FuncID(fn)
		if _, dup := p.funcByID[id]; !dup {
			p.funcByID[id] = fn
		}
	}
	p.NFuncs = len(p.Funcs)
	for _, pk := range p.AllPkgs {
		if pk.Types == nil {
			continue
		}
		sc := pk.Types.Scope()
		for _, n := range sc.Names() {
			if tn, ok := sc.Lookup(n).(*types.TypeName); ok && !tn.IsAlias() {
				if st, ok := tn.Type().Underlying().(*types.Struct); ok {
					for i := 0; i < st.NumFields(); i++ {
						if _, dup := fieldOwners[st.Field(i)]; !dup {
							fieldOwners[st.Field(i)] = tn.Name()
						}
					}
				}
			}
		}
	}
	for _, pk := range p.Pkgs {
		for _, f := range pk.Syntax {
			p.fileOf[f] = pk
			for _, d := range f.Decls {
				if fd, ok := d.(*ast.FuncDecl); ok {
					if o, ok := pk.TypesInfo.Defs[fd.Name].(*types.Func); ok {
						p.astFunc[o] = fd
					}
				}
			}
		}
	}
	return p, nil
}

// funcPkgPath returns the package path a function belongs to ("" if unknown).
func funcPkgPath(fn *ssa.Function) string {
	for f := fn; f != nil; f = f.Parent() {
		if f.Pkg != nil {
			return f.Pkg.Pkg.Path()
		}
		if o := f.Object(); o != nil && o.Pkg() != nil {
			return o.Pkg().Path()
		}
		if f.Origin() != nil {
			if f.Origin().Pkg != nil {
				return f.Origin().Pkg.Pkg.Path()
			}
		}
	}
	return ""
}

func isSubject(fn *ssa.Function) bool {
	if fn.Synthetic != "" && fn.Origin() == nil && fn.Parent() == nil {
		// wrappers, thunks, bound methods, package init: only "package initializer" has source-derived code
		if !strings.HasPrefix(fn.Synthetic, "package initializer") {
			return false
		}
	}
	return strings.HasPrefix(funcPkgPath(fn), modPath)
}

// FuncID gives a stable human-readable identifier: short package path + name,
// e.g. "pkg/api.MergeCreateFile" or "pkg/api.MergeCreateFile$1" or "pkg/api.(*stagedOutput).commit".
func FuncID(fn *ssa.Function) string {
	pp := strings.TrimPrefix(strings.TrimPrefix(funcPkgPath(fn), modPath), "/")
	if pp == "" {
		pp = "."
	}
	name := fn.Name()
	if fn.Parent() != nil {
		// anonymous: Parent$N
		return FuncID(fn.Parent()) + strings.TrimPrefix(name, fn.Parent().Name())
	}
	if recv := fn.Signature.Recv(); recv != nil {
		return pp + ".(" + types.TypeString(recv.Type(), func(*types.Package) string { return "" }) + ")." + name
	}
	return pp + "." + name
}

// Func looks up a subject function by FuncID; nil if absent.
func (p *Program) Func(id string) *ssa.Function { return p.funcByID[id] }

// Pos renders a position relative to the repo dir.
func (p *Program) Pos(pos token.Pos) string {
	if !pos.IsValid() {
		return "-"
	}
	ps := p.Fset.Position(pos)
	return fmt.Sprintf("%s:%d", strings.TrimPrefix(ps.Filename, p.RepoDir+"/"), ps.Line)
}

// File returns the repo-relative file of pos.
func (p *Program) File(pos token.Pos) string {
	if !pos.IsValid() {
		return ""
	}
	return strings.TrimPrefix(p.Fset.Position(pos).Filename, p.RepoDir+"/")
}

// Pkg returns the packages.Package for a short path like "pkg/api".
func (p *Program) Pkg(short string) *packages.Package {
	if short == "" || short == "." {
		return p.AllPkgs[modPath]
	}
	return p.AllPkgs[modPath+"/"+short]
}

// LookupObj resolves "pkg/api.Name" or "pkg/api.Type.Member" (field or method) to a types.Object.
// Also "os.Rename" style std paths (full import path before the last '.' run).
func (p *Program) LookupObj(ref string) types.Object {
	// split: package path is up to the first '.' after the last '/'
	slash := strings.LastIndex(ref, "/")
	dot := strings.Index(ref[slash+1:], ".")
	if dot < 0 {
		return nil
	}
	pkgPath := ref[:slash+1+dot]
	rest := strings.Split(ref[slash+1+dot+1:], ".")
	pk := p.AllPkgs[pkgPath]
	if pk == nil {
		pk = p.AllPkgs[modPath+"/"+pkgPath]
	}
	if pk == nil || pk.Types == nil {
		return nil
	}
	obj := pk.Types.Scope().Lookup(rest[0])
	if obj == nil || len(rest) == 1 {
		return obj
	}
	tn, ok := obj.(*types.TypeName)
	if !ok {
		return nil
	}
	o, _, _ := types.LookupFieldOrMethod(tn.Type(), true, pk.Types, rest[1])
	if o == nil {
		o, _, _ = types.LookupFieldOrMethod(types.NewPointer(tn.Type()), true, pk.Types, rest[1])
	}
	return o
}

// FuncDecl returns the AST declaration for a function object of the module.
func (p *Program) FuncDecl(o *types.Func) *ast.FuncDecl { return p.astFunc[o] }

// SSAFunc returns the ssa.Function for a types.Func (declared function or method).
func (p *Program) SSAFunc(o *types.Func) *ssa.Function {
	if o == nil {
		return nil
	}
	return p.SSA.FuncValue(o)
}

// SSAPkg returns the ssa.Package for a short path like "pkg/pdfcpu".
func (p *Program) SSAPkg(short string) *ssa.Package {
	pk := p.Pkg(short)
	if pk == nil || pk.Types == nil {
		return nil
	}
	return p.SSA.Package(pk.Types)
}
