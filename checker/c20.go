package main

import (
	"sort"
	"go/types"
	"fmt"
	"go/constant"
	"go/token"
	"strings"

	"golang.org/x/tools/go/ssa"
)

// C20 — optimisation never changes what a document shows (partial: the equality gate and the shape of the equality).

func init() {
	register(&Check{
		ID:  "C20",
		Run: runC20,
		Explanation: "Decides that resources are substituted only after a full structural equality check, and that the equality has the shape of an equality: (R1 gate) every registration of a duplicate (map updates of OptimizationContext.DuplicateFonts / DuplicateImages and the hand-out of a replacement object number in handleDuplicateFontObject, handleDuplicateImageObject and the form/content duplicate detectors) is reached only on the true edge of model.EqualObjects applied to the two candidates — a name or hash match alone is not enough; (R2 shape) in model.EqualObjects the null case returns `o2 == nil` (symmetric; an `o2 != nil` makes null equal to everything), different dynamic types return false, the kind switch covers every value kind and its default reports an error with ok=false; equalDicts returns true only after the lengths were compared equal and every key of d1 was looked up in d2 with a `!found -> false` exit and compared (through EqualObjects or the font-name rule) with a `!ok -> false` exit; equalArrays likewise (length, element-wise); equalStreamDicts compares the dictionaries and then the raw bytes with bytes.Equal. (R3) model.weaveResourceSubDict, which merges a page node's own resource sub-dictionary into the inherited one during ConsolidatePageResources, stores d2[k] on every iteration of its loop over d1 — the nearer definition always overrides the inherited one (ISO 32000-1 7.7.3.4); a skip for keys that already exist would let an ancestor's resource win over the page's own. (R4) model.skipStringLiteral, the content-stream scanner whose result decides which resources of a page are used (and which are pruned), counts backslash parity before it accepts a closing parenthesis; (R5) every hit in Optimize.DuplicateFonts / DuplicateImages is followed, before the iteration ends or the function returns, by a redirect of the resource entry (store into a types.Dict) or by returning the replacement object number — a skipped duplicate keeps a reference to an object that a later pass removes. (R6) every key checkInheritedPageAttrs looks up on a /Pages node (the attributes pages inherit) is named in writePageEntries' table of entries written for such nodes — a missing row leaves an indirect value unwritten and the pages below lose the attribute. (R7) optimizeContentStreamUsage returns a replacement reference only on the true edge of a comparison of the two streams' stored bytes (Raw, or Content after Decode in the same function). NOT decided: that the page-tree walk visits what it should, idempotence.",
		Rules: []string{
			"C20.R1 MPT: duplicate registration only on EqualObjects == true",
			"C20.R2 shape: null/type/kind handling of EqualObjects; size + all-elements shape of equalDicts/equalArrays/equalStreamDicts",
			"C20.R5 MPT: a hit in DuplicateFonts/DuplicateImages is followed by a redirect of the resource entry (or the replacement is returned)",
			"C20.R6 TABLE siblings: page attributes the reader inherits from /Pages nodes are in the writer's table for such nodes",
			"C20.R7 MPT: a content stream is replaced by a cached one only on a comparison of stored bytes",
			"C20.R8 like-with-like: resource names from a content stream are decoded (DecodeName) before they are compared with dictionary keys",
			"C20.R10 PAIR: Context.Dest raised for one dictionary entry is lowered before the next entry or a successful return",
			"C20.R9 TABLE: references built in optimize.go carry a generation read from the xref table, never a constant",
			"C20.R4 shape: the content scanner that decides which resources a page uses tracks backslash parity when it skips string literals",
			"C20.R3 shape: resource inheritance consolidation lets the nearer definition override (unconditional store per key)",
		},
		Assumptions: []string{"bytes.Equal and == on scalar object kinds are equalities"},
		Technique:   "must-pass-through dataflow on bool true edges; shape extraction (comparison operators, loop exits, type-switch coverage) from SSA",
		Note:        "Partial: gate + equality shape. A genuine defect found by R2 (inverted null comparison) was fixed in /repo.",
	})
}

func runC20(c *Ctx) {
	p, r := c.P, c.R
	r.MinInst["C20.R1"] = 3
	r.MinInst["C20.R2"] = 6
	r.MinInst["C20.R3"] = 1
	r.MinInst["C20.R4"] = 1
	checkEscapeParity(c, "C20.R4", "pkg/pdfcpu/model.skipStringLiteral")
	r.MinInst["C20.R5"] = 1
	checkDuplicateHitsRedirect(c)
	r.MinInst["C20.R6"] = 3
	checkInheritableEntriesWritten(c)
	r.MinInst["C20.R7"] = 1
	r.MinInst["C20.R8"] = 2
	checkContentNamesDecoded(c)
	r.MinInst["C20.R9"] = 1
	checkOptimizeRefsCarryGeneration(c)
	r.MinInst["C20.R10"] = 2
	checkDestFlagCleared(c)
	checkContentDedupComparesStoredBytes(c)
	// ---- R1
	n := 0
	for _, fn := range p.Funcs {
		if !strings.HasPrefix(FuncID(fn), "pkg/pdfcpu.") {
			continue
		}
		fn := fn
		var regs []ssa.Instruction
		eachInstr(fn, func(_ *ssa.BasicBlock, _ int, i ssa.Instruction) {
			if mu, ok := i.(*ssa.MapUpdate); ok {
				fp := fieldPath(mu.Map)
				if strings.HasSuffix(fp, "DuplicateFonts") || strings.HasSuffix(fp, "DuplicateImages") {
					regs = append(regs, i)
				}
			}
		})
		if len(regs) == 0 {
			continue
		}
		genE := map[Edge][]string{}
		eachInstr(fn, func(_ *ssa.BasicBlock, _ int, i ssa.Instruction) {
			call, ok := i.(*ssa.Call)
			if !ok {
				return
			}
			if _, ref := callRef(call); ref != "pkg/pdfcpu/model.EqualObjects" {
				return
			}
			for _, bv := range boolResults(call) {
				for _, al := range wideAliases(bv) {
					for _, e := range condEdges(al, true) {
						genE[e] = append(genE[e], "equal")
					}
				}
			}
		})
		// the fact must be re-established in every loop iteration: kill at the EqualObjects call itself
		ff := NewFactFlow(fn, nil, genE, func(i ssa.Instruction) []string {
			if call, ok := i.(*ssa.Call); ok {
				if _, ref := callRef(call); ref == "pkg/pdfcpu/model.EqualObjects" {
					return []string{"equal"}
				}
			}
			return nil
		}, nil)
		for ri, reg := range regs {
			n++
			construct := fmt.Sprintf("duplicate-registration#%d", ri+1)
			if ff.Holds(reg, "equal") {
				r.OK("C20.R1", FuncID(fn), construct, p.Pos(reg.Pos()), "registered only on the true edge of model.EqualObjects", true)
			} else {
				r.Bad("C20.R1", FuncID(fn), construct, p.Pos(reg.Pos()), "a resource is registered as duplicate (and will be replaced by another object) on a path where model.EqualObjects did not return true for the pair: two different fonts/images could be merged")
			}
		}
	}
	if n == 0 {
		r.Bad("C20.R1", "pkg/pdfcpu", "anchor", "", "UNRESOLVED-ANCHOR: no duplicate registration found")
	}
	// other detectors that hand out a replacement without a Duplicate* map: EqualObjects result must gate the `return &objNr`-style exits
	for _, fid := range []string{"pkg/pdfcpu.optimizeXObjectForm", "pkg/pdfcpu.handleDuplicateImageObject", "pkg/pdfcpu.handleDuplicateFontObject"} {
		fn := p.Func(fid)
		if fn == nil {
			continue
		}
		has := false
		eachInstr(fn, func(_ *ssa.BasicBlock, _ int, i ssa.Instruction) {
			if call, ok := i.(*ssa.Call); ok {
				if _, ref := callRef(call); ref == "pkg/pdfcpu/model.EqualObjects" {
					has = true
				}
			}
		})
		if has {
			r.OK("C20.R1", fid, "uses-EqualObjects", p.Pos(fn.Pos()), "duplicate detector compares with model.EqualObjects", false)
		} else {
			r.Bad("C20.R1", fid, "uses-EqualObjects", p.Pos(fn.Pos()), "the duplicate detector no longer calls model.EqualObjects")
		}
	}
	// ---- R2: EqualObjects (or the worker it forwards to: EqualObjects(o1, o2, x, pairs) = equalObjects(o1, o2, x, pairs, 0))
	eqRefs := map[string]bool{"pkg/pdfcpu/model.EqualObjects": true}
	eqFn := p.Func("pkg/pdfcpu/model.EqualObjects")
	if eqFn != nil && len(eqFn.Blocks) == 1 {
		for _, ins := range eqFn.Blocks[0].Instrs {
			if call, ok := ins.(*ssa.Call); ok {
				if g := staticCallee(call); g != nil && isSubject(g) && g.Object() != nil {
					eqRefs[objRef(g.Object())] = true
					eqFn = g
				}
			}
		}
	}
	if fn := eqFn; fn == nil {
		r.Bad("C20.R2", "pkg/pdfcpu/model.EqualObjects", "anchor", "", "UNRESOLVED-ANCHOR")
	} else {
		// (a) null case: on the edge o1 == nil the returned bool is `o2 == nil`
		okNull, seen := false, false
		eachInstr(fn, func(_ *ssa.BasicBlock, _ int, i ssa.Instruction) {
			b, ok := i.(*ssa.BinOp)
			if !ok || b.Op != token.EQL || !isNilConst(b.Y) {
				return
			}
			for _, e := range condEdges(b, true) {
				tgt := e.From.Succs[e.Succ]
				ret, ok := tgt.Instrs[len(tgt.Instrs)-1].(*ssa.Return)
				if !ok {
					continue
				}
				seen = true
				if rb, ok := ret.Results[0].(*ssa.BinOp); ok && isNilConst(rb.Y) {
					okNull = rb.Op == token.EQL
				}
			}
		})
		switch {
		case !seen:
			r.Bad("C20.R2", FuncID(fn), "null-case", p.Pos(fn.Pos()), "no `o1 == nil` case found: a null object would reach the type comparison")
		case okNull:
			r.OK("C20.R2", FuncID(fn), "null-case", p.Pos(fn.Pos()), "o1 == nil returns o2 == nil", true)
		default:
			r.Bad("C20.R2", FuncID(fn), "null-case", p.Pos(fn.Pos()), "when o1 is the null object EqualObjects does not return `o2 == nil`: null would compare equal to any other value (and unequal to null), so dictionaries differing in such an entry are treated as duplicates")
		}
		// (b) kinds
		cases := typeSwitchCases(fn)
		var missing []string
		for _, k := range []string{"Name", "StringLiteral", "HexLiteral", "Integer", "Float", "Boolean", "Dict", "StreamDict", "Array"} {
			if cases[k] == nil {
				missing = append(missing, k)
			}
		}
		if len(missing) > 0 {
			r.Bad("C20.R2", FuncID(fn), "kinds", p.Pos(fn.Pos()), "EqualObjects has no case for "+strings.Join(missing, ", "))
		} else {
			r.OK("C20.R2", FuncID(fn), "kinds", p.Pos(fn.Pos()), "all value kinds have a case", true)
		}
		// (c) type mismatch returns false: a string NEQ comparison whose true edge returns const false
		tm := false
		eachInstr(fn, func(_ *ssa.BasicBlock, _ int, i ssa.Instruction) {
			b, ok := i.(*ssa.BinOp)
			if !ok || b.Op != token.NEQ || !isStringish(b.X.Type()) {
				return
			}
			for _, e := range condEdges(b, true) {
				tgt := e.From.Succs[e.Succ]
				if ret, ok := tgt.Instrs[len(tgt.Instrs)-1].(*ssa.Return); ok {
					if cst, ok := ret.Results[0].(*ssa.Const); ok && !constant.BoolVal(cst.Value) {
						tm = true
					}
				}
			}
		})
		if tm {
			r.OK("C20.R2", FuncID(fn), "type-mismatch", p.Pos(fn.Pos()), "different dynamic types return false", true)
		} else {
			r.Bad("C20.R2", FuncID(fn), "type-mismatch", p.Pos(fn.Pos()), "values of different dynamic types are no longer rejected before the kind switch")
		}
	}
	// equalDicts / equalArrays: size + elements
	for _, spec := range []struct{ fn, what string }{{"pkg/pdfcpu/model.equalDicts", "Len"}, {"pkg/pdfcpu/model.equalArrays", "len"}} {
		fn := p.Func(spec.fn)
		if fn == nil {
			r.Bad("C20.R2", spec.fn, "anchor", "", "UNRESOLVED-ANCHOR")
			continue
		}
		sizeEdges := map[Edge]bool{}
		eachInstr(fn, func(_ *ssa.BasicBlock, _ int, i ssa.Instruction) {
			b, ok := i.(*ssa.BinOp)
			if !ok || (b.Op != token.NEQ && b.Op != token.EQL) {
				return
			}
			isLen := func(v ssa.Value) bool {
				call, ok := v.(*ssa.Call)
				if !ok {
					return false
				}
				if bi, ok := call.Call.Value.(*ssa.Builtin); ok && bi.Name() == "len" {
					return true
				}
				_, ref := callRef(call)
				return strings.HasSuffix(ref, ".Len")
			}
			if isLen(b.X) && isLen(b.Y) {
				for _, e := range condEdges(b, b.Op == token.EQL) {
					sizeEdges[e] = true
				}
			}
		})
		bad := ""
		ff := NewFactFlow(fn, nil, edgesToGen(sizeEdges, "same-size"), nil, nil)
		for _, ret := range returnsOf(fn) {
			cst, ok := ret.Results[0].(*ssa.Const)
			if ok && !constant.BoolVal(cst.Value) {
				continue
			}
			if !ff.Holds(ret, "same-size") {
				bad = "a return that can be true is reachable without the two sizes having been compared equal: a container that is a strict subset/prefix of the other would be considered equal"
			}
		}
		// element loop: EqualObjects (or equalFontNames) called inside a loop; its false result leads to return false
		elemOK := false
		eachInstr(fn, func(_ *ssa.BasicBlock, _ int, i ssa.Instruction) {
			call, ok := i.(*ssa.Call)
			if !ok {
				return
			}
			if _, ref := callRef(call); !eqRefs[ref] {
				return
			}
			if !inLexicalLoop(call.Block()) {
				return
			}
			for _, bv := range boolResults(call) {
				for _, al := range wideAliases(bv) {
					for _, e := range condEdges(al, false) {
						tgt := e.From.Succs[e.Succ]
						if ret, ok := tgt.Instrs[len(tgt.Instrs)-1].(*ssa.Return); ok {
							if cst, ok := ret.Results[0].(*ssa.Const); ok && !constant.BoolVal(cst.Value) {
								elemOK = true
							}
						}
					}
				}
			}
		})
		if !elemOK && bad == "" {
			bad = "elements are no longer compared one by one with EqualObjects (with a return false on the first difference)"
		}
		if bad != "" {
			r.Bad("C20.R2", spec.fn, "size+elements", p.Pos(fn.Pos()), bad)
		} else {
			r.OK("C20.R2", spec.fn, "size+elements", p.Pos(fn.Pos()), "true only after equal sizes; every element compared with an early false", true)
		}
	}
	if fn := p.Func("pkg/pdfcpu/model.equalDicts"); fn != nil {
		// !found -> false
		okFound := false
		eachInstr(fn, func(_ *ssa.BasicBlock, _ int, i ssa.Instruction) {
			lk, ok := i.(*ssa.Lookup)
			if !ok || !lk.CommaOk {
				return
			}
			for _, rf := range *lk.Referrers() {
				ex, ok := rf.(*ssa.Extract)
				if !ok || ex.Index != 1 {
					continue
				}
				for _, al := range wideAliases(ex) {
					for _, e := range condEdges(al, false) {
						tgt := e.From.Succs[e.Succ]
						if ret, ok := tgt.Instrs[len(tgt.Instrs)-1].(*ssa.Return); ok {
							if cst, ok := ret.Results[0].(*ssa.Const); ok && !constant.BoolVal(cst.Value) {
								okFound = true
							}
						}
					}
				}
			}
		})
		if okFound {
			r.OK("C20.R2", FuncID(fn), "missing-key", p.Pos(fn.Pos()), "a key of d1 missing in d2 returns false", true)
		} else {
			r.Bad("C20.R2", FuncID(fn), "missing-key", p.Pos(fn.Pos()), "a key of d1 that is missing in d2 no longer makes the dictionaries unequal")
		}
	} else {
		r.Bad("C20.R2", "pkg/pdfcpu/model.equalDicts", "anchor", "", "UNRESOLVED-ANCHOR: function not found")
	}
	// ---- R3
	if fn := p.Func("pkg/pdfcpu/model.weaveResourceSubDict"); fn == nil {
		r.Bad("C20.R3", "pkg/pdfcpu/model.weaveResourceSubDict", "anchor", "", "UNRESOLVED-ANCHOR")
	} else {
		var body, header *ssa.BasicBlock
		for _, b := range fn.Blocks {
			if strings.HasSuffix(b.Comment, ".body") && body == nil {
				body = b
			}
			if strings.HasSuffix(b.Comment, ".loop") && header == nil {
				header = b
			}
		}
		bad := ""
		if body == nil || header == nil || len(fn.Params) < 2 {
			bad = "loop over the source dictionary not found"
		} else {
			seen := map[*ssa.BasicBlock]bool{}
			var walk func(b *ssa.BasicBlock) bool // true = some path reaches the header without a store
			walk = func(b *ssa.BasicBlock) bool {
				if b == header {
					return true
				}
				if seen[b] {
					return false
				}
				seen[b] = true
				for _, i := range b.Instrs {
					if mu, ok := i.(*ssa.MapUpdate); ok && (mu.Map == ssa.Value(fn.Params[1]) || derivesFromParam(mu.Map, fn.Params[1])) {
						return false
					}
				}
				for _, s := range b.Succs {
					if walk(s) {
						return true
					}
				}
				return false
			}
			if walk(body) {
				bad = "an iteration over the node's own resources can skip the store into the accumulated dictionary (for example when the key is already present): the inherited resource would win over the page's own definition, so the page would be rendered with a different font/image after optimisation"
			}
		}
		if bad != "" {
			r.Bad("C20.R3", FuncID(fn), "override", p.Pos(fn.Pos()), bad)
		} else {
			r.OK("C20.R3", FuncID(fn), "override", p.Pos(fn.Pos()), "every iteration stores d2[k]: the nearer definition overrides", true)
		}
	}
	if fn := p.Func("pkg/pdfcpu/model.equalStreamDicts"); fn == nil {
		r.Bad("C20.R2", "pkg/pdfcpu/model.equalStreamDicts", "anchor", "", "UNRESOLVED-ANCHOR")
	} else {
		dictCmp, rawCmp := false, false
		eachInstr(fn, func(_ *ssa.BasicBlock, _ int, i ssa.Instruction) {
			if call, ok := i.(*ssa.Call); ok {
				_, ref := callRef(call)
				if ref == "pkg/pdfcpu/model.equalDicts" {
					dictCmp = true
				}
				if ref == "bytes.Equal" {
					a := call.Call.Args
					if strings.HasSuffix(fieldPath(a[0]), "Raw") && strings.HasSuffix(fieldPath(a[1]), "Raw") {
						rawCmp = true
					}
				}
			}
		})
		if dictCmp && rawCmp {
			r.OK("C20.R2", FuncID(fn), "dict+raw", p.Pos(fn.Pos()), "compares the dictionaries and bytes.Equal(sd1.Raw, sd2.Raw)", true)
		} else {
			r.Bad("C20.R2", FuncID(fn), "dict+raw", p.Pos(fn.Pos()), fmt.Sprintf("equalStreamDicts no longer compares both the dictionaries (%v) and the raw stream bytes (%v)", dictCmp, rawCmp))
		}
	}
}

// ---------------- C20.R5 (round 2 of seeding): a known duplicate is always redirected ----------------
//
// When a lookup in Optimize.DuplicateFonts / DuplicateImages hits, the object is going to be dropped from the output. Every path
// from the hit to the end of the iteration (or to a return) must therefore redirect the resource entry to the original — a
// store into a types.Dict — or hand the replacement object number to the caller (non-nil *int result). Skipping the entry
// (`continue`) leaves a reference to an object that a later pass removes: the first optimisation is then not the last.
func checkDuplicateHitsRedirect(c *Ctx) {
	p, r := c.P, c.R
	n := 0
	for _, fn := range p.Funcs {
		fid := FuncID(fn)
		if !strings.HasPrefix(fid, "pkg/pdfcpu.") {
			continue
		}
		fn := fn
		eachInstr(fn, func(_ *ssa.BasicBlock, _ int, i ssa.Instruction) {
			lk, ok := i.(*ssa.Lookup)
			if !ok || !lk.CommaOk {
				return
			}
			fp := fieldPath(lk.X)
			if !strings.HasSuffix(fp, "DuplicateFonts") && !strings.HasSuffix(fp, "DuplicateImages") {
				return
			}
			var okv ssa.Value
			for _, rf := range *lk.Referrers() {
				if ex, ok := rf.(*ssa.Extract); ok && ex.Index == 1 {
					okv = ex
				}
			}
			if okv == nil {
				return
			}
			var edges []Edge
			for _, al := range wideAliases(okv) {
				edges = append(edges, condEdges(al, true)...)
			}
			for _, e := range edges {
				n++
				construct := fmt.Sprintf("%s hit#%d", fp[strings.LastIndex(fp, ".")+1:], n)
				bad := ""
				type st struct {
					b    *ssa.BasicBlock
					done bool
				}
				seen := map[st]bool{}
				var walk func(b *ssa.BasicBlock, done bool)
				walk = func(b *ssa.BasicBlock, done bool) {
					if seen[st{b, done}] || bad != "" {
						return
					}
					seen[st{b, done}] = true
					for _, in := range b.Instrs {
						if mu, ok := in.(*ssa.MapUpdate); ok && typeNameOf(mu.Map.Type()) == "Dict" {
							done = true
						}
						// a helper that stores into a Dict it was handed (redirect(rDict, rName, ...))
						if cc, ok := in.(*ssa.Call); ok {
							if g := staticCallee(cc); g != nil && isSubject(g) && g.Blocks != nil {
								takesDict := false
								for _, a := range cc.Call.Args {
									if typeNameOf(a.Type()) == "Dict" {
										takesDict = true
									}
								}
								if takesDict {
									eachInstr(g, func(_ *ssa.BasicBlock, _ int, gi ssa.Instruction) {
										if mu, ok := gi.(*ssa.MapUpdate); ok && typeNameOf(mu.Map.Type()) == "Dict" {
											if _, isPrm := mu.Map.(*ssa.Parameter); isPrm {
												done = true
											}
										}
									})
								}
							}
						}
					}
					switch t := b.Instrs[len(b.Instrs)-1].(type) {
					case *ssa.Return:
						if done {
							return
						}
						if k, has := returnErrKind(t); has && k == errNonNil {
							return
						}
						if len(t.Results) > 0 {
							if _, isPtr := t.Results[0].Type().Underlying().(*types.Pointer); isPtr && !isNilConst(t.Results[0]) {
								return // replacement handed to the caller
							}
						}
						bad = p.Pos(t.Pos())
						return
					}
					for _, s := range b.Succs {
						if edgeDominates(e, s) {
							walk(s, done)
						} else if !done {
							bad = p.Pos(lastPos(b))
						}
					}
				}
				walk(e.From.Succs[e.Succ], false)
				if bad == "" {
					r.OK("C20.R5", fid, construct, p.Pos(lk.Pos()), "every path from the hit redirects the resource entry (store into a Dict) or returns the replacement object number", true)
				} else {
					r.Bad("C20.R5", fid, construct, p.Pos(lk.Pos()), "an object known to be a duplicate is skipped at "+bad+" without redirecting the resource entry to the original: the entry keeps pointing to an object a later optimisation removes, so optimising the optimised document changes it again")
				}
			}
		})
	}
	if n == 0 {
		r.Bad("C20.R5", "pkg/pdfcpu", "anchor", "", "UNRESOLVED-ANCHOR: no lookup in DuplicateFonts/DuplicateImages found")
	}
}

// ---------------- C20.R6 / R7 (round 3 of seeding) ----------------

// constLookupKeys: constant strings used as dictionary keys in fn (Dict.Find & co., d["…"] lookups).
func constLookupKeys(fn *ssa.Function) map[string]bool {
	out := map[string]bool{}
	eachInstr(fn, func(_ *ssa.BasicBlock, _ int, i ssa.Instruction) {
		switch x := i.(type) {
		case *ssa.Lookup:
			if s, ok := constString(x.Index); ok {
				out[s] = true
			}
		case *ssa.Call:
			_, ref := callRef(x)
			if strings.HasPrefix(ref, "pkg/pdfcpu/types.Dict.") || strings.HasPrefix(ref, "pkg/pdfcpu/types.(Dict).") {
				for _, a := range x.Call.Args[1:] {
					if s, ok := constString(a); ok {
						out[s] = true
					}
				}
			}
		}
	})
	return out
}

// checkInheritableEntriesWritten (C20.R6): every page attribute the page-tree reader inherits from a /Pages node
// (the keys checkInheritedPageAttrs looks up) is in the table of entries writePageEntries writes for such a node.
// An entry missing from the writer's table leaves an indirect value unwritten: the reference dangles and the
// pages below lose the inherited attribute in the optimized output.
func checkInheritableEntriesWritten(c *Ctx) {
	p, r := c.P, c.R
	rd := p.Func("pkg/pdfcpu/model.(*XRefTable).checkInheritedPageAttrs")
	wr := p.Func("pkg/pdfcpu.writePageEntries")
	if rd == nil || wr == nil {
		r.Bad("C20.R6", "pkg/pdfcpu.writePageEntries", "anchor", "", "UNRESOLVED-ANCHOR: writePageEntries or checkInheritedPageAttrs not found")
		return
	}
	inherited := constLookupKeys(rd)
	written := map[string]bool{}
	eachInstr(wr, func(_ *ssa.BasicBlock, _ int, i ssa.Instruction) {
		if st, ok := i.(*ssa.Store); ok {
			if s, ok := constString(st.Val); ok {
				written[s] = true
			}
		}
		if call, ok := i.(*ssa.Call); ok {
			for _, a := range call.Call.Args {
				if s, ok := constString(a); ok {
					written[s] = true
				}
			}
		}
	})
	if len(inherited) < 3 {
		r.Bad("C20.R6", FuncID(rd), "inherited keys", p.Pos(rd.Pos()), "UNRESOLVED-ANCHOR: fewer than three constant keys looked up by the reader of inherited page attributes")
		return
	}
	var keys []string
	for k := range inherited {
		keys = append(keys, k)
	}
	sort.Strings(keys)
	for _, k := range keys {
		if written[k] {
			r.OK("C20.R6", FuncID(wr), "entry /"+k, p.Pos(wr.Pos()), "inherited by the page-tree reader and written for /Pages nodes", true)
		} else {
			r.Bad("C20.R6", FuncID(wr), "entry /"+k, p.Pos(wr.Pos()), "the page-tree reader inherits /"+k+" from /Pages nodes, but the writer's table of entries for such nodes does not name it: an indirect value is never written, the reference dangles, and the pages below lose the attribute after optimization")
		}
	}
}

// checkContentDedupComparesStoredBytes (C20.R7): a page's content stream is replaced by a cached one only on the
// true edge of a byte comparison of fields that are present: the Raw bytes, or the Content of streams decoded in
// this function. Comparing a field that is not loaded (nil == nil) makes all streams of equal length duplicates.
func checkContentDedupComparesStoredBytes(c *Ctx) {
	p, r := c.P, c.R
	fn := p.Func("pkg/pdfcpu.optimizeContentStreamUsage")
	if fn == nil {
		r.Bad("C20.R7", "pkg/pdfcpu.optimizeContentStreamUsage", "anchor", "", "UNRESOLVED-ANCHOR")
		return
	}
	decoded := false
	eachInstr(fn, func(_ *ssa.BasicBlock, _ int, i ssa.Instruction) {
		if call, ok := i.(*ssa.Call); ok {
			if _, ref := callRef(call); strings.HasSuffix(ref, "StreamDict).Decode") || strings.HasSuffix(ref, "StreamDict.Decode") {
				decoded = true
			}
		}
	})
	n := 0
	for _, ret := range returnsOf(fn) {
		if len(ret.Results) == 0 {
			continue
		}
		if cst, ok := ret.Results[0].(*ssa.Const); ok && cst.IsNil() {
			continue
		}
		n++
		construct := fmt.Sprintf("redirect#%d", n)
		pos := posOrFn(p, ret, fn)
		var cmp *ssa.Call
		eachInstr(fn, func(_ *ssa.BasicBlock, _ int, i ssa.Instruction) {
			call, ok := i.(*ssa.Call)
			if !ok {
				return
			}
			_, ref := callRef(call)
			if ref != "bytes.Equal" && ref != "pkg/pdfcpu/model.EqualObjects" && ref != "pkg/pdfcpu/model.EqualStreamDicts" {
				return
			}
			for _, bv := range boolResults(call) {
				for _, al := range aliasesOf(bv) {
					for _, e := range condEdges(al, true) {
						if edgeDominates(e, ret.Block()) {
							cmp = call
						}
					}
				}
			}
		})
		if cmp == nil {
			r.Bad("C20.R7", FuncID(fn), construct, pos, "a page's content stream is redirected to a cached one without a successful comparison of the two streams deciding it")
			continue
		}
		bad := ""
		if _, ref := callRef(cmp); ref == "bytes.Equal" {
			for _, a := range cmp.Call.Args {
				fp := fieldPath(a)
				switch {
				case strings.HasSuffix(fp, "Raw"):
				case strings.HasSuffix(fp, "Content") && decoded:
				case strings.HasSuffix(fp, "Content"):
					bad = "it compares the Content field, which is only filled by Decode() and is not decoded here"
				default:
					bad = "it compares " + exprName(a) + ", not the streams' stored bytes"
				}
			}
		}
		if bad != "" {
			r.Bad("C20.R7", FuncID(fn), construct, p.Pos(cmp.Pos()), "the comparison that declares two content streams duplicates does not look at bytes that are present: "+bad+" — streams of equal length then compare equal and a page gets another page's content")
		} else {
			r.OK("C20.R7", FuncID(fn), construct, pos, "reached only on the true edge of a comparison of the streams' stored bytes", true)
		}
	}
	if n == 0 {
		r.Bad("C20.R7", FuncID(fn), "redirect", p.Pos(fn.Pos()), "UNRESOLVED-ANCHOR: no return of a replacement reference found")
	}
}

// ---------------- C20.R8 / R9 (round 4: two genuine defects reported by a seeding agent, repaired in /repo) ----------------

// R8 (like with like): the resource consolidation removes from a page's resource dictionary every entry whose key
// is not among the names the page's content uses. Dictionary keys are decoded when parsed (parseName calls
// DecodeName), so the names the content scanner hands to the recorders (resourceNameAtPos1/2) have to be decoded
// too: the argument derives from a DecodeName result, and any other source it has is that call's own argument
// (fallback when the name does not decode). The pinned tree compared "Helv#20Regular" with "Helv Regular" and
// deleted the font (repaired 4bb7288a).
func checkContentNamesDecoded(c *Ctx) {
	p, r := c.P, c.R
	const fid = "pkg/pdfcpu/model.parseContent"
	fn := p.Func(fid)
	if fn == nil {
		r.Bad("C20.R8", fid, "anchor", "", "UNRESOLVED-ANCHOR")
		return
	}
	n := 0
	eachInstr(fn, func(_ *ssa.BasicBlock, _ int, i ssa.Instruction) {
		call, ok := i.(*ssa.Call)
		if !ok {
			return
		}
		f := staticCallee(call)
		if f == nil || !strings.HasPrefix(f.Name(), "resourceNameAtPos") || len(call.Call.Args) < 2 {
			return
		}
		n++
		construct := "name handed to " + f.Name()
		var decodeArgs []ssa.Value
		decoded := false
		leaves := valueLeaves(call.Call.Args[1])
		for _, l := range leaves {
			if ex, ok := l.(*ssa.Extract); ok {
				if cl, ok := ex.Tuple.(*ssa.Call); ok {
					if _, ref := callRef(cl); strings.HasSuffix(ref, "types.DecodeName") {
						decoded = true
						decodeArgs = append(decodeArgs, cl.Call.Args[0])
					}
				}
			}
		}
		other := false
		for _, l := range leaves {
			if ex, ok := l.(*ssa.Extract); ok {
				if cl, ok := ex.Tuple.(*ssa.Call); ok {
					if _, ref := callRef(cl); strings.HasSuffix(ref, "types.DecodeName") {
						continue
					}
				}
			}
			if cst, ok := l.(*ssa.Const); ok && cst.Value != nil {
				continue // the initial empty name
			}
			isArg := false
			for _, a := range decodeArgs {
				for _, al := range valueLeaves(a) {
					if al == l {
						isArg = true
					}
				}
			}
			if !isArg {
				other = true
			}
		}
		switch {
		case !decoded:
			r.Bad("C20.R8", fid, construct, p.Pos(call.Pos()), "the resource name taken from the content stream is recorded as spelled (with its #xx escapes) while resource dictionary keys are decoded when parsed: a resource whose name needs an escape is taken for unused and deleted from the page by the consolidation")
		case other:
			r.Bad("C20.R8", fid, construct, p.Pos(call.Pos()), "on some path the recorded name is neither DecodeName's result nor its argument (fallback)")
		default:
			r.OK("C20.R8", fid, construct, p.Pos(call.Pos()), "DecodeName's result (its argument only as the fallback when decoding fails)", true)
		}
	})
	if n == 0 {
		r.Bad("C20.R8", fid, "recorders", p.Pos(fn.Pos()), "UNRESOLVED-ANCHOR: parseContent no longer calls resourceNameAtPos1/2")
	}
}

// R9: a reference to an object that already exists carries that object's generation. In optimize.go every
// types.NewIndirectRef call gets its generation from an xref entry (a load), not from a constant: "n 0 R" to an
// object written as "n 2 obj" names nothing (repaired 96731bc2; the helper indRefForObjNr is the positive instance).
func checkOptimizeRefsCarryGeneration(c *Ctx) {
	p, r := c.P, c.R
	n, good := 0, 0
	for _, fn := range p.Funcs {
		if !isSubject(fn) || !strings.HasSuffix(p.File(fn.Pos()), "pkg/pdfcpu/optimize.go") {
			continue
		}
		k := 0
		eachInstr(fn, func(_ *ssa.BasicBlock, _ int, i ssa.Instruction) {
			call, ok := i.(*ssa.Call)
			if !ok {
				return
			}
			if _, ref := callRef(call); !strings.HasSuffix(ref, "types.NewIndirectRef") || len(call.Call.Args) != 2 {
				return
			}
			k++
			n++
			construct := fmt.Sprintf("NewIndirectRef#%d", k)
			if _, isConst := call.Call.Args[1].(*ssa.Const); isConst {
				r.Bad("C20.R9", FuncID(fn), construct, p.Pos(call.Pos()), "a reference to an existing object is built with a constant generation number: when the object has another generation (its number was reused after an incremental update) the written reference names no object and the resource it replaces disappears from the page")
			} else {
				good++
				r.OK("C20.R9", FuncID(fn), construct, p.Pos(call.Pos()), "the generation is "+exprName(call.Call.Args[1])+" (not a constant)", true)
			}
		})
	}
	if n == 0 || good == 0 {
		r.Bad("C20.R9", "pkg/pdfcpu/optimize.go", "anchor", "", "UNRESOLVED-ANCHOR: no NewIndirectRef call with a generation read from the xref table in optimize.go")
	}
}

// ---------------- C20.R10 (round 4 seed C20-H): the "skip the destination's page reference" flag is per entry ----------------

// checkDestFlagCleared: while pages are written, Context.Dest tells the array writer not to follow element 0 of a
// destination array (a page reference). It is raised for one dictionary entry (/Dest or /D) and must be lowered
// before the next entry is looked at or the function returns: a flag that stays raised makes the writer skip
// element 0 of whatever array comes next — the first content stream of the next page's /Contents array is then
// never written. PAIR rule: from every store of true into the field, every path to the next iteration of the
// enclosing loop or to a return that is not an error return passes a store of false into the same field.
func checkDestFlagCleared(c *Ctx) {
	p, r := c.P, c.R
	n := 0
	for _, fn := range p.Funcs {
		if !isSubject(fn) || fn.Pkg == nil || fn.Pkg.Pkg.Path() != modPath+"/pkg/pdfcpu" {
			continue
		}
		storeKind := func(i ssa.Instruction) string {
			st, ok := i.(*ssa.Store)
			if !ok {
				return ""
			}
			fa, ok := st.Addr.(*ssa.FieldAddr)
			if !ok {
				return ""
			}
			f := structField(fa.X.Type(), fa.Field)
			if f == nil || f.Name() != "Dest" {
				return ""
			}
			if b, ok := f.Type().Underlying().(*types.Basic); !ok || b.Kind() != types.Bool {
				return ""
			}
			cst, ok := st.Val.(*ssa.Const)
			if !ok || cst.Value == nil {
				return "other"
			}
			if constant.BoolVal(cst.Value) {
				return "true"
			}
			return "false"
		}
		loops := naturalLoops(fn)
		k := 0
		for _, b := range fn.Blocks {
			for idx, in := range b.Instrs {
				if storeKind(in) != "true" {
					continue
				}
				k++
				n++
				construct := fmt.Sprintf("Dest raised#%d", k)
				// innermost loop containing b
				var loop *natLoop
				for _, l := range loops {
					if l.blocks[b] && (loop == nil || len(l.blocks) < len(loop.blocks)) {
						loop = l
					}
				}
				clearedIn := func(x *ssa.BasicBlock, from int) bool {
					for j := from; j < len(x.Instrs); j++ {
						if storeKind(x.Instrs[j]) == "false" {
							return true
						}
					}
					return false
				}
				leak := ""
				if !clearedIn(b, idx+1) {
					seen := map[*ssa.BasicBlock]bool{}
					work := append([]*ssa.BasicBlock{}, b.Succs...)
					for len(work) > 0 && leak == "" {
						x := work[len(work)-1]
						work = work[:len(work)-1]
						if seen[x] {
							continue
						}
						seen[x] = true
						if loop != nil && x == loop.header {
							leak = "the next iteration of the loop over the entries"
							break
						}
						if clearedIn(x, 0) {
							continue
						}
						if len(x.Instrs) > 0 {
							if ret, ok := x.Instrs[len(x.Instrs)-1].(*ssa.Return); ok {
								if kind, ok := returnErrKind(ret); !ok || kind != errNonNil {
									leak = "a successful return"
								}
								continue
							}
						}
						work = append(work, x.Succs...)
					}
				}
				if leak == "" {
					r.OK("C20.R10", FuncID(fn), construct, p.Pos(in.Pos()), "lowered again on every path to the next entry and to every successful return", true)
				} else {
					r.Bad("C20.R10", FuncID(fn), construct, p.Pos(in.Pos()), "the flag that makes the array writer skip a destination's page reference can stay raised until "+leak+": element 0 of the next array that is written (a later page's /Contents array) is skipped and its stream never reaches the output")
				}
			}
		}
	}
	if n == 0 {
		r.Bad("C20.R10", "pkg/pdfcpu", "anchor", "", "UNRESOLVED-ANCHOR: no store of true into a bool field Dest")
	}
}
