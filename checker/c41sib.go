package main

import (
	"go/token"
	"fmt"
	"go/types"
	"sort"
	"strings"

	"golang.org/x/tools/go/ssa"
)

// C41.R5: sibling agreement between the stream branch and the file branch of one CLI handler.

func apiStreamKind(fn *ssa.Function) string {
	sig := fn.Signature
	stream := false
	for i := 0; i < sig.Params().Len(); i++ {
		t := sig.Params().At(i).Type().String()
		if t == "io.ReadSeeker" || t == "io.Writer" || t == "io.Reader" || t == "[]io.ReadSeeker" || t == "[]io.Reader" {
			stream = true
		}
	}
	if stream {
		return "stream"
	}
	paths := false
	for i := 0; i < sig.Params().Len(); i++ {
		t := sig.Params().At(i).Type().String()
		if strings.HasSuffix(t, "model.Context") {
			return "context" // works on a document already read: belongs to neither branch
		}
		if t == "string" || t == "[]string" {
			paths = true
		}
	}
	if paths {
		return "file"
	}
	return "other"
}

// topLevel: the named function a closure belongs to.
func topLevel(fn *ssa.Function) *ssa.Function {
	for fn.Parent() != nil {
		fn = fn.Parent()
	}
	return fn
}

type c41Handler struct {
	fn     *ssa.Function
	stream map[*ssa.Function]string // api callee -> call position
	file   map[*ssa.Function]string
}

func isAPIFunc(fn *ssa.Function) bool {
	return fn != nil && fn.Pkg != nil && fn.Pkg.Pkg.Path() == modPath+"/pkg/api" && fn.Parent() == nil
}

// collectCLIHandlers: per top-level pkg/cli function, the pkg/api functions it calls (closures and unexported
// pkg/cli helpers that are called only from it are folded in), split by stream/file signature.
func collectCLIHandlers(p *Program) []*c41Handler {
	byTop := map[*ssa.Function]*c41Handler{}
	calls := map[*ssa.Function][]*ssa.Function{} // cli top-level -> cli top-level callees
	for _, fn := range p.Funcs {
		if fn.Pkg == nil || fn.Pkg.Pkg.Path() != modPath+"/pkg/cli" {
			continue
		}
		top := topLevel(fn)
		h := byTop[top]
		if h == nil {
			h = &c41Handler{fn: top, stream: map[*ssa.Function]string{}, file: map[*ssa.Function]string{}}
			byTop[top] = h
		}
		eachInstr(fn, func(_ *ssa.BasicBlock, _ int, i ssa.Instruction) {
			ci, ok := i.(ssa.CallInstruction)
			if !ok {
				return
			}
			callee := staticCallee(ci)
			if callee == nil {
				return
			}
			callee = unwrapSynthetic(callee)
			if isAPIFunc(callee) {
				switch apiStreamKind(callee) {
				case "stream":
					h.stream[callee] = p.Pos(ci.Pos())
				case "file":
					h.file[callee] = p.Pos(ci.Pos())
				}
				return
			}
			if callee.Pkg != nil && callee.Pkg.Pkg.Path() == modPath+"/pkg/cli" && callee.Parent() == nil {
				calls[top] = append(calls[top], callee)
			}
		})
	}
	// fold unexported helpers into their callers (transitively, bounded)
	var out []*c41Handler
	for top, h := range byTop {
		if top.Object() == nil || !top.Object().Exported() {
			continue
		}
		seen := map[*ssa.Function]bool{top: true}
		work := append([]*ssa.Function{}, calls[top]...)
		for len(work) > 0 {
			f := work[len(work)-1]
			work = work[:len(work)-1]
			if seen[f] || (f.Object() != nil && f.Object().Exported()) {
				continue
			}
			seen[f] = true
			if hh := byTop[f]; hh != nil {
				for k, v := range hh.stream {
					h.stream[k] = v
				}
				for k, v := range hh.file {
					h.file[k] = v
				}
			}
			work = append(work, calls[f]...)
		}
		out = append(out, h)
	}
	sort.Slice(out, func(i, j int) bool { return out[i].fn.Name() < out[j].fn.Name() })
	return out
}

// apiReaches: F reaches S through static calls inside pkg/api.
func apiReaches(cg *CG, from, to *ssa.Function) bool {
	seen := map[*ssa.Function]bool{}
	var walk func(f *ssa.Function, d int) bool
	walk = func(f *ssa.Function, d int) bool {
		if f == to {
			return true
		}
		if seen[f] || d > 5 {
			return false
		}
		seen[f] = true
		for _, o := range cg.Out[f] {
			if o.Pkg == nil || o.Pkg.Pkg.Path() != modPath+"/pkg/api" {
				continue
			}
			if walk(o, d+1) {
				return true
			}
		}
		return false
	}
	return walk(from, 0)
}

var _ = types.Universe

// checkStreamFileSiblings (C41.R5). A CLI handler that serves "-" has two implementations of one command: the
// file branch calls a pkg/api function taking paths, the stream branch one taking readers/writers. In every
// handler of the pinned tree the file function is a wrapper around the stream function (api.XFile opens the
// files and calls api.X). Rule, per exported pkg/cli function with both kinds of callee:
//   (a) every stream-kind api function it calls is reached, inside pkg/api, from one of its file-kind callees;
//   (b) every file-kind callee that wraps a stream-kind api function has one of those called on the stream side.
// Otherwise the two branches run different operations and cannot produce the same document for all inputs.
func checkStreamFileSiblings(c *Ctx) {
	p, r := c.P, c.R
	cg := c.CG()
	var streamAPIs []*ssa.Function
	for _, fn := range p.Funcs {
		if isAPIFunc(fn) && fn.Object() != nil && fn.Object().Exported() && apiStreamKind(fn) == "stream" {
			streamAPIs = append(streamAPIs, fn)
		}
	}
	pairs := 0
	for _, h := range collectCLIHandlers(p) {
		if len(h.stream) == 0 {
			continue
		}
		// W: file-kind callees that wrap a stream-kind api function
		wraps := map[*ssa.Function][]*ssa.Function{}
		for f := range h.file {
			for _, s := range streamAPIs {
				if apiReaches(cg, f, s) {
					wraps[f] = append(wraps[f], s)
				}
			}
		}
		if len(wraps) == 0 {
			continue // one implementation serves both (the handler opens the file itself)
		}
		hid := FuncID(h.fn)
		var ss []*ssa.Function
		for s := range h.stream {
			ss = append(ss, s)
		}
		sort.Slice(ss, func(i, j int) bool { return ss[i].Name() < ss[j].Name() })
		for _, s := range ss {
			by := ""
			for f := range wraps {
				if apiReaches(cg, f, s) {
					by = f.Name()
				}
			}
			pairs++
			if by == "" {
				var fs []string
				for f := range wraps {
					fs = append(fs, "api."+f.Name())
				}
				sort.Strings(fs)
				r.Bad("C41.R5", hid, "stream api."+s.Name(), h.stream[s], "the stream branch runs api."+s.Name()+", which the file branch ("+strings.Join(fs, ", ")+") never reaches: the two branches of one command are different operations, so \"-\" does not give the document the file invocation gives")
			} else {
				r.OK("C41.R5", hid, "stream api."+s.Name(), h.stream[s], "the file branch's api."+by+" is a wrapper that reaches api."+s.Name(), true)
			}
		}
		var fs []*ssa.Function
		for f := range wraps {
			fs = append(fs, f)
		}
		sort.Slice(fs, func(i, j int) bool { return fs[i].Name() < fs[j].Name() })
		for _, f := range fs {
			has := ""
			for _, s := range wraps[f] {
				if _, ok := h.stream[s]; ok {
					has = s.Name()
				}
			}
			pairs++
			if has == "" {
				r.Bad("C41.R5", hid, "file api."+f.Name(), h.file[f], "no stream branch of this command calls a function api."+f.Name()+" wraps: \"-\" is served by a different operation than the file invocation")
			} else {
				r.OK("C41.R5", hid, "file api."+f.Name(), h.file[f], "its stream sibling api."+has+" serves the \"-\" branch", true)
			}
		}
	}
	if pairs == 0 {
		r.Bad("C41.R5", "-", "anchor", "", "UNRESOLVED-ANCHOR: no CLI handler with a file and a stream branch found")
	}
}



func init() {
	extraDebug["c41sib"] = func(p *Program) {
		cg := BuildCG(p)
		for _, h := range collectCLIHandlers(p) {
			if len(h.stream) == 0 {
				continue
			}
			var ss, fs []string
			for s := range h.stream {
				covered := ""
				for f := range h.file {
					if apiReaches(cg, f, s) {
						covered = f.Name()
					}
				}
				if covered == "" {
					ss = append(ss, s.Name()+" [UNCOVERED]")
				} else {
					ss = append(ss, s.Name()+" <- "+covered)
				}
			}
			for f := range h.file {
				fs = append(fs, f.Name())
			}
			sort.Strings(ss)
			sort.Strings(fs)
			fmt.Printf("%-28s stream: %s\n%-28s file: %s\n", h.fn.Name(), strings.Join(ss, ", "), "", strings.Join(fs, ", "))
		}
	}
}

// ---------------- C41.R6 / R7 (round 3 seeds) ----------------

// checkJSONFormatDecidedFirst (C41.R6): in a pkg/cli function with a bool parameter named json, every return that hands
// back output lines ([]string result that is not the nil constant) lies behind a test of that parameter. A line returned
// before the format was looked at ("0 annotations available") is text on a stdout that was asked to carry one JSON document.
func checkJSONFormatDecidedFirst(c *Ctx) {
	p, r := c.P, c.R
	n := 0
	for _, fn := range p.Funcs {
		if fn.Pkg == nil || fn.Pkg.Pkg.Path() != modPath+"/pkg/cli" || fn.Parent() != nil {
			continue
		}
		var jp *ssa.Parameter
		for _, prm := range fn.Params {
			if prm.Name() == "json" {
				if bt, ok := prm.Type().Underlying().(*types.Basic); ok && bt.Kind() == types.Bool {
					jp = prm
				}
			}
		}
		if jp == nil {
			continue
		}
		// result index of the []string
		ri := -1
		res := fn.Signature.Results()
		for i := 0; i < res.Len(); i++ {
			if res.At(i).Type().String() == "[]string" {
				ri = i
			}
		}
		if ri < 0 {
			continue
		}
		var edges []Edge
		for _, al := range aliasesOf(jp) {
			edges = append(edges, condEdges(al, true)...)
			edges = append(edges, condEdges(al, false)...)
		}
		fid := FuncID(fn)
		k := 0
		for _, ret := range returnsOf(fn) {
			if ri >= len(ret.Results) {
				continue
			}
			v := ret.Results[ri]
			if cst, ok := v.(*ssa.Const); ok && cst.IsNil() {
				continue
			}
			// only lines made in this function are its responsibility: a slice literal or an append here.
			// What a callee hands back (directly, through a struct field or a generic helper) was formatted there.
			forwarded := true
			for _, l := range valueLeaves(v) {
				switch x := l.(type) {
				case *ssa.Slice:
					if _, isAlloc := x.X.(*ssa.Alloc); isAlloc {
						forwarded = false // slice literal
					}
				case *ssa.MakeSlice:
					forwarded = false
				case *ssa.Call:
					if b, ok := x.Call.Value.(*ssa.Builtin); ok && b.Name() == "append" {
						forwarded = false
					}
				}
			}
			k++
			n++
			construct := fmt.Sprintf("return#%d output", k)
			dom := false
			for _, e := range edges {
				if edgeDominates(e, ret.Block()) {
					dom = true
				}
			}
			switch {
			case dom:
				r.OK("C41.R6", fid, construct, posOrFn(p, ret, fn), "output lines are returned only after the json flag was tested", true)
			case forwarded:
				r.OK("C41.R6", fid, construct, posOrFn(p, ret, fn), "the lines are what a callee handed back (formatted there)", false)
			default:
				r.Bad("C41.R6", fid, construct, posOrFn(p, ret, fn), "output lines are returned on a path that never looked at the json flag: with --json the caller prints them to a standard output that is supposed to carry exactly one JSON document")
			}
		}
	}
	if n == 0 {
		r.Bad("C41.R6", "pkg/cli", "anchor", "", "UNRESOLVED-ANCHOR: no pkg/cli function with a json flag returns output lines")
	}
}

// checkSelectionSetLength (C41.R7): a page selection set (types.IntSet) also holds entries that are false (pages a negated
// term deselected). Its length is therefore only good for an emptiness test or a capacity hint — never for "exactly one
// page selected", which is what the stdout variant of `extract -m page` has to establish to match the file variant.
func checkSelectionSetLength(c *Ctx) {
	p, r := c.P, c.R
	n := 0
	for _, fn := range p.Funcs {
		if !isSubject(fn) {
			continue
		}
		fid := FuncID(fn)
		if !strings.HasPrefix(fid, "pkg/cli.") && !strings.HasPrefix(fid, "pkg/api.") && !strings.HasPrefix(fid, "pkg/pdfcpu.") && !strings.HasPrefix(fid, "pkg/pdfcpu/model.") {
			continue
		}
		fn := fn
		k := 0
		eachInstr(fn, func(_ *ssa.BasicBlock, _ int, i ssa.Instruction) {
			call, ok := i.(*ssa.Call)
			if !ok {
				return
			}
			b, ok := call.Call.Value.(*ssa.Builtin)
			if !ok || b.Name() != "len" || len(call.Call.Args) != 1 || !isSelectionSet(call.Call.Args[0].Type()) {
				return
			}
			if !isPageSelectionValue(call.Call.Args[0]) {
				return // types.IntSet is also used for sets of object numbers
			}
			k++
			n++
			construct := fmt.Sprintf("len(selection)#%d", k)
			bad := ""
			if call.Referrers() != nil {
				for _, rf := range *call.Referrers() {
					switch x := rf.(type) {
					case *ssa.BinOp:
						other := x.Y
						if x.Y == ssa.Value(call) {
							other = x.X
						}
						if kk, ok := constInt(other); ok && kk == 0 {
							continue
						}
						bad = "it is used in `" + x.Op.String() + "` with something other than 0 at " + p.Pos(x.Pos())
					case *ssa.MakeSlice, *ssa.MakeMap, *ssa.DebugRef:
						continue
					case *ssa.Convert:
						continue
					default:
						bad = fmt.Sprintf("it is used by %T at %s", rf, p.Pos(rf.Pos()))
					}
				}
			}
			if bad != "" {
				r.Bad("C41.R7", fid, construct, p.Pos(call.Pos()), "the length of a page selection set is used as a page count ("+bad+"): the set also holds the pages a negated term deselected (value false), so `-p 2-3,!3` has length 2 but selects one page")
			} else {
				r.OK("C41.R7", fid, construct, p.Pos(call.Pos()), "used only for an emptiness test or a capacity hint", true)
			}
		})
	}
	if n == 0 {
		r.Bad("C41.R7", "-", "anchor", "", "UNRESOLVED-ANCHOR: no len() of a selection set found")
	}
}

// isPageSelectionValue: an IntSet that is a page selection — the result of the selection producers of pkg/api, or a
// parameter / local named like one.
func isPageSelectionValue(v ssa.Value) bool {
	for _, l := range valueLeaves(v) {
		switch x := l.(type) {
		case *ssa.Parameter:
			n := strings.ToLower(x.Name())
			if strings.Contains(n, "pages") || strings.Contains(n, "selected") {
				return true
			}
		case *ssa.Extract:
			if call, ok := x.Tuple.(*ssa.Call); ok {
				if _, ref := callRef(call); strings.Contains(ref, "PagesForPageSelection") || strings.HasSuffix(ref, ".selectedPages") || strings.Contains(ref, "RemainingPagesForPageRemoval") {
					return true
				}
			}
		case *ssa.Call:
			if _, ref := callRef(x); strings.Contains(ref, "PagesForPageSelection") || strings.HasSuffix(ref, ".selectedPages") {
				return true
			}
		}
	}
	return false
}

// ---------------- C41.R8 / R9 (round 4 seeds C41-H, C41-G) ----------------

// R8: "-" means standard output (or input) everywhere in the command line; it is never looked up in the file system.
// The overwrite guards of cmd/pdfcpu (functions named ensureOutput…) reach their os.Stat / os.ReadDir on the name only
// on an edge where the name was compared unequal to "-": otherwise a file that happens to be called "-" in the working
// directory makes "rotate in.pdf 90 -" refuse to write to standard output while the file invocation works.
func checkDashNeverAPath(c *Ctx) {
	p, r := c.P, c.R
	n := 0
	for _, fn := range p.Funcs {
		if !isSubject(fn) || fn.Pkg == nil || !strings.HasSuffix(fn.Pkg.Pkg.Path(), "/cmd/pdfcpu") || !strings.HasPrefix(fn.Name(), "ensureOutput") || len(fn.Params) == 0 {
			continue
		}
		name := fn.Params[0]
		var notDash []Edge
		eachInstr(fn, func(_ *ssa.BasicBlock, _ int, i ssa.Instruction) {
			bo, ok := i.(*ssa.BinOp)
			if !ok || (bo.Op != token.EQL && bo.Op != token.NEQ) {
				return
			}
			var other ssa.Value
			switch {
			case bo.X == ssa.Value(name):
				other = bo.Y
			case bo.Y == ssa.Value(name):
				other = bo.X
			default:
				return
			}
			if s, ok := constString(other); ok && s == "-" {
				notDash = append(notDash, condEdges(bo, bo.Op == token.NEQ)...)
			}
		})
		k := 0
		eachInstr(fn, func(b *ssa.BasicBlock, _ int, i ssa.Instruction) {
			call, ok := i.(*ssa.Call)
			if !ok {
				return
			}
			_, ref := callRef(call)
			if !strings.HasPrefix(ref, "os.") || len(call.Call.Args) == 0 || call.Call.Args[0] != ssa.Value(name) {
				return
			}
			k++
			n++
			construct := fmt.Sprintf("%s on the name#%d", ref, k)
			behind := false
			for _, e := range notDash {
				if edgeDominates(e, b) {
					behind = true
				}
			}
			if behind {
				r.OK("C41.R8", FuncID(fn), construct, p.Pos(call.Pos()), "only for names other than \"-\"", true)
			} else {
				r.Bad("C41.R8", FuncID(fn), construct, p.Pos(call.Pos()), "the overwrite guard looks the name up in the file system although it may be \"-\": with a file called \"-\" in the working directory the stream invocation is refused (\"refusing to overwrite existing file: -\") while the same command with a file name succeeds")
			}
		})
	}
	if n == 0 {
		r.Bad("C41.R8", "cmd/pdfcpu", "anchor", "", "UNRESOLVED-ANCHOR: no ensureOutput… guard with a file system lookup found")
	}
}

// R9: "no input" is a nil io.ReadSeeker. An interface that holds a nil *os.File is not nil: the API's rs != nil test
// then takes the "read the PDF" branch and fails with "invalid argument". In pkg/cli no io.ReadSeeker is made from a
// *os.File value that can be the nil constant (a MakeInterface of *os.File whose operand has a nil leaf) — the stream
// plumbing assigns the interface only where the file was opened.
func checkNoTypedNilReader(c *Ctx) {
	p, r := c.P, c.R
	n, bad := 0, 0
	for _, fn := range p.Funcs {
		if !isSubject(fn) || fn.Pkg == nil || fn.Pkg.Pkg.Path() != modPath+"/pkg/cli" {
			continue
		}
		eachInstr(fn, func(_ *ssa.BasicBlock, _ int, i ssa.Instruction) {
			mi, ok := i.(*ssa.MakeInterface)
			if !ok || !strings.HasSuffix(mi.X.Type().String(), "*os.File") {
				return
			}
			it := mi.Type().String()
			if it != "io.ReadSeeker" && it != "io.Reader" && it != "io.ReaderAt" {
				return
			}
			n++
			nilLeaf := false
			for _, l := range valueLeaves(mi.X) {
				if isNilConst(l) {
					nilLeaf = true
				}
				// the result of a helper that can return a nil file without an error
				if ex, ok := l.(*ssa.Extract); ok {
					if call, ok := ex.Tuple.(*ssa.Call); ok {
						if callee := staticCallee(call); callee != nil && isSubject(callee) {
							for _, ret := range returnsOf(callee) {
								if ex.Index < len(ret.Results) && isNilConst(ret.Results[ex.Index]) {
									if k, ok := returnErrKind(ret); ok && k != errNonNil {
										nilLeaf = true
									}
								}
							}
						}
					}
				}
			}
			if nilLeaf {
				// guarded: the conversion happens only where the file was compared unequal to nil
				if mi.X.Referrers() != nil {
					for _, rf := range *mi.X.Referrers() {
						bo, ok := rf.(*ssa.BinOp)
						if !ok || (bo.Op != token.NEQ && bo.Op != token.EQL) || !(isNilConst(bo.X) || isNilConst(bo.Y)) {
							continue
						}
						for _, e := range condEdges(bo, bo.Op == token.NEQ) {
							if edgeDominates(e, mi.Block()) {
								nilLeaf = false
							}
						}
					}
				}
			}
			if nilLeaf {
				bad++
				r.Bad("C41.R9", FuncID(fn), fmt.Sprintf("reader made from *os.File#%d", n), p.Pos(mi.Pos()), "an io.ReadSeeker is built from a *os.File that can be nil (no input): the interface is then non-nil, the API takes its 'read the input' branch on a nil file and the stream invocation fails with 'invalid argument' while the file invocation works")
			} else {
				r.OK("C41.R9", FuncID(fn), fmt.Sprintf("reader made from *os.File#%d", n), p.Pos(mi.Pos()), "the file value has no nil source", true)
			}
		})
	}
	if n == 0 {
		r.Bad("C41.R9", "pkg/cli", "anchor", "", "UNRESOLVED-ANCHOR: no reader interface made from *os.File in pkg/cli")
	}
	_ = bad
}

func init() {
	extraDebug["argsflow"] = func(p *Program) {
		for _, fn := range p.Funcs {
			if !isSubject(fn) || fn.Pkg == nil || !strings.HasSuffix(fn.Pkg.Pkg.Path(), "/cmd/pdfcpu") {
				continue
			}
			var argsParam *ssa.Parameter
			for _, q := range fn.Params {
				if q.Name() == "args" && q.Type().String() == "[]string" {
					argsParam = q
				}
			}
			if argsParam == nil {
				continue
			}
			eachInstr(fn, func(_ *ssa.BasicBlock, _ int, i ssa.Instruction) {
				call, ok := i.(*ssa.Call)
				if !ok {
					return
				}
				callee := staticCallee(call)
				if callee == nil || !strings.HasSuffix(callee.Name(), "Args") {
					return
				}
				for _, a := range call.Call.Args {
					if a.Type().String() != "[]string" {
						continue
					}
					kind := "param"
					if a != ssa.Value(argsParam) {
						kind = fmt.Sprintf("%T", a)
					}
					fmt.Printf("%s\t%s\t%s\t%s\n", kind, FuncID(fn), callee.Name(), p.Pos(call.Pos()))
				}
			})
		}
	}
}
