package main

import (
	"fmt"
	"go/constant"
	"go/token"
	"go/types"
	"sort"
	"strings"

	"golang.org/x/tools/go/ssa"
)

// C42 — checked integer arithmetic, decided by lemma schema (DESIGN §4 C42).
//
// Every path of every checked helper is enumerated (the CFGs are loop-free decision DAGs);
// the conjunction of branch literals on a path is normalised to atoms and matched against
// Lemma A (addition) and Lemma M (multiplication). A success path must imply "no overflow",
// an error path must imply "negative operand or overflow", a division must be preceded by
// a non-zero test of its divisor on the same path.

func init() {
	register(&Check{
		ID:    "C42",
		Level: "proof",
		Run:   runC42,
		Explanation: "Decides, for every exported helper of pkg/pdfcpu/safemath returning (integer, error): (1) every CFG path to a nil-error return carries branch literals that instantiate Lemma A (a>=0, b>=0, a<=M-b => a+b<=M, no wrap) or Lemma M (a>=0, b>=0, a=0 or b<=M/a => a*b<=M), with M the go/types-evaluated maximum of the operand type in the analysed build configuration, and returns exactly that ADD/MUL of the two parameters; (2) every path to a non-nil-error return carries a literal that implies a negative operand or a true overflow, and returns the constant 0; (3) every division is preceded on its path by a non-zero test of the divisor; (4) no other operation (call, conversion, shift, loop) occurs. The lemmas are pen-and-paper (DESIGN.md C42); the recogniser is sound and deliberately incomplete (an unrecognised idiom is reported). Not decided: nothing of the statement is left out except that the lemmas themselves are trusted.",
		Rules: []string{
			"C42.R1 SCHEMA: path literals of each return match Lemma A / Lemma M",
			"C42.R2 coverage: every exported (int, error) helper is covered and contains only schema instructions",
		},
		Assumptions: []string{"Lemma A and Lemma M as stated in DESIGN.md", "Go integer semantics: / truncates toward zero; comparison and subtraction of in-range values are exact"},
	})
}

type atom struct {
	kind string // NEG NONNEG ZERO NONZERO ADDOV ADDOK MULOV MULOK
	x, y ssa.Value
}

func (a atom) String() string {
	if a.y != nil {
		return fmt.Sprintf("%s(%s,%s)", a.kind, a.x.Name(), a.y.Name())
	}
	return fmt.Sprintf("%s(%s)", a.kind, a.x.Name())
}

func negateAtom(k string) string {
	switch k {
	case "NEG":
		return "NONNEG"
	case "NONNEG":
		return "NEG"
	case "ZERO":
		return "NONZERO"
	case "NONZERO":
		return "ZERO"
	case "ADDOV":
		return "ADDOK"
	case "ADDOK":
		return "ADDOV"
	case "MULOV":
		return "MULOK"
	case "MULOK":
		return "MULOV"
	case "POS":
		return "NONPOS"
	case "NONPOS":
		return "POS"
	}
	return "?"
}

// condAtom normalises a comparison to an atom that holds when the comparison is TRUE.
func condAtom(v ssa.Value, maxOf func(types.Type) constant.Value) (atom, bool) {
	b, ok := v.(*ssa.BinOp)
	if !ok {
		return atom{}, false
	}
	op, x, y := b.Op, b.X, b.Y
	// mirror so that a constant/compound is on the right if possible
	mirror := map[token.Token]token.Token{token.LSS: token.GTR, token.GTR: token.LSS, token.LEQ: token.GEQ, token.GEQ: token.LEQ, token.EQL: token.EQL, token.NEQ: token.NEQ}
	isZero := func(v ssa.Value) bool { n, ok := constInt(v); return ok && n == 0 }
	if _, ok := mirror[op]; !ok {
		return atom{}, false
	}
	if isZero(x) || isBound(x, maxOf) {
		op, x, y = mirror[op], y, x
	}
	if isZero(y) {
		switch op {
		case token.LSS:
			return atom{kind: "NEG", x: x}, true
		case token.GEQ:
			return atom{kind: "NONNEG", x: x}, true
		case token.EQL:
			return atom{kind: "ZERO", x: x}, true
		case token.NEQ:
			return atom{kind: "NONZERO", x: x}, true
		case token.GTR:
			return atom{kind: "POS", x: x}, true
		case token.LEQ:
			return atom{kind: "NONPOS", x: x}, true
		}
		return atom{}, false
	}
	if by, ok := y.(*ssa.BinOp); ok && isBound(y, maxOf) {
		switch by.Op {
		case token.SUB: // x ? M - by.Y
			switch op {
			case token.GTR:
				return atom{kind: "ADDOV", x: x, y: by.Y}, true
			case token.LEQ:
				return atom{kind: "ADDOK", x: x, y: by.Y}, true
			}
		case token.QUO: // x ? M / by.Y   => MUL*(divisor, x)
			switch op {
			case token.GTR:
				return atom{kind: "MULOV", x: by.Y, y: x}, true
			case token.LEQ:
				return atom{kind: "MULOK", x: by.Y, y: x}, true
			}
		}
	}
	return atom{}, false
}

// isBound: v is `M - p` or `M / p` with M the max constant of its type.
func isBound(v ssa.Value, maxOf func(types.Type) constant.Value) bool {
	b, ok := v.(*ssa.BinOp)
	if !ok || (b.Op != token.SUB && b.Op != token.QUO) {
		return false
	}
	c, ok := b.X.(*ssa.Const)
	if !ok || c.Value == nil {
		return false
	}
	m := maxOf(b.Type())
	return m != nil && constant.Compare(c.Value, token.EQL, m)
}

func runC42(c *Ctx) {
	p, r := c.P, c.R
	r.MinInst["C42.R1"] = 6
	r.MinInst["C42.R2"] = 3
	pk := p.Pkg("pkg/pdfcpu/safemath")
	if pk == nil {
		r.Bad("C42.R2", "pkg/pdfcpu/safemath", "package", "", "UNRESOLVED-ANCHOR: package pkg/pdfcpu/safemath not found")
		return
	}
	sizes := pk.TypesSizes
	maxOf := func(t types.Type) constant.Value {
		bt, ok := t.Underlying().(*types.Basic)
		if !ok || bt.Info()&types.IsInteger == 0 || bt.Info()&types.IsUnsigned != 0 {
			return nil
		}
		bits := uint(sizes.Sizeof(t) * 8)
		return constant.BinaryOp(constant.Shift(constant.MakeInt64(1), token.SHL, bits-1), token.SUB, constant.MakeInt64(1))
	}
	sp := p.SSAPkgs[pk.PkgPath]
	var names []string
	for n := range sp.Members {
		names = append(names, n)
	}
	sort.Strings(names)
	covered := 0
	for _, n := range names {
		fn, ok := sp.Members[n].(*ssa.Function)
		if !ok || n == "init" {
			continue
		}
		res := fn.Signature.Results()
		intResult := false
		for i := 0; i < res.Len(); i++ {
			if bt, ok := res.At(i).Type().Underlying().(*types.Basic); ok && bt.Info()&types.IsInteger != 0 {
				intResult = true
			}
		}
		if !intResult {
			continue
		}
		fid := FuncID(fn)
		if res.Len() != 2 || !isErrorType(res.At(1).Type()) || fn.Signature.Params().Len() != 2 {
			r.Bad("C42.R2", fid, "signature", p.Pos(fn.Pos()), "helper with integer result does not have the shape (T,T)->(T,error): unrecognised schema")
			continue
		}
		covered++
		checkSafemathFunc(c, fn, maxOf)
	}
	if covered == 0 {
		r.Bad("C42.R2", "pkg/pdfcpu/safemath", "helpers", "", "UNRESOLVED-ANCHOR: no checked helper found")
	}
}

func checkSafemathFunc(c *Ctx, fn *ssa.Function, maxOf func(types.Type) constant.Value) {
	p, r := c.P, c.R
	fid := FuncID(fn)
	pos := p.Pos(fn.Pos())
	a, b := fn.Params[0], fn.Params[1]
	// R2: instruction whitelist
	okInstr := true
	eachInstr(fn, func(_ *ssa.BasicBlock, _ int, i ssa.Instruction) {
		switch x := i.(type) {
		case *ssa.If, *ssa.Jump, *ssa.Return, *ssa.DebugRef:
		case *ssa.BinOp:
			switch x.Op {
			case token.LSS, token.GTR, token.LEQ, token.GEQ, token.EQL, token.NEQ, token.ADD, token.MUL, token.SUB, token.QUO:
			default:
				okInstr = false
				r.Bad("C42.R2", fid, "op:"+x.Op.String(), p.Pos(x.Pos()), "operation outside the lemma schemas (shift/remainder/bit op)")
			}
			if (x.Op == token.SUB || x.Op == token.QUO) && !isBound(x, maxOf) {
				okInstr = false
				r.Bad("C42.R2", fid, "bound:"+x.Op.String(), p.Pos(x.Pos()), "subtraction/division is not of the form MaxOfType - param / MaxOfType / param with the maximum of the operand type under this build configuration")
			}
		case *ssa.UnOp:
			if x.Op != token.MUL {
				okInstr = false
				r.Bad("C42.R2", fid, "unop:"+x.Op.String(), p.Pos(x.Pos()), "unary operation outside the schemas")
			} else if _, isG := x.X.(*ssa.Global); !isG {
				okInstr = false
				r.Bad("C42.R2", fid, "load", p.Pos(x.Pos()), "load of something other than a package-level error value")
			}
		default:
			okInstr = false
			r.Bad("C42.R2", fid, fmt.Sprintf("instr:%T", i), p.Pos(i.Pos()), "instruction kind outside the lemma schemas (call, conversion, phi, …): unrecognised schema")
		}
	})
	if okInstr {
		r.OK("C42.R2", fid, "instructions", pos, "only compare/If/Return and the bound expressions M-p, M/p occur", true)
	}
	// enumerate paths
	type lit struct {
		a atom
	}
	var paths int
	var walk func(b *ssa.BasicBlock, lits []atom, onPath map[*ssa.BasicBlock]bool)
	has := func(lits []atom, kind string, x, y ssa.Value) bool {
		for _, l := range lits {
			if l.kind == kind && l.x == x && (y == nil || l.y == y) {
				return true
			}
		}
		return false
	}
	nonneg := func(lits []atom, x ssa.Value) bool { return has(lits, "NONNEG", x, nil) || has(lits, "POS", x, nil) }
	nonzero := func(lits []atom, x ssa.Value) bool { return has(lits, "NONZERO", x, nil) || has(lits, "POS", x, nil) }
	litStr := func(lits []atom) string {
		var s []string
		for _, l := range lits {
			s = append(s, l.String())
		}
		return strings.Join(s, " ∧ ")
	}
	walk = func(blk *ssa.BasicBlock, lits []atom, onPath map[*ssa.BasicBlock]bool) {
		if onPath[blk] {
			r.Bad("C42.R1", fid, "loop", pos, "loop in a checked helper: unrecognised schema")
			return
		}
		onPath[blk] = true
		defer delete(onPath, blk)
		for _, i := range blk.Instrs {
			if q, ok := i.(*ssa.BinOp); ok && q.Op == token.QUO {
				if !nonzero(lits, q.Y) {
					r.Bad("C42.R1", fid, "div-guard", p.Pos(q.Pos()), "division by "+q.Y.Name()+" on a path without a preceding non-zero test: may panic ("+litStr(lits)+")")
				}
			}
			if s, ok := i.(*ssa.BinOp); ok && s.Op == token.SUB {
				if !nonneg(lits, s.Y) {
					r.Bad("C42.R1", fid, "sub-guard", p.Pos(s.Pos()), "M - "+s.Y.Name()+" evaluated on a path where "+s.Y.Name()+" >= 0 is not established: the bound itself may wrap ("+litStr(lits)+")")
				}
			}
		}
		last := blk.Instrs[len(blk.Instrs)-1]
		switch t := last.(type) {
		case *ssa.If:
			at, ok := condAtom(t.Cond, maxOf)
			if !ok {
				r.Bad("C42.R1", fid, "cond", p.Pos(t.Cond.Pos()), "branch condition is not one of the schema comparisons: unrecognised schema")
				return
			}
			walk(blk.Succs[0], append(append([]atom{}, lits...), at), onPath)
			na := at
			na.kind = negateAtom(at.kind)
			walk(blk.Succs[1], append(append([]atom{}, lits...), na), onPath)
		case *ssa.Jump:
			walk(blk.Succs[0], lits, onPath)
		case *ssa.Return:
			paths++
			construct := fmt.Sprintf("path#%d", paths)
			val, errv := t.Results[0], t.Results[1]
			if isNilConst(errv) {
				// success path
				bo, ok := val.(*ssa.BinOp)
				if !ok || (bo.Op != token.ADD && bo.Op != token.MUL) || !((bo.X == a && bo.Y == b) || (bo.X == b && bo.Y == a)) {
					r.Bad("C42.R1", fid, construct, p.Pos(t.Pos()), "nil-error return does not return a+b / a*b of the two parameters")
					return
				}
				good := false
				if nonneg(lits, a) && nonneg(lits, b) {
					if bo.Op == token.ADD {
						good = has(lits, "ADDOK", a, b) || has(lits, "ADDOK", b, a)
					} else {
						good = has(lits, "ZERO", a, nil) || has(lits, "ZERO", b, nil) ||
							(nonzero(lits, a) && has(lits, "MULOK", a, b)) || (nonzero(lits, b) && has(lits, "MULOK", b, a))
					}
				}
				if good {
					lemma := "Lemma A"
					if bo.Op == token.MUL {
						lemma = "Lemma M"
					}
					r.OK("C42.R1", fid, construct, p.Pos(t.Pos()), "success path literals "+litStr(lits)+" instantiate "+lemma, true)
				} else {
					r.Bad("C42.R1", fid, construct, p.Pos(t.Pos()), "success path does not establish the lemma precondition: "+litStr(lits)+" — a wrapped value can be returned")
				}
				return
			}
			// error path
			if n, ok := constInt(val); !ok || n != 0 {
				r.Bad("C42.R1", fid, construct, p.Pos(t.Pos()), "error return carries a non-zero value")
				return
			}
			if !nonNilErrorValue(c, errv) {
				r.Bad("C42.R1", fid, construct, p.Pos(t.Pos()), "error operand is not a package-level error initialised once by errors.New/fmt.Errorf")
				return
			}
			good := has(lits, "NEG", a, nil) || has(lits, "NEG", b, nil)
			if !good {
				// true overflow
				for _, l := range lits {
					switch l.kind {
					case "ADDOV":
						if ((l.x == a && l.y == b) || (l.x == b && l.y == a)) && nonneg(lits, l.y) {
							good = true
						}
					case "MULOV": // l.y > M / l.x with l.x > 0
						if ((l.x == a && l.y == b) || (l.x == b && l.y == a)) && nonneg(lits, l.x) && nonzero(lits, l.x) {
							good = true
						}
					}
				}
				// which op does this function perform? the overflow atom must match it
			}
			if good {
				r.OK("C42.R1", fid, construct, p.Pos(t.Pos()), "error path literals "+litStr(lits)+" imply negative operand or overflow", true)
			} else {
				r.Bad("C42.R1", fid, construct, p.Pos(t.Pos()), "error path does not imply a negative operand or a true overflow: "+litStr(lits)+" — a representable result is rejected")
			}
		default:
			r.Bad("C42.R1", fid, "terminator", p.Pos(last.Pos()), "unexpected terminator (panic?)")
		}
	}
	walk(fn.Blocks[0], nil, map[*ssa.BasicBlock]bool{})
	// the overflow atom kind must match the operation of the function: ADD helpers use ADD*, MUL helpers MUL*
	var opKind token.Token
	for _, ret := range returnsOf(fn) {
		if bo, ok := ret.Results[0].(*ssa.BinOp); ok {
			opKind = bo.Op
		}
	}
	eachInstr(fn, func(_ *ssa.BasicBlock, _ int, i ssa.Instruction) {
		if iff, ok := i.(*ssa.If); ok {
			if at, ok := condAtom(iff.Cond, maxOf); ok {
				if (strings.HasPrefix(at.kind, "ADD") && opKind != token.ADD) || (strings.HasPrefix(at.kind, "MUL") && opKind != token.MUL) {
					r.Bad("C42.R1", fid, "bound-kind", p.Pos(iff.Cond.Pos()), "overflow bound of the wrong kind for the operation performed")
				}
			}
		}
	})
}

// nonNilErrorValue: v is a load of a package-level var initialised by errors.New / fmt.Errorf and stored nowhere else.
func nonNilErrorValue(c *Ctx, v ssa.Value) bool {
	ld, ok := v.(*ssa.UnOp)
	if !ok || ld.Op != token.MUL {
		return false
	}
	g, ok := ld.X.(*ssa.Global)
	if !ok {
		return false
	}
	stores, good := 0, 0
	for _, fn := range c.P.Funcs {
		eachInstr(fn, func(_ *ssa.BasicBlock, _ int, i ssa.Instruction) {
			st, ok := i.(*ssa.Store)
			if !ok || st.Addr != g {
				return
			}
			stores++
			if call, ok := st.Val.(*ssa.Call); ok {
				if f := call.Call.StaticCallee(); f != nil && f.Object() != nil {
					ref := objRef(f.Object())
					if (ref == "errors.New" || ref == "fmt.Errorf") && strings.HasPrefix(fn.Synthetic, "package initializer") {
						good++
					}
				}
			}
		})
	}
	return stores == 1 && good == 1
}
