package main

import (
	"encoding/json"
	"fmt"
	"os"
	"os/exec"
	"path/filepath"
	"sort"
	"strings"
	"sync"
)

// Fixture is a one-instance breakage of /repo applied through the go/packages overlay
// (no copy of the repository on disk). Either Edits (text substitutions) or Patch
// (unified diff relative to the repo root, applied to temp copies of the touched files).
type Fixture struct {
	Name   string `json:"name"`
	What   string `json:"what"`
	Edits  []Edit `json:"edits,omitempty"`
	Patch  string `json:"patch,omitempty"`  // path relative to /verif
	Expect string `json:"expect,omitempty"` // substring that must occur in some reported key/witness
	// ExpectSilent: variant preserves the property; the rules must stay silent (false-alarm guard).
	ExpectSilent bool `json:"expect_silent,omitempty"`
}

type Edit struct {
	File string `json:"file"`
	Old  string `json:"old"`
	New  string `json:"new"`
}

func loadFixture(path string) (*Fixture, error) {
	b, err := os.ReadFile(path)
	if err != nil {
		return nil, err
	}
	var f Fixture
	if err := json.Unmarshal(b, &f); err != nil {
		return nil, err
	}
	if f.Name == "" {
		f.Name = strings.TrimSuffix(filepath.Base(path), ".json")
	}
	return &f, nil
}

// overlayFor builds the overlay; stale=true if an Old text does not occur (tree changed).
func overlayFor(f *Fixture) (ov map[string][]byte, stale bool, err error) {
	ov = map[string][]byte{}
	repo := repoDir()
	if f.Patch != "" {
		if filepath.IsAbs(f.Patch) {
			return overlayFromPatch(f.Patch)
		}
		return overlayFromPatch(filepath.Join(verifDir(), f.Patch))
	}
	for _, e := range f.Edits {
		path := filepath.Join(repo, e.File)
		src, ok := ov[path]
		if !ok {
			src, err = os.ReadFile(path)
			if err != nil {
				return nil, true, nil
			}
		}
		if strings.Count(string(src), e.Old) != 1 {
			return nil, true, nil
		}
		ov[path] = []byte(strings.Replace(string(src), e.Old, e.New, 1))
	}
	return ov, false, nil
}

// overlayFromPatch applies a unified diff to temp copies of the files it touches.
func overlayFromPatch(patch string) (map[string][]byte, bool, error) {
	repo := repoDir()
	pb, err := os.ReadFile(patch)
	if err != nil {
		return nil, false, err
	}
	var files []string
	for _, l := range strings.Split(string(pb), "\n") {
		if strings.HasPrefix(l, "+++ b/") {
			files = append(files, strings.TrimSpace(strings.TrimPrefix(l, "+++ b/")))
		}
	}
	tmp, err := os.MkdirTemp("", "verif-ov-")
	if err != nil {
		return nil, false, err
	}
	defer os.RemoveAll(tmp)
	for _, f := range files {
		src, err := os.ReadFile(filepath.Join(repo, f))
		if err != nil {
			if os.IsNotExist(err) {
				continue // new file
			}
			return nil, false, err
		}
		os.MkdirAll(filepath.Dir(filepath.Join(tmp, f)), 0o755)
		os.WriteFile(filepath.Join(tmp, f), src, 0o644)
	}
	cmd := exec.Command("patch", "-p1", "-s", "--no-backup-if-mismatch", "-i", patch)
	cmd.Dir = tmp
	if out, err := cmd.CombinedOutput(); err != nil {
		_ = out
		return nil, true, nil // does not apply: stale
	}
	ov := map[string][]byte{}
	for _, f := range files {
		if !strings.HasSuffix(f, ".go") || strings.HasSuffix(f, "_test.go") {
			continue
		}
		b, err := os.ReadFile(filepath.Join(tmp, f))
		if err != nil {
			continue
		}
		ov[filepath.Join(repo, f)] = b
	}
	return ov, false, nil
}

type mutantResult struct {
	Fixture    string   `json:"fixture"`
	Stale      bool     `json:"stale"`
	LoadError  string   `json:"load_error,omitempty"`
	Violations []string `json:"violations"`
}

// runMutant: internal subcommand, one process per variant.
func runMutant(id, fixturePath string) int {
	ck := registry[id]
	if ck == nil {
		return 2
	}
	res := mutantResult{Fixture: fixturePath}
	f, err := loadFixture(fixturePath)
	if err != nil {
		res.LoadError = err.Error()
		jsonOut(res)
		return 0
	}
	ov, stale, err := overlayFor(f)
	if err != nil {
		res.LoadError = err.Error()
		jsonOut(res)
		return 0
	}
	if stale {
		res.Stale = true
		jsonOut(res)
		return 0
	}
	p, err := Load(quickConfigs[0], ov)
	if err != nil {
		res.LoadError = err.Error()
		jsonOut(res)
		return 0
	}
	func() {
		defer func() {
			if e := recover(); e != nil {
				res.Violations = append(res.Violations, fmt.Sprintf("ENGINE|panic: %v", e))
			}
		}()
		res.Violations = violationKeys(ck, p)
	}()
	// known findings are part of the baseline: drop them
	kf, _ := loadKnownFindings()
	known := map[string]bool{}
	for _, k := range kf {
		if k.Property == id && k.Status == "known" {
			known[k.Key] = true
		}
	}
	var out []string
	for _, v := range res.Violations {
		key := strings.SplitN(v, " @ ", 2)[0]
		if !known[key] {
			out = append(out, v)
		}
	}
	res.Violations = out
	jsonOut(res)
	return 0
}

// runMutationSelfTest (thorough tier): every fixture under /verif/fixtures/<ID>/ and every
// seeded change under /verif/seeded/*/ whose meta.json names this property is applied as an
// overlay in its own process; the outcome is recorded in evidence. A missed variant is
// recorded, not reported as a property violation (it says something about the checker, not /repo).
func runMutationSelfTest(id string, r *Report) {
	vd := verifDir()
	var paths []string
	m, _ := filepath.Glob(filepath.Join(vd, "fixtures", id, "*.json"))
	paths = append(paths, m...)
	metas, _ := filepath.Glob(filepath.Join(vd, "seeded", "*", "meta.json"))
	tmpDir, _ := os.MkdirTemp("", "verif-fx-")
	defer os.RemoveAll(tmpDir)
	for _, mp := range metas {
		b, err := os.ReadFile(mp)
		if err != nil {
			continue
		}
		var meta struct {
			Property string `json:"property"`
			Needs    string `json:"needs"`
		}
		if json.Unmarshal(b, &meta) != nil || meta.Property != id {
			continue
		}
		dir := filepath.Dir(mp)
		rel, _ := filepath.Rel(vd, filepath.Join(dir, "patch.diff"))
		fx := Fixture{Name: "seeded/" + filepath.Base(dir), What: meta.Needs, Patch: rel}
		fb, _ := json.Marshal(fx)
		fp := filepath.Join(tmpDir, filepath.Base(dir)+".json")
		os.WriteFile(fp, fb, 0o644)
		paths = append(paths, fp)
	}
	sort.Strings(paths)
	if len(paths) == 0 {
		return
	}
	self, _ := os.Executable()
	type outcome struct {
		Name    string   `json:"variant"`
		What    string   `json:"what,omitempty"`
		Outcome string   `json:"outcome"` // caught | missed | stale | silent-ok | false-alarm | load-error
		Reports []string `json:"reports,omitempty"`
	}
	results := make([]outcome, len(paths))
	var wg sync.WaitGroup
	sem := make(chan struct{}, 4)
	for i, fp := range paths {
		wg.Add(1)
		go func(i int, fp string) {
			defer wg.Done()
			sem <- struct{}{}
			defer func() { <-sem }()
			fx, err := loadFixture(fp)
			if err != nil {
				results[i] = outcome{Name: fp, Outcome: "load-error", Reports: []string{err.Error()}}
				return
			}
			oc := outcome{Name: fx.Name, What: fx.What}
			cmd := exec.Command(self, "mutant", id, fp)
			cmd.Env = os.Environ()
			out, err := cmd.Output()
			var mr mutantResult
			if err != nil || json.Unmarshal(out, &mr) != nil {
				oc.Outcome = "load-error"
				oc.Reports = []string{fmt.Sprint(err)}
				results[i] = oc
				return
			}
			switch {
			case mr.Stale:
				oc.Outcome = "stale"
			case mr.LoadError != "":
				oc.Outcome = "load-error"
				oc.Reports = []string{mr.LoadError}
			case fx.ExpectSilent:
				if len(mr.Violations) == 0 {
					oc.Outcome = "silent-ok"
				} else {
					oc.Outcome = "false-alarm"
					oc.Reports = mr.Violations
				}
			default:
				hit := false
				for _, v := range mr.Violations {
					if fx.Expect == "" || strings.Contains(v, fx.Expect) {
						hit = true
					}
				}
				if hit {
					oc.Outcome = "caught"
				} else {
					oc.Outcome = "missed"
				}
				if len(mr.Violations) > 6 {
					mr.Violations = mr.Violations[:6]
				}
				oc.Reports = mr.Violations
			}
			results[i] = oc
		}(i, fp)
	}
	wg.Wait()
	caught, total := 0, 0
	for _, o := range results {
		if o.Outcome == "stale" {
			continue
		}
		total++
		if o.Outcome == "caught" || o.Outcome == "silent-ok" {
			caught++
		} else {
			r.Note("mutation self-test: variant %s -> %s", o.Name, o.Outcome)
		}
	}
	r.Extra["mutation_self_test"] = map[string]any{"variants": total, "as_expected": caught, "results": results,
		"how": "each variant is a {file,old,new} substitution or a seeded patch applied through the go/packages overlay; one process per variant; the rules must report the broken instance (or stay silent for behaviour-preserving variants)"}
}
