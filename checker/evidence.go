package main

import (
	"encoding/json"
	"fmt"
	"os"
	"path/filepath"
	"sort"
	"strings"
	"time"
)

func verifDir() string {
	if d := os.Getenv("VERIF_DIR"); d != "" {
		return d
	}
	return "/verif"
}

// Obligation is one rule instance examined on this run.
type Obligation struct {
	Rule       string `json:"rule"`
	Key        string `json:"key"` // rule|func|construct — never a line number
	Pos        string `json:"pos,omitempty"`
	Verdict    string `json:"verdict"` // ok | violation | known
	Witness    string `json:"witness,omitempty"`
	NonTrivial bool   `json:"nontrivial"`
	Config     string `json:"config,omitempty"`
}

// Report accumulates the outcome of one check.
type Report struct {
	ID          string
	Tier        string
	Level       string
	Explanation string
	RuleText    []string
	Assumptions []string
	Trusted     []string
	Obls        []Obligation
	Notes       []string
	Extra       map[string]any
	MinInst     map[string]int // rule -> minimum instance count (0 instances => vacuity failure)
	start       time.Time
	cfg         string
	seen        map[string]bool
}

func NewReport(id, tier string) *Report {
	return &Report{ID: id, Tier: tier, Level: "other", Extra: map[string]any{}, MinInst: map[string]int{}, start: time.Now(), seen: map[string]bool{}}
}

func (r *Report) SetConfig(name string) { r.cfg = name }

func (r *Report) add(o Obligation) {
	o.Config = r.cfg
	k := o.Config + "\x00" + o.Key
	if r.seen[k] {
		// keep keys unique per config: suffix with ordinal
		for i := 2; ; i++ {
			k2 := fmt.Sprintf("%s#%d", o.Key, i)
			if !r.seen[o.Config+"\x00"+k2] {
				o.Key = k2
				k = o.Config + "\x00" + k2
				break
			}
		}
	}
	r.seen[k] = true
	r.Obls = append(r.Obls, o)
}

// OK records a discharged obligation.
func (r *Report) OK(rule, fn, construct, pos, witness string, nontrivial bool) {
	r.add(Obligation{Rule: rule, Key: rule + "|" + fn + "|" + construct, Pos: pos, Verdict: "ok", Witness: witness, NonTrivial: nontrivial})
}

// Bad records a violated obligation.
func (r *Report) Bad(rule, fn, construct, pos, why string) {
	r.add(Obligation{Rule: rule, Key: rule + "|" + fn + "|" + construct, Pos: pos, Verdict: "violation", Witness: why, NonTrivial: true})
}

func (r *Report) Note(format string, a ...any) { r.Notes = append(r.Notes, fmt.Sprintf(format, a...)) }

// KnownFinding is an entry of /verif/known_findings.json.
type KnownFinding struct {
	Property string `json:"property"`
	Rule     string `json:"rule"`
	Key      string `json:"key"`
	Status   string `json:"status"` // known | fixed
	Commit   string `json:"commit,omitempty"`
	What     string `json:"what"`
}

func loadKnownFindings() ([]KnownFinding, error) {
	b, err := os.ReadFile(filepath.Join(verifDir(), "known_findings.json"))
	if err != nil {
		if os.IsNotExist(err) {
			return nil, nil
		}
		return nil, err
	}
	var v struct {
		Findings []KnownFinding `json:"findings"`
	}
	if err := json.Unmarshal(b, &v); err != nil {
		return nil, err
	}
	return v.Findings, nil
}

// Finish applies vacuity checks and known findings, writes evidence and
// violation files, prints the protocol lines and returns the exit code.
func (r *Report) Finish() int {
	vd := verifDir()
	// vacuity: a rule with a declared minimum must have at least one instance;
	// below-minimum-but-nonzero is a note only.
	perRule := map[string]int{}
	for _, o := range r.Obls {
		perRule[o.Rule]++
	}
	var rules []string
	for ru := range r.MinInst {
		rules = append(rules, ru)
	}
	sort.Strings(rules)
	for _, ru := range rules {
		n := perRule[ru]
		if n == 0 {
			r.Bad(ru, "-", "vacuous", "", fmt.Sprintf("rule matched zero instances (hand-confirmed count %d): anchors no longer resolve; the rule would pass vacuously", r.MinInst[ru]))
		} else if n < r.MinInst[ru]*len(r.configsSeen()) {
			r.Note("rule %s matched %d instances, below the hand-confirmed %d per configuration (not a failure)", ru, n, r.MinInst[ru])
		}
	}
	kf, kerr := loadKnownFindings()
	if kerr != nil {
		r.Bad("ENGINE", "-", "known_findings.json", "", "cannot parse known_findings.json: "+kerr.Error())
	}
	known := map[string]KnownFinding{}
	for _, k := range kf {
		if k.Property == r.ID && k.Status == "known" {
			known[k.Key] = k
		}
	}
	viol := 0
	printedKnown := map[string]bool{}
	violDir := filepath.Join(vd, "evidence", "violations", r.ID)
	os.RemoveAll(violDir)
	var violLines []string
	for i := range r.Obls {
		o := &r.Obls[i]
		if o.Verdict != "violation" {
			continue
		}
		if k, ok := known[stripOrdinal(o.Key)]; ok {
			o.Verdict = "known"
			if !printedKnown[k.Key] {
				printedKnown[k.Key] = true
				fmt.Printf("KNOWN-FINDING: property=%s %s [%s]\n", r.ID, k.What, k.Key)
			}
			continue
		}
		viol++
		os.MkdirAll(violDir, 0o755)
		path := filepath.Join(violDir, fmt.Sprintf("%d.json", viol))
		b, _ := json.MarshalIndent(map[string]any{"property": r.ID, "rule": o.Rule, "key": o.Key, "pos": o.Pos, "config": o.Config, "why": o.Witness}, "", " ")
		os.WriteFile(path, b, 0o644)
		fmt.Printf("  %s %s\n    %s\n    %s\n", o.Rule, o.Pos, o.Key, o.Witness)
		violLines = append(violLines, fmt.Sprintf("VIOLATION property=%s replay=%s", r.ID, path))
	}
	for k := range known {
		if !printedKnown[k] {
			r.Note("known finding %q did not occur on this run (stale entry or repaired)", k)
		}
	}
	// evidence
	nontrivial := map[string]bool{}
	discharged := 0
	for _, o := range r.Obls {
		if o.Verdict == "ok" {
			discharged++
		}
		if o.NonTrivial {
			nontrivial[o.Key] = true
		}
	}
	samples := r.samples()
	cov := map[string]any{
		"explanation":         r.Explanation,
		"obligations":         len(r.Obls),
		"discharged":          discharged,
		"evaluations":         len(r.Obls),
		"distinct_nontrivial": len(nontrivial),
		"rule":                strings.Join(r.RuleText, " || ") + " — an obligation is one rule instance keyed rule|function|construct; non-trivial = its decision needed a path, flow, table-agreement or call-graph argument (not satisfied by mere absence)",
		"samples":             samples,
		"checker_cmd":         fmt.Sprintf("/verif/bin/pdfcpu-verif check %s --tier %s", r.ID, r.Tier),
		"trusted_base":        append([]string{"go/types + go/ssa (x/tools v0.50.0) as a faithful model of the Go source", "the reasoned tables in /verif/checker/*.go"}, r.Trusted...),
		"per_rule":            perRule,
		"exhaustive":          true,
		"notes":               r.Notes,
	}
	for k, v := range r.Extra {
		cov[k] = v
	}
	seed := 0
	fmt.Sscanf(os.Getenv("VERIF_SEED"), "%d", &seed)
	ev := map[string]any{
		"property_id": r.ID,
		"tier":        r.Tier,
		"seed":        seed,
		"level":       r.Level,
		"coverage":    cov,
		"assumptions": r.Assumptions,
		"wall_s":      time.Since(r.start).Seconds(),
		"violations":  viol,
	}
	if ev["assumptions"] == nil {
		ev["assumptions"] = []string{}
	}
	os.MkdirAll(filepath.Join(vd, "evidence"), 0o755)
	b, _ := json.MarshalIndent(ev, "", " ")
	if err := os.WriteFile(filepath.Join(vd, "evidence", r.ID+".json"), b, 0o644); err != nil {
		fmt.Println("cannot write evidence:", err)
		return 1
	}
	kn := 0
	for _, o := range r.Obls {
		if o.Verdict == "known" {
			kn++
		}
	}
	fmt.Printf("%s tier=%s obligations=%d discharged=%d known=%d violations=%d wall=%.1fs\n", r.ID, r.Tier, len(r.Obls), discharged, kn, viol, time.Since(r.start).Seconds())
	for _, l := range violLines {
		fmt.Println(l)
	}
	if viol > 0 {
		return 1
	}
	return 0
}

func (r *Report) configsSeen() map[string]bool {
	m := map[string]bool{}
	for _, o := range r.Obls {
		m[o.Config] = true
	}
	if len(m) == 0 {
		m[""] = true
	}
	return m
}

func stripOrdinal(k string) string { return k }

// samples: up to 3 per rule, nontrivial first, plus all non-ok.
func (r *Report) samples() []Obligation {
	var out []Obligation
	per := map[string]int{}
	for pass := 0; pass < 2; pass++ {
		for _, o := range r.Obls {
			if o.Verdict != "ok" {
				if pass == 0 {
					out = append(out, o)
				}
				continue
			}
			if (pass == 0) != o.NonTrivial {
				continue
			}
			if per[o.Rule] >= 3 {
				continue
			}
			per[o.Rule]++
			out = append(out, o)
		}
	}
	if len(out) > 60 {
		out = out[:60]
	}
	return out
}
