package main

import (
	"go/token"
	"fmt"
	"sort"
	"strings"

	"golang.org/x/tools/go/ssa"
)

// C17 (structural clauses): which decoders apply a predictor, and whether TIFF differencing sees the sample width.

func init() {
	register(&Check{
		ID:  "C17",
		Run: runC17,
		Explanation: "Decides two structural necessary conditions of 'Flate and LZW decoding with a predictor matches the PNG and TIFF specifications, or reports an error only for parameter combinations the specification does not allow'. " +
			"(R1 dependency) the value read from the decode parameter BitsPerComponent is followed (taint through calls, results, φ, arithmetic) and has to reach the call that performs TIFF horizontal differencing (the PredictorTIFF branch of processRow): differencing adds SAMPLES, so for 1-, 2-, 4- and 16-bit components — all allowed by the standard — a routine that never sees the sample width cannot be right. " +
			"(R2 siblings) every filter type whose decoder reads the Predictor parameter reaches the row post-processing (processRow); reading it only to reject it turns every predictor stream of that filter — allowed by the standard for LZWDecode as for FlateDecode — into an error. " +
			"(R3 TABLE) processRow's switch over the PNG filter-type byte has exactly the cases 0..4 and an error default. " +
			"(R4 normal form) the three results of predictorRowParams are, as polynomials over (colors, bpc, columns) with floor divisions as atoms and the module's checked-arithmetic helpers read as their operation, bytesPerPixel = floor((bpc*colors+7)/8), rowSize = floor((bpc*colors*columns+7)/8), rowLen = rowSize or rowSize+1 (nothing is evaluated; equal normal forms compute equal functions). (R5 dominance) no row leaves processRow successfully unless the p == PredictorTIFF test or a branch on the row's first byte dominates the return: the /Predictor value does not name the filter of a PNG row. " +
			"Both R1 and R2 are violated on the pinned tree; the repairs are feature work (sub-byte and 16-bit differencing, predictor support for LZW), so they are recorded as known findings with demonstrations. NOT decided: the arithmetic of the PNG filters and of differencing itself (value-level).",
		Rules:       []string{"C17.R1 dependency: TIFF differencing receives the sample width", "C17.R2 siblings: a decoder that reads Predictor applies it", "C17.R3 TABLE: PNG filter types 0..4", "C17.R4 normal form: row size, row length and bytes per pixel are the formulas of RFC 2083 / TIFF 6.0 as polynomials with floor divisions", "C17.R5 dominance: every successful return of processRow is behind the TIFF test or behind the dispatch on the row's filter byte"},
		Assumptions: []string{"decode parameters are read through constant keys of the parms map"},
		Level:       "other",
		Technique:   "interprocedural taint from a parameter lookup to a call site; sibling reachability over the pkg/filter call graph; switch-case table",
		Note:        "Partial: two dependencies and one table; two known findings.",
	})
}

// taintFrom follows values derived from the seeds through pkg/filter.
func taintFrom(c *Ctx, seeds []ssa.Value) map[ssa.Value]bool {
	cg := c.CG()
	t := map[ssa.Value]bool{}
	var work []ssa.Value
	add := func(v ssa.Value) {
		if v != nil && !t[v] {
			t[v] = true
			work = append(work, v)
		}
	}
	for _, s := range seeds {
		add(s)
	}
	for len(work) > 0 {
		v := work[len(work)-1]
		work = work[:len(work)-1]
		refs := v.Referrers()
		if refs == nil {
			continue
		}
		for _, rf := range *refs {
			switch x := rf.(type) {
			case *ssa.Extract:
				add(x)
			case *ssa.Phi:
				add(x)
			case *ssa.BinOp:
				add(x)
			case *ssa.Convert:
				add(x)
			case *ssa.UnOp:
				add(x)
			case *ssa.Store:
				if x.Val == v {
					if al, ok := x.Addr.(*ssa.Alloc); ok {
						for _, r2 := range *al.Referrers() {
							if ld, ok := r2.(*ssa.UnOp); ok {
								add(ld)
							}
						}
					}
				}
			case *ssa.Return:
				fn := x.Parent()
				for ri, rv := range x.Results {
					if rv != v {
						continue
					}
					for _, caller := range cg.In[fn] {
						eachInstr(caller, func(_ *ssa.BasicBlock, _ int, ci ssa.Instruction) {
							cc, ok := ci.(*ssa.Call)
							if !ok {
								return
							}
							if f := staticCallee(cc); f == nil || unwrapSynthetic(f) != fn {
								return
							}
							if len(x.Results) == 1 {
								add(cc)
							} else if cc.Referrers() != nil {
								for _, r3 := range *cc.Referrers() {
									if ex, ok := r3.(*ssa.Extract); ok && ex.Index == ri {
										add(ex)
									}
								}
							}
						})
					}
				}
			case ssa.CallInstruction:
				callee := staticCallee(x)
				if callee == nil || !isSubject(callee) {
					// results of std arithmetic helpers on tainted operands (safemath lives in the module)
					continue
				}
				for k, a := range x.Common().Args {
					if a == v && k < len(callee.Params) {
						add(callee.Params[k])
					}
				}
			}
		}
	}
	return t
}

func runC17(c *Ctx) {
	p, r := c.P, c.R
	cg := c.CG()
	r.MinInst["C17.R1"] = 1
	r.MinInst["C17.R2"] = 2
	r.MinInst["C17.R3"] = 1
	r.MinInst["C17.R4"] = 3
	r.MinInst["C17.R5"] = 2
	checkRowGeometry(c)
	checkRowFilterDispatch(c)
	// ---- R1
	var seeds []ssa.Value
	for _, fn := range p.Funcs {
		if fn.Pkg == nil || fn.Pkg.Pkg.Path() != modPath+"/pkg/filter" {
			continue
		}
		eachInstr(fn, func(_ *ssa.BasicBlock, _ int, i ssa.Instruction) {
			if lk, ok := i.(*ssa.Lookup); ok && strings.HasSuffix(fieldPath(lk.X), "parms") {
				if k, ok := constString(lk.Index); ok && k == "BitsPerComponent" {
					seeds = append(seeds, lk)
				}
			}
		})
	}
	pr := p.Func("pkg/filter.processRow")
	if len(seeds) == 0 || pr == nil {
		r.Bad("C17.R1", "pkg/filter.processRow", "anchor", "", "UNRESOLVED-ANCHOR: no read of the BitsPerComponent parameter, or processRow not found")
	} else {
		t := taintFrom(c, seeds)
		// the call on the PredictorTIFF branch: dominated by the true edge of a comparison with the constant 2
		var tiffCalls []*ssa.Call
		eachInstr(pr, func(b *ssa.BasicBlock, _ int, i ssa.Instruction) {
			call, ok := i.(*ssa.Call)
			if !ok || staticCallee(call) == nil || !isSubject(staticCallee(call)) {
				return
			}
			dom := false
			eachInstr(pr, func(_ *ssa.BasicBlock, _ int, j ssa.Instruction) {
				bo, ok := j.(*ssa.BinOp)
				if !ok {
					return
				}
				k, isC := constInt(bo.Y)
				if !isC {
					k, isC = constInt(bo.X)
				}
				if !isC || k != 2 {
					return
				}
				for _, e := range condEdges(bo, bo.Op.String() == "==") {
					if edgeDominates(e, b) {
						dom = true
					}
				}
			})
			if dom {
				tiffCalls = append(tiffCalls, call)
			}
		})
		if len(tiffCalls) == 0 {
			r.Bad("C17.R1", FuncID(pr), "TIFF branch", p.Pos(pr.Pos()), "UNRESOLVED-ANCHOR: no call on the PredictorTIFF (== 2) branch of processRow")
		}
		for k, call := range tiffCalls {
			sees := false
			for _, a := range call.Call.Args {
				if t[a] {
					sees = true
				}
			}
			construct := fmt.Sprintf("TIFF differencing call#%d (%s)", k+1, staticCallee(call).Name())
			if sees {
				r.OK("C17.R1", FuncID(pr), construct, p.Pos(call.Pos()), "an argument derives from the BitsPerComponent parameter", true)
			} else {
				r.Bad("C17.R1", FuncID(pr), construct, p.Pos(call.Pos()), "no argument of the TIFF differencing routine derives from BitsPerComponent: it adds bytes, which is horizontal differencing only for 8-bit components; for 1, 2, 4 and 16 bits per component (accepted by f.parameters and allowed by the standard) the decoded bytes are wrong and no error is reported")
			}
		}
	}
	// ---- R2
	dec := map[string]*ssa.Function{}
	for _, fn := range p.Funcs {
		if fn.Pkg == nil || fn.Pkg.Pkg.Path() != modPath+"/pkg/filter" || fn.Signature.Recv() == nil || fn.Name() != "DecodeLength" {
			continue
		}
		dec[typeNameOf(fn.Signature.Recv().Type())] = fn
	}
	var ts []string
	for t := range dec {
		ts = append(ts, t)
	}
	sort.Strings(ts)
	n := 0
	for _, t := range ts {
		keys := parmKeysReachable(cg, dec[t])
		if keys["Predictor"] == "" {
			continue
		}
		n++
		reaches := false
		seen := map[*ssa.Function]bool{}
		stack := []*ssa.Function{dec[t]}
		for len(stack) > 0 {
			f := stack[len(stack)-1]
			stack = stack[:len(stack)-1]
			if seen[f] {
				continue
			}
			seen[f] = true
			if f == pr {
				reaches = true
				break
			}
			for _, o := range cg.Out[f] {
				if o.Pkg != nil && o.Pkg.Pkg.Path() == modPath+"/pkg/filter" {
					stack = append(stack, o)
				}
			}
		}
		construct := "filter " + t
		if reaches {
			r.OK("C17.R2", FuncID(dec[t]), construct, p.Pos(dec[t].Pos()), "reads Predictor and reaches the row post-processing", true)
		} else {
			r.Bad("C17.R2", FuncID(dec[t]), construct, p.Pos(dec[t].Pos()), "this decoder reads the Predictor parameter (in "+keys["Predictor"]+") but never reaches the row post-processing: a predictor stream of this filter — allowed by the standard — is rejected (or returned un-predicted) instead of decoded")
		}
	}
	if n == 0 {
		r.Bad("C17.R2", "pkg/filter", "anchor", "", "UNRESOLVED-ANCHOR: no decoder reads the Predictor parameter")
	}
	// ---- R3
	if pr != nil {
		cases := map[int64]bool{}
		eachInstr(pr, func(_ *ssa.BasicBlock, _ int, i ssa.Instruction) {
			bo, ok := i.(*ssa.BinOp)
			if !ok || bo.Op.String() != "==" {
				return
			}
			k, isC := constInt(bo.Y)
			if !isC {
				return
			}
			// comparisons of the filter-type byte (an int converted from a byte load)
			if cv, ok := bo.X.(*ssa.Convert); ok {
				if _, isLoad := cv.X.(*ssa.UnOp); isLoad {
					cases[k] = true
				}
			}
		})
		var got []string
		ok5 := true
		for k := int64(0); k <= 4; k++ {
			if !cases[k] {
				ok5 = false
			}
		}
		for k := range cases {
			got = append(got, fmt.Sprint(k))
			if k < 0 || k > 4 {
				ok5 = false
			}
		}
		sort.Strings(got)
		if ok5 {
			r.OK("C17.R3", FuncID(pr), "PNG filter types", p.Pos(pr.Pos()), "cases 0 (None), 1 (Sub), 2 (Up), 3 (Average), 4 (Paeth)", true)
		} else {
			r.Bad("C17.R3", FuncID(pr), "PNG filter types", p.Pos(pr.Pos()), "the switch over the row's filter-type byte has the cases {"+strings.Join(got, ", ")+"}, RFC 2083 defines exactly 0..4")
		}
	}
}

// ---------------- C17.R4 / R5 (round 4 seeds C17-A, C17-B) ----------------

// R4: the row geometry. RFC 2083 §6: bpp = ⌈Colors·BitsPerComponent / 8⌉ bytes (at least 1 whenever the product
// is positive) and a row has ⌈Colors·BitsPerComponent·Columns / 8⌉ bytes, plus one filter byte for PNG. The
// three results of predictorRowParams on its successful return are normalised to polynomials over the
// parameters with floor divisions as atoms (poly.go) and compared with those formulas' normal forms; a respelling
// (operand order, temporaries, >>3, safemath or plain operators) has the same normal form, colors·⌈bpc/8⌉ has not.
func checkRowGeometry(c *Ctx) {
	p, r := c.P, c.R
	const fid = "pkg/filter.predictorRowParams"
	fn := p.Func(fid)
	if fn == nil || len(fn.Params) != 4 {
		r.Bad("C17.R4", fid, "anchor", "", "UNRESOLVED-ANCHOR: predictorRowParams(predictor, colors, bpc, columns) not found")
		return
	}
	colors, bpc, columns := fn.Params[1].Name(), fn.Params[2].Name(), fn.Params[3].Name()
	bits := polyAtom(colors).mul(polyAtom(bpc))
	wantBpp := polyAtom(fmt.Sprintf("floor((%s)/8)", bits.add(polyConst(7), 1)))
	wantRow := polyAtom(fmt.Sprintf("floor((%s)/8)", bits.mul(polyAtom(columns)).add(polyConst(7), 1)))
	n := 0
	for _, ret := range returnsOf(fn) {
		if k, ok := returnErrKind(ret); !ok || k == errNonNil || len(ret.Results) != 4 {
			continue
		}
		n++
		pos := posOrFn(p, ret, fn)
		check := func(name string, v ssa.Value, want ...poly) {
			var alts []ssa.Value
			if ph, ok := v.(*ssa.Phi); ok && len(want) > 1 {
				alts = ph.Edges
			} else {
				alts = []ssa.Value{v}
			}
			var got []string
			okAll := true
			seen := map[string]bool{}
			for _, a := range alts {
				pa, ok := polyOf(a, 0)
				if !ok {
					r.Bad("C17.R4", fid, name, pos, "UNDECIDED: "+name+" is not a polynomial / floor-division expression of the parameters ("+exprName(a)+")")
					return
				}
				got = append(got, pa.String())
				match := false
				for _, w := range want {
					if w.String() == pa.String() {
						match = true
						seen[w.String()] = true
					}
				}
				if !match {
					okAll = false
				}
			}
			if okAll && len(seen) == len(want) {
				r.OK("C17.R4", fid, name, pos, name+" = "+strings.Join(got, " | "), true)
			} else {
				var ws []string
				for _, w := range want {
					ws = append(ws, w.String())
				}
				r.Bad("C17.R4", fid, name, pos, name+" is computed as "+strings.Join(got, " | ")+", RFC 2083 / TIFF 6.0 give "+strings.Join(ws, " | ")+": for sample widths below 8 bits with several colours (or 16-bit samples) the Sub/Average/Paeth neighbour is taken from the wrong distance, or rows are cut at the wrong length")
			}
		}
		check("rowSize", ret.Results[0], wantRow)
		check("rowLen", ret.Results[1], wantRow, wantRow.add(polyConst(1), 1))
		check("bytesPerPixel", ret.Results[2], wantBpp)
	}
	if n == 0 {
		r.Bad("C17.R4", fid, "row geometry", p.Pos(fn.Pos()), "UNDECIDED: no successful return with four results")
	}
}

// R5: for the PNG predictors (10–15) the filter of a row is the row's first byte, whatever the /Predictor value
// says (ISO 32000 7.4.4.4: "the predictor value only indicates that PNG is in use; each row states its filter").
// In processRow every return that is not an error is therefore either behind the test p == PredictorTIFF or behind
// the dispatch on the row's first byte (dominated by a branch whose condition derives from cr[0]).
func checkRowFilterDispatch(c *Ctx) {
	p, r := c.P, c.R
	const fid = "pkg/filter.processRow"
	fn := p.Func(fid)
	if fn == nil || len(fn.Params) < 3 {
		r.Bad("C17.R5", fid, "anchor", "", "UNRESOLVED-ANCHOR")
		return
	}
	cr, pp := fn.Params[1], fn.Params[2]
	// values derived from cr[0]
	tag := map[ssa.Value]bool{}
	eachInstr(fn, func(_ *ssa.BasicBlock, _ int, i ssa.Instruction) {
		ia, ok := i.(*ssa.IndexAddr)
		if !ok || ia.X != ssa.Value(cr) {
			return
		}
		if k, ok := c31ConstInt(ia.Index); !ok || k != 0 {
			return
		}
		for _, rf := range *ia.Referrers() {
			if ld, ok := rf.(*ssa.UnOp); ok && ld.Op == token.MUL {
				for v := range taintFrom(c, []ssa.Value{ld}) {
					tag[v] = true
				}
			}
		}
	})
	if len(tag) == 0 {
		r.Bad("C17.R5", fid, "row filter byte", p.Pos(fn.Pos()), "UNDECIDED: processRow does not read the first byte of the current row")
		return
	}
	// blocks reachable from the entry without passing a branch on the filter byte and without taking the TIFF edge
	free := map[*ssa.BasicBlock]bool{fn.Blocks[0]: true}
	work := []*ssa.BasicBlock{fn.Blocks[0]}
	tiffEdges := 0
	for len(work) > 0 {
		x := work[len(work)-1]
		work = work[:len(work)-1]
		succs := x.Succs
		if len(x.Instrs) > 0 {
			if ifi, ok := x.Instrs[len(x.Instrs)-1].(*ssa.If); ok {
				if bo, ok := ifi.Cond.(*ssa.BinOp); ok {
					if tag[bo.X] || tag[bo.Y] {
						continue // the filter byte decides from here on
					}
					if bo.Op == token.EQL && ((bo.X == ssa.Value(pp) && isIntConst(bo.Y, 2)) || (bo.Y == ssa.Value(pp) && isIntConst(bo.X, 2))) {
						succs = x.Succs[1:] // the true edge is the TIFF branch
						tiffEdges++
					}
				}
			}
		}
		for _, sx := range succs {
			if !free[sx] {
				free[sx] = true
				work = append(work, sx)
			}
		}
	}
	n := 0
	for _, ret := range returnsOf(fn) {
		if k, ok := returnErrKind(ret); ok && k == errNonNil {
			continue
		}
		n++
		construct := fmt.Sprintf("return#%d", n)
		pos := posOrFn(p, ret, fn)
		if free[ret.Block()] {
			r.Bad("C17.R5", fid, construct, pos, "a row can be returned without the row's filter byte having been consulted and not on the TIFF branch: with PNG predictors every row names its own filter (a /Predictor 10 stream may contain Sub, Up, Average or Paeth rows, and an invalid filter byte is an error)")
		} else {
			r.OK("C17.R5", fid, construct, pos, "every path to this return takes the p == PredictorTIFF edge or passes a branch on the row's filter byte", true)
		}
	}
	if n == 0 {
		r.Bad("C17.R5", fid, "returns", p.Pos(fn.Pos()), "UNDECIDED: no successful return")
	}
}

func isIntConst(v ssa.Value, k int64) bool { n, ok := c31ConstInt(v); return ok && n == k }
