package main

import (
	"go/types"
	"go/token"
	"fmt"
	"sort"
	"strings"

	"golang.org/x/tools/go/ssa"
)

// C17 (structural clauses): which decoders apply a predictor, and whether TIFF differencing sees the sample width.

func init() {
	register(&Check{
		ID:  "C17",
		Run: runC17,
		Explanation: "Decides two structural necessary conditions of 'Flate and LZW decoding with a predictor matches the PNG and TIFF specifications, or reports an error only for parameter combinations the specification does not allow'. " +
			"(R1 dependency) the value read from the decode parameter BitsPerComponent is followed (taint through calls, results, φ, arithmetic) and has to reach the call that performs TIFF horizontal differencing (the PredictorTIFF branch of processRow): differencing adds SAMPLES, so for 1-, 2-, 4- and 16-bit components — all allowed by the standard — a routine that never sees the sample width cannot be right. " +
			"(R2 siblings) every filter type whose decoder reads the Predictor parameter reaches the row post-processing (processRow); reading it only to reject it turns every predictor stream of that filter — allowed by the standard for LZWDecode as for FlateDecode — into an error. " +
			"(R3 TABLE) processRow's switch over the PNG filter-type byte has exactly the cases 0..4 and an error default. " +
			"(R4 normal form) the three results of predictorRowParams are, as polynomials over (colors, bpc, columns) with floor divisions as atoms and the module's checked-arithmetic helpers read as their operation, bytesPerPixel = floor((bpc*colors+7)/8), rowSize = floor((bpc*colors*columns+7)/8), rowLen = rowSize or rowSize+1 (nothing is evaluated; equal normal forms compute equal functions). (R5 dominance) no row leaves processRow successfully unless the p == PredictorTIFF test or a branch on the row's first byte dominates the return: the /Predictor value does not name the filter of a PNG row. " +
			"(R6 TABLE) the comparisons between the three Paeth distances (identified as results of abs by the shape of their argument) cut exactly at pa<=pb, pa<=pc, pb<=pc in filterPaeth and paeth; (R7 flow) in decodePostProcessRows the loop-carried row buffers never receive themselves on a back edge. " +
			"Both R1 and R2 are violated on the pinned tree; the repairs are feature work (sub-byte and 16-bit differencing, predictor support for LZW), so they are recorded as known findings with demonstrations. NOT decided: the arithmetic of the PNG filters and of differencing itself (value-level).",
		Rules:       []string{"C17.R1 dependency: TIFF differencing receives the sample width", "C17.R2 siblings: a decoder that reads Predictor applies it", "C17.R3 TABLE: PNG filter types 0..4", "C17.R4 normal form: row size, row length and bytes per pixel are the formulas of RFC 2083 / TIFF 6.0 as polynomials with floor divisions", "C17.R5 dominance: every successful return of processRow is behind the TIFF test or behind the dispatch on the row's filter byte", "C17.R6 TABLE: the Paeth predictor's three distance comparisons cut at pa<=pb, pa<=pc, pb<=pc", "C17.R7 flow: the previous-row buffer is replaced on every back edge of the row loop", "C17.R8 TABLE: validatePredictor accepts exactly 2 and 10..15", "C17.R9 shape: the Average filter halves a sum formed in a type wider than a byte"},
		Assumptions: []string{"decode parameters are read through constant keys of the parms map"},
		Level:       "other",
		Technique:   "interprocedural taint from a parameter lookup to a call site; sibling reachability over the pkg/filter call graph; switch-case table",
		Note:        "Partial: two dependencies and one table; two known findings.",
	})
}

// taintFrom follows values derived from the seeds through pkg/filter.
func taintFrom(c *Ctx, seeds []ssa.Value) map[ssa.Value]bool {
	cg := c.CG()
	t := map[ssa.Value]bool{}
	var work []ssa.Value
	add := func(v ssa.Value) {
		if v != nil && !t[v] {
			t[v] = true
			work = append(work, v)
		}
	}
	for _, s := range seeds {
		add(s)
	}
	for len(work) > 0 {
		v := work[len(work)-1]
		work = work[:len(work)-1]
		refs := v.Referrers()
		if refs == nil {
			continue
		}
		for _, rf := range *refs {
			switch x := rf.(type) {
			case *ssa.Extract:
				add(x)
			case *ssa.Phi:
				add(x)
			case *ssa.BinOp:
				add(x)
			case *ssa.Convert:
				add(x)
			case *ssa.UnOp:
				add(x)
			case *ssa.Store:
				if x.Val == v {
					if al, ok := x.Addr.(*ssa.Alloc); ok {
						for _, r2 := range *al.Referrers() {
							if ld, ok := r2.(*ssa.UnOp); ok {
								add(ld)
							}
						}
					}
				}
			case *ssa.Return:
				fn := x.Parent()
				for ri, rv := range x.Results {
					if rv != v {
						continue
					}
					for _, caller := range cg.In[fn] {
						eachInstr(caller, func(_ *ssa.BasicBlock, _ int, ci ssa.Instruction) {
							cc, ok := ci.(*ssa.Call)
							if !ok {
								return
							}
							if f := staticCallee(cc); f == nil || unwrapSynthetic(f) != fn {
								return
							}
							if len(x.Results) == 1 {
								add(cc)
							} else if cc.Referrers() != nil {
								for _, r3 := range *cc.Referrers() {
									if ex, ok := r3.(*ssa.Extract); ok && ex.Index == ri {
										add(ex)
									}
								}
							}
						})
					}
				}
			case ssa.CallInstruction:
				callee := staticCallee(x)
				if callee == nil || !isSubject(callee) {
					// results of std arithmetic helpers on tainted operands (safemath lives in the module)
					continue
				}
				for k, a := range x.Common().Args {
					if a == v && k < len(callee.Params) {
						add(callee.Params[k])
					}
				}
			}
		}
	}
	return t
}

func runC17(c *Ctx) {
	p, r := c.P, c.R
	cg := c.CG()
	r.MinInst["C17.R1"] = 1
	r.MinInst["C17.R2"] = 2
	r.MinInst["C17.R3"] = 1
	r.MinInst["C17.R4"] = 3
	r.MinInst["C17.R5"] = 2
	checkRowGeometry(c)
	checkRowFilterDispatch(c)
	r.MinInst["C17.R6"] = 1
	r.MinInst["C17.R7"] = 2
	checkPaethCuts(c)
	checkPriorRowAdvances(c)
	r.MinInst["C17.R8"] = 1
	r.MinInst["C17.R9"] = 1
	checkC17Round4b(c)
	// ---- R1
	var seeds []ssa.Value
	for _, fn := range p.Funcs {
		if fn.Pkg == nil || fn.Pkg.Pkg.Path() != modPath+"/pkg/filter" {
			continue
		}
		eachInstr(fn, func(_ *ssa.BasicBlock, _ int, i ssa.Instruction) {
			if lk, ok := i.(*ssa.Lookup); ok && strings.HasSuffix(fieldPath(lk.X), "parms") {
				if k, ok := constString(lk.Index); ok && k == "BitsPerComponent" {
					seeds = append(seeds, lk)
				}
			}
		})
	}
	pr := p.Func("pkg/filter.processRow")
	if len(seeds) == 0 || pr == nil {
		r.Bad("C17.R1", "pkg/filter.processRow", "anchor", "", "UNRESOLVED-ANCHOR: no read of the BitsPerComponent parameter, or processRow not found")
	} else {
		t := taintFrom(c, seeds)
		// the call on the PredictorTIFF branch: dominated by the true edge of a comparison with the constant 2
		var tiffCalls []*ssa.Call
		eachInstr(pr, func(b *ssa.BasicBlock, _ int, i ssa.Instruction) {
			call, ok := i.(*ssa.Call)
			if !ok || staticCallee(call) == nil || !isSubject(staticCallee(call)) {
				return
			}
			dom := false
			eachInstr(pr, func(_ *ssa.BasicBlock, _ int, j ssa.Instruction) {
				bo, ok := j.(*ssa.BinOp)
				if !ok {
					return
				}
				k, isC := constInt(bo.Y)
				if !isC {
					k, isC = constInt(bo.X)
				}
				if !isC || k != 2 {
					return
				}
				for _, e := range condEdges(bo, bo.Op.String() == "==") {
					if edgeDominates(e, b) {
						dom = true
					}
				}
			})
			if dom {
				tiffCalls = append(tiffCalls, call)
			}
		})
		if len(tiffCalls) == 0 {
			r.Bad("C17.R1", FuncID(pr), "TIFF branch", p.Pos(pr.Pos()), "UNRESOLVED-ANCHOR: no call on the PredictorTIFF (== 2) branch of processRow")
		}
		for k, call := range tiffCalls {
			sees := false
			for _, a := range call.Call.Args {
				if t[a] {
					sees = true
				}
			}
			construct := fmt.Sprintf("TIFF differencing call#%d (%s)", k+1, staticCallee(call).Name())
			if sees {
				r.OK("C17.R1", FuncID(pr), construct, p.Pos(call.Pos()), "an argument derives from the BitsPerComponent parameter", true)
			} else {
				r.Bad("C17.R1", FuncID(pr), construct, p.Pos(call.Pos()), "no argument of the TIFF differencing routine derives from BitsPerComponent: it adds bytes, which is horizontal differencing only for 8-bit components; for 1, 2, 4 and 16 bits per component (accepted by f.parameters and allowed by the standard) the decoded bytes are wrong and no error is reported")
			}
		}
	}
	// ---- R2
	dec := map[string]*ssa.Function{}
	for _, fn := range p.Funcs {
		if fn.Pkg == nil || fn.Pkg.Pkg.Path() != modPath+"/pkg/filter" || fn.Signature.Recv() == nil || fn.Name() != "DecodeLength" {
			continue
		}
		dec[typeNameOf(fn.Signature.Recv().Type())] = fn
	}
	var ts []string
	for t := range dec {
		ts = append(ts, t)
	}
	sort.Strings(ts)
	n := 0
	for _, t := range ts {
		keys := parmKeysReachable(cg, dec[t])
		if keys["Predictor"] == "" {
			continue
		}
		n++
		reaches := false
		seen := map[*ssa.Function]bool{}
		stack := []*ssa.Function{dec[t]}
		for len(stack) > 0 {
			f := stack[len(stack)-1]
			stack = stack[:len(stack)-1]
			if seen[f] {
				continue
			}
			seen[f] = true
			if f == pr {
				reaches = true
				break
			}
			for _, o := range cg.Out[f] {
				if o.Pkg != nil && o.Pkg.Pkg.Path() == modPath+"/pkg/filter" {
					stack = append(stack, o)
				}
			}
		}
		construct := "filter " + t
		if reaches {
			r.OK("C17.R2", FuncID(dec[t]), construct, p.Pos(dec[t].Pos()), "reads Predictor and reaches the row post-processing", true)
		} else {
			r.Bad("C17.R2", FuncID(dec[t]), construct, p.Pos(dec[t].Pos()), "this decoder reads the Predictor parameter (in "+keys["Predictor"]+") but never reaches the row post-processing: a predictor stream of this filter — allowed by the standard — is rejected (or returned un-predicted) instead of decoded")
		}
	}
	if n == 0 {
		r.Bad("C17.R2", "pkg/filter", "anchor", "", "UNRESOLVED-ANCHOR: no decoder reads the Predictor parameter")
	}
	// ---- R3
	if pr != nil {
		cases := map[int64]bool{}
		eachInstr(pr, func(_ *ssa.BasicBlock, _ int, i ssa.Instruction) {
			bo, ok := i.(*ssa.BinOp)
			if !ok || bo.Op.String() != "==" {
				return
			}
			k, isC := constInt(bo.Y)
			if !isC {
				return
			}
			// comparisons of the filter-type byte (an int converted from a byte load)
			if cv, ok := bo.X.(*ssa.Convert); ok {
				if _, isLoad := cv.X.(*ssa.UnOp); isLoad {
					cases[k] = true
				}
			}
		})
		var got []string
		ok5 := true
		for k := int64(0); k <= 4; k++ {
			if !cases[k] {
				ok5 = false
			}
		}
		for k := range cases {
			got = append(got, fmt.Sprint(k))
			if k < 0 || k > 4 {
				ok5 = false
			}
		}
		sort.Strings(got)
		if ok5 {
			r.OK("C17.R3", FuncID(pr), "PNG filter types", p.Pos(pr.Pos()), "cases 0 (None), 1 (Sub), 2 (Up), 3 (Average), 4 (Paeth)", true)
		} else {
			r.Bad("C17.R3", FuncID(pr), "PNG filter types", p.Pos(pr.Pos()), "the switch over the row's filter-type byte has the cases {"+strings.Join(got, ", ")+"}, RFC 2083 defines exactly 0..4")
		}
	}
}

// ---------------- C17.R4 / R5 (round 4 seeds C17-A, C17-B) ----------------

// R4: the row geometry. RFC 2083 §6: bpp = ⌈Colors·BitsPerComponent / 8⌉ bytes (at least 1 whenever the product
// is positive) and a row has ⌈Colors·BitsPerComponent·Columns / 8⌉ bytes, plus one filter byte for PNG. The
// three results of predictorRowParams on its successful return are normalised to polynomials over the
// parameters with floor divisions as atoms (poly.go) and compared with those formulas' normal forms; a respelling
// (operand order, temporaries, >>3, safemath or plain operators) has the same normal form, colors·⌈bpc/8⌉ has not.
func checkRowGeometry(c *Ctx) {
	p, r := c.P, c.R
	const fid = "pkg/filter.predictorRowParams"
	fn := p.Func(fid)
	if fn == nil || len(fn.Params) != 4 {
		r.Bad("C17.R4", fid, "anchor", "", "UNRESOLVED-ANCHOR: predictorRowParams(predictor, colors, bpc, columns) not found")
		return
	}
	colors, bpc, columns := fn.Params[1].Name(), fn.Params[2].Name(), fn.Params[3].Name()
	bits := polyAtom(colors).mul(polyAtom(bpc))
	wantBpp := polyAtom(fmt.Sprintf("floor((%s)/8)", bits.add(polyConst(7), 1)))
	wantRow := polyAtom(fmt.Sprintf("floor((%s)/8)", bits.mul(polyAtom(columns)).add(polyConst(7), 1)))
	n := 0
	for _, ret := range returnsOf(fn) {
		if k, ok := returnErrKind(ret); !ok || k == errNonNil || len(ret.Results) != 4 {
			continue
		}
		n++
		pos := posOrFn(p, ret, fn)
		check := func(name string, v ssa.Value, want ...poly) {
			var alts []ssa.Value
			if ph, ok := v.(*ssa.Phi); ok && len(want) > 1 {
				alts = ph.Edges
			} else {
				alts = []ssa.Value{v}
			}
			var got []string
			okAll := true
			seen := map[string]bool{}
			for _, a := range alts {
				pa, ok := polyOf(a, 0)
				if !ok {
					r.Bad("C17.R4", fid, name, pos, "UNDECIDED: "+name+" is not a polynomial / floor-division expression of the parameters ("+exprName(a)+")")
					return
				}
				got = append(got, pa.String())
				match := false
				for _, w := range want {
					if w.String() == pa.String() {
						match = true
						seen[w.String()] = true
					}
				}
				if !match {
					okAll = false
				}
			}
			if okAll && len(seen) == len(want) {
				r.OK("C17.R4", fid, name, pos, name+" = "+strings.Join(got, " | "), true)
			} else {
				var ws []string
				for _, w := range want {
					ws = append(ws, w.String())
				}
				r.Bad("C17.R4", fid, name, pos, name+" is computed as "+strings.Join(got, " | ")+", RFC 2083 / TIFF 6.0 give "+strings.Join(ws, " | ")+": for sample widths below 8 bits with several colours (or 16-bit samples) the Sub/Average/Paeth neighbour is taken from the wrong distance, or rows are cut at the wrong length")
			}
		}
		check("rowSize", ret.Results[0], wantRow)
		check("rowLen", ret.Results[1], wantRow, wantRow.add(polyConst(1), 1))
		check("bytesPerPixel", ret.Results[2], wantBpp)
	}
	if n == 0 {
		r.Bad("C17.R4", fid, "row geometry", p.Pos(fn.Pos()), "UNDECIDED: no successful return with four results")
	}
}

// R5: for the PNG predictors (10–15) the filter of a row is the row's first byte, whatever the /Predictor value
// says (ISO 32000 7.4.4.4: "the predictor value only indicates that PNG is in use; each row states its filter").
// In processRow every return that is not an error is therefore either behind the test p == PredictorTIFF or behind
// the dispatch on the row's first byte (dominated by a branch whose condition derives from cr[0]).
func checkRowFilterDispatch(c *Ctx) {
	p, r := c.P, c.R
	const fid = "pkg/filter.processRow"
	fn := p.Func(fid)
	if fn == nil || len(fn.Params) < 3 {
		r.Bad("C17.R5", fid, "anchor", "", "UNRESOLVED-ANCHOR")
		return
	}
	cr, pp := fn.Params[1], fn.Params[2]
	// values derived from cr[0]
	tag := map[ssa.Value]bool{}
	eachInstr(fn, func(_ *ssa.BasicBlock, _ int, i ssa.Instruction) {
		ia, ok := i.(*ssa.IndexAddr)
		if !ok || ia.X != ssa.Value(cr) {
			return
		}
		if k, ok := c31ConstInt(ia.Index); !ok || k != 0 {
			return
		}
		for _, rf := range *ia.Referrers() {
			if ld, ok := rf.(*ssa.UnOp); ok && ld.Op == token.MUL {
				for v := range taintFrom(c, []ssa.Value{ld}) {
					tag[v] = true
				}
			}
		}
	})
	if len(tag) == 0 {
		r.Bad("C17.R5", fid, "row filter byte", p.Pos(fn.Pos()), "UNDECIDED: processRow does not read the first byte of the current row")
		return
	}
	// blocks reachable from the entry without passing a branch on the filter byte and without taking the TIFF edge
	free := map[*ssa.BasicBlock]bool{fn.Blocks[0]: true}
	work := []*ssa.BasicBlock{fn.Blocks[0]}
	tiffEdges := 0
	for len(work) > 0 {
		x := work[len(work)-1]
		work = work[:len(work)-1]
		succs := x.Succs
		if len(x.Instrs) > 0 {
			if ifi, ok := x.Instrs[len(x.Instrs)-1].(*ssa.If); ok {
				if bo, ok := ifi.Cond.(*ssa.BinOp); ok {
					if tag[bo.X] || tag[bo.Y] {
						continue // the filter byte decides from here on
					}
					if bo.Op == token.EQL && ((bo.X == ssa.Value(pp) && isIntConst(bo.Y, 2)) || (bo.Y == ssa.Value(pp) && isIntConst(bo.X, 2))) {
						succs = x.Succs[1:] // the true edge is the TIFF branch
						tiffEdges++
					}
				}
			}
		}
		for _, sx := range succs {
			if !free[sx] {
				free[sx] = true
				work = append(work, sx)
			}
		}
	}
	n := 0
	for _, ret := range returnsOf(fn) {
		if k, ok := returnErrKind(ret); ok && k == errNonNil {
			continue
		}
		n++
		construct := fmt.Sprintf("return#%d", n)
		pos := posOrFn(p, ret, fn)
		if free[ret.Block()] {
			r.Bad("C17.R5", fid, construct, pos, "a row can be returned without the row's filter byte having been consulted and not on the TIFF branch: with PNG predictors every row names its own filter (a /Predictor 10 stream may contain Sub, Up, Average or Paeth rows, and an invalid filter byte is an error)")
		} else {
			r.OK("C17.R5", fid, construct, pos, "every path to this return takes the p == PredictorTIFF edge or passes a branch on the row's filter byte", true)
		}
	}
	if n == 0 {
		r.Bad("C17.R5", fid, "returns", p.Pos(fn.Pos()), "UNDECIDED: no successful return")
	}
}

func isIntConst(v ssa.Value, k int64) bool { n, ok := c31ConstInt(v); return ok && n == k }

// ---------------- C17.R6 / R7 (round 4 seeds C17-C, C17-D) ----------------

// R6 (TABLE): the Paeth predictor picks a (left), then b (above), then c (upper left), "in that order" on ties
// (RFC 2083 §6.6): the three comparisons between the distances are pa <= pb, pa <= pc, pb <= pc. Each comparison
// between two distance values (results of abs: pc = abs(x + y); pa = abs(above - c), above being read from the prior
// row or the second parameter; pb the other) is normalised to the pair it separates with ties on the left
// (x <= y ≡ !(x > y); x < y ≡ !(y <= x), which is the cut y <= x) and the set must be exactly those three.
func checkPaethCuts(c *Ctx) {
	p, r := c.P, c.R
	n := 0
	for _, fid := range []string{"pkg/filter.filterPaeth", "pkg/filter.paeth"} {
		fn := p.Func(fid)
		if fn == nil {
			if fid == "pkg/filter.filterPaeth" {
				r.Bad("C17.R6", fid, "anchor", "", "UNRESOLVED-ANCHOR")
			}
			continue
		}
		// "above": the prior row (filterPaeth: loads from the 2nd parameter) or paeth's parameter b
		isAbove := func(v ssa.Value) bool {
			for _, l := range valueLeaves(v) {
				for {
					if cv, ok := l.(*ssa.Convert); ok {
						l = cv.X
						continue
					}
					break
				}
				switch x := l.(type) {
				case *ssa.Parameter:
					if fn.Name() == "paeth" && len(fn.Params) == 3 && x == fn.Params[1] {
						return true
					}
				case *ssa.UnOp:
					if ia, ok := x.X.(*ssa.IndexAddr); ok && x.Op == token.MUL && len(fn.Params) >= 2 && ia.X == ssa.Value(fn.Params[1]) {
						return true
					}
				}
			}
			return false
		}
		name := map[ssa.Value]string{}
		eachInstr(fn, func(_ *ssa.BasicBlock, _ int, i ssa.Instruction) {
			call, ok := i.(*ssa.Call)
			if !ok {
				return
			}
			if f := staticCallee(call); f == nil || f.Name() != "abs" || len(call.Call.Args) != 1 {
				return
			}
			arg, ok := call.Call.Args[0].(*ssa.BinOp)
			if !ok {
				return
			}
			switch {
			case arg.Op == token.ADD:
				name[call] = "pc"
			case arg.Op == token.SUB && isAbove(arg.X):
				name[call] = "pa"
			case arg.Op == token.SUB:
				name[call] = "pb"
			}
		})
		if len(name) != 3 {
			r.Bad("C17.R6", fid, "distances", p.Pos(fn.Pos()), fmt.Sprintf("UNDECIDED: expected the three distances as results of abs (sum, above - upper left, left - upper left), found %d", len(name)))
			continue
		}
		cuts := map[string]token.Pos{}
		eachInstr(fn, func(_ *ssa.BasicBlock, _ int, i ssa.Instruction) {
			bo, ok := i.(*ssa.BinOp)
			if !ok || name[bo.X] == "" || name[bo.Y] == "" {
				return
			}
			x, y := name[bo.X], name[bo.Y]
			switch bo.Op {
			case token.LEQ, token.GTR: // x <= y | x > y
				cuts[x+"<="+y] = bo.Pos()
			case token.LSS, token.GEQ: // x < y | x >= y  = the cut y <= x
				cuts[y+"<="+x] = bo.Pos()
			}
		})
		want := []string{"pa<=pb", "pa<=pc", "pb<=pc"}
		var got []string
		for k := range cuts {
			got = append(got, k)
		}
		sort.Strings(got)
		n++
		if strings.Join(got, ",") == strings.Join(want, ",") {
			r.OK("C17.R6", fid, "tie order of the Paeth predictor", p.Pos(fn.Pos()), "comparisons cut at "+strings.Join(got, ", ")+": ties go to left, then above", true)
		} else {
			r.Bad("C17.R6", fid, "tie order of the Paeth predictor", p.Pos(fn.Pos()), "the distance comparisons cut at {"+strings.Join(got, ", ")+"}, RFC 2083 has {"+strings.Join(want, ", ")+"} (ties go to left, then above, then upper left): rows with the Paeth filter that contain a tie decode to other bytes, and the error spreads to the right and down")
		}
	}
	_ = n
}

// R7: Up, Average and Paeth need the previous row as decoded. In the row loop of flate.decodePostProcessRows the two
// row buffers are loop-carried values (φ at the loop head); on every back edge the "previous row" φ must receive a
// new value (the row just processed), never itself: an iteration that goes round without the exchange (a fast path
// with continue) leaves a stale previous row for the rows that follow.
func checkPriorRowAdvances(c *Ctx) {
	p, r := c.P, c.R
	const fid = "pkg/filter.(flate).decodePostProcessRows"
	fn := p.Func(fid)
	if fn == nil {
		r.Bad("C17.R7", fid, "anchor", "", "UNRESOLVED-ANCHOR")
		return
	}
	isBytes := func(t types.Type) bool {
		s, ok := t.Underlying().(*types.Slice)
		if !ok {
			return false
		}
		b, ok := s.Elem().Underlying().(*types.Basic)
		return ok && b.Kind() == types.Uint8
	}
	n := 0
	for _, l := range naturalLoops(fn) {
		// the row loop reads into a row buffer
		reads := false
		for b := range l.blocks {
			for _, in := range b.Instrs {
				if call, ok := in.(*ssa.Call); ok {
					if _, ref := callRef(call); ref == "io.ReadFull" || ref == "io.ReadAtLeast" {
						reads = true
					}
				}
			}
		}
		if !reads {
			continue
		}
		for _, in := range l.header.Instrs {
			ph, ok := in.(*ssa.Phi)
			if !ok {
				break
			}
			if !isBytes(ph.Type()) {
				continue
			}
			n++
			construct := "row buffer " + ph.Comment
			stale := false
			for ei, e := range ph.Edges {
				if l.blocks[l.header.Preds[ei]] && e == ssa.Value(ph) {
					stale = true
				}
			}
			if stale {
				r.Bad("C17.R7", fid, construct, p.Pos(ph.Pos()), "an iteration of the row loop can go round without exchanging the row buffers: the next row's Up/Average/Paeth filter is undone against a row that is not the previous one (a None row followed by an Up row decodes wrongly)")
			} else {
				r.OK("C17.R7", fid, construct, p.Pos(ph.Pos()), "on every back edge the buffer variable receives the other buffer", true)
			}
		}
	}
	if n == 0 {
		r.Bad("C17.R7", fid, "row buffers", p.Pos(fn.Pos()), "UNDECIDED: no loop-carried row buffers in a loop that reads rows")
	}
}

// ---------------- C17.R8 / R9 (round 4 seeds C17-F, C17-E) ----------------

func checkC17Round4b(c *Ctx) {
	p, r := c.P, c.R
	// R8 (TABLE): the predictor values ISO 32000 allows for Flate/LZW are 1, 2 and 10..15. validatePredictor accepts
	// exactly the constants of its membership list; together with the "no predictor" shortcut of its callers (1) the
	// list must contain 2, 10, 11, 12, 13, 14, 15.
	if fn := p.Func("pkg/filter.validatePredictor"); fn == nil {
		r.Bad("C17.R8", "pkg/filter.validatePredictor", "anchor", "", "UNRESOLVED-ANCHOR")
	} else {
		got := map[int64]bool{}
		eachInstr(fn, func(_ *ssa.BasicBlock, _ int, i ssa.Instruction) {
			switch x := i.(type) {
			case *ssa.Store:
				if k, ok := c31ConstInt(x.Val); ok {
					if _, isIA := x.Addr.(*ssa.IndexAddr); isIA {
						got[k] = true
					}
				}
			case *ssa.BinOp:
				if x.Op == token.EQL {
					if k, ok := c31ConstInt(x.Y); ok {
						got[k] = true
					}
				}
			}
		})
		var miss []string
		for _, k := range []int64{2, 10, 11, 12, 13, 14, 15} {
			if !got[k] {
				miss = append(miss, fmt.Sprint(k))
			}
		}
		var extra []string
		for k := range got {
			if k != 1 && k != 2 && (k < 10 || k > 15) {
				extra = append(extra, fmt.Sprint(k))
			}
		}
		sort.Strings(extra)
		if len(miss) == 0 && len(extra) == 0 {
			r.OK("C17.R8", FuncID(fn), "accepted predictor values", p.Pos(fn.Pos()), "2 and 10..15 are accepted, nothing else", true)
		} else {
			r.Bad("C17.R8", FuncID(fn), "accepted predictor values", p.Pos(fn.Pos()), fmt.Sprintf("missing %v, extra %v: a /Predictor value the specification allows is reported as undefined (an error for an allowed parameter combination), or an undefined one is accepted", miss, extra))
		}
	}
	// R9: RFC 2083 6.5: "the sum Raw(x-bpp)+Prior(x) shall be formed without overflow". In processRow every halving
	// (division by 2 or shift by 1) of a SUM has an operand wider than a byte.
	if fn := p.Func("pkg/filter.processRow"); fn == nil {
		r.Bad("C17.R9", "pkg/filter.processRow", "anchor", "", "UNRESOLVED-ANCHOR")
	} else {
		n := 0
		eachInstr(fn, func(_ *ssa.BasicBlock, _ int, i ssa.Instruction) {
			bo, ok := i.(*ssa.BinOp)
			if !ok {
				return
			}
			halve := false
			if k, ok := c31ConstInt(bo.Y); ok && ((bo.Op == token.QUO && k == 2) || (bo.Op == token.SHR && k == 1)) {
				halve = true
			}
			if !halve {
				return
			}
			sum, ok := bo.X.(*ssa.BinOp)
			if !ok || sum.Op != token.ADD {
				return
			}
			n++
			bt, _ := sum.Type().Underlying().(*types.Basic)
			if bt != nil && (bt.Kind() == types.Uint8 || bt.Kind() == types.Int8) {
				r.Bad("C17.R9", FuncID(fn), fmt.Sprintf("average of two samples#%d", n), p.Pos(bo.Pos()), "the sum of the left and the upper sample is formed in byte arithmetic before it is halved: for left + above >= 256 it wraps, and the Average filter is undone to other bytes than RFC 2083 prescribes (no error)")
			} else {
				r.OK("C17.R9", FuncID(fn), fmt.Sprintf("average of two samples#%d", n), p.Pos(bo.Pos()), "the sum is formed in a type wider than a byte", true)
			}
		})
		if n == 0 {
			r.Bad("C17.R9", FuncID(fn), "average of two samples", p.Pos(fn.Pos()), "UNDECIDED: no halved sum found in processRow (Average filter)")
		}
	}
}
