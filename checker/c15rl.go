package main

import (
	"fmt"
	"go/token"
	"go/types"
	"sort"
	"strings"

	"golang.org/x/tools/go/ssa"
)

// ---------------- C15.R4 (round 3 seed C15-C): run-length runs are cut at 128 bytes ----------------
//
// The run-length format has one length byte per run: 0..127 = 1..128 literal bytes, 129..255 = 2..128 copies and
// 128 = end of data. The encoder computes it as byte(c-1) / byte(257-c) from c = i-start, so every loop that
// advances the scan position i over the source has to stop once i-start reaches 128: one more and a run of 129
// is written as 257-129 = 128, which the decoder reads as end of data (everything after it is lost), or as
// byte(128) = a repeat of 129.
//
// Rule: a scanning loop is a natural loop in the encoder (runLengthDecode.encode and the functions it calls in
// pkg/filter) with a +1 counter that is compared with len(<slice>) in the loop. Among the conditions under which
// the loop goes on there must be one that, written as a linear inequality, says counter - S <= k for a single other
// quantity S with k+1 <= 128 (k+1 because the counter is incremented after the test). Parameters are replaced by
// the constant they receive when all call sites pass the same constant. Any other form is UNDECIDED and fails.

type linForm struct {
	coef map[ssa.Value]int64
	k    int64
}

func (l linForm) add(o linForm, sign int64) linForm {
	out := linForm{coef: map[ssa.Value]int64{}, k: l.k + sign*o.k}
	for v, c := range l.coef {
		out.coef[v] += c
	}
	for v, c := range o.coef {
		out.coef[v] += sign * c
	}
	for v, c := range out.coef {
		if c == 0 {
			delete(out.coef, v)
		}
	}
	return out
}

// constAtAllCallSites: the parameter receives one and the same integer constant at every call site.
func constAtAllCallSites(c *Ctx, par *ssa.Parameter) (int64, bool) {
	fn := par.Parent()
	idx := -1
	for i, q := range fn.Params {
		if q == par {
			idx = i
		}
	}
	if idx < 0 {
		return 0, false
	}
	var val int64
	n := 0
	same := true
	for _, caller := range c.CG().In[fn] {
		eachInstr(caller, func(_ *ssa.BasicBlock, _ int, i ssa.Instruction) {
			cc, ok := i.(ssa.CallInstruction)
			if !ok {
				return
			}
			if f := staticCallee(cc); f == nil || unwrapSynthetic(f) != fn {
				return
			}
			args := cc.Common().Args
			if idx >= len(args) {
				same = false
				return
			}
			k, ok := c31ConstInt(args[idx])
			if !ok {
				same = false
				return
			}
			if n > 0 && k != val {
				same = false
			}
			val = k
			n++
		})
	}
	return val, same && n > 0
}

// linOf returns the alternatives of v as linear forms (one per φ edge, bounded).
func linOf(c *Ctx, v ssa.Value, d int) []linForm {
	if d > 6 {
		return []linForm{{coef: map[ssa.Value]int64{v: 1}}}
	}
	switch x := v.(type) {
	case *ssa.Const:
		if k, ok := c31ConstInt(x); ok {
			return []linForm{{coef: map[ssa.Value]int64{}, k: k}}
		}
	case *ssa.Convert:
		return linOf(c, x.X, d+1)
	case *ssa.Parameter:
		if k, ok := constAtAllCallSites(c, x); ok {
			return []linForm{{coef: map[ssa.Value]int64{}, k: k}}
		}
	case *ssa.BinOp:
		if x.Op == token.ADD || x.Op == token.SUB {
			sign := int64(1)
			if x.Op == token.SUB {
				sign = -1
			}
			var out []linForm
			for _, a := range linOf(c, x.X, d+1) {
				for _, b := range linOf(c, x.Y, d+1) {
					out = append(out, a.add(b, sign))
				}
			}
			if len(out) <= 8 {
				return out
			}
		}
	}
	return []linForm{{coef: map[ssa.Value]int64{v: 1}}}
}

// linOfBound is linOf for the bound side of a comparison: a φ that is not the counter is split into its edges
// (a bound computed as min(a, b) through an if).
func linOfBound(c *Ctx, v ssa.Value, counter *ssa.Phi, d int) []linForm {
	if ph, ok := v.(*ssa.Phi); ok && ph != counter && d < 3 {
		var out []linForm
		for _, e := range ph.Edges {
			if e == v {
				continue // the bound is loop invariant: its own back edge
			}
			out = append(out, linOfBound(c, e, counter, d+1)...)
		}
		return out
	}
	if bo, ok := v.(*ssa.BinOp); ok && (bo.Op == token.ADD || bo.Op == token.SUB) && d < 3 {
		sign := int64(1)
		if bo.Op == token.SUB {
			sign = -1
		}
		var out []linForm
		for _, a := range linOfBound(c, bo.X, counter, d+1) {
			for _, b := range linOfBound(c, bo.Y, counter, d+1) {
				out = append(out, a.add(b, sign))
			}
		}
		return out
	}
	return linOf(c, v, 0)
}

func isLenCall(v ssa.Value) bool {
	for {
		switch x := v.(type) {
		case *ssa.Convert:
			v = x.X
			continue
		case *ssa.Call:
			b, ok := x.Call.Value.(*ssa.Builtin)
			return ok && b.Name() == "len"
		}
		return false
	}
}

const runLengthMaxRun = 128

func checkRunLengthRunBound(c *Ctx) {
	p, r := c.P, c.R
	cg := c.CG()
	root := p.Func("pkg/filter.(runLengthDecode).encode")
	if root == nil {
		r.Bad("C15.R4", "pkg/filter.(runLengthDecode).encode", "anchor", "", "UNRESOLVED-ANCHOR: the run-length encoder was not found")
		return
	}
	var fns []*ssa.Function
	seen := map[*ssa.Function]bool{}
	var visit func(fn *ssa.Function)
	visit = func(fn *ssa.Function) {
		if seen[fn] || fn.Pkg == nil || fn.Pkg.Pkg.Path() != modPath+"/pkg/filter" {
			return
		}
		seen[fn] = true
		fns = append(fns, fn)
		for _, o := range cg.Out[fn] {
			visit(o)
		}
	}
	visit(root)
	sort.Slice(fns, func(i, j int) bool { return FuncID(fns[i]) < FuncID(fns[j]) })
	total := 0
	for _, fn := range fns {
		k := 0
		for _, l := range naturalLoops(fn) {
			// +1 counters of this loop
			for _, in := range l.header.Instrs {
				ph, ok := in.(*ssa.Phi)
				if !ok {
					break
				}
				stride := false
				for ei, e := range ph.Edges {
					if !l.blocks[l.header.Preds[ei]] {
						continue
					}
					if bo, ok := e.(*ssa.BinOp); ok && bo.Op == token.ADD && bo.X == ssa.Value(ph) {
						if n, ok := c31ConstInt(bo.Y); ok && n == 1 {
							stride = true
						}
					}
				}
				if !stride {
					continue
				}
				// the loop's go-on conditions: an If in the loop with exactly one successor outside
				type stay struct {
					cond  ssa.Value
					truth bool
				}
				var stays []stay
				scans := false
				for b := range l.blocks {
					if len(b.Instrs) == 0 {
						continue
					}
					ifi, ok := b.Instrs[len(b.Instrs)-1].(*ssa.If)
					if !ok {
						continue
					}
					in0, in1 := l.blocks[b.Succs[0]], l.blocks[b.Succs[1]]
					if in0 == in1 {
						continue
					}
					stays = append(stays, stay{ifi.Cond, in0})
					if bo, ok := ifi.Cond.(*ssa.BinOp); ok {
						if (bo.X == ssa.Value(ph) && isLenCall(bo.Y)) || (bo.Y == ssa.Value(ph) && isLenCall(bo.X)) {
							scans = true
						}
					}
				}
				for b := range l.blocks {
					for _, in := range b.Instrs {
						if ia, ok := in.(*ssa.IndexAddr); ok && ia.Index == ssa.Value(ph) {
							scans = true
						}
					}
				}
				if !scans {
					continue
				}
				k++
				total++
				construct := fmt.Sprintf("scanning loop#%d over counter %s", k, ph.Comment)
				pos := p.Pos(ph.Pos())
				best := int64(1 << 40)
				bestFull := int64(1 << 40)
				full, anyPartial := false, false
				_ = anyPartial
				var why []string
				for _, s := range stays {
					bo, ok := s.cond.(*ssa.BinOp)
					if !ok {
						continue
					}
					op := bo.Op
					if !s.truth {
						op = negateOp(op)
					}
					L, R := bo.X, bo.Y
					switch op {
					case token.GTR, token.GEQ:
						L, R = R, L
						op = mirrorOp(op)
					}
					if op != token.LSS && op != token.LEQ {
						continue
					}
					// L op R  ->  L - R <= (op==LSS ? -1 : 0)
					worst := int64(-(1 << 40))
					partial := false
					for _, a := range linOf(c, L, 0) {
						for _, b := range linOfBound(c, R, ph, 0) {
							d := a.add(b, -1)
							if d.coef[ph] != 1 || len(d.coef) != 2 {
								partial = true
								continue
							}
							okShape := false
							for v, cf := range d.coef {
								if v != ssa.Value(ph) && cf == -1 && !isLenCall(v) {
									okShape = true
								}
							}
							if !okShape {
								partial = true // a bound against the source length is not a bound of the run
								continue
							}
							// counter - S + d.k <= slack  ->  counter - S <= slack - d.k
							slack := int64(0)
							if op == token.LSS {
								slack = -1
							}
							bound := slack - d.k
							if bound > worst {
								worst = bound
							}
						}
					}
					if worst > -(1<<40) {
						note := ""
						if partial {
							note = " on some of its alternatives (the others are not bounds of the run)"
							anyPartial = true
						} else {
							full = true
						}
						why = append(why, fmt.Sprintf("%s bounds the run before the increment by %d%s", exprName(s.cond), worst, note))
						if worst < best {
							best = worst
						}
						if !partial && worst < bestFull {
							bestFull = worst
						}
					}
				}
				switch {
				case best == 1<<40:
					r.Bad("C15.R4", FuncID(fn), construct, pos, "UNDECIDED: none of the loop's conditions is a linear bound of the scan position against the start of the run: a run longer than 128 bytes cannot be ruled out (its length byte would be 128 = end of data, or wrap)")
				case full && bestFull+1 <= runLengthMaxRun:
					r.OK("C15.R4", FuncID(fn), construct, pos, fmt.Sprintf("the run is at most %d bytes when the loop is left (%s)", bestFull+1, strings.Join(why, "; ")), true)
				case best+1 > runLengthMaxRun:
					r.Bad("C15.R4", FuncID(fn), construct, pos, fmt.Sprintf("the loop goes on while the run has up to %d bytes and then takes one more: a run of %d bytes gets the length byte 257-%d = %d, which the decoder reads as end of data or as a different count (%s)", best, best+1, best+1, 257-(best+1), strings.Join(why, "; ")))
				default:
					r.Bad("C15.R4", FuncID(fn), construct, pos, "UNDECIDED: the only bounds of the run hold on some alternatives of a merged bound ("+strings.Join(why, "; ")+")")
				}
			}
		}
	}
	if total == 0 {
		r.Bad("C15.R4", FuncID(root), "anchor", p.Pos(root.Pos()), "UNRESOLVED-ANCHOR: no scanning loop (a +1 counter compared with len of a slice) in the run-length encoder")
	}
}

// ---------------- C15.R5 (round 4 seed C15-E): the LZW decoder's buffer holds pending output plus one phrase ----------------

// checkLZWBufferRelation: the decoder expands a code right-to-left at the END of decoder.output and then copies the
// phrase behind the d.o bytes that are pending at the start of the same array. A phrase is at most as long as the
// code table (len(decoder.suffix)); output is flushed once d.o reaches a constant K. Nothing pending is overwritten
// iff (largest pending count that is not flushed) + len(suffix) <= len(output). The three numbers are read from the
// struct type and from the comparison of the field o with a constant; no code is evaluated.
func checkLZWBufferRelation(c *Ctx) {
	p, r := c.P, c.R
	const pkgShort = "internal/filter/lzw"
	sp := p.SSAPkg(pkgShort)
	if sp == nil {
		r.Bad("C15.R5", pkgShort, "anchor", "", "UNRESOLVED-ANCHOR: package not loaded")
		return
	}
	tn, _ := sp.Pkg.Scope().Lookup("decoder").(*types.TypeName)
	if tn == nil {
		r.Bad("C15.R5", pkgShort+".decoder", "anchor", "", "UNRESOLVED-ANCHOR: type decoder not found")
		return
	}
	st, _ := tn.Type().Underlying().(*types.Struct)
	arrLen := func(name string) int64 {
		if st == nil {
			return -1
		}
		for i := 0; i < st.NumFields(); i++ {
			if st.Field(i).Name() == name {
				if a, ok := st.Field(i).Type().Underlying().(*types.Array); ok {
					return a.Len()
				}
			}
		}
		return -1
	}
	N, S := arrLen("output"), arrLen("suffix")
	if N <= 0 || S <= 0 {
		r.Bad("C15.R5", pkgShort+".decoder", "anchor", "", "UNRESOLVED-ANCHOR: array fields output / suffix not found")
		return
	}
	n := 0
	for _, fn := range p.Funcs {
		if fn.Pkg != sp {
			continue
		}
		eachInstr(fn, func(_ *ssa.BasicBlock, _ int, i ssa.Instruction) {
			bo, ok := i.(*ssa.BinOp)
			if !ok {
				return
			}
			isO := func(v ssa.Value) bool {
				ld, ok := v.(*ssa.UnOp)
				if !ok || ld.Op != token.MUL {
					return false
				}
				fa, ok := ld.X.(*ssa.FieldAddr)
				if !ok {
					return false
				}
				f := structField(fa.X.Type(), fa.Field)
				return f != nil && f.Name() == "o"
			}
			op := bo.Op
			var k int64
			switch {
			case isO(bo.X):
				kk, ok := c31ConstInt(bo.Y)
				if !ok {
					return
				}
				k = kk
			case isO(bo.Y):
				kk, ok := c31ConstInt(bo.X)
				if !ok {
					return
				}
				k = kk
				op = mirrorOp(op)
			default:
				return
			}
			var pending int64 // largest value of o on the edge that does not flush
			switch op {
			case token.GEQ, token.LSS:
				pending = k - 1
			case token.GTR, token.LEQ:
				pending = k
			default:
				return
			}
			n++
			construct := fmt.Sprintf("flush threshold#%d", n)
			if pending+S <= N {
				r.OK("C15.R5", FuncID(fn), construct, p.Pos(bo.Pos()), fmt.Sprintf("up to %d pending bytes + a phrase of up to %d bytes fit the %d-byte buffer", pending, S, N), true)
			} else {
				r.Bad("C15.R5", FuncID(fn), construct, p.Pos(bo.Pos()), fmt.Sprintf("up to %d bytes stay pending in decoder.output while a phrase of up to %d bytes is expanded at the end of the same %d-byte array: a long phrase overwrites pending output and is cut short — highly repetitive data (megabytes of one byte value) decodes to fewer bytes than were encoded, without an error", pending, S, N))
			}
		})
	}
	if n == 0 {
		r.Bad("C15.R5", pkgShort+".decoder", "flush threshold", "", "UNDECIDED: no comparison of decoder.o with a constant found")
	}
}

// ---------------- C15.R6 (round 4 seed C15-F): Encode skips only a stream that was never decoded ----------------

// checkEncodeSkipsOnlyUndecoded: StreamDict.Encode turns Content into Raw. The one case in which it may succeed
// without storing Raw is the stream that was never decoded — Content is nil; an empty, non-nil Content is an
// edited stream whose new encoding is the encoding of nothing. So every successful return is either after a store
// into the receiver's Raw field on every path, or behind the nil test of the Content field.
func checkEncodeSkipsOnlyUndecoded(c *Ctx) {
	p, r := c.P, c.R
	const fid = "pkg/pdfcpu/types.(*StreamDict).Encode"
	fn := p.Func(fid)
	if fn == nil {
		r.Bad("C15.R6", fid, "anchor", "", "UNRESOLVED-ANCHOR")
		return
	}
	isField := func(v ssa.Value, name string) bool {
		return strings.HasSuffix(fieldPath(v), name)
	}
	// edges on which Content == nil
	var nilEdges []Edge
	eachInstr(fn, func(_ *ssa.BasicBlock, _ int, i ssa.Instruction) {
		bo, ok := i.(*ssa.BinOp)
		if !ok || (bo.Op != token.EQL && bo.Op != token.NEQ) {
			return
		}
		var other ssa.Value
		switch {
		case isNilConst(bo.Y):
			other = bo.X
		case isNilConst(bo.X):
			other = bo.Y
		default:
			return
		}
		if isField(other, "Content") {
			nilEdges = append(nilEdges, condEdges(bo, bo.Op == token.EQL)...)
		}
	})
	// blocks reachable from the entry without a store into Raw
	storesRaw := func(b *ssa.BasicBlock) bool {
		for _, in := range b.Instrs {
			if st, ok := in.(*ssa.Store); ok {
				if fa, ok := st.Addr.(*ssa.FieldAddr); ok {
					if f := structField(fa.X.Type(), fa.Field); f != nil && f.Name() == "Raw" {
						return true
					}
				}
			}
		}
		return false
	}
	free := map[*ssa.BasicBlock]bool{}
	work := []*ssa.BasicBlock{fn.Blocks[0]}
	free[fn.Blocks[0]] = true
	for len(work) > 0 {
		b := work[len(work)-1]
		work = work[:len(work)-1]
		if storesRaw(b) {
			continue
		}
		for _, s := range b.Succs {
			if !free[s] {
				free[s] = true
				work = append(work, s)
			}
		}
	}
	n := 0
	for _, ret := range returnsOf(fn) {
		if k, ok := returnErrKind(ret); !ok || k == errNonNil {
			continue
		}
		n++
		construct := fmt.Sprintf("successful return#%d", n)
		pos := posOrFn(p, ret, fn)
		b := ret.Block()
		switch {
		case !free[b] || storesRaw(b):
			r.OK("C15.R6", fid, construct, pos, "Raw is stored on every path to this return", true)
		default:
			behind := false
			for _, e := range nilEdges {
				if edgeDominates(e, b) {
					behind = true
				}
			}
			if behind {
				r.OK("C15.R6", fid, construct, pos, "nothing is encoded only behind Content == nil (never decoded)", true)
			} else {
				r.Bad("C15.R6", fid, construct, pos, "Encode can succeed without storing Raw on a path that is not behind Content == nil: a stream that was decoded and then emptied (or otherwise changed) keeps the old Raw and /Length, so the written object decodes to the old bytes")
			}
		}
	}
	if n == 0 {
		r.Bad("C15.R6", fid, "successful returns", p.Pos(fn.Pos()), "UNDECIDED: no successful return")
	}
}
