package main

import (
	"fmt"
	"go/token"
	"strings"

	"golang.org/x/tools/go/ssa"
)

// C02 — replacing an existing file is atomic at every crash point.
// Structural shape: bytes reach a pre-existing path only by rename of a fully written, flushed, closed sibling file.

func init() {
	register(&Check{
		ID:          "C02",
		Run:         runC02,
		Explanation: "Decides the code-shape clauses that make replacement atomic under POSIX rename: (R1 WMC) no function outside the staging-layer table opens an existing path for writing, truncates it or writes at an offset (os.Create, os.WriteFile, os.Truncate, OpenFile with O_TRUNC or with a write flag and without O_EXCL, WriteAt); (R2 MPT) in each publisher (stagedOutput.commit, pdfcpu.finishStagedFile, cli streamInOutFinalizer.finalize, api.writeCutOutputWith, font.writeGobWithOperations) every rename is preceded on every path by the close of the staged output and is only reached on the nil edge of an error value that depends on that close result (so a failed close never publishes), and every function that installs a bufio.Writer on the write context flushes it with the flush error flowing into its result before returning (api.WriteContext, api.WriteIncrement wrapper, writeAndFlushCutContext) or, for pdfcpu.WriteContext's own staged file, passes setFileSizeOfWrittenFile (which flushes) on every success path; (R3) every temp file that is later renamed over a destination is created in filepath.Dir(destination) with a name built as \".\"+filepath.Base(destination)+suffix — same directory (rename stays inside one filesystem) and hidden. Together: at every prefix of the filesystem-call sequence the destination holds either the complete old or the complete new content and any leftover is a hidden sibling. (R5 flag) a deferred publish (commit / finishWriteFile / finalize) is keyed on a completion flag set after the last call that can fail or panic, never on the error variable: after a panic the error is still nil and a half-written staging file would be renamed over the destination (same analysis as C01.R2, run here because the result is a destination that is neither the old nor the new content). NOT decided: kernel rename atomicity (assumed), power loss ordering (C07), Windows rename semantics, the documented in-place incremental writers (incr=true) and PatchFile, which do not replace a file.",
		Rules: []string{
			"C02.R1 WMC: in-place write primitives only in the staging layer table",
			"C02.R2 MPT: write -> flush -> close -> rename order in every publisher; failed close never publishes",
			"C02.R3 staging name shape: Dir(destination) + \".\"+Base(destination)+suffix",
			"C02.R5 FLAG: deferred publish keyed on a completion flag (a panic must not publish a partial staging file)",
			"C02.R4 the destination of a rename is never removed beforehand (replacement is a single rename)",
		},
		Assumptions: []string{"rename(2) atomically replaces the destination within one filesystem", "the incremental (append) writers and PatchFile are in-place by API contract and not subject of 'replacing'"},
		Technique:   "who-may-call table over resolved callees with OpenFile flag classification; must-pass-through dataflow with success-edge facts; error-value dependency slicing (errors.Join / %w wrapping / phi) to tie the rename's guard to the close result; SSA pattern match of temp-name construction",
		Note:        "Shares the staging-layer table with C01 (c01.go). Decides ordering and naming shape, not kernel behaviour.",
	})
}

var inPlaceCats = map[string]bool{"truncate": true, "create-or-write": true, "write-existing": true, "writeat": true, "open-dynamic-flag": true}

// errDependsOn: error value v is computed from target (through phi, errors.Join, fmt.Errorf/%w and any call that receives an
// error-typed argument, local cells).
func errDependsOn(v, target ssa.Value, depth int, seen map[ssa.Value]bool) bool {
	if v == nil || depth > 14 || seen[v] {
		return false
	}
	seen[v] = true
	if v == target {
		return true
	}
	switch x := v.(type) {
	case *ssa.Extract:
		if x.Tuple == target {
			return true
		}
		return errDependsOn(x.Tuple, target, depth+1, seen)
	case *ssa.Phi:
		for _, e := range x.Edges {
			if errDependsOn(e, target, depth+1, seen) {
				return true
			}
		}
	case *ssa.ChangeInterface:
		return errDependsOn(x.X, target, depth+1, seen)
	case *ssa.MakeInterface:
		return errDependsOn(x.X, target, depth+1, seen)
	case *ssa.UnOp:
		if x.Op == token.MUL {
			// load of a cell: any store into the cell
			cell := cellRoot(x.X)
			found := false
			var visit func(fn *ssa.Function, c ssa.Value)
			visit = func(fn *ssa.Function, c ssa.Value) {
				eachInstr(fn, func(_ *ssa.BasicBlock, _ int, i ssa.Instruction) {
					switch y := i.(type) {
					case *ssa.Store:
						if y.Addr == c && errDependsOn(y.Val, target, depth+1, seen) {
							found = true
						}
					case *ssa.MakeClosure:
						for bi, b := range y.Bindings {
							if b == c {
								cf := y.Fn.(*ssa.Function)
								visit(cf, cf.FreeVars[bi])
							}
						}
					}
				})
			}
			if al, ok := cell.(*ssa.Alloc); ok {
				visit(al.Parent(), al)
			}
			return found
		}
	case *ssa.Call:
		for _, a := range x.Call.Args {
			if isErrorType(a.Type()) && errDependsOn(a, target, depth+1, seen) {
				return true
			}
		}
		for _, a := range variadicElems(x) {
			if errDependsOn(a, target, depth+1, seen) {
				return true
			}
		}
	}
	return false
}

type publisherSpec struct {
	fn       string
	isRename func(c ssa.CallInstruction, ref string) bool
	isClose  func(c ssa.CallInstruction, ref string) bool
	what     string
}

func argFromField(c ssa.CallInstruction, argIdx int, field string) bool {
	args := c.Common().Args
	if argIdx >= len(args) {
		return false
	}
	return strings.Contains(fieldPath(args[argIdx]), field)
}

// fieldPath renders the chain of field selections a value is loaded through, e.g. "output.file".
func fieldPath(v ssa.Value) string {
	switch x := v.(type) {
	case *ssa.UnOp:
		if x.Op == token.MUL {
			return fieldPath(x.X)
		}
	case *ssa.FieldAddr:
		f := structField(x.X.Type(), x.Field)
		if f == nil {
			return fieldPath(x.X)
		}
		return strings.TrimPrefix(fieldPath(x.X)+"."+f.Name(), ".")
	case *ssa.Field:
		f := structField(x.X.Type(), x.Field)
		if f == nil {
			return fieldPath(x.X)
		}
		return strings.TrimPrefix(fieldPath(x.X)+"."+f.Name(), ".")
	}
	return ""
}

func isParamCall(c ssa.CallInstruction, name string) bool {
	if p, ok := c.Common().Value.(*ssa.Parameter); ok {
		return p.Name() == name
	}
	return false
}

func isInvokeOn(c ssa.CallInstruction, method string) bool {
	cc := c.Common()
	return cc.IsInvoke() && cc.Method.Name() == method
}

var c02Publishers = []publisherSpec{
	{
		fn:       "pkg/api.(stagedOutput).commit",
		isRename: func(c ssa.CallInstruction, ref string) bool { return ref == "pkg/api.fileOperations.replaceFile" },
		isClose: func(c ssa.CallInstruction, ref string) bool {
			return ref == "pkg/api.fileOperations.closeFile" && argFromField(c, 1, "output")
		},
		what: "stagedOutput.commit: close(output) -> replaceFile(temp, destination)",
	},
	{
		fn:       "pkg/pdfcpu.finishStagedFile",
		isRename: func(c ssa.CallInstruction, ref string) bool { return isParamCall(c, "replace") },
		isClose:  func(c ssa.CallInstruction, ref string) bool { return isInvokeOn(c, "Close") },
		what:     "finishStagedFile: w.Close() -> replace(tmp, path)",
	},
	{
		fn:       "pkg/cli.(*streamInOutFinalizer).finalize",
		isRename: func(c ssa.CallInstruction, ref string) bool { return ref == "internal/fileutil.ReplaceFile" },
		isClose: func(c ssa.CallInstruction, ref string) bool {
			return ref == "pkg/cli.closeStreamFile" && argFromField(c, 0, "output")
		},
		what: "cli finalize: closeStreamFile(output) -> ReplaceFile(temp, destination)",
	},
	{
		fn:       "pkg/api.writeCutOutputWith",
		isRename: func(c ssa.CallInstruction, ref string) bool { return ref == "pkg/api.cutOutputOperations.rename" },
		isClose:  func(c ssa.CallInstruction, ref string) bool { return isInvokeOn(c, "Close") },
		what:     "cut writer: f.Close() -> ops.rename(temp, outFile)",
	},
	{
		fn:       "pkg/font.writeGobWithOperations",
		isRename: func(c ssa.CallInstruction, ref string) bool { return ref == "pkg/font.gobPersistenceOperations.rename" },
		isClose:  func(c ssa.CallInstruction, ref string) bool { return ref == "pkg/font.gobPersistenceOperations.close" },
		what:     "gob writer: ops.close(f) -> ops.rename(temp, fileName)",
	},
}

func runC02(c *Ctx) {
	r := c.R
	r.MinInst["C02.R1"] = 5
	r.MinInst["C02.R2"] = 8
	r.MinInst["C02.R3"] = 5
	r.MinInst["C02.R4"] = 8
	runFSWMC(c, "C02.R1", inPlaceCats)
	for _, ps := range c02Publishers {
		checkCloseBeforeRename(c, "C02.R2", ps)
	}
	checkFlushBeforeReturn(c, "C02.R2")
	checkStagingNames(c, "C02.R3")
	checkNoUnlinkBeforeRename(c, "C02.R4")
	// R5: a deferred publish (rename over the destination) is keyed on a completion flag, not on the error variable: after a
	// panic the error is still nil and a half-written staging file would replace the destination (same rule as C01.R2).
	r.MinInst["C02.R5"] = 40
	pc := &pairCtx{c: c, triv: &triviality{cg: c.CG(), memo: map[*ssa.Function]int{}}, rule: "C02", r2: "C02.R5", flagOnly: true}
	pc.runPair(c01Kinds)
}

// rename-type callees -> index of the destination argument (SSA argument list, receiver first for methods)
var renameDstArg = map[string]int{
	"os.Rename": 1, "internal/fileutil.ReplaceFile": 1, "pkg/api.fileOperations.replaceFn": 1, "pkg/api.fileOperations.replaceFile": 2,
	"pkg/api.cutOutputOperations.rename": 1, "pkg/font.gobPersistenceOperations.rename": 1, "pkg/api.transactionFileOperations.rename": 1,
	"pkg/font.collectionInstallFileOperations.rename": 1, "pkg/api.fontAPIOperations.rename": 1,
}

var removePathArg = map[string]int{
	"os.Remove": 0, "os.RemoveAll": 0, "internal/fileutil.RemoveFile": 0, "pkg/api.fileOperations.removeFn": 0, "pkg/api.fileOperations.removeFile": 1,
	"pkg/api.cutOutputOperations.remove": 0, "pkg/font.gobPersistenceOperations.remove": 0, "pkg/api.transactionFileOperations.remove": 0,
	"pkg/api.transactionFileOperations.removeAll": 0, "pkg/font.collectionInstallFileOperations.remove": 0, "pkg/font.collectionInstallFileOperations.removeAll": 0,
	"pkg/cli.removeStreamOutput": 0,
}

// rollback routines restore a backup over a target they first clear: that is C06's protocol, not a replacement of a document output.
var unlinkBeforeRenameExempt = map[string]string{
	"pkg/api.rollbackCommittedFonts":        "rollback: removes the newly installed file, then renames the backup back (C06)",
	"pkg/api.rollbackCheatSheets":           "rollback: same protocol for cheat sheets (C06)",
	"pkg/font.rollbackCollectionFonts":      "rollback: same protocol for collection fonts (C06)",
	"pkg/api.backupCertificateDestinations": "the removed path is the empty backup placeholder this function created itself a line earlier (createCertificateTransactionFile), not a pre-existing destination; the original is then moved onto that name",
}

// checkNoUnlinkBeforeRename: replacing must be a single rename over the destination; removing (or truncating) the destination first
// opens a window in which the path does not exist.
func checkNoUnlinkBeforeRename(c *Ctx, rule string) {
	p, r := c.P, c.R
	n := 0
	for _, fn := range p.Funcs {
		fid := FuncID(fn)
		type site struct {
			call *ssa.Call
			path ssa.Value
			ref  string
		}
		var renames, removes []site
		eachInstr(fn, func(_ *ssa.BasicBlock, _ int, i ssa.Instruction) {
			call, ok := i.(*ssa.Call)
			if !ok {
				return
			}
			_, ref := callRef(call)
			args := call.Call.Args
			if idx, ok := renameDstArg[ref]; ok && idx < len(args) {
				renames = append(renames, site{call, args[idx], ref})
			} else if isParamCall(call, "replace") && len(args) == 2 {
				renames = append(renames, site{call, args[1], "param:replace"})
			}
			if idx, ok := removePathArg[ref]; ok && idx < len(args) {
				removes = append(removes, site{call, args[idx], ref})
			}
		})
		for ri, rn := range renames {
			n++
			construct := fmt.Sprintf("%s#%d", rn.ref, ri+1)
			if why, ok := unlinkBeforeRenameExempt[FuncID(rootFunc(fn))]; ok {
				r.OK(rule, fid, construct, p.Pos(rn.call.Pos()), "exempt: "+why, false)
				continue
			}
			bad := false
			for _, rm := range removes {
				if !sameValue(rm.path, rn.path) && valueKey(rm.path) != valueKey(rn.path) {
					continue
				}
				// can the rename execute after the remove?
				for _, after := range instrsAfter(rm.call) {
					if after == ssa.Instruction(rn.call) {
						bad = true
					}
				}
			}
			if bad {
				r.Bad(rule, fid, construct, p.Pos(rn.call.Pos()), "the destination of this rename is removed earlier on the same path: between the unlink and the rename the destination does not exist, so a crash there loses the file (replacement must be one rename over the existing destination)")
				continue
			}
			r.OK(rule, fid, construct, p.Pos(rn.call.Pos()), "no remove of the rename's destination can precede it", len(removes) > 0)
		}
	}
	if n == 0 {
		r.Bad(rule, "-", "anchor", "", "UNRESOLVED-ANCHOR: no rename-type call found")
	}
}

func checkCloseBeforeRename(c *Ctx, rule string, ps publisherSpec) {
	p, r := c.P, c.R
	fn := p.Func(ps.fn)
	if fn == nil {
		r.Bad(rule, ps.fn, "anchor", "", "UNRESOLVED-ANCHOR: publisher "+ps.fn+" not found")
		return
	}
	var renames, closes []*ssa.Call
	eachInstr(fn, func(_ *ssa.BasicBlock, _ int, i ssa.Instruction) {
		call, ok := i.(*ssa.Call)
		if !ok {
			return
		}
		_, ref := callRef(call)
		if ps.isRename(call, ref) {
			renames = append(renames, call)
		}
		if ps.isClose(call, ref) {
			closes = append(closes, call)
		}
	})
	if len(renames) == 0 {
		r.Bad(rule, ps.fn, "anchor:rename", p.Pos(fn.Pos()), "UNRESOLVED-ANCHOR: no rename call found in publisher ("+ps.what+")")
		return
	}
	if len(closes) == 0 {
		r.Bad(rule, ps.fn, "close", p.Pos(fn.Pos()), "the publisher never closes the staged output before renaming it ("+ps.what+")")
		return
	}
	closeSet := map[ssa.Instruction]bool{}
	for _, cl := range closes {
		closeSet[cl] = true
	}
	ff := NewFactFlow(fn, func(i ssa.Instruction) []string {
		if closeSet[i] {
			return []string{"close-attempted"}
		}
		return nil
	}, nil, nil, nil)
	for ri, rn := range renames {
		construct := fmt.Sprintf("rename#%d", ri+1)
		if !ff.Holds(rn, "close-attempted") {
			r.Bad(rule, ps.fn, construct+" close-before", p.Pos(rn.Pos()), "a path reaches this rename without the staged output having been closed: buffered data may still be unwritten when the new name becomes visible ("+ps.what+")")
			continue
		}
		// guarded by nil edge of an error depending on a close result
		guarded := false
		for _, cl := range closes {
			if closeGuardsRename(fn, cl, rn) {
				guarded = true
			}
		}
		if !guarded {
			r.Bad(rule, ps.fn, construct+" close-checked", p.Pos(rn.Pos()), "this rename is not confined to the path on which the close of the staged output succeeded: a failed close (lost write) would still publish the file ("+ps.what+")")
			continue
		}
		r.OK(rule, ps.fn, construct, p.Pos(rn.Pos()), "every path to the rename closes the staged output first and passes the nil edge of an error value computed from that close result", true)
	}
}

// closeGuardsRename: some error value depending on close's result has a nil-check edge dominating the rename.
func closeGuardsRename(fn *ssa.Function, cl, rn *ssa.Call) bool {
	found := false
	check := func(v ssa.Value) {
		if found || v == nil || !isErrorType(v.Type()) {
			return
		}
		var dep bool
		for _, res := range errorResults(cl) {
			if errDependsOn(v, res, 0, map[ssa.Value]bool{}) {
				dep = true
			}
		}
		if !dep {
			return
		}
		for _, e := range nilCheckEdges(v, true) {
			if edgeDominates(e, rn.Block()) {
				found = true
			}
		}
	}
	eachInstr(fn, func(_ *ssa.BasicBlock, _ int, i ssa.Instruction) {
		if v, ok := i.(ssa.Value); ok {
			check(v)
		}
	})
	return found
}

// checkFlushBeforeReturn: functions that install a bufio.Writer on the write context.
func checkFlushBeforeReturn(c *Ctx, rule string) {
	p, r := c.P, c.R
	n := 0
	for _, fn := range p.Funcs {
		var nw *ssa.Call
		eachInstr(fn, func(_ *ssa.BasicBlock, _ int, i ssa.Instruction) {
			if call, ok := i.(*ssa.Call); ok {
				if _, ref := callRef(call); ref == "bufio.NewWriter" {
					// stored into WriteContext.Writer ?
					for _, rf := range *call.Referrers() {
						if st, ok := rf.(*ssa.Store); ok && strings.HasSuffix(fieldPath(st.Addr), "Writer") {
							nw = call
						}
					}
				}
			}
		})
		if nw == nil || !strings.HasPrefix(FuncID(fn), "pkg/") || strings.HasPrefix(FuncID(fn), "pkg/filter") {
			continue
		}
		n++
		fid := FuncID(fn)
		if fid == "pkg/pdfcpu.createWriteFile" {
			// owner: the flush obligation is pdfcpu.WriteContext's
			RunFlowRule(c, FlowRule{
				ID:   rule,
				Func: "pkg/pdfcpu.WriteContext",
				Gen:  []GenSpec{{Fact: "flushed", On: Pred{Calls: []string{"bufio.Writer.Flush"}, Deep: true}}},
				Need: []NeedSpec{{Fact: "flushed", At: Pred{NilReturn: true, BodyVerdict: true}, Why: "pdfcpu.WriteContext reports success (and then publishes its staged file) although the buffered writer was not flushed with its error checked"}},
			})
			continue
		}
		// Flush must be executed on every return path (directly or deferred) and its error must reach the function's result
		flushOK := false
		why := "no Flush of the installed bufio.Writer found on the return paths"
		eachInstr(fn, func(_ *ssa.BasicBlock, _ int, i ssa.Instruction) {
			switch x := i.(type) {
			case *ssa.Defer:
				mc, ok := x.Call.Value.(*ssa.MakeClosure)
				if !ok {
					return
				}
				cl := mc.Fn.(*ssa.Function)
				eachInstr(cl, func(_ *ssa.BasicBlock, _ int, ci ssa.Instruction) {
					call, ok := ci.(*ssa.Call)
					if !ok {
						return
					}
					if _, ref := callRef(call); ref != "bufio.Writer.Flush" {
						return
					}
					// its result must flow into a store to a captured error cell (named result)
					stored := false
					eachInstr(cl, func(_ *ssa.BasicBlock, _ int, si ssa.Instruction) {
						if st, ok := si.(*ssa.Store); ok {
							if _, isFV := st.Addr.(*ssa.FreeVar); isFV && errDependsOn(st.Val, call, 0, map[ssa.Value]bool{}) {
								stored = true
							}
						}
					})
					if stored && x.Block() == nw.Block() || stored && x.Block().Dominates(nw.Block()) || stored && nw.Block().Dominates(x.Block()) {
						flushOK = true
					} else {
						why = "deferred Flush does not store its error into the function's error result"
					}
				})
			case *ssa.Call:
				if _, ref := callRef(x); ref == "bufio.Writer.Flush" {
					// direct: result returned on every return after it
					ok := true
					cnt := 0
					for _, ret := range returnsOf(fn) {
						dep := false
						for _, res := range ret.Results {
							if isErrorType(res.Type()) && errDependsOn(res, x, 0, map[ssa.Value]bool{}) {
								dep = true
							}
						}
						cnt++
						if !dep {
							ok = false
						}
					}
					if ok && cnt > 0 {
						flushOK = true
					} else {
						why = "a return does not carry the Flush error"
					}
				}
			}
		})
		if flushOK {
			r.OK(rule, fid, "flush", p.Pos(nw.Pos()), "the bufio.Writer installed here is flushed on every return path and the flush error reaches the result", true)
		} else {
			r.Bad(rule, fid, "flush", p.Pos(nw.Pos()), "buffered PDF writer is not reliably flushed before the caller closes and renames the staged file: "+why)
		}
	}
	if n < 3 {
		r.Bad(rule, "-", "anchor:bufio.NewWriter", "", fmt.Sprintf("UNRESOLVED-ANCHOR: expected at least 3 functions installing a bufio.Writer on the write context, found %d", n))
	}
}

// ---------- R3: staging names ----------

var tempCreators = map[string]bool{
	"os.CreateTemp": true, "pkg/api.fileOperations.createTempFn": true, "pkg/pdfcpu.openStagedFile": true,
	"pkg/api.cutOutputOperations.createTemp": true, "pkg/font.gobPersistenceOperations.createTemp": true,
}

// tempCreatorsExempt: temp files that are never renamed over a document destination.
var tempCreatorsExempt = map[string]string{
	"pkg/cli.readSeekerFromStdin": "stdin spool file in os.TempDir; removed, never renamed",
}

func checkStagingNames(c *Ctx, rule string) {
	p, r := c.P, c.R
	n := 0
	for _, fn := range p.Funcs {
		cnt := 0
		fn := fn
		eachInstr(fn, func(_ *ssa.BasicBlock, _ int, i ssa.Instruction) {
			call, ok := i.(*ssa.Call)
			if !ok {
				return
			}
			_, ref := callRef(call)
			if !tempCreators[ref] {
				// the cli's createTemporaryInputFile global
				return
			}
			args := call.Call.Args
			if len(args) < 2 {
				return
			}
			fid := FuncID(fn)
			cnt++
			n++
			construct := fmt.Sprintf("%s#%d", ref, cnt)
			if why, ex := tempCreatorsExempt[FuncID(rootFunc(fn))]; ex {
				r.OK(rule, fid, construct, p.Pos(call.Pos()), "exempt: "+why, false)
				return
			}
			dirArg, patArg := args[0], args[1]
			// pass-through wrappers: both are parameters of fn (e.g. createStagedFile -> openStagedFile(dir, prefix) computed above)
			target, okDir := dirOfCall(dirArg)
			if !okDir {
				r.Bad(rule, fid, construct+" dir", p.Pos(call.Pos()), "the temp file's directory is not filepath.Dir(<destination>): a temp file elsewhere may sit on another filesystem (rename not atomic) or outside the output directory")
				return
			}
			base, hidden := patternShape(patArg)
			if !hidden {
				r.Bad(rule, fid, construct+" hidden", p.Pos(call.Pos()), "the temp file name does not start with a constant \".\": leftovers after a crash would not be hidden staging files")
				return
			}
			if base == nil || !sameValue(base, target) {
				r.Bad(rule, fid, construct+" base", p.Pos(call.Pos()), "the temp file name is not built from filepath.Base of the same destination whose directory is used")
				return
			}
			r.OK(rule, fid, construct, p.Pos(call.Pos()), "temp = Dir(dest)/\".\"+Base(dest)+suffix for the same dest value", true)
		})
	}
	if n == 0 {
		r.Bad(rule, "-", "anchor", "", "UNRESOLVED-ANCHOR: no temp-file creation sites found")
	}
}

// dirOfCall: v = filepath.Dir(x) (possibly via a single-assignment local) -> x
func dirOfCall(v ssa.Value) (ssa.Value, bool) {
	v = throughCell(v)
	if ex, ok := v.(*ssa.Extract); ok {
		_ = ex
	}
	call, ok := v.(*ssa.Call)
	if !ok {
		return nil, false
	}
	if _, ref := callRef(call); ref != "path/filepath.Dir" || len(call.Call.Args) != 1 {
		return nil, false
	}
	return call.Call.Args[0], true
}

// throughCell resolves a load of a single-assignment local to the stored value.
func throughCell(v ssa.Value) ssa.Value {
	for i := 0; i < 4; i++ {
		ld, ok := v.(*ssa.UnOp)
		if !ok || ld.Op != token.MUL {
			return v
		}
		cell := cellRoot(ld.X)
		al, ok := cell.(*ssa.Alloc)
		if !ok || !singleAssignedCell(al) {
			return v
		}
		var st *ssa.Store
		for _, rf := range *al.Referrers() {
			if s, ok := rf.(*ssa.Store); ok && s.Addr == al {
				st = s
			}
		}
		if st == nil {
			return v
		}
		v = st.Val
	}
	return v
}

// patternShape: "."+filepath.Base(x)+... or fmt.Sprintf(".%s...", filepath.Base(x), ...) -> (x, true)
func patternShape(v ssa.Value) (ssa.Value, bool) {
	v = throughCell(v)
	// concat chain: collect leaves left to right
	var leaves []ssa.Value
	var walk func(x ssa.Value)
	walk = func(x ssa.Value) {
		x = throughCell(x)
		if b, ok := x.(*ssa.BinOp); ok && b.Op == token.ADD {
			walk(b.X)
			walk(b.Y)
			return
		}
		leaves = append(leaves, x)
	}
	walk(v)
	if len(leaves) >= 2 {
		if s, ok := constString(leaves[0]); ok && strings.HasPrefix(s, ".") {
			for _, l := range leaves[1:] {
				if bc, ok := l.(*ssa.Call); ok {
					if _, ref := callRef(bc); ref == "path/filepath.Base" {
						return bc.Call.Args[0], true
					}
				}
			}
			return nil, true
		}
		return nil, false
	}
	if call, ok := v.(*ssa.Call); ok {
		if _, ref := callRef(call); ref == "fmt.Sprintf" && len(call.Call.Args) >= 1 {
			if f, ok := constString(call.Call.Args[0]); ok && strings.HasPrefix(f, ".%s") {
				for _, e := range variadicElems(call) {
					if mi, ok := e.(*ssa.MakeInterface); ok {
						e = mi.X
					}
					if bc, ok := throughCell(e).(*ssa.Call); ok {
						if _, ref := callRef(bc); ref == "path/filepath.Base" {
							return bc.Call.Args[0], true
						}
					}
				}
				return nil, true
			}
		}
	}
	return nil, false
}
