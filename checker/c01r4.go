package main

import (
	"fmt"
	"go/token"
	"go/types"
	"strings"

	"golang.org/x/tools/go/ssa"
)

// C01.R4: inside the disposal routines themselves — the functions that close a staged output and either publish
// or discard it — every return whose error can be non-nil has passed the removal of the staged file.
// (Sibling agreement: finishStagedFile, stagedOutput.cleanup, streamInOutFinalizer.finalize and
// temporaryInput.finalize all follow "error ⇒ the staged file is removed"; so must stagedOutput.commit.)

var c01DisposalRoutines = []string{
	"pkg/api.(stagedOutput).commit",
	"pkg/api.(stagedOutput).cleanup",
	"pkg/pdfcpu.finishStagedFile",
	"pkg/cli.(*streamInOutFinalizer).finalize",
	"pkg/cli.(*temporaryInput).finalize",
}

func isStagedRemoveCall(call *ssa.Call) bool {
	_, ref := callRef(call)
	switch {
	case ref == "os.Remove", ref == "os.RemoveAll":
		return true
	case strings.HasSuffix(ref, ".removeFile"), strings.HasSuffix(ref, ".removeStagedFile"), strings.HasSuffix(ref, ".removeStreamOutput"):
		return true
	}
	// a call through a function-typed field or parameter named remove*
	if !call.Call.IsInvoke() {
		switch v := call.Call.Value.(type) {
		case *ssa.Parameter:
			return strings.HasPrefix(v.Name(), "remove")
		case *ssa.UnOp:
			fp := fieldPath(v)
			i := strings.LastIndex(fp, ".")
			return strings.HasPrefix(fp[i+1:], "remove")
		}
	}
	return false
}

func checkDisposalRoutines(c *Ctx) {
	p, r := c.P, c.R
	for _, fid := range c01DisposalRoutines {
		fn := p.Func(fid)
		if fn == nil {
			r.Bad("C01.R4", fid, "anchor", "", "UNRESOLVED-ANCHOR: disposal routine not found")
			continue
		}
		ff := NewFactFlow(fn, func(i ssa.Instruction) []string {
			if call, ok := i.(*ssa.Call); ok && isStagedRemoveCall(call) {
				return []string{"rm"}
			}
			return nil
		}, nil, nil, nil)
		n := 0
		for _, ret := range returnsOf(fn) {
			errs := ret.Results
			if len(errs) == 0 {
				continue
			}
			ev := errs[len(errs)-1]
			if !isErrorType(ev.Type()) {
				continue
			}
			n++
			construct := fmt.Sprintf("return#%d", n)
			pos := posOrFn(p, ret, fn)
			if cst, ok := ev.(*ssa.Const); ok && cst.IsNil() {
				r.OK("C01.R4", fid, construct, pos, "returns nil", false)
				continue
			}
			nilHere := false
			for _, e := range nilCheckEdges(ev, true) {
				if edgeDominates(e, ret.Block()) {
					nilHere = true
				}
			}
			if nilHere {
				r.OK("C01.R4", fid, construct, pos, "the returned error was just tested nil", true)
				continue
			}
			if ff.Holds(ret, "rm") {
				r.OK("C01.R4", fid, construct, pos, "every path to this (possibly failing) return has removed the staged file", true)
			} else {
				r.Bad("C01.R4", fid, construct, pos, "this return can carry an error although no path to it removes the staged file: the operation fails and its new output (or temporary file) stays behind — the sibling routines all remove on every error")
			}
		}
		if n == 0 {
			r.Bad("C01.R4", fid, "returns", p.Pos(fn.Pos()), "UNRESOLVED-ANCHOR: no error return found")
		}
	}
}

// ---------------- C01.R5 = C03.R8 (round 4 seed C03-H): what was registered for disposal stays registered ----------------

// checkFinalizerSingleAssignment: a stream operation's temporary files (the stdin spool, the staged output) are
// registered one by one in a finalizer object whose finalize method the caller runs at the end. The variable that
// holds that object and is captured by the returned closure is assigned exactly once: assigning a fresh object later
// ("rebuilt as a literal") silently drops whatever was registered in the first one — the spool file is then never
// closed or removed. Applies to every local of a pointer-to-struct type whose name ends in Finalizer (pkg/cli, pkg/api).
func checkFinalizerSingleAssignment(c *Ctx, rule string) {
	p, r := c.P, c.R
	n := 0
	for _, fn := range p.Funcs {
		if !isSubject(fn) || fn.Pkg == nil {
			continue
		}
		pp := fn.Pkg.Pkg.Path()
		if pp != modPath+"/pkg/cli" && pp != modPath+"/pkg/api" {
			continue
		}
		k := 0
		eachInstr(fn, func(_ *ssa.BasicBlock, _ int, i ssa.Instruction) {
			al, ok := i.(*ssa.Alloc)
			if !ok {
				return
			}
			// a cell holding *XFinalizer
			pt, ok := al.Type().(*types.Pointer).Elem().(*types.Pointer)
			if !ok || !strings.HasSuffix(typeNameOf(pt.Elem()), "Finalizer") {
				return
			}
			stores := 0
			var second token.Pos
			for _, rf := range *al.Referrers() {
				if st, ok := rf.(*ssa.Store); ok && st.Addr == ssa.Value(al) {
					stores++
					if stores == 2 {
						second = st.Pos()
					}
				}
			}
			if stores == 0 {
				return
			}
			k++
			n++
			construct := fmt.Sprintf("finalizer variable %s#%d", al.Comment, k)
			if stores == 1 {
				r.OK(rule, FuncID(fn), construct, p.Pos(al.Pos()), "assigned once: everything is registered in the object the returned closure finalizes", true)
			} else {
				r.Bad(rule, FuncID(fn), construct, p.Pos(second), "the variable holding the finalizer is assigned a second object: resources registered in the first one (the stdin spool file, the opened input) are no longer reached by the finalize call — the temporary file stays behind after every successful run")
			}
		})
	}
	if n == 0 {
		r.Bad(rule, "pkg/cli", "anchor", "", "UNRESOLVED-ANCHOR: no captured finalizer variable found")
	}
}
