package main

import (
	"fmt"
	"strings"

	"golang.org/x/tools/go/ssa"
)

// C01.R4: inside the disposal routines themselves — the functions that close a staged output and either publish
// or discard it — every return whose error can be non-nil has passed the removal of the staged file.
// (Sibling agreement: finishStagedFile, stagedOutput.cleanup, streamInOutFinalizer.finalize and
// temporaryInput.finalize all follow "error ⇒ the staged file is removed"; so must stagedOutput.commit.)

var c01DisposalRoutines = []string{
	"pkg/api.(stagedOutput).commit",
	"pkg/api.(stagedOutput).cleanup",
	"pkg/pdfcpu.finishStagedFile",
	"pkg/cli.(*streamInOutFinalizer).finalize",
	"pkg/cli.(*temporaryInput).finalize",
}

func isStagedRemoveCall(call *ssa.Call) bool {
	_, ref := callRef(call)
	switch {
	case ref == "os.Remove", ref == "os.RemoveAll":
		return true
	case strings.HasSuffix(ref, ".removeFile"), strings.HasSuffix(ref, ".removeStagedFile"), strings.HasSuffix(ref, ".removeStreamOutput"):
		return true
	}
	// a call through a function-typed field or parameter named remove*
	if !call.Call.IsInvoke() {
		switch v := call.Call.Value.(type) {
		case *ssa.Parameter:
			return strings.HasPrefix(v.Name(), "remove")
		case *ssa.UnOp:
			fp := fieldPath(v)
			i := strings.LastIndex(fp, ".")
			return strings.HasPrefix(fp[i+1:], "remove")
		}
	}
	return false
}

func checkDisposalRoutines(c *Ctx) {
	p, r := c.P, c.R
	for _, fid := range c01DisposalRoutines {
		fn := p.Func(fid)
		if fn == nil {
			r.Bad("C01.R4", fid, "anchor", "", "UNRESOLVED-ANCHOR: disposal routine not found")
			continue
		}
		ff := NewFactFlow(fn, func(i ssa.Instruction) []string {
			if call, ok := i.(*ssa.Call); ok && isStagedRemoveCall(call) {
				return []string{"rm"}
			}
			return nil
		}, nil, nil, nil)
		n := 0
		for _, ret := range returnsOf(fn) {
			errs := ret.Results
			if len(errs) == 0 {
				continue
			}
			ev := errs[len(errs)-1]
			if !isErrorType(ev.Type()) {
				continue
			}
			n++
			construct := fmt.Sprintf("return#%d", n)
			pos := posOrFn(p, ret, fn)
			if cst, ok := ev.(*ssa.Const); ok && cst.IsNil() {
				r.OK("C01.R4", fid, construct, pos, "returns nil", false)
				continue
			}
			nilHere := false
			for _, e := range nilCheckEdges(ev, true) {
				if edgeDominates(e, ret.Block()) {
					nilHere = true
				}
			}
			if nilHere {
				r.OK("C01.R4", fid, construct, pos, "the returned error was just tested nil", true)
				continue
			}
			if ff.Holds(ret, "rm") {
				r.OK("C01.R4", fid, construct, pos, "every path to this (possibly failing) return has removed the staged file", true)
			} else {
				r.Bad("C01.R4", fid, construct, pos, "this return can carry an error although no path to it removes the staged file: the operation fails and its new output (or temporary file) stays behind — the sibling routines all remove on every error")
			}
		}
		if n == 0 {
			r.Bad("C01.R4", fid, "returns", p.Pos(fn.Pos()), "UNRESOLVED-ANCHOR: no error return found")
		}
	}
}
