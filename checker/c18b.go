package main

import (
	"fmt"
	"go/token"
	"sort"
	"strings"

	"golang.org/x/tools/go/ssa"
)

// ---------------- C18.R6 / R7 (round 4 seeds C18-G, C18-H) ----------------

// R6: the trailer's /Size is written from xRefTable.Size as it stands; what makes it "highest object number + 1"
// is the repair at the end of ReadWithContext plus Size++ at every insertion. The repair therefore has to fire for
// a Size that is too large as well as for one that is too small: the comparison of *Size with MaxObjNr+1 that
// guards it is an (in)equality, not an ordering.
func checkTrailerSizeRepair(c *Ctx) {
	p, r := c.P, c.R
	const fid = "pkg/pdfcpu.ReadWithContext"
	fn := p.Func(fid)
	if fn == nil {
		r.Bad("C18.R6", fid, "anchor", "", "UNRESOLVED-ANCHOR")
		return
	}
	n := 0
	eachInstr(fn, func(_ *ssa.BasicBlock, _ int, i ssa.Instruction) {
		bo, ok := i.(*ssa.BinOp)
		if !ok {
			return
		}
		switch bo.Op {
		case token.EQL, token.NEQ, token.LSS, token.LEQ, token.GTR, token.GEQ:
		default:
			return
		}
		isSize := func(v ssa.Value) bool { return strings.HasSuffix(fieldPath(v), "Size") }
		isMaxPlus1 := func(v ssa.Value) bool {
			b, ok := v.(*ssa.BinOp)
			if !ok || b.Op != token.ADD {
				return false
			}
			k, ok := constInt(b.Y)
			return ok && k == 1 && strings.HasSuffix(fieldPath(b.X), "MaxObjNr")
		}
		if !((isSize(bo.X) && isMaxPlus1(bo.Y)) || (isSize(bo.Y) && isMaxPlus1(bo.X))) {
			return
		}
		n++
		if bo.Op == token.EQL || bo.Op == token.NEQ {
			r.OK("C18.R6", fid, "trailer size repair", p.Pos(bo.Pos()), "*Size is compared with MaxObjNr+1 for (in)equality: too large and too small are both repaired", true)
		} else {
			r.Bad("C18.R6", fid, "trailer size repair", p.Pos(bo.Pos()), "the trailer /Size read from the input is repaired only on one side of MaxObjNr+1 ("+bo.Op.String()+"): the other kind of wrong Size is written to the output trailer unchanged, which then is not the highest object number plus one")
		}
	})
	if n == 0 {
		r.Bad("C18.R6", fid, "trailer size repair", p.Pos(fn.Pos()), "UNRESOLVED-ANCHOR: no comparison of the trailer Size with MaxObjNr+1")
	}
}

// R7 (TABLE): the three fields of a cross-reference stream row by entry type (ISO 32000 7.5.8.3):
//   type 0: next free object number, generation        type 1: byte offset, generation
//   type 2: object number of the object stream, index within it
// In createXRefStream the rows are built by three calls of int64ToBuf per branch; the branch is identified by the
// constant of the call made with the first width, the other two by the width parameter they are made with, and the
// value each is made from by the field it is loaded from (or, for the offset, the lookup in the write table).
func checkXRefStreamRows(c *Ctx) {
	p, r := c.P, c.R
	const fid = "pkg/pdfcpu.createXRefStream"
	fn := p.Func(fid)
	if fn == nil || len(fn.Params) < 4 {
		r.Bad("C18.R7", fid, "anchor", "", "UNRESOLVED-ANCHOR")
		return
	}
	w1, w2, w3 := fn.Params[1], fn.Params[2], fn.Params[3]
	source := func(v ssa.Value) string {
		for {
			switch x := v.(type) {
			case *ssa.Convert:
				v = x.X
				continue
			case *ssa.ChangeType:
				v = x.X
				continue
			}
			break
		}
		if k, ok := constInt(v); ok {
			return fmt.Sprintf("const %d", k)
		}
		if fp := fieldPath(v); fp != "" {
			parts := strings.Split(fp, ".")
			return parts[len(parts)-1]
		}
		switch x := v.(type) {
		case *ssa.Extract:
			if lk, ok := x.Tuple.(*ssa.Lookup); ok {
				fp := fieldPath(lk.X)
				parts := strings.Split(fp, ".")
				return "lookup " + parts[len(parts)-1]
			}
		case *ssa.Lookup:
			fp := fieldPath(x.X)
			parts := strings.Split(fp, ".")
			return "lookup " + parts[len(parts)-1]
		}
		return exprName(v)
	}
	type row struct {
		typ    int64
		f2, f3 string
		pos    token.Pos
		has    bool
	}
	rows := map[*ssa.BasicBlock]*row{}
	eachInstr(fn, func(b *ssa.BasicBlock, _ int, i ssa.Instruction) {
		call, ok := i.(*ssa.Call)
		if !ok {
			return
		}
		if f := staticCallee(call); f == nil || f.Name() != "int64ToBuf" || len(call.Call.Args) != 2 {
			return
		}
		rw := rows[b]
		if rw == nil {
			rw = &row{typ: -1}
			rows[b] = rw
		}
		switch call.Call.Args[1] {
		case ssa.Value(w1):
			if k, ok := constInt(call.Call.Args[0]); ok {
				rw.typ, rw.has, rw.pos = k, true, call.Pos()
			}
		case ssa.Value(w2):
			rw.f2 = source(call.Call.Args[0])
		case ssa.Value(w3):
			rw.f3 = source(call.Call.Args[0])
		}
	})
	want := map[int64][2]string{0: {"Offset", "Generation"}, 1: {"lookup Table", "Generation"}, 2: {"ObjectStream", "ObjectStreamInd"}}
	seen := map[int64]bool{}
	var blocks []*ssa.BasicBlock
	for b := range rows {
		blocks = append(blocks, b)
	}
	sort.Slice(blocks, func(i, j int) bool { return blocks[i].Index < blocks[j].Index })
	for _, b := range blocks {
		rw := rows[b]
		if !rw.has {
			continue
		}
		w, ok := want[rw.typ]
		construct := fmt.Sprintf("row of type %d", rw.typ)
		if !ok {
			r.Bad("C18.R7", fid, construct, p.Pos(rw.pos), "a cross-reference stream row with an entry type other than 0, 1, 2")
			continue
		}
		seen[rw.typ] = true
		if rw.f2 == w[0] && rw.f3 == w[1] {
			r.OK("C18.R7", fid, construct, p.Pos(rw.pos), fmt.Sprintf("fields 2 and 3 come from %s and %s", rw.f2, rw.f3), true)
		} else {
			r.Bad("C18.R7", fid, construct, p.Pos(rw.pos), fmt.Sprintf("fields 2 and 3 of the row come from %q and %q, ISO 32000 7.5.8.3 (and the classic table writer) put %q and %q there: the row disagrees with the object it describes (an object written as 'n g obj' with g > 0 is not found under generation 0)", rw.f2, rw.f3, w[0], w[1]))
		}
	}
	for _, t := range []int64{0, 1, 2} {
		if !seen[t] {
			r.Bad("C18.R7", fid, fmt.Sprintf("row of type %d", t), p.Pos(fn.Pos()), "UNDECIDED: no row of this entry type is built from three int64ToBuf calls in one block")
		}
	}
}
