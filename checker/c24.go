package main

import (
	"fmt"
	"go/token"
	"sort"
	"strings"

	"golang.org/x/tools/go/ssa"
)

// C24 (constants): the numbers the ISO 32000 key algorithms fix are the numbers in the code.

func init() {
	register(&Check{
		ID:  "C24",
		Run: runC24,
		Explanation: "Decides ONE structural clause of 'the encryption parameters pdfcpu computes are those of the ISO 32000 algorithms': the constants those algorithms fix appear in the code as the standard states them. A self-consistent deviation (51 instead of 50 re-hash rounds on both the writing and the validating side) passes every round-trip test pdfcpu can run against itself and breaks every other reader. " +
			"(R1 TABLE) the 32-byte padding string (7.6.3.3) byte for byte; Algorithm 2 / 3: the MD5 re-hash loop runs for counter values 0..49 and the RC4 loop for 1..19 (the counter is the XOR operand), both only for revision ≥ 3 — loop ranges are read off the counter φ, its constant start, the +1 step and the constant bound of the loop test, also for range-over-integer loops; revision 2 keys are cut to 5 bytes; the 0xFFFFFFFF suffix is hashed only when metadata is not encrypted; Algorithm 2.A/2.B: validation salt = bytes 32..39, key salt = bytes 40..47 of /O and /U; the inner block is repeated 64 times, at least 64 rounds, continuation test against round − 32; passwords are cut at 127 bytes; /Perms: bytes 9..11 are 'adb', byte 8 is 'T' or 'F' (read side), and the block written by writePermissions stores FF at bytes 4..7, 'T'/'F' at 8 and 'adb' at 9..11 as constants. " +
			"(R2) the termination rule of Algorithm 2.B is read off the exit edges of hashRev6's round loop as linear facts over the round counter, normalised to the number of completed rounds (position of the test in the iteration). (R3) IDFirstElement returns, for a literal string, the result of types.Unescape (directly or through a helper) and for a hex string its decoded bytes: Algorithms 2 and 5 hash the ID string's value, and another producer's escaped bytes (\\( \\) \\\\ or octal) are not that value. " +
			"(R4) in the four AES-256 password validators (and a preparation helper they share, if any) the value cut with [:127] derives from the result of processInput (SASLprep), and processInput's argument is not a cut value: Algorithm 2.A normalises first and truncates the UTF-8 result. " +
			"(R5) the first /ID element, an input of Algorithms 2 and 5, reaches the output as read: no store through an index other than 1 into a value loaded from the ID field, whole-field assignments only behind ID == nil (or in the reader / constructors of new documents). " +
			"NOT decided: the hash, cipher and big-integer arithmetic (standard library), SASLprep, that the pieces are concatenated in the order the algorithms give, key lengths other than through L/8.",
		Rules:       []string{"C24.R1 TABLE: constants of ISO 32000 algorithms 2, 3, 4/5, 2.A, 2.B, 8–13 (padding string, round counts, salt offsets, truncations, /Perms markers)", "C24.R2 linear facts: the round loop of Algorithm 2.B is left exactly when n >= 64 and last <= n - 32 (n = completed rounds)", "C24.R3 flow: the first /ID element that enters the key derivation is the string's value (unescaped literal / decoded hex), as written by the file writer", "C24.R4 order: the 127-byte cut of Algorithm 2.A is applied to the SASLprep output, not to its input", "C24.R5 WMC: nothing stores into the first element of an existing /ID array; the field is assigned only where it was nil", "C24.R6 aliasing: in the AES-256 validators no slice is the base of two append calls (password ‖ salt inputs do not share storage)"},
		Assumptions: []string{"crypto/md5, rc4, aes, sha256, sha512 are correct"},
		Level:       "other",
		Technique:   "spec-constant table agreement on SSA: global initialiser bytes, counter-loop ranges, slice bounds, compared constants",
		Note:        "Partial: constants only.",
	})
}

var c24Pad = []int64{0x28, 0xBF, 0x4E, 0x5E, 0x4E, 0x75, 0x8A, 0x41, 0x64, 0x00, 0x4E, 0x56, 0xFF, 0xFA, 0x01, 0x08,
	0x2E, 0x2E, 0x00, 0xB6, 0xD0, 0x68, 0x3E, 0x80, 0x2F, 0x0C, 0xA9, 0xFE, 0x64, 0x53, 0x69, 0x7A}

// counterLoops: the value ranges [first,last] of integer loop counters with constant start, step +1 and constant bound.
func counterLoops(fn *ssa.Function) [][2]int64 {
	var out [][2]int64
	eachInstr(fn, func(_ *ssa.BasicBlock, _ int, i ssa.Instruction) {
		phi, ok := i.(*ssa.Phi)
		if !ok {
			return
		}
		var init int64
		hasInit := false
		var next *ssa.BinOp
		for _, e := range phi.Edges {
			if k, ok := constInt(e); ok {
				init, hasInit = k, true
			}
			if b, ok := e.(*ssa.BinOp); ok && b.Op == token.ADD && b.X == ssa.Value(phi) {
				if k, ok := constInt(b.Y); ok && k == 1 {
					next = b
				}
			}
		}
		if !hasInit || next == nil {
			return
		}
		last, found := int64(0), false
		try := func(v ssa.Value) {
			refs := v.Referrers()
			if refs == nil {
				return
			}
			for _, rf := range *refs {
				b, ok := rf.(*ssa.BinOp)
				if !ok {
					continue
				}
				op := b.Op
				var k int64
				var isC bool
				if b.X == v {
					k, isC = constInt(b.Y)
				} else {
					k, isC = constInt(b.X)
					op = mirrorOp(op)
				}
				if !isC {
					continue
				}
				usedInIf := false
				if b.Referrers() != nil {
					for _, r2 := range *b.Referrers() {
						if _, ok := r2.(*ssa.If); ok {
							usedInIf = true
						}
					}
				}
				if !usedInIf {
					continue
				}
				switch op {
				case token.LSS:
					last, found = k-1, true
				case token.LEQ:
					last, found = k, true
				}
			}
		}
		try(phi)
		if !found {
			try(next)
		}
		if found {
			out = append(out, [2]int64{init, last})
		}
	})
	sort.Slice(out, func(a, b int) bool { return out[a][0] < out[b][0] || (out[a][0] == out[b][0] && out[a][1] < out[b][1]) })
	return out
}

func hasRange(rs [][2]int64, a, b int64) bool {
	for _, r := range rs {
		if r[0] == a && r[1] == b {
			return true
		}
	}
	return false
}

// sliceBounds: constant [low:high] bounds of slice expressions in fn ("" for absent).
func sliceBounds(fn *ssa.Function) map[string]bool {
	out := map[string]bool{}
	eachInstr(fn, func(_ *ssa.BasicBlock, _ int, i ssa.Instruction) {
		sl, ok := i.(*ssa.Slice)
		if !ok {
			return
		}
		lo, hi := "", ""
		if sl.Low != nil {
			if k, ok := constInt(sl.Low); ok {
				lo = fmt.Sprint(k)
			} else {
				lo = "?"
			}
		}
		if sl.High != nil {
			if k, ok := constInt(sl.High); ok {
				hi = fmt.Sprint(k)
			} else {
				hi = "?"
			}
		}
		out[lo+":"+hi] = true
	})
	return out
}

func comparedConsts(fn *ssa.Function) map[int64]bool {
	out := map[int64]bool{}
	eachInstr(fn, func(_ *ssa.BasicBlock, _ int, i ssa.Instruction) {
		if b, ok := i.(*ssa.BinOp); ok {
			switch b.Op {
			case token.EQL, token.NEQ, token.LSS, token.LEQ, token.GTR, token.GEQ:
				if k, ok := constInt(b.Y); ok {
					out[k] = true
				}
				if k, ok := constInt(b.X); ok {
					out[k] = true
				}
			}
		}
	})
	return out
}

func runC24(c *Ctx) {
	p, r := c.P, c.R
	r.MinInst["C24.R1"] = 13
	checkPermsPlaintext(c)
	r.MinInst["C24.R2"] = 1
	checkHashRev6Termination(c)
	r.MinInst["C24.R3"] = 1
	checkIDUnescaped(c)
	r.MinInst["C24.R4"] = 4
	checkPasswordCutAfterSASLprep(c)
	r.MinInst["C24.R5"] = 2
	checkPermanentIDKept(c)
	r.MinInst["C24.R6"] = 4
	checkHashInputsNotAliased(c)
	ok := func(fid, construct, pos, why string) { r.OK("C24.R1", fid, construct, pos, why, true) }
	bad := func(fid, construct, pos, why string) { r.Bad("C24.R1", fid, construct, pos, why) }
	// ---- padding string
	{
		got := map[int64]int64{}
		var pos string
		pk := p.SSAPkg("pkg/pdfcpu")
		var initFn *ssa.Function
		if pk != nil {
			initFn = pk.Func("init")
		}
		var padGlobal *ssa.Global
		if pk != nil {
			if g, isG := pk.Members["pad"].(*ssa.Global); isG {
				padGlobal = g
			}
		}
		if initFn == nil || padGlobal == nil {
			bad("pkg/pdfcpu.pad", "padding string", "", "UNRESOLVED-ANCHOR: package variable pad or the package initialiser not found")
		} else {
			// the slice stored into pad, its backing array, and the constant element stores
			eachInstr(initFn, func(_ *ssa.BasicBlock, _ int, i ssa.Instruction) {
				st, isSt := i.(*ssa.Store)
				if !isSt || st.Addr != ssa.Value(padGlobal) {
					return
				}
				pos = p.Pos(st.Pos())
				sl, isSl := st.Val.(*ssa.Slice)
				if !isSl {
					return
				}
				al, isAl := sl.X.(*ssa.Alloc)
				if !isAl {
					return
				}
				for _, rf := range *al.Referrers() {
					ia, isIA := rf.(*ssa.IndexAddr)
					if !isIA {
						continue
					}
					idx, isC := constInt(ia.Index)
					if !isC {
						continue
					}
					for _, r2 := range *ia.Referrers() {
						if s2, isS2 := r2.(*ssa.Store); isS2 {
							if k, isK := constInt(s2.Val); isK {
								got[idx] = k
							}
						}
					}
				}
			})
			var diff []string
			for i, w := range c24Pad {
				g, has := got[int64(i)]
				if !has && w == 0 {
					continue // zero elements need no store
				}
				if !has || g != w {
					diff = append(diff, fmt.Sprintf("byte %d is 0x%02X, the standard has 0x%02X", i, g, w))
				}
			}
			if len(got) > len(c24Pad) {
				diff = append(diff, fmt.Sprintf("%d bytes instead of 32", len(got)))
			}
			if len(diff) > 0 {
				bad("pkg/pdfcpu.pad", "padding string", pos, "the password padding string differs from ISO 32000 7.6.3.3 ("+strings.Join(diff, "; ")+"): keys derived with it open no document another producer wrote, and no other reader opens pdfcpu's")
			} else {
				ok("pkg/pdfcpu.pad", "padding string", pos, "32 bytes, equal to the standard's padding string")
			}
		}
	}
	// ---- loop ranges and truncations
	type want struct {
		fid    string
		ranges [][2]int64
		slices []string
		consts []int64
		what   string
	}
	for _, w := range []want{
		{"pkg/pdfcpu.key", [][2]int64{{0, 49}}, []string{":5", ":32"}, []int64{3, 32}, "Algorithm 3 a-d: pad to 32, 50 MD5 rounds for revision ≥ 3, 5-byte key for revision 2"},
		{"pkg/pdfcpu.o", [][2]int64{{1, 19}}, []string{":32"}, []int64{3, 32}, "Algorithm 3 e-g: 19 further RC4 passes with key XOR 1..19 for revision ≥ 3"},
		{"pkg/pdfcpu.u", [][2]int64{{1, 19}}, nil, []int64{32}, "Algorithm 5: 19 further RC4 passes with key XOR 1..19; result padded to 32 bytes"},
		{"pkg/pdfcpu.encKey", [][2]int64{{0, 49}}, []string{":5", ":32"}, []int64{3, 4, 32}, "Algorithm 2: pad to 32, 0xFFFFFFFF for revision 4 without metadata encryption, 50 MD5 rounds for revision ≥ 3, 5-byte key for revision 2"},
		{"pkg/pdfcpu.validationSalt", nil, []string{"32:40"}, nil, "Algorithm 2.A: validation salt = bytes 32..39"},
		{"pkg/pdfcpu.keySalt", nil, []string{"40:48"}, nil, "Algorithm 2.A: key salt = bytes 40..47"},
		{"pkg/pdfcpu.hashRev6", [][2]int64{{0, 63}}, []string{":16", "16:32", ":32"}, []int64{64}, "Algorithm 2.B: block repeated 64 times, AES key = first 16 bytes, IV = next 16, at least 64 rounds, 32-byte result"},
		{"pkg/pdfcpu.validateUserPasswordAES256", nil, []string{":127"}, []int64{127}, "Algorithm 2.A: password cut at 127 bytes"},
		{"pkg/pdfcpu.validateOwnerPasswordAES256", nil, []string{":127"}, []int64{127}, "Algorithm 2.A: password cut at 127 bytes"},
		{"pkg/pdfcpu.validateUserPasswordAES256Rev6", nil, []string{":127"}, []int64{127}, "Algorithm 11: password cut at 127 bytes"},
		{"pkg/pdfcpu.validateOwnerPasswordAES256Rev6", nil, []string{":127"}, []int64{127}, "Algorithm 12: password cut at 127 bytes"},
		{"pkg/pdfcpu.validatePermissions", nil, []string{"9:12", ":4"}, []int64{'T', 'F'}, "Algorithm 13: bytes 9..11 'adb', byte 8 'T'/'F', bytes 0..3 = /P"},
	} {
		fn := p.Func(w.fid)
		if fn == nil {
			bad(w.fid, "anchor", "", "UNRESOLVED-ANCHOR")
			continue
		}
		var miss []string
		rs := counterLoops(fn)
		for _, rg := range w.ranges {
			if !hasRange(rs, rg[0], rg[1]) {
				miss = append(miss, fmt.Sprintf("no loop with counter values %d..%d (found %v)", rg[0], rg[1], rs))
			}
		}
		sb := sliceBounds(fn)
		cc := comparedConsts(fn)
		if strings.HasPrefix(fn.Name(), "validate") {
			// a password-preparation helper of the same package may hold the cut (checked for order by R4)
			eachInstr(fn, func(_ *ssa.BasicBlock, _ int, i ssa.Instruction) {
				if call, ok := i.(*ssa.Call); ok {
					if f := staticCallee(call); f != nil && f.Pkg == fn.Pkg && len(f.Blocks) > 0 && callsProcessInput(f) {
						for k := range sliceBounds(f) {
							sb[k] = true
						}
						for k := range comparedConsts(f) {
							cc[k] = true
						}
					}
				}
			})
		}
		for _, s := range w.slices {
			if !sb[s] {
				miss = append(miss, "no slice ["+s+"]")
			}
		}
		for _, k := range w.consts {
			if !cc[k] {
				miss = append(miss, fmt.Sprintf("no comparison with %d", k))
			}
		}
		if len(miss) > 0 {
			bad(w.fid, "constants", p.Pos(fn.Pos()), w.what+" — "+strings.Join(miss, "; ")+": a deviation that the writing and the validating side share still round-trips inside pdfcpu, but no conforming reader computes the same key")
		} else {
			ok(w.fid, "constants", p.Pos(fn.Pos()), w.what)
		}
	}
}

// ---------------- round 3 seeds: the /Perms plaintext written by Algorithm 10 ----------------

// constIndexStores: index -> constant byte stored into a []byte at that constant index.
func constIndexStores(fn *ssa.Function) map[int64][]int64 {
	out := map[int64][]int64{}
	eachInstr(fn, func(_ *ssa.BasicBlock, _ int, i ssa.Instruction) {
		st, ok := i.(*ssa.Store)
		if !ok {
			return
		}
		ia, ok := st.Addr.(*ssa.IndexAddr)
		if !ok {
			return
		}
		idx, ok := constInt(ia.Index)
		if !ok {
			return
		}
		for _, l := range valueLeaves(st.Val) {
			if k, ok := constInt(l); ok {
				out[idx] = append(out[idx], k)
			}
		}
	})
	return out
}

func checkPermsPlaintext(c *Ctx) {
	p, r := c.P, c.R
	fid := "pkg/pdfcpu.writePermissions"
	fn := p.Func(fid)
	if fn == nil {
		r.Bad("C24.R1", fid, "anchor", "", "UNRESOLVED-ANCHOR")
		return
	}
	st := constIndexStores(fn)
	has := func(idx int64, vals ...int64) bool {
		got := map[int64]bool{}
		for _, v := range st[idx] {
			got[v] = true
		}
		for _, v := range vals {
			if !got[v] {
				return false
			}
		}
		return len(st[idx]) > 0
	}
	var miss []string
	for idx := int64(4); idx <= 7; idx++ {
		if !has(idx, 0xFF) {
			miss = append(miss, fmt.Sprintf("byte %d is not set to 0xFF", idx))
		}
	}
	if !has(8, 'T', 'F') {
		miss = append(miss, "byte 8 is not 'T' / 'F'")
	}
	for i, ch := range []int64{'a', 'd', 'b'} {
		if !has(int64(9+i), ch) {
			miss = append(miss, fmt.Sprintf("byte %d is not %q", 9+i, rune(ch)))
		}
	}
	if len(miss) > 0 {
		r.Bad("C24.R1", fid, "Perms plaintext", p.Pos(fn.Pos()), "Algorithm 10: the 16-byte block encrypted into /Perms is P (bytes 0-3), FF FF FF FF (4-7), 'T'/'F' (8), 'adb' (9-11) — "+strings.Join(miss, "; ")+": pdfcpu's own validation ignores bytes 4-7, so its round trips still pass while other readers see a /Perms entry the standard does not produce")
	} else {
		r.OK("C24.R1", fid, "Perms plaintext", p.Pos(fn.Pos()), "bytes 4-7 = FF, byte 8 = 'T'/'F', bytes 9-11 = 'adb' are stored as constants", true)
	}
}
