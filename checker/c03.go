package main

import (
	"fmt"
	"go/token"
	"go/types"
	"strings"

	"golang.org/x/tools/go/ssa"
)

// C03 — successful operations publish exactly the result (partial: mode preservation, alias rejection).

func init() {
	register(&Check{
		ID:  "C03",
		Run: runC03,
		Explanation: "Decides two code-shape clauses of 'a successful operation publishes exactly the result': (R1 mode preservation) in each stager that can replace an existing destination (api.openStagedOutputWithOperations, pdfcpu.createStagedFile, cli.createStreamOutput, api.writeCutOutputWith) every success path after the temp file was created either passes a successful Chmod of the temp handle whose mode argument is computed as <stat(destination)>.Mode().Perm() — where the stat is os.Stat (follows symlinks; os.Lstat is rejected) or an operation-table field whose production binding is os.Stat — or runs on the edge where that stat reported the destination absent; the permission bits are therefore set explicitly on the handle (not through the open mode, which the umask filters); (R2 alias rejection) every image-input file operation (NUpFile, GridFile, BookletFile in image mode; ImportImagesFile; UpdateImagesFile) reaches openStagedOutput only after its reject helper succeeded, each reject helper calls outputAliasesInput for every input in its loop and returns a non-nil error on the aliases==true edge, outputAliasesInput compares absolute paths and os.SameFile of os.Stat results (hard links, symlinks, other spellings), and pdfcpu.CopyFile short-circuits on os.SameFile before staging. The remaining clauses follow from C01.R3/C02 (no in-place write, publish by rename, no leftovers). (R3 destination identity) at every call of api.openStagedOutput* the destination argument takes only the values \"\" (in place) and names that do not come from an input-path parameter of the calling function (inFile, inFiles[i], inFilePDF): publishing under the input's name leaves the path the caller named with its old content and rewrites the distinct input; (R4) renames over a destination occur only in the mode-preserving publishers of the staging-layer table (closed world of rename primitives and their module wrappers api.replaceFile / fileOperations.replaceFile, same table as C01.R3): a direct rename of another file over an existing destination drops its permission bits. (R5) in every pkg/api / pkg/cli function with inFile and outFile parameters, a boolean that compares the two paths (or strings derived from them by strings/path/filepath functions) is an exact string (in)equality of the two parameters or a file-identity predicate (outputAliasesInput, os.SameFile), followed through module wrappers: case folding or cleaning identifies different files and sends the result to the wrong one. (R6) a write-capable open of inFile (os.OpenFile with O_WRONLY/O_RDWR, os.Create) is reached only where outFile is empty or equal to inFile on every way in (the increment writers of pkg/api/annotation.go). NOT decided: that the published bytes are the complete output (content), OS resolution of links, ownership/ACLs/xattrs.",
		Rules: []string{
			"C03.R1 MPT+flow: chmod(temp, stat(destination).Mode().Perm()) on every success path after temp creation when the destination exists",
			"C03.R3 flow: the stager's destination argument never takes the input path's name",
			"C03.R4 WMC: renames over a destination only in the mode-preserving publishers (staging-layer table)",
			"C03.R5 shape: in/out path identity is decided by exact (in)equality or file identity",
			"C03.R6 MPT: the input file is opened for writing only where the operation is in place",
			"C03.R7 MPT: a stream operation func(rs, w, …) error of pkg/api returns nil only after handing its writer on (no success without output)",
			"C03.R8 shape (= C01.R5): the captured finalizer variable of a stream operation is assigned once",
			"C03.R2 MPT: alias rejection before staging in image-input operations; shape of the reject helpers and of outputAliasesInput",
		},
		Assumptions: []string{"os.Stat follows symlinks; (*os.File).Chmod is not filtered by the umask"},
		Technique:   "must-pass-through dataflow with success/absent-edge facts; backward value slicing of the chmod mode argument to the stat call; operation-table binding resolution; loop/edge shape checks of the reject helpers",
		Note:        "Partial: decides mode preservation and alias rejection shapes only.",
	})
}

type stagerSpec struct {
	fn       string
	isCreate func(c ssa.CallInstruction, ref string) bool
	isChmod  func(c ssa.CallInstruction, ref string) bool
	// mode argument index in SSA args of the chmod call
	modeArg func(c ssa.CallInstruction) ssa.Value
}

func lastArg(c ssa.CallInstruction) ssa.Value {
	a := c.Common().Args
	if len(a) == 0 {
		return nil
	}
	return a[len(a)-1]
}

var c03Stagers = []stagerSpec{
	{
		fn:       "pkg/api.openStagedOutputWithOperations",
		isCreate: func(c ssa.CallInstruction, ref string) bool { return ref == "pkg/api.fileOperations.createTempFn" },
		isChmod:  func(c ssa.CallInstruction, ref string) bool { return ref == "pkg/api.fileOperations.chmodFn" },
		modeArg:  lastArg,
	},
	{
		fn:       "pkg/pdfcpu.createStagedFile",
		isCreate: func(c ssa.CallInstruction, ref string) bool { return ref == "pkg/pdfcpu.openStagedFile" },
		isChmod:  func(c ssa.CallInstruction, ref string) bool { return ref == "os.File.Chmod" },
		modeArg:  lastArg,
	},
	{
		fn:       "pkg/cli.createStreamOutput",
		isCreate: func(c ssa.CallInstruction, ref string) bool { return ref == "os.CreateTemp" },
		isChmod:  func(c ssa.CallInstruction, ref string) bool { return ref == "os.File.Chmod" },
		modeArg:  lastArg,
	},
	{
		fn:       "pkg/api.writeCutOutputWith",
		isCreate: func(c ssa.CallInstruction, ref string) bool { return ref == "pkg/api.cutOutputOperations.createTemp" },
		isChmod:  func(c ssa.CallInstruction, ref string) bool { return isInvokeOn(c, "Chmod") },
		modeArg:  lastArg,
	},
}

// statOrigin traces a mode value back to the stat-type call it was computed from. Returns the call, whether the chain
// is exactly <info>.Mode().Perm(), and a description.
type modeOrigin struct {
	stat      *ssa.Call
	statRef   string
	sawMode   bool
	sawPerm   bool
	existsVal ssa.Value // for helper results: the bool "destination exists" sibling result
}

func (c *Ctx) traceMode(v ssa.Value, depth int, mo *modeOrigin) bool {
	if v == nil || depth > 12 {
		return false
	}
	v = throughCell(v)
	switch x := v.(type) {
	case *ssa.Call:
		cc := x.Common()
		if cc.IsInvoke() {
			switch cc.Method.Name() {
			case "Mode":
				mo.sawMode = true
				return c.traceMode(cc.Value, depth+1, mo)
			}
			return false
		}
		_, ref := callRef(x)
		switch ref {
		case "io/fs.FileMode.Perm":
			mo.sawPerm = true
			return c.traceMode(cc.Args[0], depth+1, mo)
		case "os.Stat", "os.Lstat", "os.File.Stat":
			mo.stat, mo.statRef = x, ref
			return true
		}
		if staticCallee(x) == nil {
			// operation-table field (or a local chosen among a field and a std function): all candidates must be the same function
			if name := c.calleeCandidates(cc.Value, 0); name != "" {
				mo.stat, mo.statRef = x, name
				return true
			}
		}
		return false
	case *ssa.Extract:
		call, ok := x.Tuple.(*ssa.Call)
		if !ok {
			return false
		}
		_, ref := callRef(call)
		if ref == "os.Stat" || ref == "os.Lstat" || ref == "os.File.Stat" {
			mo.stat, mo.statRef = call, ref
			return true
		}
		if staticCallee(call) == nil && !call.Common().IsInvoke() {
			return c.traceMode(call, depth+1, mo)
		}
		// module helper returning (mode, exists, err): every return's component x.Index must trace to a stat inside the helper
		if f := staticCallee(call); f != nil && isSubject(f) {
			okAll, n := true, 0
			for _, ret := range returnsOf(f) {
				if x.Index >= len(ret.Results) {
					return false
				}
				res := ret.Results[x.Index]
				if cst, isC := res.(*ssa.Const); isC && cst.Value != nil {
					continue // constant 0 on the absent/err returns
				}
				n++
				sub := &modeOrigin{}
				if !c.traceMode(res, depth+1, sub) {
					okAll = false
				} else {
					mo.stat, mo.statRef = sub.stat, sub.statRef
					mo.sawMode = mo.sawMode || sub.sawMode
					mo.sawPerm = mo.sawPerm || sub.sawPerm
				}
			}
			if okAll && n > 0 {
				// sibling bool result = "exists"
				for _, rf := range *call.Referrers() {
					if ex, ok := rf.(*ssa.Extract); ok && isBoolType(ex.Type()) {
						mo.existsVal = ex
					}
				}
				return true
			}
		}
		return false
	case *ssa.Phi:
		// `stat := ops.stat; if stat == nil { stat = os.Stat }` style
		for _, e := range x.Edges {
			if !c.traceMode(e, depth+1, mo) {
				return false
			}
		}
		return len(x.Edges) > 0
	case *ssa.ChangeType:
		return c.traceMode(x.X, depth+1, mo)
	case *ssa.Convert:
		return c.traceMode(x.X, depth+1, mo)
	}
	return false
}

// calleeCandidates: the single function name every candidate of a dynamic callee value resolves to ("" if unknown or mixed).
func (c *Ctx) calleeCandidates(v ssa.Value, depth int) string {
	if depth > 6 {
		return ""
	}
	switch x := v.(type) {
	case *ssa.Function:
		if o := unwrapSynthetic(x).Object(); o != nil {
			return objRef(o)
		}
		return ""
	case *ssa.Phi:
		name := ""
		for _, e := range x.Edges {
			n := c.calleeCandidates(e, depth+1)
			if n == "" || (name != "" && n != name) {
				return ""
			}
			name = n
		}
		return name
	case *ssa.ChangeType:
		return c.calleeCandidates(x.X, depth+1)
	}
	if fld := fieldOfValue(v); fld != nil {
		bs := c.CG().Bindings[fld]
		name := ""
		for _, b := range bs {
			n := ""
			if o := b.Object(); o != nil {
				n = objRef(o)
			}
			if n == "" || (name != "" && n != name) {
				return ""
			}
			name = n
		}
		return name
	}
	if ld, ok := v.(*ssa.UnOp); ok && ld.Op == token.MUL {
		if tv := throughCell(v); tv != v {
			return c.calleeCandidates(tv, depth+1)
		}
	}
	return ""
}

func runC03(c *Ctx) {
	r := c.R
	r.MinInst["C03.R1"] = 4
	r.MinInst["C03.R2"] = 10
	for _, st := range c03Stagers {
		checkModePreserved(c, "C03.R1", st)
	}
	checkAliasRejection(c, "C03.R2")
	// R3: the destination handed to the stager is the caller's own output name (or "" for in-place), never the input's name
	r.MinInst["C03.R3"] = 30
	checkDestinationIdentity(c, "C03.R3")
	// R4: renames over a destination happen only in the mode-preserving publishers of the staging-layer table (same table and
	// closed world as C01.R3, restricted to the rename category): a direct rename of some other file over an existing
	// destination drops the destination's permission bits.
	r.MinInst["C03.R4"] = 8
	runFSWMC(c, "C03.R4", map[string]bool{"rename": true})
	r.MinInst["C03.R5"] = 25
	checkPathIdentityDecisions(c)
	r.MinInst["C03.R6"] = 3
	r.MinInst["C03.R7"] = 40
	checkStreamOpsWriteOnSuccess(c)
	r.MinInst["C03.R8"] = 1
	checkFinalizerSingleAssignment(c, "C03.R8")
	checkInputWrittenOnlyInPlace(c)
}

// checkDestinationIdentity: at every call of api.openStagedOutput* the destination argument takes only the values "" and
// names that do not come from an input-path parameter (inFile, inFiles[i], inFilePDF ...) of the calling function.
func checkDestinationIdentity(c *Ctx, rule string) {
	p, r := c.P, c.R
	for _, fn := range p.Funcs {
		fid := FuncID(fn)
		if !strings.HasPrefix(fid, "pkg/api.") {
			continue
		}
		fn := fn
		n := 0
		eachInstr(fn, func(_ *ssa.BasicBlock, _ int, i ssa.Instruction) {
			call, ok := i.(*ssa.Call)
			if !ok {
				return
			}
			_, ref := callRef(call)
			if ref != "pkg/api.openStagedOutput" && ref != "pkg/api.openStagedOutputWithOperations" {
				return
			}
			if fid == "pkg/api.openStagedOutput" {
				return // forwarding wrapper
			}
			n++
			construct := fmt.Sprintf("%s#%d destination", ref, n)
			dst := call.Call.Args[2]
			var bad []string
			for _, leaf := range valueLeaves(dst) {
				if prm := inputPathParam(leaf, 0); prm != nil {
					bad = append(bad, prm.Name())
				}
			}
			if len(bad) == 0 {
				r.OK(rule, fid, construct, p.Pos(call.Pos()), "the destination is \"\" (in place) or a name that does not come from an input-path parameter", true)
			} else {
				r.Bad(rule, fid, construct, p.Pos(call.Pos()), "the destination handed to the stager can be the input's name ("+strings.Join(bad, ",")+"): the result is published under the input path while the output path the caller named keeps its old content")
			}
		})
	}
}

// valueLeaves: the non-phi values v can take.
func valueLeaves(v ssa.Value) []ssa.Value {
	seen := map[ssa.Value]bool{}
	var out []ssa.Value
	var walk func(x ssa.Value)
	walk = func(x ssa.Value) {
		if seen[x] {
			return
		}
		seen[x] = true
		if phi, ok := x.(*ssa.Phi); ok {
			for _, e := range phi.Edges {
				walk(e)
			}
			return
		}
		if ld, ok := x.(*ssa.UnOp); ok && ld.Op == token.MUL {
			if al, ok := ld.X.(*ssa.Alloc); ok {
				found := false
				for _, rf := range *al.Referrers() {
					if st, ok := rf.(*ssa.Store); ok && st.Addr == ssa.Value(al) {
						found = true
						walk(st.Val)
					}
				}
				if found {
					return
				}
			}
		}
		out = append(out, x)
	}
	walk(v)
	return out
}

// inputPathParam: v is (an element of) a string parameter whose name marks it as an input path.
func inputPathParam(v ssa.Value, d int) *ssa.Parameter {
	if d > 4 {
		return nil
	}
	switch x := v.(type) {
	case *ssa.Parameter:
		n := x.Name()
		if strings.HasPrefix(n, "inFile") || n == "in" || strings.HasPrefix(n, "inPath") {
			return x
		}
	case *ssa.UnOp:
		return inputPathParam(x.X, d+1)
	case *ssa.IndexAddr:
		return inputPathParam(x.X, d+1)
	case *ssa.Index:
		return inputPathParam(x.X, d+1)
	}
	return nil
}

func checkModePreserved(c *Ctx, rule string, st stagerSpec) {
	p, r := c.P, c.R
	fn := p.Func(st.fn)
	if fn == nil {
		r.Bad(rule, st.fn, "anchor", "", "UNRESOLVED-ANCHOR: stager "+st.fn+" not found")
		return
	}
	var creates, chmods []*ssa.Call
	eachInstr(fn, func(_ *ssa.BasicBlock, _ int, i ssa.Instruction) {
		call, ok := i.(*ssa.Call)
		if !ok {
			return
		}
		_, ref := callRef(call)
		if st.isCreate(call, ref) {
			creates = append(creates, call)
		}
		if st.isChmod(call, ref) {
			chmods = append(chmods, call)
		}
	})
	if len(creates) == 0 {
		r.Bad(rule, st.fn, "anchor:create", p.Pos(fn.Pos()), "UNRESOLVED-ANCHOR: temp creation call not found in stager")
		return
	}
	genE := map[Edge][]string{}
	goodChmod := 0
	for ci, ch := range chmods {
		mo := &modeOrigin{}
		construct := fmt.Sprintf("chmod#%d mode", ci+1)
		if !c.traceMode(st.modeArg(ch), 0, mo) || mo.stat == nil {
			r.Bad(rule, st.fn, construct, p.Pos(ch.Pos()), "the mode given to Chmod is not computed from a stat of the destination (<info>.Mode().Perm())")
			continue
		}
		if !mo.sawMode || !mo.sawPerm {
			r.Bad(rule, st.fn, construct, p.Pos(ch.Pos()), "the mode given to Chmod is not <info>.Mode().Perm() of the destination's stat result")
			continue
		}
		if mo.statRef != "os.Stat" {
			r.Bad(rule, st.fn, construct, p.Pos(ch.Pos()), "the destination's mode is read with "+mo.statRef+" instead of os.Stat: for a destination that is a symlink the link's own mode (0777) would be copied instead of the target's")
			continue
		}
		r.OK(rule, st.fn, construct, p.Pos(ch.Pos()), "mode = os.Stat(destination).Mode().Perm()", true)
		goodChmod++
		edges, _ := successEdges(ch)
		for _, e := range edges {
			genE[e] = append(genE[e], "modeok")
		}
		// destination absent: failure edges of the stat call, or false edges of the helper's exists result
		if mo.existsVal != nil {
			for _, al := range aliasesOf(mo.existsVal) {
				for _, e := range condEdges(al, false) {
					genE[e] = append(genE[e], "modeok")
				}
			}
		} else if mo.stat.Parent() == fn {
			for _, ev := range errorResults(mo.stat) {
				for _, e := range nilCheckEdges(ev, false) {
					genE[e] = append(genE[e], "modeok")
				}
			}
		}
	}
	createSet := map[ssa.Instruction]bool{}
	for _, cr := range creates {
		createSet[cr] = true
	}
	ff := NewFactFlow(fn, nil, genE, func(i ssa.Instruction) []string {
		if createSet[i] {
			return []string{"modeok"}
		}
		return nil
	}, []string{"modeok"})
	n := 0
	for _, ret := range returnsOf(fn) {
		preDeferMode = true
		k, has := returnErrKind(ret)
		preDeferMode = false
		if has && k == errNonNil {
			continue
		}
		n++
		construct := fmt.Sprintf("success-return#%d", n)
		if ff.Holds(ret, "modeok") {
			r.OK(rule, st.fn, construct, posOrFn(p, ret, fn), "after the temp was created every path to this success return chmods it to the destination's mode or knows the destination is absent", true)
		} else {
			r.Bad(rule, st.fn, construct, posOrFn(p, ret, fn), "a success path creates the staging file but does not give it the existing destination's permission bits with an explicit Chmod on the handle: after the rename the published file has the temp file's mode (umask-filtered 0666/0600) instead of the destination's")
		}
	}
	if goodChmod == 0 && len(chmods) == 0 {
		r.Bad(rule, st.fn, "chmod", p.Pos(fn.Pos()), "the stager never chmods the staging file")
	}
}

// ---------- R2 ----------

type aliasOp struct {
	fn      string
	reject  []string // helper refs whose success establishes the fact
	modeFld string   // field name (on a parameter) whose false value exempts (PDF input mode); "" = unconditional
}

var c03AliasOps = []aliasOp{
	{"pkg/api.NUpFile", []string{"pkg/api.rejectNUpImageOutputAlias"}, "ImgInputFile"},
	{"pkg/api.GridFile", []string{"pkg/api.rejectGridImageOutputAlias"}, "ImgInputFile"},
	{"pkg/api.BookletFile", []string{"pkg/api.rejectBookletImageOutputAlias"}, "ImgInputFile"},
	{"pkg/api.ImportImagesFile", []string{"pkg/api.validateImportImagesOutput", "pkg/api.ValidateImportImagesOutput"}, ""},
	{"pkg/api.UpdateImagesFile", []string{"pkg/api.ValidateUpdateImagesOutput"}, ""},
}

var c03RejectHelpers = []string{
	"pkg/api.rejectNUpImageOutputAlias", "pkg/api.rejectGridImageOutputAlias", "pkg/api.rejectBookletImageOutputAlias",
	"pkg/api.validateImportImagesOutput", "pkg/api.ValidateUpdateImagesOutput",
}

func checkAliasRejection(c *Ctx, rule string) {
	p, r := c.P, c.R
	for _, op := range c03AliasOps {
		fn := p.Func(op.fn)
		if fn == nil {
			r.Bad(rule, op.fn, "anchor", "", "UNRESOLVED-ANCHOR: "+op.fn+" not found")
			continue
		}
		gens := []GenSpec{{Fact: "alias-rejected", On: Pred{Calls: op.reject, Deep: true}}}
		if op.modeFld != "" {
			edges := map[Edge]bool{}
			eachInstr(fn, func(_ *ssa.BasicBlock, _ int, i ssa.Instruction) {
				v, ok := i.(ssa.Value)
				if !ok || !isBoolType(v.Type()) {
					return
				}
				if strings.HasSuffix(fieldPath(v), op.modeFld) {
					for _, e := range condEdges(v, false) {
						edges[e] = true
					}
				}
			})
			gens = append(gens, GenSpec{Fact: "alias-rejected", edges: edges})
		}
		runFlowRuleOn(c, FlowRule{
			ID:  rule,
			Gen: gens,
			Need: []NeedSpec{{Fact: "alias-rejected", At: Pred{Calls: []string{"pkg/api.openStagedOutput"}},
				Why: "the output is staged although an image input that is re-opened by name later may be the same file as the output (hard link, symlink or another spelling): the operation would read its own half-written output or replace its input"}},
		}, fn)
	}
	// helpers: loop over all inputs, aliases==true -> error
	for _, h := range c03RejectHelpers {
		fn := p.Func(h)
		if fn == nil {
			r.Bad(rule, h, "anchor", "", "UNRESOLVED-ANCHOR: "+h+" not found")
			continue
		}
		var calls []*ssa.Call
		eachInstr(fn, func(_ *ssa.BasicBlock, _ int, i ssa.Instruction) {
			if call, ok := i.(*ssa.Call); ok {
				if f := staticCallee(call); f != nil && isSubject(f) {
					if FuncID(f) == "pkg/api.outputAliasesInput" || alwaysReturnsCallTo(f, "pkg/api.outputAliasesInput") {
						calls = append(calls, call)
					}
				}
			}
		})
		if len(calls) == 0 {
			r.Bad(rule, h, "alias-call", p.Pos(fn.Pos()), "the reject helper no longer calls outputAliasesInput")
			continue
		}
		for ci, call := range calls {
			construct := fmt.Sprintf("aliases#%d", ci+1)
			okShape := false
			for _, bv := range boolResults(call) {
				for _, al := range aliasesOf(bv) {
					for _, e := range condEdges(al, true) {
						tgt := e.From.Succs[e.Succ]
						if len(tgt.Instrs) > 0 {
							if ret, ok := tgt.Instrs[len(tgt.Instrs)-1].(*ssa.Return); ok {
								if k, has := returnErrKind(ret); has && k == errNonNil {
									okShape = true
								}
							}
						}
					}
				}
			}
			if !okShape {
				r.Bad(rule, h, construct+" rejects", p.Pos(call.Pos()), "the aliases==true result of outputAliasesInput does not lead directly to a non-nil error return")
				continue
			}
			// a call inside a range loop must not be skipped by an early `return nil` inside the loop
			earlyNil := false
			for _, ret := range returnsOf(fn) {
				if k, has := returnErrKind(ret); has && k != errNonNil {
					// a success return dominated by the comparison's block lies inside the iteration (the return after the
					// loop is also reachable with zero iterations, hence not dominated by it)
					if inLexicalLoop(call.Block()) && call.Block().Dominates(ret.Block()) {
						earlyNil = true
					}
				}
			}
			if earlyNil {
				r.Bad(rule, h, construct+" all-inputs", p.Pos(call.Pos()), "the helper can return nil from inside the loop before every input was compared with the output")
				continue
			}
			r.OK(rule, h, construct, p.Pos(call.Pos()), "aliases==true leads to an error return; no success return inside the input loop", true)
		}
	}
	// outputAliasesInput shape
	checkAliasPredicate(c, rule)
	// CopyFile short circuit: on the edge where os.SameFile(source, destination) is true nothing is staged
	if cf := p.Func("pkg/pdfcpu.CopyFile"); cf == nil {
		r.Bad(rule, "pkg/pdfcpu.CopyFile", "anchor", "", "UNRESOLVED-ANCHOR")
	} else {
		var same *ssa.Call
		eachInstr(cf, func(_ *ssa.BasicBlock, _ int, i ssa.Instruction) {
			if call, ok := i.(*ssa.Call); ok {
				if _, ref := callRef(call); ref == "os.SameFile" {
					same = call
				}
			}
		})
		switch {
		case same == nil:
			r.Bad(rule, "pkg/pdfcpu.CopyFile", "samefile", p.Pos(cf.Pos()), "CopyFile (overwrite) no longer compares source and destination with os.SameFile before staging: copying a file onto itself through a link or another spelling is not recognised")
		default:
			bad := false
			stagedAfter := false
			for _, e := range condEdges(same, true) {
				tgt := e.From.Succs[e.Succ]
				blocks := reachableBlocks(tgt)
				blocks[tgt] = true
				for b := range blocks {
					for _, i := range b.Instrs {
						if call, ok := i.(*ssa.Call); ok {
							if _, ref := callRef(call); ref == "pkg/pdfcpu.createStagedFile" {
								bad = true
							}
						}
					}
				}
			}
			for _, i := range instrsAfter(same) {
				if call, ok := i.(*ssa.Call); ok {
					if _, ref := callRef(call); ref == "pkg/pdfcpu.createStagedFile" {
						stagedAfter = true
					}
				}
			}
			if bad || !stagedAfter || len(condEdges(same, true)) == 0 {
				r.Bad(rule, "pkg/pdfcpu.CopyFile", "samefile", p.Pos(same.Pos()), "the os.SameFile==true outcome does not short-circuit before createStagedFile (or the comparison happens after staging)")
			} else {
				r.OK(rule, "pkg/pdfcpu.CopyFile", "samefile", p.Pos(same.Pos()), "on the SameFile==true edge no staging call is reachable; staging happens only after the comparison", true)
			}
		}
	}
}

// alwaysReturnsCallTo: f is a thin wrapper `return g(args...)`.
func alwaysReturnsCallTo(f *ssa.Function, ref string) bool {
	rets := returnsOf(f)
	if len(rets) != 1 || len(f.Blocks) != 1 {
		return false
	}
	for _, res := range rets[0].Results {
		if ex, ok := res.(*ssa.Extract); ok {
			if call, ok := ex.Tuple.(*ssa.Call); ok {
				if _, r := callRef(call); r == ref {
					return true
				}
			}
		}
	}
	return false
}

// inLexicalLoop: the block belongs to the body of a source-level loop (go/ssa block comments), even if a mutation made the
// body always leave the loop.
func inLexicalLoop(b *ssa.BasicBlock) bool {
	for x := b; x != nil; x = x.Idom() {
		if strings.HasSuffix(x.Comment, ".body") || strings.HasSuffix(x.Comment, ".loop") {
			return true
		}
	}
	return false
}

// inLoopWith: block a and block b lie on a common cycle.
func inLoopWith(a, b *ssa.BasicBlock) bool {
	ra := reachableBlocks(a)
	rb := reachableBlocks(b)
	return ra[b] && rb[a] || (a == b && ra[a])
}

func checkAliasPredicate(c *Ctx, rule string) {
	p, r := c.P, c.R
	fn := p.Func("pkg/api.outputAliasesInputWith")
	if fn == nil {
		r.Bad(rule, "pkg/api.outputAliasesInputWith", "anchor", "", "UNRESOLVED-ANCHOR")
		return
	}
	// returns: `true` constant only under inAbs == outAbs; final return is os.SameFile(stat(in), stat(out))
	sameFile, absCmp := false, false
	eachInstr(fn, func(_ *ssa.BasicBlock, _ int, i ssa.Instruction) {
		switch x := i.(type) {
		case *ssa.Call:
			if _, ref := callRef(x); ref == "os.SameFile" {
				// both args come from calls of the stat parameter
				ok := true
				for _, a := range x.Call.Args {
					ex, isEx := a.(*ssa.Extract)
					if !isEx {
						ok = false
						continue
					}
					call, isCall := ex.Tuple.(*ssa.Call)
					if !isCall || !isParamCall(call, "stat") {
						ok = false
					}
				}
				for _, rf := range *x.Referrers() {
					if _, isRet := rf.(*ssa.Return); isRet && ok {
						sameFile = true
					}
				}
			}
		case *ssa.BinOp:
			if x.Op == token.EQL {
				if b, ok := x.X.Type().Underlying().(*types.Basic); ok && b.Kind() == types.String {
					absCmp = true
				}
			}
		}
	})
	if sameFile && absCmp {
		r.OK(rule, FuncID(fn), "predicate", p.Pos(fn.Pos()), "compares absolute paths and returns os.SameFile(stat(in), stat(out))", true)
	} else {
		r.Bad(rule, FuncID(fn), "predicate", p.Pos(fn.Pos()), "outputAliasesInputWith no longer returns os.SameFile of the two stat results (hard links / symlinks would go undetected) or lost the absolute-path comparison")
	}
	// default binding uses os.Stat (follows symlinks) and filepath.Abs
	d := p.Func("pkg/api.outputAliasesInput")
	okBind := false
	if d != nil {
		eachInstr(d, func(_ *ssa.BasicBlock, _ int, i ssa.Instruction) {
			if call, ok := i.(*ssa.Call); ok {
				if _, ref := callRef(call); ref == "pkg/api.outputAliasesInputWith" && len(call.Call.Args) == 4 {
					f1, _ := call.Call.Args[2].(*ssa.Function)
					f2, _ := call.Call.Args[3].(*ssa.Function)
					if f1 != nil && f2 != nil && f1.Object() != nil && f2.Object() != nil && objRef(f1.Object()) == "path/filepath.Abs" && objRef(f2.Object()) == "os.Stat" {
						okBind = true
					}
				}
			}
		})
	}
	if okBind {
		r.OK(rule, "pkg/api.outputAliasesInput", "binding", p.Pos(d.Pos()), "outputAliasesInput = outputAliasesInputWith(.., filepath.Abs, os.Stat)", true)
	} else {
		r.Bad(rule, "pkg/api.outputAliasesInput", "binding", "", "outputAliasesInput does not bind filepath.Abs and os.Stat")
	}
}
