package main

import (
	"fmt"
	"go/token"
	"go/types"
	"strings"

	"golang.org/x/tools/go/ssa"
)

// ---------------- C24.R2 (round 3 seed C24-C): termination rule of Algorithm 2.B ----------------
//
// ISO 32000-2 7.6.4.3.4: the round is repeated 64 times (rounds 0..63) and then for as long as the last byte of E
// is greater than (round number) - 32. In terms of the number n of completed rounds the loop is left exactly when
// n >= 64 and last <= n - 32. The rule reads that off the code: for every exit edge of the round loop (error
// returns aside) the facts that hold on it (conditions of the dominating edges, as linear inequalities) must
// contain   counter >= A   and   <byte> <= counter - K   and, with adj = 1 when the test sits after the round's
// work in the iteration (the counter is then one less than the number of completed rounds) and 0 when it sits in
// the loop head, A + adj = 64 and K + adj = 32. Anything else — other constants, a test in another position, a
// form that is not linear in the counter — fails (UNDECIDED for the last).
func checkHashRev6Termination(c *Ctx) {
	p, r := c.P, c.R
	const fid = "pkg/pdfcpu.hashRev6"
	fn := p.Func(fid)
	if fn == nil {
		r.Bad("C24.R2", fid, "anchor", "", "UNRESOLVED-ANCHOR")
		return
	}
	// the round loop: the loop that contains a call of CryptBlocks
	var loop *natLoop
	for _, l := range naturalLoops(fn) {
		has := false
		for b := range l.blocks {
			for _, in := range b.Instrs {
				if ci, ok := in.(ssa.CallInstruction); ok {
					cm := ci.Common()
					if (cm.Method != nil && cm.Method.Name() == "CryptBlocks") || (cm.StaticCallee() != nil && cm.StaticCallee().Name() == "CryptBlocks") {
						has = true
					}
				}
			}
		}
		if has && (loop == nil || len(l.blocks) > len(loop.blocks)) {
			loop = l
		}
	}
	if loop == nil {
		r.Bad("C24.R2", fid, "anchor", p.Pos(fn.Pos()), "UNRESOLVED-ANCHOR: no loop around a CryptBlocks call")
		return
	}
	// its +1 counters starting at 0
	counters := map[*ssa.Phi]bool{}
	for _, in := range loop.header.Instrs {
		ph, ok := in.(*ssa.Phi)
		if !ok {
			break
		}
		start0, stride := false, false
		for ei, e := range ph.Edges {
			if loop.blocks[loop.header.Preds[ei]] {
				if bo, ok := e.(*ssa.BinOp); ok && bo.X == ssa.Value(ph) {
					if n, ok := c31ConstInt(bo.Y); ok && n == 1 {
						stride = true
					}
				}
			} else if n, ok := c31ConstInt(e); ok && n == 0 {
				start0 = true
			}
		}
		if start0 && stride {
			counters[ph] = true
		}
	}
	if len(counters) == 0 {
		r.Bad("C24.R2", fid, "round counter", p.Pos(fn.Pos()), "UNDECIDED: the round loop has no counter that starts at 0 and is incremented by 1")
		return
	}
	hasWork := func(b *ssa.BasicBlock) bool {
		for _, in := range b.Instrs {
			if ci, ok := in.(ssa.CallInstruction); ok {
				if _, isB := ci.Common().Value.(*ssa.Builtin); !isB {
					return true
				}
			}
		}
		return false
	}
	pr := newC31Prover(fn)
	n := 0
	for _, b := range fn.Blocks {
		if !loop.blocks[b] {
			continue
		}
		for si, s := range b.Succs {
			if loop.blocks[s] {
				continue
			}
			// error exits
			errOnly := true
			blocks := reachableBlocks(s)
			blocks[s] = true
			for bb := range blocks {
				if len(bb.Instrs) == 0 {
					continue
				}
				if ret, ok := bb.Instrs[len(bb.Instrs)-1].(*ssa.Return); ok {
					if k, ok := returnErrKind(ret); !ok || k != errNonNil {
						errOnly = false
					}
				}
			}
			if errOnly {
				continue
			}
			n++
			construct := fmt.Sprintf("exit#%d of the round loop", n)
			pos := p.Pos(lastPos(b))
			adj := int64(0)
			for x := range loop.blocks {
				if x != b && x != loop.header && x.Dominates(b) && hasWork(x) {
					adj = 1
				}
			}
			if b != loop.header && hasWork(b) {
				adj = 1
			}
			e := Edge{b, si}
			facts := pr.facts(c31Point{b: b, extra: &e})
			minA, offK := int64(-1), int64(-1)
			var seenFacts []string
			for _, f := range facts {
				if f.kind != "LE" && f.kind != "LT" {
					continue
				}
				slack := int64(0)
				if f.kind == "LT" {
					slack = -1
				}
				// a - b <= slack
				for _, la := range linOf(c, f.a, 0) {
					for _, lb := range linOf(c, f.b, 0) {
						d := la.add(lb, -1)
						var cnt *ssa.Phi
						for v := range d.coef {
							if ph, ok := v.(*ssa.Phi); ok && counters[ph] {
								cnt = ph
							}
						}
						if cnt == nil {
							continue
						}
						switch {
						case len(d.coef) == 1 && d.coef[cnt] == -1:
							// -cnt + k <= slack  ->  cnt >= k - slack
							minA = d.k - slack
							seenFacts = append(seenFacts, fmt.Sprintf("%s >= %d", cnt.Comment, minA))
						case len(d.coef) == 2 && d.coef[cnt] == -1:
							// other - cnt + k <= slack  ->  other <= cnt - (k - slack)
							offK = d.k - slack
							seenFacts = append(seenFacts, fmt.Sprintf("<last byte> <= %s - %d", cnt.Comment, offK))
						}
					}
				}
			}
			where := "in the loop head (counter = completed rounds)"
			if adj == 1 {
				where = "after the round's work (counter = completed rounds - 1)"
			}
			switch {
			case minA < 0 || offK < 0:
				r.Bad("C24.R2", fid, construct, pos, "UNDECIDED: the loop is left here without both a lower bound of the round counter and a comparison of a byte with counter - constant on the path ("+strings.Join(seenFacts, ", ")+"): the termination rule of Algorithm 2.B cannot be read off")
			case minA+adj != 64 || offK+adj != 32:
				r.Bad("C24.R2", fid, construct, pos, fmt.Sprintf("the loop is left when %s, tested %s: in completed rounds n that is n >= %d and last <= n - %d, Algorithm 2.B says n >= 64 and last <= n - 32 — for some E the hash takes a different number of rounds than every other implementation, and the file key differs", strings.Join(seenFacts, " and "), where, minA+adj, offK+adj))
			default:
				r.OK("C24.R2", fid, construct, pos, fmt.Sprintf("left when %s, tested %s: n >= 64 and last <= n - 32", strings.Join(seenFacts, " and "), where), true)
			}
		}
	}
	if n == 0 {
		r.Bad("C24.R2", fid, "round loop", p.Pos(fn.Pos()), "UNDECIDED: the round loop has no exit to a successful return")
	}
}

// ---------------- C24.R3 (round 3 seed C24-D): the /ID element is hashed by value ----------------

// checkIDUnescaped: Algorithm 2 step e and Algorithm 5 hash "the first element of the file identifier array", a
// string object's value. XRefTable.IDFirstElement is the one function the key derivation obtains it from. For a
// literal string the file holds the escaped form, so every []byte it returns that derives from a StringLiteral
// must be a result of types.Unescape; the raw Value() converted to bytes is the value only when the ID has no
// byte that needs escaping (1 in 256 per byte for '(' ')' '\', so 16-byte IDs of other producers often do).
func checkIDUnescaped(c *Ctx) {
	p, r := c.P, c.R
	const fid = "pkg/pdfcpu/model.(*XRefTable).IDFirstElement"
	fn := p.Func(fid)
	if fn == nil {
		r.Bad("C24.R3", fid, "anchor", "", "UNRESOLVED-ANCHOR")
		return
	}
	n := 0
	for _, ret := range returnsOf(fn) {
		if len(ret.Results) == 0 {
			continue
		}
		for _, leaf := range valueLeaves(ret.Results[0]) {
			if isNilConst(leaf) {
				continue
			}
			n++
			construct := fmt.Sprintf("returned bytes#%d", n)
			pos := posOrFn(p, ret, fn)
			// follow extracts/conversions to the producing call
			v := leaf
			for {
				switch x := v.(type) {
				case *ssa.Extract:
					v = x.Tuple
					continue
				case *ssa.ChangeType:
					v = x.X
					continue
				}
				break
			}
			switch x := v.(type) {
			case *ssa.Call:
				_, ref := callRef(x)
				switch {
				case strings.HasSuffix(ref, "types.Unescape"):
					r.OK("C24.R3", fid, construct, pos, "result of types.Unescape", true)
				case strings.HasSuffix(ref, "HexLiteral.Bytes"):
					r.OK("C24.R3", fid, construct, pos, "decoded bytes of a hex string", true)
				default:
					r.Bad("C24.R3", fid, construct, pos, "the ID bytes come from "+ref+", not from types.Unescape or HexLiteral.Bytes: the key derivation must hash the ID string's value")
				}
			case *ssa.Convert:
				r.Bad("C24.R3", fid, construct, pos, "the ID bytes are the literal string's escaped source form converted to []byte: an ID with an escaped parenthesis or backslash (any producer's random 16 bytes may have one) is hashed with the escape characters in it, the derived key differs from every other reader's and the document does not open")
			default:
				r.Bad("C24.R3", fid, construct, pos, "UNDECIDED: cannot see where the returned ID bytes come from ("+exprName(leaf)+")")
			}
		}
	}
	if n == 0 {
		r.Bad("C24.R3", fid, "returned bytes", p.Pos(fn.Pos()), "UNDECIDED: IDFirstElement returns no bytes")
	}
}

// ---------------- C24.R4 (round 4 seed C24-F): SASLprep first, then the 127-byte cut ----------------

func callsProcessInput(fn *ssa.Function) bool {
	found := false
	eachInstr(fn, func(_ *ssa.BasicBlock, _ int, i ssa.Instruction) {
		if call, ok := i.(*ssa.Call); ok {
			if f := staticCallee(call); f != nil && f.Name() == "processInput" {
				found = true
			}
		}
	})
	return found
}

// checkPasswordCutAfterSASLprep: Algorithm 2.A: "convert the password to UTF-8 after SASLprep … truncate to 127
// bytes". Normalisation changes lengths (NFKC composes and decomposes), so the order matters for every non-ASCII
// password near the limit. For each validator, in it or in the one helper through which it reaches processInput:
// every [:127] cut has an operand that derives from processInput's result, and processInput is not handed a value
// that was cut.
func checkPasswordCutAfterSASLprep(c *Ctx) {
	p, r := c.P, c.R
	for _, fid := range []string{"pkg/pdfcpu.validateUserPasswordAES256", "pkg/pdfcpu.validateOwnerPasswordAES256", "pkg/pdfcpu.validateUserPasswordAES256Rev6", "pkg/pdfcpu.validateOwnerPasswordAES256Rev6"} {
		fn := p.Func(fid)
		if fn == nil {
			r.Bad("C24.R4", fid, "anchor", "", "UNRESOLVED-ANCHOR")
			continue
		}
		scope := []*ssa.Function{fn}
		eachInstr(fn, func(_ *ssa.BasicBlock, _ int, i ssa.Instruction) {
			if call, ok := i.(*ssa.Call); ok {
				if f := staticCallee(call); f != nil && f.Pkg == fn.Pkg && f.Name() != "processInput" && len(f.Blocks) > 0 && callsProcessInput(f) {
					scope = append(scope, f)
				}
			}
		})
		var bad []string
		cuts, norms := 0, 0
		var pos token.Pos = fn.Pos()
		for _, f := range scope {
			eachInstr(f, func(_ *ssa.BasicBlock, _ int, i ssa.Instruction) {
				switch x := i.(type) {
				case *ssa.Slice:
					if x.High == nil {
						return
					}
					if k, ok := constInt(x.High); !ok || k != 127 {
						return
					}
					cuts++
					fromNorm := false
					for _, l := range valueLeaves(x.X) {
						if ex, ok := l.(*ssa.Extract); ok {
							if call, ok := ex.Tuple.(*ssa.Call); ok {
								if g := staticCallee(call); g != nil && (g.Name() == "processInput" || (g.Pkg == fn.Pkg && callsProcessInput(g))) {
									fromNorm = true
								}
							}
						}
					}
					if !fromNorm {
						pos = x.Pos()
						bad = append(bad, "the [:127] cut in "+f.Name()+" is applied to a value that is not the SASLprep result")
					}
				case *ssa.Call:
					if g := staticCallee(x); g == nil || g.Name() != "processInput" || len(x.Call.Args) != 1 {
						return
					}
					norms++
					for _, l := range valueLeaves(x.Call.Args[0]) {
						if sl, ok := l.(*ssa.Slice); ok && sl.High != nil {
							pos = x.Pos()
							bad = append(bad, "processInput in "+f.Name()+" is handed a value that was already cut")
						}
					}
				}
			})
		}
		switch {
		case cuts == 0 || norms == 0:
			r.Bad("C24.R4", fid, "SASLprep before the cut", p.Pos(fn.Pos()), fmt.Sprintf("UNDECIDED: %d cuts at 127 and %d SASLprep calls found in the validator and its preparation helper", cuts, norms))
		case len(bad) > 0:
			r.Bad("C24.R4", fid, "SASLprep before the cut", p.Pos(pos), strings.Join(bad, "; ")+": Algorithm 2.A normalises the password and truncates the UTF-8 result to 127 bytes — with the order reversed a long password with composed or compatibility characters hashes to another value than in every conforming implementation and the document's own correct password is rejected")
		default:
			r.OK("C24.R4", fid, "SASLprep before the cut", p.Pos(fn.Pos()), "the value cut at 127 is processInput's result; processInput receives the uncut password", true)
		}
	}
}

// ---------------- C24.R5 (round 4 seed C24-E): the permanent file identifier stays what was read ----------------

// checkPermanentIDKept: for revisions 2–4 the file key, /U and /O are functions of the first /ID element
// (Algorithms 2 and 5). pdfcpu derives the key from the ID it read and writes the encryption dictionary it read, so
// the first element has to reach the output unchanged. In every function of pkg/pdfcpu and pkg/api that holds the
// document's ID (a value loaded from the ID field of the cross-reference table / context):
//   * no store goes through index 0 of it (the store through index 1 in ensureFileID — the changing identifier —
//     is the positive instance that shows such stores are seen), and
//   * the field as a whole is assigned only where nothing was there: behind ID == nil, or in the reader.
func checkPermanentIDKept(c *Ctx) {
	p, r := c.P, c.R
	isIDArray := func(v ssa.Value) bool {
		for _, l := range valueLeaves(v) {
			fp := fieldPath(l)
			if strings.HasSuffix(fp, ".ID") || fp == "ID" {
				if strings.HasSuffix(types.Unalias(l.Type()).String(), "types.Array") {
					return true
				}
			}
		}
		return false
	}
	idx0, idx1, whole := 0, 0, 0
	for _, fn := range p.Funcs {
		if !isSubject(fn) || fn.Pkg == nil {
			continue
		}
		pp := fn.Pkg.Pkg.Path()
		if pp != modPath+"/pkg/pdfcpu" && pp != modPath+"/pkg/api" && pp != modPath+"/pkg/pdfcpu/model" {
			continue
		}
		// edges on which the ID field is nil
		var nilEdges []Edge
		eachInstr(fn, func(_ *ssa.BasicBlock, _ int, i ssa.Instruction) {
			bo, ok := i.(*ssa.BinOp)
			if !ok || (bo.Op != token.EQL && bo.Op != token.NEQ) {
				return
			}
			var other ssa.Value
			switch {
			case isNilConst(bo.Y):
				other = bo.X
			case isNilConst(bo.X):
				other = bo.Y
			default:
				return
			}
			if isIDArray(other) {
				nilEdges = append(nilEdges, condEdges(bo, bo.Op == token.EQL)...)
			}
		})
		k := 0
		eachInstr(fn, func(b *ssa.BasicBlock, _ int, i ssa.Instruction) {
			st, ok := i.(*ssa.Store)
			if !ok {
				return
			}
			switch a := st.Addr.(type) {
			case *ssa.IndexAddr:
				if !isIDArray(a.X) {
					return
				}
				n, isC := constInt(a.Index)
				k++
				construct := fmt.Sprintf("store into the ID array#%d", k)
				switch {
				case isC && n == 1:
					idx1++
					r.OK("C24.R5", FuncID(fn), construct, p.Pos(st.Pos()), "the second (changing) identifier is replaced", true)
				default:
					idx0++
					r.Bad("C24.R5", FuncID(fn), construct, p.Pos(st.Pos()), "the first element of an existing /ID array is overwritten: for encryption revisions 2–4 the key, /U and /O that are written were derived from the identifier that was read, so the output opens with no password in any reader (pdfcpu included)")
				}
			case *ssa.FieldAddr:
				f := structField(a.X.Type(), a.Field)
				if f == nil || f.Name() != "ID" || !strings.HasSuffix(types.Unalias(f.Type()).String(), "types.Array") {
					return
				}
				if strings.HasSuffix(p.File(fn.Pos()), "pkg/pdfcpu/read.go") || strings.Contains(fn.Name(), "reate") {
					return // the reader fills the field from the trailer; constructors of new documents
				}
				k++
				whole++
				construct := fmt.Sprintf("assignment of the ID field#%d", k)
				behind := false
				for _, e := range nilEdges {
					if edgeDominates(e, b) {
						behind = true
					}
				}
				if behind {
					r.OK("C24.R5", FuncID(fn), construct, p.Pos(st.Pos()), "behind ID == nil: there was no identifier", true)
				} else {
					r.Bad("C24.R5", FuncID(fn), construct, p.Pos(st.Pos()), "the document's /ID array is replaced as a whole on a path where one may exist: the first element does not reach the output unchanged")
				}
			}
		})
	}
	if idx1 == 0 {
		r.Bad("C24.R5", "pkg/pdfcpu.ensureFileID", "anchor", "", "UNRESOLVED-ANCHOR: no store into the second element of the ID array found (the positive instance of this rule)")
	}
	_ = idx0
	_ = whole
}

// ---------------- C24.R6 (round 4 seed C24-G): each hash input is built on its own storage ----------------

// checkHashInputsNotAliased: Algorithms 11/12 hash "password ‖ validation salt" and "password ‖ key salt". In Go,
// append(pw, salt...) writes into pw's spare capacity when there is some, so two appends on the same base slice share
// storage and the second overwrites the salt of the first. In the four AES-256 validators no slice value is the first
// argument of more than one append call unless it is a fresh empty literal ([]byte{} / make with length 0 / nil).
func checkHashInputsNotAliased(c *Ctx) {
	p, r := c.P, c.R
	for _, fid := range []string{"pkg/pdfcpu.validateUserPasswordAES256", "pkg/pdfcpu.validateOwnerPasswordAES256", "pkg/pdfcpu.validateUserPasswordAES256Rev6", "pkg/pdfcpu.validateOwnerPasswordAES256Rev6"} {
		fn := p.Func(fid)
		if fn == nil {
			r.Bad("C24.R6", fid, "anchor", "", "UNRESOLVED-ANCHOR")
			continue
		}
		bases := map[ssa.Value][]*ssa.Call{}
		eachInstr(fn, func(_ *ssa.BasicBlock, _ int, i ssa.Instruction) {
			call, ok := i.(*ssa.Call)
			if !ok {
				return
			}
			if b, ok := call.Call.Value.(*ssa.Builtin); !ok || b.Name() != "append" || len(call.Call.Args) == 0 {
				return
			}
			base := call.Call.Args[0]
			switch x := base.(type) {
			case *ssa.Const:
				return // nil
			case *ssa.Slice:
				if _, isAlloc := x.X.(*ssa.Alloc); isAlloc {
					return // a fresh literal
				}
			case *ssa.MakeSlice:
				return
			}
			bases[base] = append(bases[base], call)
		})
		// the value chain of an append: its result and the appends built on it
		chainOf := func(c0 *ssa.Call) map[ssa.Value]bool {
			ch := map[ssa.Value]bool{c0: true}
			for changed := true; changed; {
				changed = false
				for v := range ch {
					if v.Referrers() == nil {
						continue
					}
					for _, rf := range *v.Referrers() {
						switch x := rf.(type) {
						case *ssa.Call:
							if b, ok := x.Call.Value.(*ssa.Builtin); ok && b.Name() == "append" && len(x.Call.Args) > 0 && x.Call.Args[0] == v && !ch[x] {
								ch[x] = true
								changed = true
							}
						case *ssa.Phi:
							if !ch[x] {
								ch[x] = true
								changed = true
							}
						}
					}
				}
			}
			return ch
		}
		after := func(i ssa.Instruction, c2 *ssa.Call) bool {
			if i.Block() == c2.Block() {
				pi, pc := -1, -1
				for k, in := range i.Block().Instrs {
					if in == i {
						pi = k
					}
					if in == ssa.Instruction(c2) {
						pc = k
					}
				}
				return pi > pc
			}
			return c2.Block().Dominates(i.Block())
		}
		liveAcross := func(calls []*ssa.Call) bool {
			for _, c1 := range calls {
				for _, c2 := range calls {
					if c1 == c2 {
						continue
					}
					for v := range chainOf(c1) {
						if v.Referrers() == nil {
							continue
						}
						for _, rf := range *v.Referrers() {
							if rf == ssa.Instruction(c2) {
								continue
							}
							if _, isDbg := rf.(*ssa.DebugRef); isDbg {
								continue
							}
							if after(rf, c2) && !after(ssa.Instruction(c1), c2) {
								return true
							}
						}
					}
				}
			}
			return false
		}
		bad := false
		for base, calls := range bases {
			if len(calls) > 1 && liveAcross(calls) {
				bad = true
				r.Bad("C24.R6", fid, "hash inputs built on their own storage", p.Pos(calls[1].Pos()), "the slice "+exprName(base)+" is the base of "+fmt.Sprint(len(calls))+" append calls: when it has spare capacity the appends share storage and the later salt overwrites the earlier one — the validation hash is then computed over the key salt and the correct password is rejected for some password lengths")
			}
		}
		if !bad {
			r.OK("C24.R6", fid, "hash inputs built on their own storage", p.Pos(fn.Pos()), "no slice is the base of two appends whose results are alive at the same time", true)
		}
	}
}
