package main

import (
	"go/types"
	"fmt"
	"go/constant"
	"strings"

	"golang.org/x/tools/go/ssa"
)

// C41 — CLI streams and machine-readable output (partial).

func init() {
	register(&Check{
		ID:  "C41",
		Run: runC41,
		Explanation: "Decides the stream discipline of the CLI: (R1 who-may-write stdout) writes to standard output — fmt.Print/Printf/Println, fmt.Fprint*(os.Stdout, …), os.Stdout.Write*, os.Stdout passed as a writer, log.New(os.Stdout, …) — occur only in the functions of the stdout table (cmd/pdfcpu result printing, the pkg/cli document writers that implement outFile \"-\", informational config/version commands) and in debug dumps proven unreachable from every exported pkg/api / pkg/cli entry point; everything the library logs goes through pkg/log loggers, whose default constructors write to os.Stderr; (R2 exit status) cmd/pdfcpu main exits with a non-zero constant whenever Execute() returns an error, every cobra command registers RunE (no Run), cli.Dispatch turns a panic into a returned error (its deferred closure stores into the error result); (R3 stdin integrity) readSeekerFromStdin reports success only if io.Copy from os.Stdin returned a nil error and at least one byte (a read fault after a partial read must not be treated as end of input), and streamInOutForOperation silences the CLI logger (log.SetCLILogger(nil)) on every path that hands out os.Stdout as the document writer. (R4 error accumulators) a handler that collects per-input errors in a slice returns, on every path after the first collection, either their join or a value reached only over the edge where the join was nil (a command that prints a partial JSON and exits 0 although an input failed is reported). (R5 stream/file siblings) in every exported pkg/cli handler that calls both a path-taking pkg/api function and a reader/writer-taking one (closures and unexported helpers folded in), each stream-side api function is reached inside pkg/api from one of the handler's file-side api functions, and each file-side function that wraps a stream api function has one of those called on the stream side: the file branch is a wrapper around the stream branch in all 60+ handlers of the pinned tree, and a handler whose '-' branch runs a different operation is reported by call site (one known finding: merge with '-' among the inputs runs api.MergeRaw). (R6) in every pkg/cli function with a bool parameter json, a return that hands back output lines lies behind a test of that parameter or forwards the result of a callee that receives the flag; (R7) len() of a types.IntSet page selection is compared with 0 or used as a capacity only: the set also holds deselected pages, so its length is not a page count (the stdout variant of extract -m page counts the true entries, like the file variant). NOT decided: byte-equality of stream and file output beyond 'same operation', JSON validity of what is printed.",
		Rules: []string{
			"C41.R1 WMC: standard output writers",
			"C41.R2 MPT/shape: failing commands exit non-zero; panics become errors",
			"C41.R4 flow: per-input errors collected by a handler reach its returned error on every path",
			"C41.R3 MPT: stdin read errors are fatal; logger silenced when stdout carries the document",
			"C41.R5 siblings: the stream branch and the file branch of a handler run the same pkg/api operation",
			"C41.R6 MPT: in a handler with a json flag, output lines are returned only behind a test of the flag",
			"C41.R8 dominance: the overwrite guards of cmd/pdfcpu never look the name \"-\" up in the file system",
			"C41.R9 flow: no reader interface in pkg/cli is built from a *os.File that can be nil",
			"C41.R7 shape: the length of a page selection set is used for emptiness tests and capacity hints only",
		},
		Assumptions: []string{"cobra calls RunE and hands its error to Execute's caller"},
		Technique:   "who-may-call table with call-graph reachability for debug helpers; must-pass-through dataflow on error nil-edges; AST/SSA shape checks of command registration; sibling cross-check of stream/file branches over the pkg/api call graph",
		Note:        "Partial.",
	})
}

var c41StdoutAllowed = map[string]string{
	"cmd/pdfcpu.":     "the CLI front end prints command results (runCommand and friends) and usage/version text",
	"pkg/cli.":        "pkg/cli implements outFile \"-\": document/JSON bytes go to os.Stdout by design",
	"cmd/pdfcpu/test": "test helper package",
	"pkg/pdfcpu/model.(*XRefTable).DumpObject": "implements the CLI `dump` command, whose whole output is the object printed on stdout",
}

func isStdout(v ssa.Value) bool {
	for i := 0; i < 4 && v != nil; i++ {
		switch x := v.(type) {
		case *ssa.UnOp:
			if g, ok := x.X.(*ssa.Global); ok {
				return g.Pkg != nil && g.Pkg.Pkg.Path() == "os" && g.Name() == "Stdout"
			}
			return false
		case *ssa.MakeInterface:
			v = x.X
		case *ssa.ChangeInterface:
			v = x.X
		default:
			return false
		}
	}
	return false
}

func runC41(c *Ctx) {
	p, r := c.P, c.R
	r.MinInst["C41.R1"] = 5
	r.MinInst["C41.R2"] = 3
	r.MinInst["C41.R3"] = 2
	r.MinInst["C41.R4"] = 1
	checkErrorAccumulators(c)
	r.MinInst["C41.R5"] = 100
	checkStreamFileSiblings(c)
	r.MinInst["C41.R6"] = 4
	checkJSONFormatDecidedFirst(c)
	r.MinInst["C41.R7"] = 8
	r.MinInst["C41.R8"] = 2
	checkDashNeverAPath(c)
	r.MinInst["C41.R9"] = 1
	checkNoTypedNilReader(c)
	checkSelectionSetLength(c)
	// reachability from exported api/cli entry points (for debug dumps)
	var roots []*ssa.Function
	for _, fn := range p.Funcs {
		if fn.Parent() == nil && fn.Object() != nil && fn.Object().Exported() {
			id := FuncID(fn)
			if strings.HasPrefix(id, "pkg/api.") || strings.HasPrefix(id, "pkg/cli.") || strings.HasPrefix(id, "cmd/pdfcpu.") {
				roots = append(roots, fn)
			}
		}
		if FuncID(fn) == "cmd/pdfcpu.main" {
			roots = append(roots, fn)
		}
	}
	reach := c.CG().Reachable(roots)
	for _, fn := range p.Funcs {
		fid := FuncID(fn)
		fn := fn
		k := 0
		eachInstr(fn, func(_ *ssa.BasicBlock, _ int, i ssa.Instruction) {
			call, ok := i.(ssa.CallInstruction)
			what := ""
			if ok {
				_, ref := callRef(i)
				switch ref {
				case "fmt.Print", "fmt.Printf", "fmt.Println":
					what = ref
				case "fmt.Fprint", "fmt.Fprintf", "fmt.Fprintln", "io.WriteString", "io.Copy", "log.New", "bufio.NewWriter", "encoding/json.NewEncoder":
					if len(call.Common().Args) > 0 && isStdout(call.Common().Args[0]) {
						what = ref + "(os.Stdout, …)"
					}
				default:
					if strings.HasPrefix(ref, "os.File.Write") && len(call.Common().Args) > 0 && isStdout(call.Common().Args[0]) {
						what = ref + " on os.Stdout"
					} else {
						for _, a := range call.Common().Args {
							if isStdout(a) {
								what = "os.Stdout passed to " + ref
							}
						}
					}
				}
			}
			if st, isSt := i.(*ssa.Store); isSt && isStdout(st.Val) {
				what = "os.Stdout stored"
			}
			if ret, isRet := i.(*ssa.Return); isRet {
				for _, res := range ret.Results {
					if isStdout(res) {
						what = "os.Stdout returned as writer"
					}
				}
			}
			if what == "" {
				return
			}
			k++
			construct := fmt.Sprintf("%s#%d", what, k)
			for pre, why := range c41StdoutAllowed {
				if strings.HasPrefix(fid, pre) {
					r.OK("C41.R1", fid, construct, p.Pos(i.Pos()), "allowed: "+why, false)
					return
				}
			}
			if !reach[rootFunc(fn)] && !reach[fn] {
				r.OK("C41.R1", fid, construct, p.Pos(i.Pos()), "debug helper not reachable from any exported pkg/api, pkg/cli or cmd entry point (call graph)", true)
				return
			}
			r.Bad("C41.R1", fid, construct, p.Pos(i.Pos()), "library code reachable from the CLI writes to standard output ("+what+"): with outFile \"-\" or --json this text is mixed into the document / JSON on stdout; use the pkg/log loggers (stderr)")
		})
	}
	// default loggers write to stderr
	nlog := 0
	for _, fn := range p.Funcs {
		fid := FuncID(fn)
		if !strings.HasPrefix(fid, "pkg/log.") {
			continue
		}
		eachInstr(fn, func(_ *ssa.BasicBlock, _ int, i ssa.Instruction) {
			call, ok := i.(*ssa.Call)
			if !ok {
				return
			}
			if _, ref := callRef(call); ref != "log.New" {
				return
			}
			nlog++
			a := call.Call.Args[0]
			isErr := false
			for v, j := a, 0; j < 4 && v != nil; j++ {
				switch x := v.(type) {
				case *ssa.MakeInterface:
					v = x.X
					continue
				case *ssa.UnOp:
					if g, ok := x.X.(*ssa.Global); ok && g.Name() == "Stderr" {
						isErr = true
					}
				}
				break
			}
			if isErr {
				r.OK("C41.R1", fid, fmt.Sprintf("log.New#%d", nlog), p.Pos(call.Pos()), "default logger writes to os.Stderr", false)
			} else {
				r.Bad("C41.R1", fid, fmt.Sprintf("log.New#%d", nlog), p.Pos(call.Pos()), "a default logger is not constructed on os.Stderr")
			}
		})
	}
	// ---- R2
	if fn := p.Func("cmd/pdfcpu.main"); fn == nil {
		r.Bad("C41.R2", "cmd/pdfcpu.main", "anchor", "", "UNRESOLVED-ANCHOR")
	} else {
		// Execute()'s error non-nil edge reaches os.Exit(nonzero)
		okExit := false
		eachInstr(fn, func(_ *ssa.BasicBlock, _ int, i ssa.Instruction) {
			call, ok := i.(*ssa.Call)
			if !ok {
				return
			}
			if !isErrorType(call.Type()) {
				return
			}
			for _, e := range nilCheckEdges(call, false) {
				tgt := e.From.Succs[e.Succ]
				for _, b := range reachableWithin(tgt, func(x *ssa.BasicBlock) bool { return x == tgt || tgt.Dominates(x) }) {
					for _, in := range b.Instrs {
						if ec, ok := in.(*ssa.Call); ok {
							if _, ref := callRef(ec); ref == "os.Exit" {
								if cst, ok := ec.Call.Args[0].(*ssa.Const); ok && cst.Value != nil && cst.Value.Kind() == constant.Int {
									if n, _ := constant.Int64Val(cst.Value); n != 0 {
										okExit = true
									}
								}
							}
						}
					}
				}
			}
		})
		if okExit {
			r.OK("C41.R2", FuncID(fn), "exit-status", p.Pos(fn.Pos()), "a non-nil error from Execute leads to os.Exit with a non-zero constant", true)
		} else {
			r.Bad("C41.R2", FuncID(fn), "exit-status", p.Pos(fn.Pos()), "main does not exit with a non-zero status when the command returns an error")
		}
	}
	// RunE vs Run in cobra.Command literals
	nRunE, nRun := 0, 0
	for _, fn := range p.Funcs {
		if !strings.HasPrefix(FuncID(fn), "cmd/pdfcpu.") {
			continue
		}
		eachInstr(fn, func(_ *ssa.BasicBlock, _ int, i ssa.Instruction) {
			st, ok := i.(*ssa.Store)
			if !ok {
				return
			}
			fa, ok := st.Addr.(*ssa.FieldAddr)
			if !ok || !strings.HasSuffix(strings.TrimPrefix(fa.X.Type().String(), "*"), "cobra.Command") {
				return
			}
			f := structField(fa.X.Type(), fa.Field)
			switch f.Name() {
			case "RunE":
				nRunE++
			case "Run", "PreRun", "PostRun", "PersistentPreRun", "PersistentPostRun":
				if !isNilConst(st.Val) {
					nRun++
					r.Bad("C41.R2", FuncID(fn), "cobra "+f.Name(), p.Pos(st.Pos()), "a cobra command uses "+f.Name()+" (no error result): a failure inside it cannot reach main's exit status")
				}
			}
		})
	}
	if nRunE > 0 && nRun == 0 {
		r.OK("C41.R2", "cmd/pdfcpu", "cobra RunE", "", fmt.Sprintf("%d commands registered with RunE, none with Run", nRunE), true)
	} else if nRunE == 0 {
		r.Bad("C41.R2", "cmd/pdfcpu", "cobra RunE", "", "UNRESOLVED-ANCHOR: no cobra RunE registration found")
	}
	// Dispatch converts panics
	if fn := p.Func("pkg/cli.Dispatch"); fn == nil {
		r.Bad("C41.R2", "pkg/cli.Dispatch", "anchor", "", "UNRESOLVED-ANCHOR")
	} else {
		rec := false
		for _, cl := range closuresOf(fn) {
			hasRecover, storesErr := false, false
			eachInstr(cl, func(_ *ssa.BasicBlock, _ int, i ssa.Instruction) {
				if call, ok := i.(*ssa.Call); ok {
					if bi, ok := call.Call.Value.(*ssa.Builtin); ok && bi.Name() == "recover" {
						hasRecover = true
					}
				}
				if st, ok := i.(*ssa.Store); ok {
					if fv, ok := st.Addr.(*ssa.FreeVar); ok && strings.HasSuffix(fv.Type().String(), "*error") {
						storesErr = true
					}
				}
			})
			if hasRecover && storesErr {
				rec = true
			}
		}
		if rec {
			r.OK("C41.R2", FuncID(fn), "panic-to-error", p.Pos(fn.Pos()), "a deferred closure recovers and stores into the error result", true)
		} else {
			r.Bad("C41.R2", FuncID(fn), "panic-to-error", p.Pos(fn.Pos()), "cli.Dispatch no longer converts a panic into a returned error: a crashing command would not produce a clean non-zero exit")
		}
	}
	// ---- R3
	if fn := p.Func("pkg/cli.readSeekerFromStdin"); fn == nil {
		r.Bad("C41.R3", "pkg/cli.readSeekerFromStdin", "anchor", "", "UNRESOLVED-ANCHOR")
	} else {
		runFlowRuleOn(c, FlowRule{
			ID:  "C41.R3",
			Gen: []GenSpec{{Fact: "stdin-read-ok", On: Pred{Calls: []string{"io.Copy"}}}},
			Need: []NeedSpec{{Fact: "stdin-read-ok", At: Pred{NilReturn: true}, Why: "readSeekerFromStdin can succeed although io.Copy from standard input returned an error: a read fault after a partial read would be treated as end of input and a truncated document processed (and published) with exit status 0"}},
		}, fn)
	}
	if fn := p.Func("pkg/cli.streamInOutForOperation"); fn == nil {
		r.Bad("C41.R3", "pkg/cli.streamInOutForOperation", "anchor", "", "UNRESOLVED-ANCHOR")
	} else {
		genI := map[ssa.Instruction]bool{}
		eachInstr(fn, func(_ *ssa.BasicBlock, _ int, i ssa.Instruction) {
			if call, ok := i.(*ssa.Call); ok {
				if _, ref := callRef(call); ref == "pkg/log.SetCLILogger" && isNilConst(call.Call.Args[0]) {
					genI[i] = true
				}
			}
		})
		ff := NewFactFlow(fn, func(i ssa.Instruction) []string {
			if genI[i] {
				return []string{"logger-silenced"}
			}
			return nil
		}, nil, nil, nil)
		n, bad := 0, false
		for _, ret := range returnsOf(fn) {
			for _, res := range ret.Results {
				if isStdout(res) {
					n++
					if !ff.Holds(ret, "logger-silenced") {
						bad = true
					}
				}
			}
		}
		switch {
		case n == 0:
			r.Bad("C41.R3", FuncID(fn), "stdout-return", p.Pos(fn.Pos()), "UNRESOLVED-ANCHOR: no return handing out os.Stdout found")
		case bad:
			r.Bad("C41.R3", FuncID(fn), "logger-silenced", p.Pos(fn.Pos()), "os.Stdout is handed out as the document writer without log.SetCLILogger(nil): progress messages would be mixed into the document on stdout")
		default:
			r.OK("C41.R3", FuncID(fn), "logger-silenced", p.Pos(fn.Pos()), "every path returning os.Stdout as writer has silenced the CLI logger", true)
		}
	}
}

// ---------------- C41.R4 (round 2 of seeding): collected per-input errors reach the exit status ----------------
//
// A CLI handler that keeps going after a failing input collects the errors in a local []error. After the first append, every
// return must either return an error that depends on errors.Join(thatSlice...) or lie on the edge where the joined error was
// tested nil: returning the partial result with a nil error (e.g. only in --json mode) makes a failing command exit 0.
func checkErrorAccumulators(c *Ctx) {
	p, r := c.P, c.R
	n := 0
	for _, fn := range p.Funcs {
		fid := FuncID(fn)
		if !strings.HasPrefix(fid, "pkg/cli.") && !strings.HasPrefix(fid, "cmd/pdfcpu.") {
			continue
		}
		if !isErrorResult(fn) {
			continue
		}
		fn := fn
		// accumulator cells: local []error values that are appended to
		type acc struct {
			appends []*ssa.Call
			joins   []*ssa.Call
		}
		accs := map[string]*acc{}
		keyOf := func(v ssa.Value) string {
			// the variable behind an SSA value: phi comment / alloc name
			switch x := v.(type) {
			case *ssa.Phi:
				return x.Comment
			case *ssa.UnOp:
				return accessPath(x)
			}
			return ""
		}
		eachInstr(fn, func(_ *ssa.BasicBlock, _ int, i ssa.Instruction) {
			call, ok := i.(*ssa.Call)
			if !ok {
				return
			}
			if b, ok := call.Call.Value.(*ssa.Builtin); ok && b.Name() == "append" {
				sl, ok := call.Type().Underlying().(*types.Slice)
				if !ok || !isErrorType(sl.Elem()) {
					return
				}
				k := ""
				// name of the variable the result is assigned to: the phi it feeds, or the stored cell
				for _, rf := range *call.Referrers() {
					if phi, ok := rf.(*ssa.Phi); ok && phi.Comment != "" {
						k = phi.Comment
					}
					if st, ok := rf.(*ssa.Store); ok {
						k = accessPath(st.Addr)
					}
				}
				if k == "" {
					k = keyOf(call.Call.Args[0])
				}
				if k == "" {
					return
				}
				if accs[k] == nil {
					accs[k] = &acc{}
				}
				accs[k].appends = append(accs[k].appends, call)
			}
		})
		if len(accs) == 0 {
			continue
		}
		eachInstr(fn, func(_ *ssa.BasicBlock, _ int, i ssa.Instruction) {
			call, ok := i.(*ssa.Call)
			if !ok {
				return
			}
			if _, ref := callRef(call); ref != "errors.Join" || len(call.Call.Args) != 1 {
				return
			}
			k := keyOf(call.Call.Args[0])
			if a := accs[k]; a != nil {
				a.joins = append(a.joins, call)
			}
		})
		for k, a := range accs {
			n++
			construct := "error accumulator " + k
			pos := p.Pos(a.appends[0].Pos())
			if len(a.joins) == 0 {
				r.Bad("C41.R4", fid, construct, pos, "errors are collected in "+k+" but never joined into the returned error: a failing input does not make the command fail")
				continue
			}
			after := map[*ssa.BasicBlock]bool{}
			for _, ap := range a.appends {
				after[ap.Block()] = true
				for b := range reachableBlocks(ap.Block()) {
					after[b] = true
				}
			}
			bad := ""
			for _, ret := range returnsOf(fn) {
				if !after[ret.Block()] {
					continue
				}
				ok := false
				for _, j := range a.joins {
					for _, rv := range ret.Results {
						if isErrorType(rv.Type()) && errDependsOn(rv, j, 0, map[ssa.Value]bool{}) {
							ok = true
						}
					}
					for _, e := range nilCheckEdges(j, true) {
						if edgeDominates(e, ret.Block()) {
							ok = true
						}
					}
				}
				if kind, has := returnErrKind(ret); has && kind == errNonNil {
					ok = true
				}
				// a return of some other error on the edge where that error is non-nil fails the command as well
				for _, rv := range ret.Results {
					if isErrorType(rv.Type()) {
						for _, e := range nilCheckEdges(rv, false) {
							if edgeDominates(e, ret.Block()) {
								ok = true
							}
						}
					}
				}
				if !ok {
					bad = posOrFn(p, ret, fn)
				}
			}
			if bad == "" {
				r.OK("C41.R4", fid, construct, pos, "every return after the first collected error returns errors.Join(…) of the collection or lies on its nil edge", true)
			} else {
				r.Bad("C41.R4", fid, construct, bad, "this return is reachable after per-input errors were collected in "+k+" but neither returns their join nor lies on the edge where the join was nil: the command prints a partial result and exits 0 although an input failed")
			}
		}
	}
	if n == 0 {
		r.Bad("C41.R4", "pkg/cli", "anchor", "", "UNRESOLVED-ANCHOR: no []error accumulator found in the CLI handlers")
	}
}
