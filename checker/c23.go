package main

import (
	"fmt"
	"go/constant"
	"go/token"
	"go/types"
	"sort"
	"strings"

	"golang.org/x/tools/go/ssa"
)

// C23 — encrypted output reveals no plaintext strings or stream data.

func init() {
	register(&Check{
		ID:  "C23",
		Run: runC23,
		Explanation: "Decides that every serialisation point of the PDF writer is preceded by the matching encryption step whenever an encryption key is set: (R1) every call of writeObject(ctx, n, g, s) in pkg/pdfcpu is classified by what s is serialised from — a Dict/Array (PDFString, sigDictPDFString): on every path from the function entry the call is preceded by the success edge of encryptDeepObject applied to that same value, or by the nil edge of ctx.EncKey; a StringLiteral/HexLiteral: s must be the PDFString of the result of encryptStringLiteral/encryptHexLiteral on the EncKey!=nil path; a Name/Boolean/Integer/Float/constant: exempt (no string content); the encryption dictionary writer: exempt by table; anything else (raw bytes of an undecoded object) is reported; (R1b) in writeStreamDictObject every path to writeStreamObject passes the success edge of encryptStream whose result is stored into sd.Raw (followed by the Length update), or one of exactly three skip edges: EncKey == nil, /Type /XRef, single Crypt filter; every caller of writeStreamDictObject is either writeDeepStreamDict (which must first pass encryptDeepObject on the stream dictionary value), or in the exempt table (xref stream — no strings by construction; object-stream container — its content is the diverted objects and is encrypted as a stream); (R2 TABLE) encryptDeepObject's type switch handles exactly the string-bearing kinds {StreamDict, Dict, Array, StringLiteral, HexLiteral}, every call site passes a value whose static type is one of the handled case types (a *StreamDict, which silently falls into the empty default, is rejected), the only non-encrypting exits are the IndirectRef early return and the default clause; encryptDict skips only /Contents of signature dictionaries. (R4 once) the writers that encrypt their object in place (writeDictObject, writeArrayObject, writeStreamDictObject, writeObjectGeneric) are reached only for an object number without a write offset (HasWriteOffset false edge, or a successful PageTreeVisit.Enter for the node entered in that function), directly or — computed as a greatest fixpoint over the call graph — because every caller of the enclosing function is; writers of objects created for this write are listed by table: an object written twice is encrypted twice, which under RC4 restores the plaintext in the copy the xref table points to. (R5) the object writers discard encryptDeepObject's result and serialise the container they passed in, so every store of a recursive call's result inside encryptDeepObject must go into the container that was handed in, not into a copy. NOT decided: cipher strength/correctness (C22/C24), that a run of ciphertext bytes cannot coincide with a plaintext string.",
		Rules: []string{
			"C23.R1 MPT: encrypt before serialise at every writeObject / writeStreamObject site",
			"C23.R2 TABLE: encryptDeepObject covers all string-bearing kinds; call-site argument types are handled kinds",
			"C23.R3 exempt writers table",
			"C23.R6 TABLE: the only dictionaries whose /Contents stays unencrypted are those with FT/Type Sig or DocTimeStamp",
			"C23.R5 contract: encryptDeepObject stores encrypted elements into the container it was handed (callers discard its result)",
			"C23.R4 once: in-place encrypting writers are reached only for objects without a write offset (an object encrypted twice with RC4 is plaintext again)",
		},
		Assumptions: []string{"objects diverted into object streams are protected by the container's stream encryption"},
		Technique:   "must-pass-through dataflow with success-edge and nil-key-edge facts keyed on SSA value identity; backward classification of the serialised string; type-switch table extraction and call-site static-type check",
		Note:        "A genuine violation on the pinned tree (writeLazyObjectStreamObject) is handled per known_findings.json / fix commit.",
	})
}

var c23ExemptWriters = map[string]string{
	"pkg/pdfcpu.writeEncryptDict": "the encryption dictionary itself is never encrypted (ISO 32000-1 7.6.1)",
}

var c23ExemptStreamCallers = map[string]string{
	"pkg/pdfcpu.writeXRefStream":  "cross-reference streams are never encrypted (ISO 32000-1 7.5.8.2) and contain no strings",
	"pkg/pdfcpu.stopObjectStream": "object-stream container: its dictionary has only /Type /N /First /Length /Filter; its data (the diverted objects) is encrypted as stream data inside writeStreamDictObject",
}

// serialisedFrom classifies string s handed to writeObject.
type serialKind struct {
	kind string    // "deep" (dict/array), "literal", "plain", "const", "unknown"
	val  ssa.Value // the object value serialised
	ser  *ssa.Call // the serialising call (PDFString / sigDictPDFString)
	desc string
}

func typeNameOf(t types.Type) string {
	t = types.Unalias(t)
	if p, ok := t.(*types.Pointer); ok {
		t = types.Unalias(p.Elem())
	}
	if n, ok := t.(*types.Named); ok {
		return n.Obj().Name()
	}
	return t.String()
}

func classifySerialised(s ssa.Value, depth int) serialKind {
	if depth > 6 {
		return serialKind{kind: "unknown", desc: "too deep"}
	}
	switch x := s.(type) {
	case *ssa.Const:
		return serialKind{kind: "const"}
	case *ssa.Phi:
		var out serialKind
		for i, e := range x.Edges {
			k := classifySerialised(e, depth+1)
			if i == 0 {
				out = k
				continue
			}
			if k.kind != out.kind || k.val != out.val {
				if k.kind == "deep" && out.kind == "deep" {
					continue
				}
				return serialKind{kind: "unknown", desc: "mixed origins"}
			}
		}
		return out
	case *ssa.UnOp:
		if x.Op == token.MUL {
			if tv := throughCell(x); tv != ssa.Value(x) {
				return classifySerialised(tv, depth+1)
			}
			// multiple stores: classify each
			if al, ok := cellRoot(x.X).(*ssa.Alloc); ok {
				var out serialKind
				n := 0
				for _, rf := range *al.Referrers() {
					if st, ok := rf.(*ssa.Store); ok && st.Addr == ssa.Value(al) {
						k := classifySerialised(st.Val, depth+1)
						if n > 0 && (k.kind != out.kind) {
							return serialKind{kind: "unknown", desc: "mixed origins"}
						}
						if n == 0 || k.val != nil {
							out = k
						}
						n++
					}
				}
				if n > 0 {
					return out
				}
			}
		}
	case *ssa.Call:
		_, ref := callRef(x)
		args := x.Call.Args
		switch {
		case strings.HasSuffix(ref, ".PDFString") || strings.HasSuffix(ref, ".String"):
			if len(args) == 0 {
				break
			}
			recv := args[0]
			switch typeNameOf(recv.Type()) {
			case "Dict", "Array", "StreamDict":
				return serialKind{kind: "deep", val: recv, ser: x, desc: typeNameOf(recv.Type())}
			case "StringLiteral", "HexLiteral":
				return serialKind{kind: "literal", val: recv, desc: typeNameOf(recv.Type())}
			case "Name", "Boolean", "Integer", "Float":
				return serialKind{kind: "plain", desc: typeNameOf(recv.Type())}
			}
			return serialKind{kind: "unknown", desc: "PDFString of " + typeNameOf(recv.Type())}
		case ref == "pkg/pdfcpu.sigDictPDFString":
			return serialKind{kind: "deep", val: args[1], ser: x, desc: "signature Dict"}
		}
		return serialKind{kind: "unknown", desc: "result of " + ref}
	case *ssa.Convert:
		return serialKind{kind: "unknown", desc: "string(" + x.X.Type().String() + ") — raw bytes"}
	}
	return serialKind{kind: "unknown", desc: fmt.Sprintf("%T", s)}
}

// encKeyNilEdges: edges of fn on which ctx.EncKey == nil is known.
func encKeyNilEdges(fn *ssa.Function) map[Edge]bool {
	out := map[Edge]bool{}
	eachInstr(fn, func(_ *ssa.BasicBlock, _ int, i ssa.Instruction) {
		ld, ok := i.(*ssa.UnOp)
		if !ok || ld.Op != token.MUL {
			return
		}
		if !strings.HasSuffix(fieldPath(ld), "EncKey") {
			return
		}
		for _, e := range nilCheckEdges(ld, true) {
			out[e] = true
		}
	})
	return out
}

func sameObjectValue(a, b ssa.Value) bool {
	if a == b || sameValue(a, b) {
		return true
	}
	// *sd loaded twice from the same pointer parameter
	la, ok1 := a.(*ssa.UnOp)
	lb, ok2 := b.(*ssa.UnOp)
	if ok1 && ok2 && la.Op == token.MUL && lb.Op == token.MUL && la.X == lb.X {
		return true
	}
	return false
}

func runC23(c *Ctx) {
	p, r := c.P, c.R
	r.MinInst["C23.R5"] = 1
	r.MinInst["C23.R6"] = 1
	checkSignatureExemption(c)
	checkInPlaceContract(c)
	r.MinInst["C23.R1"] = 12
	r.MinInst["C23.R2"] = 6
	runC23R4(c)
	// ---- R1: writeObject call sites
	for _, fn := range p.Funcs {
		if !strings.HasPrefix(FuncID(fn), "pkg/pdfcpu.") {
			continue
		}
		fn := fn
		fid := FuncID(fn)
		n := 0
		eachInstr(fn, func(_ *ssa.BasicBlock, _ int, i ssa.Instruction) {
			call, ok := i.(*ssa.Call)
			if !ok {
				return
			}
			_, ref := callRef(call)
			if ref != "pkg/pdfcpu.writeObject" {
				return
			}
			n++
			construct := fmt.Sprintf("writeObject#%d", n)
			if why, ex := c23ExemptWriters[fid]; ex {
				r.OK("C23.R3", fid, construct, p.Pos(call.Pos()), "exempt writer: "+why, false)
				return
			}
			sk := classifySerialised(call.Call.Args[3], 0)
			switch sk.kind {
			case "const", "plain":
				r.OK("C23.R1", fid, construct, p.Pos(call.Pos()), "serialises a "+sk.kind+" "+sk.desc+" (no string content)", false)
			case "deep":
				genE := map[Edge][]string{}
				for e := range encKeyNilEdges(fn) {
					genE[e] = append(genE[e], "protected")
				}
				eachInstr(fn, func(_ *ssa.BasicBlock, _ int, j ssa.Instruction) {
					ec, ok := j.(*ssa.Call)
					if !ok {
						return
					}
					if _, eref := callRef(ec); eref != "pkg/pdfcpu.encryptDeepObject" {
						return
					}
					arg := ec.Call.Args[0]
					if mi, ok := arg.(*ssa.MakeInterface); ok {
						arg = mi.X
					}
					if !sameObjectValue(arg, sk.val) {
						return
					}
					edges, _ := successEdges(ec)
					for _, e := range edges {
						genE[e] = append(genE[e], "protected")
					}
				})
				ff := NewFactFlow(fn, nil, genE, nil, nil)
				if ff.Holds(call, "protected") && (sk.ser == nil || ff.Holds(sk.ser, "protected")) {
					r.OK("C23.R1", fid, construct, p.Pos(call.Pos()), "every path to the serialisation of this "+sk.desc+" passes encryptDeepObject on the same value or the EncKey==nil edge", true)
				} else {
					r.Bad("C23.R1", fid, construct, p.Pos(call.Pos()), "a "+sk.desc+" is serialised and written on a path that has neither passed encryptDeepObject on that value nor established ctx.EncKey == nil: its strings would appear in the clear in an encrypted document")
				}
			case "literal":
				// s = X.PDFString() where on the EncKey != nil path X is the deref of encryptStringLiteral/encryptHexLiteral's result
				if literalEncrypted(fn, sk.val) {
					r.OK("C23.R1", fid, construct, p.Pos(call.Pos()), "the written "+sk.desc+" is the result of encrypt"+sk.desc+" whenever EncKey != nil", true)
				} else {
					r.Bad("C23.R1", fid, construct, p.Pos(call.Pos()), "a "+sk.desc+" object is written without being replaced by its encrypted form when an encryption key is set")
				}
			default:
				// raw bytes may be written only where no encryption key is set
				genE := map[Edge][]string{}
				for e := range encKeyNilEdges(fn) {
					genE[e] = append(genE[e], "no-key")
				}
				if ff := NewFactFlow(fn, nil, genE, nil, nil); ff.Holds(call, "no-key") {
					r.OK("C23.R1", fid, construct, p.Pos(call.Pos()), "raw bytes ("+sk.desc+") are written only on the ctx.EncKey == nil edge", true)
					return
				}
				r.Bad("C23.R1", fid, construct, p.Pos(call.Pos()), "the bytes written by this writeObject call are not produced by a recognised serialiser ("+sk.desc+"): they bypass the string/stream encryption step, so an object written here appears in the clear in an encrypted document")
			}
		})
	}
	// ---- R1b: stream writer
	checkStreamWriter(c)
	// ---- R2: table
	checkEncryptDeepObjectTable(c)
}

// literalEncrypted: value v (the literal being serialised) is, on the path where EncKey != nil, the deref of an encrypt*Literal result.
func literalEncrypted(fn *ssa.Function, v ssa.Value) bool {
	// v is typically a load of the parameter's spill cell: one store of the parameter, one store of *encrypted
	ld, ok := v.(*ssa.UnOp)
	if ok && ld.Op == token.MUL {
		if al, ok := cellRoot(ld.X).(*ssa.Alloc); ok {
			encStore := false
			for _, rf := range *al.Referrers() {
				st, ok := rf.(*ssa.Store)
				if !ok || st.Addr != ssa.Value(al) {
					continue
				}
				if d, ok := st.Val.(*ssa.UnOp); ok && d.Op == token.MUL {
					if ex, ok := d.X.(*ssa.Extract); ok {
						if ec, ok := ex.Tuple.(*ssa.Call); ok {
							if _, ref := callRef(ec); ref == "pkg/pdfcpu.encryptStringLiteral" || ref == "pkg/pdfcpu.encryptHexLiteral" {
								// the store must be on the EncKey != nil branch and the nil branch must skip it: checked by dominance of a non-nil edge
								encStore = true
							}
						}
					}
				}
			}
			if !encStore {
				return false
			}
			// the load must be reached, on every path, either through the encrypting store or through the EncKey==nil edge
			genE := map[Edge][]string{}
			for e := range encKeyNilEdges(fn) {
				genE[e] = append(genE[e], "ok")
			}
			ff := NewFactFlow(fn, func(i ssa.Instruction) []string {
				if st, ok := i.(*ssa.Store); ok && st.Addr == ssa.Value(al) {
					if d, ok := st.Val.(*ssa.UnOp); ok && d.Op == token.MUL {
						if _, ok := d.X.(*ssa.Extract); ok {
							return []string{"ok"}
						}
					}
				}
				return nil
			}, genE, nil, nil)
			return ff.Holds(ld, "ok")
		}
	}
	// phi form (no spill)
	if phi, ok := v.(*ssa.Phi); ok {
		enc := false
		for _, e := range phi.Edges {
			if d, ok := e.(*ssa.UnOp); ok && d.Op == token.MUL {
				if ex, ok := d.X.(*ssa.Extract); ok {
					if ec, ok := ex.Tuple.(*ssa.Call); ok {
						if _, ref := callRef(ec); ref == "pkg/pdfcpu.encryptStringLiteral" || ref == "pkg/pdfcpu.encryptHexLiteral" {
							enc = true
						}
					}
				}
			}
		}
		return enc
	}
	return false
}

func checkStreamWriter(c *Ctx) {
	p, r := c.P, c.R
	fn := p.Func("pkg/pdfcpu.writeStreamDictObject")
	if fn == nil {
		r.Bad("C23.R1", "pkg/pdfcpu.writeStreamDictObject", "anchor", "", "UNRESOLVED-ANCHOR")
		return
	}
	genE := map[Edge][]string{}
	for e := range encKeyNilEdges(fn) {
		genE[e] = append(genE[e], "protected")
	}
	skips := 0
	eachInstr(fn, func(_ *ssa.BasicBlock, _ int, i ssa.Instruction) {
		switch x := i.(type) {
		case *ssa.BinOp:
			if x.Op == token.EQL || x.Op == token.NEQ {
				for _, pair := range [][2]ssa.Value{{x.X, x.Y}, {x.Y, x.X}} {
					if s, ok := constString(pair[0]); ok && (s == "XRef" || s == "Crypt") {
						// the skip edge: comparison true for EQL
						for _, e := range condEdges(x, x.Op == token.EQL) {
							genE[e] = append(genE[e], "protected")
							skips++
						}
						// the XRef test is stored in a bool and tested later through a phi/&&: also accept edges of values derived from it
						for _, rf := range *x.Referrers() {
							if phi, ok := rf.(*ssa.Phi); ok {
								for _, e := range condEdges(phi, x.Op == token.EQL) {
									genE[e] = append(genE[e], "protected")
									skips++
								}
							}
						}
					}
				}
			}
		case *ssa.Call:
			if _, ref := callRef(x); ref == "pkg/pdfcpu.encryptStream" {
				// result stored to sd.Raw
				stored := false
				for _, ex := range *x.Referrers() {
					if e, ok := ex.(*ssa.Extract); ok {
						for _, rf := range *e.Referrers() {
							if st, ok := rf.(*ssa.Store); ok && strings.HasSuffix(fieldPath(st.Addr), "Raw") {
								stored = true
							}
						}
					}
				}
				if !stored {
					r.Bad("C23.R1", FuncID(fn), "encryptStream->Raw", p.Pos(x.Pos()), "the result of encryptStream is not stored back into sd.Raw: the plaintext stream data would be written")
					return
				}
				edges, _ := successEdges(x)
				for _, e := range edges {
					genE[e] = append(genE[e], "protected")
				}
			}
		}
	})
	ff := NewFactFlow(fn, nil, genE, nil, nil)
	n := 0
	eachInstr(fn, func(_ *ssa.BasicBlock, _ int, i ssa.Instruction) {
		if call, ok := i.(*ssa.Call); ok {
			if _, ref := callRef(call); ref == "pkg/pdfcpu.writeStreamObject" {
				n++
				if ff.Holds(call, "protected") {
					r.OK("C23.R1", FuncID(fn), fmt.Sprintf("writeStreamObject#%d", n), p.Pos(call.Pos()), "every path to the stream write passes encryptStream (stored into sd.Raw) or one of the three skip edges: EncKey==nil, /Type /XRef, single Crypt filter", true)
				} else {
					r.Bad("C23.R1", FuncID(fn), fmt.Sprintf("writeStreamObject#%d", n), p.Pos(call.Pos()), "stream data can be written without passing encryptStream although an encryption key is set and the stream is neither an xref stream nor Crypt-filtered")
				}
			}
		}
	})
	if n == 0 {
		r.Bad("C23.R1", FuncID(fn), "anchor:writeStreamObject", p.Pos(fn.Pos()), "UNRESOLVED-ANCHOR: writeStreamObject call not found")
	}
	// callers of writeStreamDictObject
	for _, caller := range p.Funcs {
		caller := caller
		k := 0
		eachInstr(caller, func(_ *ssa.BasicBlock, _ int, i ssa.Instruction) {
			call, ok := i.(*ssa.Call)
			if !ok {
				return
			}
			if _, ref := callRef(call); ref != "pkg/pdfcpu.writeStreamDictObject" {
				return
			}
			k++
			cid := FuncID(caller)
			construct := fmt.Sprintf("writeStreamDictObject#%d", k)
			if why, ex := c23ExemptStreamCallers[cid]; ex {
				r.OK("C23.R3", cid, construct, p.Pos(call.Pos()), "exempt: "+why, false)
				return
			}
			sdArg := call.Call.Args[3]
			genE := map[Edge][]string{}
			for e := range encKeyNilEdges(caller) {
				genE[e] = append(genE[e], "protected")
			}
			eachInstr(caller, func(_ *ssa.BasicBlock, _ int, j ssa.Instruction) {
				ec, ok := j.(*ssa.Call)
				if !ok {
					return
				}
				if _, eref := callRef(ec); eref != "pkg/pdfcpu.encryptDeepObject" {
					return
				}
				arg := ec.Call.Args[0]
				if mi, ok := arg.(*ssa.MakeInterface); ok {
					arg = mi.X
				}
				if typeNameOf(arg.Type()) != "StreamDict" {
					return
				}
				if _, isPtr := types.Unalias(arg.Type()).(*types.Pointer); isPtr {
					return // *StreamDict is not a handled kind
				}
				if !sameObjectValue(arg, sdArg) {
					return
				}
				edges, _ := successEdges(ec)
				for _, e := range edges {
					genE[e] = append(genE[e], "protected")
				}
			})
			ff := NewFactFlow(caller, nil, genE, nil, nil)
			if ff.Holds(call, "protected") {
				r.OK("C23.R1", cid, construct, p.Pos(call.Pos()), "the stream dictionary's strings are encrypted (encryptDeepObject on the StreamDict value) before the stream object is written", true)
			} else {
				r.Bad("C23.R1", cid, construct, p.Pos(call.Pos()), "a document stream object is written without its dictionary having passed encryptDeepObject (as a StreamDict value): strings inside the stream dictionary would appear in the clear")
			}
		})
	}
}

func checkEncryptDeepObjectTable(c *Ctx) {
	p, r := c.P, c.R
	fn := p.Func("pkg/pdfcpu.encryptDeepObject")
	if fn == nil {
		r.Bad("C23.R2", "pkg/pdfcpu.encryptDeepObject", "anchor", "", "UNRESOLVED-ANCHOR")
		return
	}
	handled := map[string]bool{}
	eachInstr(fn, func(_ *ssa.BasicBlock, _ int, i ssa.Instruction) {
		if ta, ok := i.(*ssa.TypeAssert); ok && ta.CommaOk {
			handled[typeNameOf(ta.AssertedType)] = true
			if _, isPtr := types.Unalias(ta.AssertedType).(*types.Pointer); isPtr {
				handled["*"+typeNameOf(ta.AssertedType)] = true
			}
		}
	})
	want := []string{"StreamDict", "Dict", "Array", "StringLiteral", "HexLiteral"}
	var missing []string
	for _, w := range want {
		if !handled[w] {
			missing = append(missing, w)
		}
	}
	sort.Strings(missing)
	if len(missing) > 0 {
		r.Bad("C23.R2", FuncID(fn), "kinds", p.Pos(fn.Pos()), "encryptDeepObject no longer handles the string-bearing kind(s) "+strings.Join(missing, ", ")+": such objects fall through the empty default and stay in the clear")
	} else {
		r.OK("C23.R2", FuncID(fn), "kinds", p.Pos(fn.Pos()), "type switch handles StreamDict, Dict, Array, StringLiteral, HexLiteral", true)
	}
	// call sites: static type of the argument
	for _, caller := range p.Funcs {
		caller := caller
		k := 0
		eachInstr(caller, func(_ *ssa.BasicBlock, _ int, i ssa.Instruction) {
			call, ok := i.(*ssa.Call)
			if !ok {
				return
			}
			if _, ref := callRef(call); ref != "pkg/pdfcpu.encryptDeepObject" {
				return
			}
			k++
			arg := call.Call.Args[0]
			construct := fmt.Sprintf("encryptDeepObject#%d arg", k)
			mi, ok := arg.(*ssa.MakeInterface)
			if !ok {
				r.OK("C23.R2", FuncID(caller), construct, p.Pos(call.Pos()), "argument is already a types.Object (dynamic kind: decided by the switch)", false)
				return
			}
			tn := typeNameOf(mi.X.Type())
			_, isPtr := types.Unalias(mi.X.Type()).(*types.Pointer)
			if isPtr || !handled[tn] {
				r.Bad("C23.R2", FuncID(caller), construct, p.Pos(call.Pos()), "encryptDeepObject is called with a "+mi.X.Type().String()+", which matches no case of its type switch and silently falls into the empty default: nothing is encrypted")
			} else {
				r.OK("C23.R2", FuncID(caller), construct, p.Pos(call.Pos()), "static argument type "+tn+" is a handled kind", true)
			}
		})
	}
	// encryptDict: the only skipped key is Contents (of signature dictionaries)
	ed := p.Func("pkg/pdfcpu.encryptDict")
	if ed == nil {
		r.Bad("C23.R2", "pkg/pdfcpu.encryptDict", "anchor", "", "UNRESOLVED-ANCHOR")
		return
	}
	var consts []string
	eachInstr(ed, func(_ *ssa.BasicBlock, _ int, i ssa.Instruction) {
		if b, ok := i.(*ssa.BinOp); ok && (b.Op == token.EQL || b.Op == token.NEQ) {
			for _, v := range []ssa.Value{b.X, b.Y} {
				if s, ok := constString(v); ok {
					consts = append(consts, s)
				}
			}
		}
	})
	sort.Strings(consts)
	allowed := map[string]bool{"Contents": true, "Sig": true, "DocTimeStamp": true, "Type": true, "FT": true}
	bad := ""
	for _, s := range consts {
		if !allowed[s] {
			bad = s
		}
	}
	if bad != "" {
		r.Bad("C23.R2", FuncID(ed), "skip-keys", p.Pos(ed.Pos()), "encryptDict compares keys/values against "+fmt.Sprint(consts)+": "+bad+" is not part of the documented signature-Contents exemption, so more than /Contents of signature dictionaries may be skipped")
	} else {
		r.OK("C23.R2", FuncID(ed), "skip-keys", p.Pos(ed.Pos()), "constants compared in encryptDict: "+fmt.Sprint(consts), true)
	}
}

// ---------------- C23.R4: an object is encrypted (in place) at most once ----------------
//
// writeDictObject / writeArrayObject / writeStreamDictObject encrypt the object they are given *in place* and then serialise
// it. Writing the same object a second time encrypts it a second time; with RC4 (a XOR stream under the same per-object key)
// the second pass restores the plaintext, which is what the xref table then points to. Every call site of an in-place
// encrypting writer must therefore be reached only when the object number has no write offset yet
// (`ctx.Write.HasWriteOffset(objNr)` false edge), directly or because every caller of the enclosing function is, or write an
// object that was created for this write (table).

var c23InPlaceWriters = map[string]bool{
	"pkg/pdfcpu.writeDictObject": true, "pkg/pdfcpu.writeArrayObject": true, "pkg/pdfcpu.writeStreamDictObject": true,
	"pkg/pdfcpu.writeObjectGeneric": true,
}

// c23FreshObjectWriters: functions that write an object whose number was allocated for this write (never reachable twice).
var c23FreshObjectWriters = map[string]string{
	"pkg/pdfcpu.writeEncryptDict":        "the encrypt dict is created and numbered once per write",
	"pkg/pdfcpu.writeXRefStream":         "the xref stream object is created once per write",
	"pkg/pdfcpu.stopObjectStream":        "the object stream object is created by startObjectStream and closed exactly once",
	"pkg/pdfcpu.writeObjectStreamObject": "see stopObjectStream",
	"pkg/pdfcpu.writeRootObject":         "the catalog is written first, once per write; later references to it go through writeIndirectObject (HasWriteOffset)",
	"pkg/pdfcpu.writeFlatObject":         "WriteIncrement writes each member of Write.ObjNrs once and IncrementWithObjNr keeps that list duplicate-free",
}

// onceGuardedCalls: local=true also accepts a successful PageTreeVisit.Enter (it vouches for the node entered in this very
// function, not for the kids handed on to callees).
func onceGuardedCalls(fn *ssa.Function, local bool, targets func(ref string, callee *ssa.Function) bool) (guarded, unguarded []ssa.CallInstruction) {
	genE := map[Edge][]string{}
	eachInstr(fn, func(_ *ssa.BasicBlock, _ int, i ssa.Instruction) {
		call, ok := i.(*ssa.Call)
		if !ok {
			return
		}
		_, ref := callRef(call)
		if ref == "pkg/pdfcpu/model.PageTreeVisit.Enter" && local {
			// a page tree node is entered once: duplicates and cycles are rejected
			if es, has := successEdges(call); has {
				for _, e := range es {
					genE[e] = append(genE[e], "fresh")
				}
			}
			return
		}
		if ref != "pkg/pdfcpu/model.WriteContext.HasWriteOffset" {
			return
		}
		for _, bv := range boolResults(call) {
			for _, al := range wideAliases(bv) {
				for _, e := range condEdges(al, false) {
					genE[e] = append(genE[e], "fresh")
				}
			}
		}
	})
	ff := NewFactFlow(fn, nil, genE, nil, nil)
	eachInstr(fn, func(_ *ssa.BasicBlock, _ int, i ssa.Instruction) {
		call, ok := i.(ssa.CallInstruction)
		if !ok {
			return
		}
		_, ref := callRef(i)
		if !targets(ref, staticCallee(call)) {
			return
		}
		if ff.Holds(i, "fresh") {
			guarded = append(guarded, call)
		} else {
			unguarded = append(unguarded, call)
		}
	})
	return
}

func runC23R4(c *Ctx) {
	p, r := c.P, c.R
	cg := c.CG()
	r.MinInst["C23.R4"] = 8
	// fresh(f): every static call of f in the module is once-guarded or sits in a function that is itself fresh.
	// Greatest fixpoint: start optimistic, falsify until stable (cycles do not poison each other's results).
	type siteInfo struct {
		caller *ssa.Function
		tabOK  bool
	}
	unguardedSites := map[*ssa.Function][]siteInfo{}
	noCallers := map[*ssa.Function]bool{}
	var subjects []*ssa.Function
	for _, f := range p.Funcs {
		if !strings.HasPrefix(FuncID(f), "pkg/") {
			continue
		}
		subjects = append(subjects, f)
		callers := cg.In[f]
		if len(callers) == 0 {
			noCallers[f] = true
			continue
		}
		for _, caller := range callers {
			f := f
			_, ung := onceGuardedCalls(caller, false, func(_ string, callee *ssa.Function) bool {
				return callee != nil && unwrapSynthetic(callee) == f
			})
			if len(ung) == 0 {
				continue
			}
			tabOK := false
			if _, tab := c23FreshObjectWriters[FuncID(caller)]; tab {
				// the table vouches for the one object the function handles: only calls that hand that object number on
				tabOK = true
				for _, call := range ung {
					if !passesOwnObjNr(caller, call) {
						tabOK = false
					}
				}
			}
			unguardedSites[f] = append(unguardedSites[f], siteInfo{caller, tabOK})
		}
	}
	freshVal := map[*ssa.Function]bool{}
	for _, f := range subjects {
		freshVal[f] = !noCallers[f]
	}
	for changed := true; changed; {
		changed = false
		for _, f := range subjects {
			if !freshVal[f] {
				continue
			}
			for _, si := range unguardedSites[f] {
				if si.tabOK {
					continue
				}
				if v, known := freshVal[si.caller]; !known || !v {
					freshVal[f] = false
					changed = true
					break
				}
			}
		}
	}
	entryFresh := func(f *ssa.Function, _ int) bool { return freshVal[f] }
	for _, fn := range p.Funcs {
		fid := FuncID(fn)
		if !strings.HasPrefix(fid, "pkg/pdfcpu.") {
			continue
		}
		g, ung := onceGuardedCalls(fn, true, func(ref string, _ *ssa.Function) bool { return c23InPlaceWriters[ref] })
		n := 0
		for _, call := range g {
			n++
			_, ref := callRef(call)
			r.OK("C23.R4", fid, fmt.Sprintf("%s#%d", ref, n), p.Pos(call.Pos()), "reached only on the HasWriteOffset(objNr) == false edge: the object is encrypted and written once", true)
		}
		if len(ung) == 0 {
			continue
		}
		fresh := entryFresh(fn, 0)
		for _, call := range ung {
			n++
			_, ref := callRef(call)
			construct := fmt.Sprintf("%s#%d", ref, n)
			if why, ok := c23FreshObjectWriters[fid]; ok {
				r.OK("C23.R4", fid, construct, p.Pos(call.Pos()), "fresh object: "+why, false)
			} else if fresh {
				r.OK("C23.R4", fid, construct, p.Pos(call.Pos()), "every call of "+fn.Name()+" is itself reached only for an object without write offset (or for a fresh object)", true)
			} else {
				r.Bad("C23.R4", fid, construct, p.Pos(call.Pos()), "this writer encrypts its object in place, and the call is reachable for an object that may already have been written (no HasWriteOffset test here or in every caller): a second pass re-encrypts it — with RC4 that restores the plaintext in the copy the xref table points to")
			}
		}
	}
}

// passesOwnObjNr: the call hands on the object number the calling function itself works on (an int parameter of the caller,
// or the value the caller passes as object number to an in-place writer).
func passesOwnObjNr(caller *ssa.Function, call ssa.CallInstruction) bool {
	own := map[ssa.Value]bool{}
	for _, prm := range caller.Params {
		if isIntType(prm.Type()) {
			own[prm] = true
		}
	}
	eachInstr(caller, func(_ *ssa.BasicBlock, _ int, i ssa.Instruction) {
		if c, ok := i.(*ssa.Call); ok {
			if _, ref := callRef(c); c23InPlaceWriters[ref] {
				for _, a := range c.Call.Args {
					if isIntType(a.Type()) {
						own[a] = true
					}
				}
			}
		}
	})
	for _, a := range call.Common().Args {
		if isIntType(a.Type()) && own[a] {
			return true
		}
	}
	return false
}

func init() {
	extraDebug["c23r4"] = func(p *Program) {
		cg := BuildCG(p)
		for _, id := range []string{"pkg/pdfcpu.writeObjectGeneric", "pkg/pdfcpu.writeDeepDict", "pkg/pdfcpu.writeLazyObjectStreamObject", "pkg/pdfcpu.writeIndirectObject"} {
			f := p.Func(id)
			fmt.Println(id, "callers:")
			for _, c := range cg.In[f] {
				g, u := onceGuardedCalls(c, false, func(_ string, callee *ssa.Function) bool { return callee != nil && unwrapSynthetic(callee) == f })
				fmt.Printf("   %s guarded=%d unguarded=%d\n", FuncID(c), len(g), len(u))
			}
		}
	}
}

// ---------------- C23.R5 (round 3 of seeding): the in-place contract of encryptDeepObject ----------------

// checkInPlaceContract: the object writers call encryptDeepObject on a dictionary, array or stream dictionary and
// DISCARD its result: they serialise the value they passed in. That is only correct while the container cases of
// encryptDeepObject (and encryptDict) store every encrypted element back into the container they were handed.
// For each container kind that some caller passes while discarding the result, every store of a recursive
// call's result must go into the input container (not into a copy).
func checkInPlaceContract(c *Ctx) {
	p, r := c.P, c.R
	enc := p.Func("pkg/pdfcpu.encryptDeepObject")
	if enc == nil {
		r.Bad("C23.R5", "pkg/pdfcpu.encryptDeepObject", "anchor", "", "UNRESOLVED-ANCHOR")
		return
	}
	// callers that discard the result, by kind of the argument
	discarded := map[string]string{}
	for _, fn := range p.Funcs {
		if !isSubject(fn) {
			continue
		}
		fn := fn
		eachInstr(fn, func(_ *ssa.BasicBlock, _ int, i ssa.Instruction) {
			call, ok := i.(*ssa.Call)
			if !ok {
				return
			}
			if callee := staticCallee(call); callee == nil || unwrapSynthetic(callee) != enc {
				return
			}
			used := false
			for _, rf := range *call.Referrers() {
				if ex, ok := rf.(*ssa.Extract); ok && ex.Index == 0 && ex.Referrers() != nil && len(*ex.Referrers()) > 0 {
					used = true
				}
			}
			if used {
				return
			}
			kind := "dynamic"
			if mi, ok := call.Call.Args[0].(*ssa.MakeInterface); ok {
				kind = typeNameOf(mi.X.Type())
			}
			discarded[kind] = FuncID(fn) + " (" + p.Pos(call.Pos()) + ")"
		})
	}
	if len(discarded) == 0 {
		r.OK("C23.R5", FuncID(enc), "in-place contract", p.Pos(enc.Pos()), "no caller discards the result", false)
		return
	}
	// stores of recursive results inside the Array case
	inputRooted := func(v ssa.Value) bool {
		for _, l := range valueLeaves(v) {
			ex, ok := l.(*ssa.Extract)
			if !ok {
				if ta, ok := l.(*ssa.TypeAssert); ok && ta.X == ssa.Value(enc.Params[0]) {
					continue
				}
				return false
			}
			ta, ok := ex.Tuple.(*ssa.TypeAssert)
			if !ok || ta.X != ssa.Value(enc.Params[0]) {
				return false
			}
		}
		return true
	}
	n := 0
	eachInstr(enc, func(_ *ssa.BasicBlock, _ int, i ssa.Instruction) {
		call, ok := i.(*ssa.Call)
		if !ok {
			return
		}
		if callee := staticCallee(call); callee == nil || unwrapSynthetic(callee) != enc {
			return
		}
		for _, rf := range *call.Referrers() {
			ex, ok := rf.(*ssa.Extract)
			if !ok || ex.Index != 0 || ex.Referrers() == nil {
				continue
			}
			for _, use := range *ex.Referrers() {
				st, ok := use.(*ssa.Store)
				if !ok || st.Val != ssa.Value(ex) {
					continue
				}
				ia, ok := st.Addr.(*ssa.IndexAddr)
				if !ok {
					continue
				}
				n++
				construct := fmt.Sprintf("element store#%d", n)
				if inputRooted(ia.X) {
					r.OK("C23.R5", FuncID(enc), construct, p.Pos(st.Pos()), "the encrypted element is stored into the array that was passed in (callers that discard the result serialise that array)", true)
				} else {
					who := discarded["Array"]
					if who == "" {
						for _, w := range discarded {
							who = w
						}
					}
					r.Bad("C23.R5", FuncID(enc), construct, p.Pos(st.Pos()), "the encrypted element is stored into a copy, but "+who+" discards encryptDeepObject's result and serialises the array it passed in: the strings of an array that is an indirect object of its own are written as plaintext")
				}
			}
		}
	})
	if n == 0 {
		if _, arr := discarded["Array"]; arr {
			r.Bad("C23.R5", FuncID(enc), "element store", p.Pos(enc.Pos()), "a caller ("+discarded["Array"]+") passes an array and discards the result, but encryptDeepObject stores no encrypted element back into a container: the strings are never replaced")
		}
	}
}

// ---------------- C23.R6 (round 4 seed C23-H): what may stay unencrypted in a dictionary ----------------

// checkSignatureExemption: encryptDict leaves exactly one thing in clear text — the /Contents of a signature or
// document-time-stamp dictionary (its bytes are covered by the ByteRange digest). The flag that switches the
// exemption on must be true only behind a comparison of the dictionary's FT/Type name with "Sig" or
// "DocTimeStamp": every source of the flag (through φ and through the results of a helper it is computed by) is the
// constant false, or the constant true in a block dominated by such a comparison's true edge. A flag that can also
// come from the mere presence of another key (ByteRange) lets any dictionary carrying that key keep its /Contents
// string in plaintext.
func checkSignatureExemption(c *Ctx) {
	p, r := c.P, c.R
	const fid = "pkg/pdfcpu.encryptDict"
	fn := p.Func(fid)
	if fn == nil {
		r.Bad("C23.R6", fid, "anchor", "", "UNRESOLVED-ANCHOR")
		return
	}
	isSigCompare := func(v ssa.Value) bool {
		bo, ok := v.(*ssa.BinOp)
		if !ok || bo.Op != token.EQL {
			return false
		}
		for _, side := range []ssa.Value{bo.X, bo.Y} {
			if s, ok := constString(side); ok && (s == "Sig" || s == "DocTimeStamp") {
				return true
			}
		}
		return false
	}
	var badWhy string
	var judge func(v ssa.Value, at *ssa.BasicBlock, fnOf *ssa.Function, d int)
	judge = func(v ssa.Value, at *ssa.BasicBlock, fnOf *ssa.Function, d int) {
		if d > 6 || badWhy != "" {
			return
		}
		switch x := v.(type) {
		case *ssa.Const:
			if x.Value == nil || x.Value.Kind() != constant.Bool || !constant.BoolVal(x.Value) {
				return // false
			}
			// true: 'at' must be behind a Sig/DocTimeStamp comparison
			var behind func(b *ssa.BasicBlock, depth int) bool
			behind = func(b *ssa.BasicBlock, depth int) bool {
				if b == nil || depth > 4 {
					return false
				}
				for _, x := range fnOf.Blocks {
					if len(x.Instrs) == 0 {
						continue
					}
					if ifi, ok := x.Instrs[len(x.Instrs)-1].(*ssa.If); ok && isSigCompare(ifi.Cond) && edgeDominates(Edge{x, 0}, b) {
						return true
					}
				}
				// a join of several comparisons (a == "Sig" || a == "DocTimeStamp"): every incoming edge is such a true edge
				if len(b.Preds) == 0 {
					return false
				}
				for _, pb := range b.Preds {
					okEdge := false
					if len(pb.Instrs) > 0 {
						if ifi, ok := pb.Instrs[len(pb.Instrs)-1].(*ssa.If); ok && isSigCompare(ifi.Cond) && pb.Succs[0] == b {
							okEdge = true
						}
					}
					if !okEdge && !behind(pb, depth+1) {
						return false
					}
				}
				return true
			}
			okAt := behind(at, 0)
			if !okAt {
				badWhy = "the flag is set true in " + fnOf.Name() + " on a path that is not behind a comparison of the FT/Type name with \"Sig\" or \"DocTimeStamp\""
			}
		case *ssa.Phi:
			for ei, e := range x.Edges {
				judge(e, x.Block().Preds[ei], fnOf, d+1)
			}
		case *ssa.BinOp:
			if isSigCompare(x) {
				return
			}
			if x.Op == token.LOR || x.Op == token.OR {
				judge(x.X, at, fnOf, d+1)
				judge(x.Y, at, fnOf, d+1)
				return
			}
			badWhy = "the flag is computed by " + exprName(x)
		case *ssa.Call:
			callee := staticCallee(x)
			if callee == nil || len(callee.Blocks) == 0 {
				badWhy = "the flag is the result of an unresolved call"
				return
			}
			for _, ret := range returnsOf(callee) {
				if len(ret.Results) != 1 {
					badWhy = "the flag comes from a multi-result helper"
					return
				}
				judge(ret.Results[0], ret.Block(), callee, d+1)
			}
		case *ssa.Extract:
			badWhy = "the flag can be the ok of a lookup / type assertion (" + exprName(x.Tuple) + "): the presence of a key decides, not the dictionary's kind"
		default:
			badWhy = "the flag comes from " + exprName(v)
		}
	}
	n := 0
	for _, l := range naturalLoops(fn) {
		for b := range l.blocks {
			if len(b.Instrs) == 0 {
				continue
			}
			ifi, ok := b.Instrs[len(b.Instrs)-1].(*ssa.If)
			if !ok {
				continue
			}
			if _, isCmp := ifi.Cond.(*ssa.BinOp); isCmp {
				continue
			}
			if bt, ok := ifi.Cond.Type().Underlying().(*types.Basic); !ok || bt.Kind() != types.Bool {
				continue
			}
			if _, isExtract := ifi.Cond.(*ssa.Extract); isExtract {
				continue // the range loop's own ok
			}
			n++
			badWhy = ""
			judge(ifi.Cond, b, fn, 0)
			if badWhy != "" {
				r.Bad("C23.R6", fid, "signature exemption flag", p.Pos(ifi.Pos()), badWhy+": a dictionary that is not a signature can keep the string under /Contents unencrypted in the written file")
			} else {
				r.OK("C23.R6", fid, "signature exemption flag", p.Pos(ifi.Pos()), "true only behind FT/Type == Sig or DocTimeStamp", true)
			}
		}
	}
	if n == 0 {
		r.Bad("C23.R6", fid, "signature exemption flag", p.Pos(fn.Pos()), "UNDECIDED: no bool flag decides inside the entry loop of encryptDict")
	}
}
