package main

import (
	"fmt"
	"os"
	"strings"

	"golang.org/x/tools/go/ssa"
)

var extraDebug = map[string]func(p *Program){}

// debugCmd: `pdfcpu-verif debug returns <FuncID>` / `debug calls <FuncID>` — developer aid.
func debugCmd(args []string) int {
	p, err := Load(quickConfigs[0], nil)
	if err != nil {
		fmt.Println(err)
		return 1
	}
	if len(args) >= 1 && extraDebug[args[0]] != nil {
		extraDebug[args[0]](p)
		return 0
	}
	if len(args) >= 1 && args[0] == "fsrefs" {
		for _, r := range collectFSRefs(p) {
			fmt.Printf("%-60s %-34s %-18s call=%v %s\n", FuncID(r.root), r.prim, r.cat, r.call, p.Pos(r.instr.Pos()))
		}
		cg := BuildCG(p)
		for _, fc := range collectFSFieldCalls(p, cg) {
			fmt.Printf("FIELD %-60s %-50s %-18s %s\n", FuncID(fc.root), fc.prim, fc.cat, p.Pos(fc.instr.Pos()))
		}
		return 0
	}
	if len(args) < 2 {
		return 2
	}
	fn := p.Func(args[1])
	if fn == nil {
		fmt.Println("no such function")
		return 1
	}
	switch args[0] {
	case "returns":
		for _, ret := range returnsOf(fn) {
			k, has := returnErrKind(ret)
			fmt.Printf("block %d: %v has=%v kind=%s\n", ret.Block().Index, ret, has, k)
		}
	case "calls":
		eachInstr(fn, func(b *ssa.BasicBlock, _ int, i ssa.Instruction) {
			if c, ref := callRef(i); c != nil {
				fmt.Printf("block %d %s: %s   [%v]\n", b.Index, p.Pos(i.Pos()), ref, i)
			}
		})
	case "ssa":
		fn.WriteTo(os.Stdout)
	}
	return 0
}

func init() {
	debugHook = func(fn *ssa.Function, ff *FactFlow) {
		if os.Getenv("VERIF_DEBUG_FLOW") != FuncID(fn) {
			return
		}
		for _, b := range fn.Blocks {
			fmt.Printf("block %d in=%v\n", b.Index, ff.in[b])
		}
		for e, f := range ff.genE {
			fmt.Printf("genE %d->%d %v\n", e.From.Index, e.From.Succs[e.Succ].Index, f)
		}
	}
}

func init() {
	extraDebug["arrayidx"] = func(p *Program) {
		n, unsafe := 0, 0
		for _, fn := range p.Funcs {
			fid := FuncID(fn)
			if !strings.HasPrefix(fid, "pkg/pdfcpu") {
				continue
			}
			eachInstr(fn, func(_ *ssa.BasicBlock, _ int, i ssa.Instruction) {
				var x, idx ssa.Value
				switch v := i.(type) {
				case *ssa.IndexAddr:
					x, idx = v.X, v.Index
				case *ssa.Index:
					x, idx = v.X, v.Index
				default:
					return
				}
				if typeNameOf(x.Type()) != "Array" {
					return
				}
				n++
				st := classifyIndex(fn, i, x, idx)
				if st != "" {
					unsafe++
					fmt.Printf("%-60s %s  %s\n", fid, p.Pos(i.Pos()), st)
				}
			})
		}
		fmt.Println("array index sites:", n, "unproven:", unsafe)
	}
}
