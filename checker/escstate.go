package main

import (
	"fmt"
	"go/ast"
	"go/constant"
	"go/token"
	"go/types"

	"golang.org/x/tools/go/cfg"
	"golang.org/x/tools/go/ssa"
)

// Escape-state discipline of types.Unescape (round 3 seed C13-C).
//
// Unescape is a byte-at-a-time state machine whose "inside an escape sequence" state is one local bool. A byte
// that is written while that flag may be set completes the escape sequence, so the flag has to be assigned
// before the next byte is looked at; otherwise the next byte is read as the continuation of an escape that is
// over (the second half of a UTF-16 code unit 0x..5C followed by 'n' becomes a line feed). The rule is decided
// on the function's control-flow graph (go/cfg over the type-checked syntax, because the flag is a lifted local
// in SSA and its assignments are not instructions there):
//
//   flag        the bool local assigned true under the test of the current byte against the backslash
//   write       a WriteByte on a bytes.Buffer local
//   exempt      a write inside the then-branch of a condition that implies the flag is false
//               (!flag, or a call whose every true result is !param for the parameter the flag is passed as)
//   obligation  on every path of one iteration from a non-exempt write to the loop's post statement the flag is
//               assigned (an assignment in the write's own block, before or after it, counts)
func checkEscapeStateReset(c *Ctx, rule string) {
	p, r := c.P, c.R
	const fid = "pkg/pdfcpu/types.Unescape"
	fn := p.Func(fid)
	if fn == nil {
		r.Bad(rule, fid, "anchor", "", "UNRESOLVED-ANCHOR: function not found")
		return
	}
	fd, _ := fn.Syntax().(*ast.FuncDecl)
	pkg := p.Pkg("pkg/pdfcpu/types")
	if fd == nil || fd.Body == nil || pkg == nil {
		r.Bad(rule, fid, "anchor", "", "UNRESOLVED-ANCHOR: no syntax for the function")
		return
	}
	info := pkg.TypesInfo
	isConst := func(e ast.Expr, n int64) bool {
		tv, ok := info.Types[e]
		if !ok || tv.Value == nil || tv.Value.Kind() != constant.Int {
			return false
		}
		v, ok := constant.Int64Val(tv.Value)
		return ok && v == n
	}
	// the flag: assigned true under a test of a byte against 0x5c
	var flag types.Object
	var loop *ast.ForStmt
	ast.Inspect(fd.Body, func(n ast.Node) bool {
		if f, ok := n.(*ast.ForStmt); ok && loop == nil {
			loop = f
		}
		is, ok := n.(*ast.IfStmt)
		if !ok {
			return true
		}
		be, ok := is.Cond.(*ast.BinaryExpr)
		if !ok || be.Op != token.EQL || !(isConst(be.X, 0x5c) || isConst(be.Y, 0x5c)) {
			return true
		}
		ast.Inspect(is.Body, func(m ast.Node) bool {
			as, ok := m.(*ast.AssignStmt)
			if !ok || len(as.Lhs) != 1 || len(as.Rhs) != 1 {
				return true
			}
			id, ok := as.Lhs[0].(*ast.Ident)
			if !ok {
				return true
			}
			if tv, ok := info.Types[as.Rhs[0]]; ok && tv.Value != nil && tv.Value.Kind() == constant.Bool && constant.BoolVal(tv.Value) {
				if o := info.ObjectOf(id); o != nil && flag == nil {
					flag = o
				}
			}
			return true
		})
		return true
	})
	if flag == nil || loop == nil || loop.Post == nil {
		r.Bad(rule, fid, "anchor", p.Pos(fd.Pos()), "UNRESOLVED-ANCHOR: no bool local assigned true under a test of the current byte against the backslash inside a for loop with a post statement")
		return
	}
	assignsFlag := func(n ast.Node) bool {
		found := false
		ast.Inspect(n, func(m ast.Node) bool {
			if _, ok := m.(*ast.FuncLit); ok {
				return false
			}
			if as, ok := m.(*ast.AssignStmt); ok {
				for _, l := range as.Lhs {
					if id, ok := l.(*ast.Ident); ok && info.ObjectOf(id) == flag {
						found = true
					}
				}
			}
			return true
		})
		return found
	}
	isWrite := func(n ast.Node) *ast.CallExpr {
		var out *ast.CallExpr
		ast.Inspect(n, func(m ast.Node) bool {
			if _, ok := m.(*ast.FuncLit); ok {
				return false
			}
			call, ok := m.(*ast.CallExpr)
			if !ok {
				return true
			}
			sel, ok := call.Fun.(*ast.SelectorExpr)
			if !ok || sel.Sel.Name != "WriteByte" {
				return true
			}
			if f, ok := info.ObjectOf(sel.Sel).(*types.Func); ok && f.Pkg() != nil && f.Pkg().Path() == "bytes" {
				out = call
			}
			return true
		})
		return out
	}
	// conditions that imply the flag is false
	var impliesNotFlag func(e ast.Expr) bool
	impliesNotFlag = func(e ast.Expr) bool {
		switch x := ast.Unparen(e).(type) {
		case *ast.UnaryExpr:
			if x.Op == token.NOT {
				if id, ok := ast.Unparen(x.X).(*ast.Ident); ok && info.ObjectOf(id) == flag {
					return true
				}
			}
		case *ast.BinaryExpr:
			if x.Op == token.LAND {
				return impliesNotFlag(x.X) || impliesNotFlag(x.Y)
			}
		case *ast.CallExpr:
			var callee *types.Func
			switch f := ast.Unparen(x.Fun).(type) {
			case *ast.Ident:
				callee, _ = info.ObjectOf(f).(*types.Func)
			case *ast.SelectorExpr:
				callee, _ = info.ObjectOf(f.Sel).(*types.Func)
			}
			if callee == nil {
				return false
			}
			sf := p.SSAFunc(callee)
			if sf == nil || len(sf.Blocks) == 0 {
				return false
			}
			for k, a := range x.Args {
				if id, ok := ast.Unparen(a).(*ast.Ident); ok && info.ObjectOf(id) == flag && k < len(sf.Params) {
					if trueImpliesNotParam(sf, sf.Params[k]) {
						return true
					}
				}
			}
		}
		return false
	}
	exempt := map[*ast.CallExpr]bool{}
	var walk func(n ast.Node, known bool)
	walk = func(n ast.Node, known bool) {
		ast.Inspect(n, func(m ast.Node) bool {
			if m == n {
				return true
			}
			switch x := m.(type) {
			case *ast.FuncLit:
				return false
			case *ast.IfStmt:
				if x.Init != nil {
					walk(x.Init, known)
				}
				k := known
				if impliesNotFlag(x.Cond) && !assignsFlag(x.Body) {
					k = true
				}
				walk(x.Body, k)
				if x.Else != nil {
					walk(x.Else, known)
				}
				return false
			case *ast.CallExpr:
				if known {
					exempt[x] = true
				}
			}
			return true
		})
	}
	walk(loop.Body, false)

	g := cfg.New(fd.Body, func(*ast.CallExpr) bool { return true })
	var post *cfg.Block
	for _, b := range g.Blocks {
		if b.Live && b.Kind == cfg.KindForPost && b.Stmt == loop {
			post = b
		}
	}
	if post == nil {
		r.Bad(rule, fid, "anchor", p.Pos(loop.Pos()), "UNRESOLVED-ANCHOR: the loop's post block was not found in the control-flow graph")
		return
	}
	// forward may-analysis: dirty = position of a non-exempt write not yet followed by an assignment of the flag
	type st = token.Pos // 0 = clean
	in := map[*cfg.Block]st{}
	transfer := func(b *cfg.Block, d st) st {
		if b == post {
			return 0
		}
		blockAssigns := false
		for _, n := range b.Nodes {
			if assignsFlag(n) {
				blockAssigns = true
			}
		}
		for _, n := range b.Nodes {
			if w := isWrite(n); w != nil && !exempt[w] && !blockAssigns {
				d = w.Pos()
			}
			if assignsFlag(n) {
				d = 0
			}
		}
		return d
	}
	work := []*cfg.Block{g.Blocks[0]}
	seen := map[*cfg.Block]bool{g.Blocks[0]: true}
	for len(work) > 0 {
		b := work[0]
		work = work[1:]
		out := transfer(b, in[b])
		for _, s := range b.Succs {
			changed := !seen[s]
			seen[s] = true
			if out != 0 && in[s] == 0 {
				in[s] = out
				changed = true
			}
			if changed {
				work = append(work, s)
			}
		}
	}
	writes, exempted := 0, 0
	ast.Inspect(loop.Body, func(m ast.Node) bool {
		if call, ok := m.(*ast.CallExpr); ok && isWrite(call) == call {
			writes++
			if exempt[call] {
				exempted++
			}
		}
		return true
	})
	if writes == 0 {
		r.Bad(rule, fid, "anchor", p.Pos(loop.Pos()), "UNRESOLVED-ANCHOR: no WriteByte on a bytes.Buffer inside the loop")
		return
	}
	construct := "escape flag " + flag.Name() + " after a written byte"
	if in[post] != 0 {
		r.Bad(rule, fid, construct, p.Pos(in[post]), fmt.Sprintf("a byte is written while the escape flag %s may be set and a path reaches the next iteration without assigning the flag: the following byte is then read as the continuation of an escape sequence that is complete (a backslash byte inside UTF-16 text or binary data followed by n, r, t, b, f or a digit is rewritten)", flag.Name()))
		return
	}
	r.OK(rule, fid, construct, p.Pos(loop.Pos()), fmt.Sprintf("%d writes inside the loop, %d under a condition that implies !%s; every path from each of the others to the post statement assigns %s", writes, exempted, flag.Name(), flag.Name()), true)
}

// trueImpliesNotParam: every value fn can return is the constant false or the negation of param.
func trueImpliesNotParam(fn *ssa.Function, param *ssa.Parameter) bool {
	ok := true
	n := 0
	var leaf func(v ssa.Value, d int)
	leaf = func(v ssa.Value, d int) {
		if d > 8 {
			ok = false
			return
		}
		switch x := v.(type) {
		case *ssa.Phi:
			for _, e := range x.Edges {
				leaf(e, d+1)
			}
		case *ssa.Const:
			if x.Value == nil || x.Value.Kind() != constant.Bool || constant.BoolVal(x.Value) {
				ok = false
			}
		case *ssa.UnOp:
			if x.Op != token.NOT || x.X != ssa.Value(param) {
				ok = false
			}
		default:
			ok = false
		}
	}
	for _, ret := range returnsOf(fn) {
		if len(ret.Results) != 1 {
			return false
		}
		n++
		leaf(ret.Results[0], 0)
	}
	return ok && n > 0
}
