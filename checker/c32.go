package main

import (
	"fmt"
	"sort"
	"strings"

	"golang.org/x/tools/go/ssa"
)

// C32 (one clause): page operations leave unselected pages untouched.

func init() {
	register(&Check{
		ID:  "C32",
		Run: runC32,
		Explanation: "Decides ONE structural clause of 'page operations act exactly on the selected pages … with unselected pages untouched': a page selection is a map page -> bool in which false means 'taken out by a negated term'. " +
			"(R1 dominance) in every loop over a page selection (a range over a types.IntSet that is a result of the selection producers of pkg/api or a parameter named like one — the loops of rotate, trim, remove, crop, boundaries, resize, zoom, n-up, images, annotations and extraction) everything that is done with the page number — every call or store that receives the loop key or a value derived from it — happens behind the test of the entry's value: the instruction is dominated by the edge on which the value is true. C31.R4 only asks that the value is read; this rule asks that nothing is done for a page before it is consulted. " +
			"(R2 TABLE) rotations are stored modulo a full turn: composePageRotation reduces its result with % 360 and corrects a negative remainder (a page rotated four times is a page not rotated; a Rotate of 360 or -90 is not a valid entry). " +
			"(R3) rotatePage hands composePageRotation the Rotate field of the inherited page attributes; (R4) api.Collect calls ExtractPages with the constant false for the page cache. " +
			"NOT decided: what an operation does to a selected page (content identity, box arithmetic), the page sequence after insert/remove/collect, inherited attributes.",
		Rules: []string{
			"C32.R1 dominance: per-page work in a loop over a page selection is behind the entry's value being true",
			"C32.R2 TABLE: page rotations are reduced modulo 360 with the negative remainder corrected",
			"C32.R3 source: rotatePage composes the delta with the effective (inherited) rotation",
			"C32.R5 TABLE: addPage makes all four inheritable page attributes explicit on a migrated page; Rotate under an (in)equality with 0",
			"C32.R6 order: the page-tree walk behind PageDict skips a subtree before merging its inheritable attributes into the shared accumulator",
			"C32.R4 TABLE: api.Collect extracts pages without the page cache (one page object per occurrence)",
		},
		Assumptions: []string{"page selections reach the page operations as types.IntSet values from the pkg/api producers"},
		Level:       "other",
		Technique:   "dominance of the value test over every use of the loop key in range loops over selection sets (SSA)",
		Note:        "Partial: the 'unselected pages untouched' clause.",
	})
}

func runC32(c *Ctx) {
	p, r := c.P, c.R
	r.MinInst["C32.R1"] = 10
	r.MinInst["C32.R2"] = 1
	r.MinInst["C32.R3"] = 1
	r.MinInst["C32.R4"] = 1
	checkC32Round4(c)
	r.MinInst["C32.R5"] = 4
	checkAddPageKeepsInherited(c)
	r.MinInst["C32.R6"] = 1
	checkSkippedSubtreesLeaveNoAttributes(c)
	var fns []*ssa.Function
	for _, fn := range p.Funcs {
		if isSubject(fn) {
			fns = append(fns, fn)
		}
	}
	sort.Slice(fns, func(i, j int) bool { return FuncID(fns[i]) < FuncID(fns[j]) })
	n := 0
	for _, fn := range fns {
		k := 0
		eachInstr(fn, func(_ *ssa.BasicBlock, _ int, i ssa.Instruction) {
			rg, ok := i.(*ssa.Range)
			if !ok || !isSelectionSet(rg.X.Type()) || !isPageSelectionValue(rg.X) || rg.Referrers() == nil {
				return
			}
			var key, val *ssa.Extract
			for _, nx := range *rg.Referrers() {
				nn, ok := nx.(*ssa.Next)
				if !ok || nn.Referrers() == nil {
					continue
				}
				for _, ex := range *nn.Referrers() {
					if e, ok := ex.(*ssa.Extract); ok {
						switch e.Index {
						case 1:
							key = e
						case 2:
							val = e
						}
					}
				}
			}
			if key == nil {
				return
			}
			k++
			n++
			construct := fmt.Sprintf("loop over page selection#%d", k)
			if val == nil {
				r.Bad("C32.R1", FuncID(fn), construct, p.Pos(rg.Pos()), "the loop uses the page numbers of the selection without looking at the entries' values: pages a negated term took out are operated on")
				return
			}
			// edges on which the value is true
			var trueEdges []Edge
			trueEdges = append(trueEdges, condEdges(val, true)...)
			if val.Referrers() != nil {
				for _, rf := range *val.Referrers() {
					if u, ok := rf.(*ssa.UnOp); ok {
						trueEdges = append(trueEdges, condEdges(u, false)...)
					}
				}
			}
			// uses of the key
			var early []string
			seen := map[ssa.Value]bool{}
			var visit func(v ssa.Value)
			visit = func(v ssa.Value) {
				if seen[v] || v.Referrers() == nil {
					return
				}
				seen[v] = true
				for _, rf := range *v.Referrers() {
					switch x := rf.(type) {
					case *ssa.Convert:
						visit(x)
						continue
					case *ssa.MakeInterface:
						visit(x)
						continue
					case *ssa.DebugRef:
						continue
					case *ssa.Phi:
						// a φ takes the key along an edge: that edge's source has to be behind the test
						for ei, e := range x.Edges {
							if e != v {
								continue
							}
							pb := x.Block().Preds[ei]
							behind := false
							for _, te := range trueEdges {
								if edgeDominates(te, pb) {
									behind = true
								}
							}
							if !behind {
								early = append(early, p.Pos(x.Pos()))
							}
						}
						continue
					}
					b := rf.Block()
					behind := false
					for _, e := range trueEdges {
						if edgeDominates(e, b) {
							behind = true
						}
					}
					if !behind {
						early = append(early, p.Pos(rf.Pos()))
					}
				}
			}
			visit(key)
			if len(early) > 0 {
				sort.Strings(early)
				r.Bad("C32.R1", FuncID(fn), construct, early[0], fmt.Sprintf("the page number is used (%d places, first here) on a path that is not behind the entry's value being true: a page that a negated term took out of the selection (value false) is operated on as well", len(early)))
			} else {
				r.OK("C32.R1", FuncID(fn), construct, p.Pos(rg.Pos()), "every use of the page number is behind the entry's value being true", true)
			}
		})
	}
	if n == 0 {
		r.Bad("C32.R1", "-", "anchor", "", "UNRESOLVED-ANCHOR: no loop over a page selection found")
	}
	// ---- R2
	const fid = "pkg/pdfcpu.composePageRotation"
	fn := p.Func(fid)
	if fn == nil {
		r.Bad("C32.R2", fid, "anchor", "", "UNRESOLVED-ANCHOR")
		return
	}
	mod360, negFix := false, false
	eachInstr(fn, func(_ *ssa.BasicBlock, _ int, i ssa.Instruction) {
		bo, ok := i.(*ssa.BinOp)
		if !ok {
			return
		}
		if bo.Op.String() == "%" {
			if kk, ok := c31ConstInt(bo.Y); ok && kk == 360 {
				mod360 = true
			}
		}
		if bo.Op.String() == "<" {
			if kk, ok := c31ConstInt(bo.Y); ok && kk == 0 {
				negFix = true
			}
		}
	})
	// every returned value derives from the remainder
	if mod360 && negFix {
		r.OK("C32.R2", fid, "rotation modulo a full turn", p.Pos(fn.Pos()), "the sum is reduced with % 360 and a negative remainder is corrected", true)
	} else {
		r.Bad("C32.R2", fid, "rotation modulo a full turn", p.Pos(fn.Pos()), "the composed rotation is not reduced modulo 360 with a correction of the negative remainder ("+strings.TrimSpace(fmt.Sprintf("%% 360: %v, < 0 test: %v", mod360, negFix))+"): rotating by -90 or four times by 90 stores a /Rotate that is not one of 0, 90, 180, 270")
	}
}

// R3 / R4 (round 4 seeds C32-A, C32-B).
//
// R3: a page's rotation is the inherited one unless the page has its own entry; rotating composes the EFFECTIVE
// rotation with the delta. In rotatePage the first argument of composePageRotation is read from the inherited page
// attributes PageDict returns (a field named Rotate), not from the page dictionary's own entry.
//
// R4: a page collection may name a page several times, and every occurrence is a page of its own in the result (a later
// operation on one occurrence must not touch the other). api.Collect therefore extracts without the page cache: the
// cache argument of pdfcpu.ExtractPages is the constant false.
func checkC32Round4(c *Ctx) {
	p, r := c.P, c.R
	if fn := p.Func("pkg/pdfcpu.rotatePage"); fn == nil {
		r.Bad("C32.R3", "pkg/pdfcpu.rotatePage", "anchor", "", "UNRESOLVED-ANCHOR")
	} else {
		n := 0
		eachInstr(fn, func(_ *ssa.BasicBlock, _ int, i ssa.Instruction) {
			call, ok := i.(*ssa.Call)
			if !ok {
				return
			}
			if f := staticCallee(call); f == nil || f.Name() != "composePageRotation" || len(call.Call.Args) != 2 {
				return
			}
			n++
			okArg := false
			for _, l := range valueLeaves(call.Call.Args[0]) {
				if ld, ok := l.(*ssa.UnOp); ok {
					if fa, ok := ld.X.(*ssa.FieldAddr); ok {
						f := structField(fa.X.Type(), fa.Field)
						if f != nil && f.Name() == "Rotate" && strings.Contains(fa.X.Type().String(), "InheritedPageAttrs") {
							okArg = true
						}
					}
				}
			}
			if okArg {
				r.OK("C32.R3", FuncID(fn), "current rotation", p.Pos(call.Pos()), "the effective rotation (InheritedPageAttrs.Rotate) is composed with the delta", true)
			} else {
				r.Bad("C32.R3", FuncID(fn), "current rotation", p.Pos(call.Pos()), "the rotation that is composed with the delta is "+exprName(call.Call.Args[0])+", not the effective rotation from the inherited page attributes: a page that inherits /Rotate 90 and is rotated by 90 ends up at 90 instead of 180")
			}
		})
		if n == 0 {
			r.Bad("C32.R3", FuncID(fn), "current rotation", p.Pos(fn.Pos()), "UNDECIDED: rotatePage does not call composePageRotation")
		}
	}
	if fn := p.Func("pkg/api.Collect"); fn == nil {
		r.Bad("C32.R4", "pkg/api.Collect", "anchor", "", "UNRESOLVED-ANCHOR")
	} else {
		n := 0
		eachInstr(fn, func(_ *ssa.BasicBlock, _ int, i ssa.Instruction) {
			call, ok := i.(*ssa.Call)
			if !ok {
				return
			}
			if f := staticCallee(call); f == nil || f.Name() != "ExtractPages" || len(call.Call.Args) != 3 {
				return
			}
			n++
			cst, isC := call.Call.Args[2].(*ssa.Const)
			if isC && cst.Value != nil && cst.Value.String() == "false" {
				r.OK("C32.R4", FuncID(fn), "one page object per occurrence", p.Pos(call.Pos()), "pages are extracted without the page cache", true)
			} else {
				r.Bad("C32.R4", FuncID(fn), "one page object per occurrence", p.Pos(call.Pos()), "a page collection is extracted with the page cache: a page named twice becomes ONE page object listed twice in /Kids, so a later operation on one occurrence (rotate, crop, boxes) changes the other, unselected one as well")
			}
		})
		if n == 0 {
			r.Bad("C32.R4", FuncID(fn), "one page object per occurrence", p.Pos(fn.Pos()), "UNDECIDED: Collect does not call ExtractPages")
		}
	}
}

// R5: the pages an operation keeps come out as they were. addPage moves a page into the new page tree, where nothing is
// inherited any more, so it has to make every inheritable page attribute explicit (ISO 32000 Table 30 / 7.7.3.4:
// Resources, MediaBox, CropBox, Rotate): it stores all four keys into the page dictionary, and the store of Rotate is
// guarded by an (in)equality with 0, not by an ordering (a negative inherited rotation is a rotation).
func checkAddPageKeepsInherited(c *Ctx) {
	p, r := c.P, c.R
	const fid = "pkg/pdfcpu.addPage"
	fn := p.Func(fid)
	if fn == nil {
		r.Bad("C32.R5", fid, "anchor", "", "UNRESOLVED-ANCHOR")
		return
	}
	stored := map[string]*ssa.MapUpdate{}
	eachInstr(fn, func(_ *ssa.BasicBlock, _ int, i ssa.Instruction) {
		if mu, ok := i.(*ssa.MapUpdate); ok {
			if k, ok := constString(mu.Key); ok {
				stored[k] = mu
			}
		}
	})
	for _, k := range []string{"Resources", "MediaBox", "CropBox", "Rotate"} {
		construct := "inherited " + k
		mu := stored[k]
		if mu == nil {
			r.Bad("C32.R5", fid, construct, p.Pos(fn.Pos()), "the migrated page does not get an explicit /"+k+": in the new page tree nothing is inherited, so a page that inherited it comes out without it (trim, collect, remove, split and extract all go through addPage)")
			continue
		}
		if k == "Rotate" {
			ordering := false
			for _, x := range fn.Blocks {
				if len(x.Instrs) == 0 {
					continue
				}
				ifi, ok := x.Instrs[len(x.Instrs)-1].(*ssa.If)
				if !ok {
					continue
				}
				if edgeDominates(Edge{x, 0}, mu.Block()) != edgeDominates(Edge{x, 1}, mu.Block()) {
					if bo, ok := ifi.Cond.(*ssa.BinOp); ok {
						switch bo.Op.String() {
						case "<", "<=", ">", ">=":
							ordering = true
						}
					}
				}
			}
			if ordering {
				r.Bad("C32.R5", fid, construct, p.Pos(mu.Pos()), "the inherited rotation is made explicit only on one side of an ordering comparison: a negative inherited /Rotate (-90) is dropped and the page comes out unrotated")
				continue
			}
		}
		r.OK("C32.R5", fid, construct, p.Pos(mu.Pos()), "made explicit on the migrated page", true)
	}
}

// R6 (order): PageDict walks the page tree with ONE accumulator of inherited attributes. A subtree that does not
// contain the wanted page is skipped by adding its /Count to the page counter; that has to happen before the node's
// own attributes are merged into the accumulator, or an earlier sibling's /Rotate, /CropBox, /MediaBox, /Resources
// stay in effect for the pages of later siblings (every page operation reads them through PageDict). In
// processPageTreeForPageDictDepth the block that advances the counter (a store through the pointer parameter p) is not
// dominated by the call of checkInheritedPageAttrs.
func checkSkippedSubtreesLeaveNoAttributes(c *Ctx) {
	p, r := c.P, c.R
	const fid = "pkg/pdfcpu/model.(*XRefTable).processPageTreeForPageDictDepth"
	fn := p.Func(fid)
	if fn == nil {
		r.Bad("C32.R6", fid, "anchor", "", "UNRESOLVED-ANCHOR")
		return
	}
	var counter *ssa.Parameter
	for _, q := range fn.Params {
		if q.Name() == "p" {
			counter = q
		}
	}
	var callBlk *ssa.BasicBlock
	var callIdx int
	eachInstr(fn, func(b *ssa.BasicBlock, idx int, i ssa.Instruction) {
		if call, ok := i.(*ssa.Call); ok {
			if f := staticCallee(call); f != nil && f.Name() == "checkInheritedPageAttrs" {
				callBlk, callIdx = b, idx
			}
		}
	})
	if counter == nil || callBlk == nil {
		r.Bad("C32.R6", fid, "anchor", p.Pos(fn.Pos()), "UNRESOLVED-ANCHOR: page counter parameter or the call of checkInheritedPageAttrs not found")
		return
	}
	n := 0
	eachInstr(fn, func(b *ssa.BasicBlock, idx int, i ssa.Instruction) {
		st, ok := i.(*ssa.Store)
		if !ok || st.Addr != ssa.Value(counter) {
			return
		}
		n++
		after := (b == callBlk && idx > callIdx) || (b != callBlk && callBlk.Dominates(b))
		if after {
			r.Bad("C32.R6", fid, fmt.Sprintf("subtree skipped#%d", n), p.Pos(st.Pos()), "a subtree that does not contain the wanted page is skipped only after its attributes were merged into the shared accumulator: an earlier sibling's /Rotate, /CropBox, /MediaBox or /Resources then apply to the pages of later siblings — rotate, trim, crop and every other page operation act on wrong inherited values")
		} else {
			r.OK("C32.R6", fid, fmt.Sprintf("subtree skipped#%d", n), p.Pos(st.Pos()), "skipped before its attributes are merged", true)
		}
	})
	if n == 0 {
		r.Bad("C32.R6", fid, "subtree skipped", p.Pos(fn.Pos()), "UNDECIDED: the page counter is never advanced by a subtree's /Count")
	}
}
