package main

import (
	"fmt"
	"go/constant"
	"go/token"
	"go/types"
	"sort"
	"strings"

	"golang.org/x/tools/go/ssa"
)

// C11 — written objects parse back (partial: kind tables, separators, name delimiters).
// C12 — string escaping / name encoding lossless (partial: tables and first-write shape).

func init() {
	register(&Check{
		ID:  "C11",
		Run: runC11,
		Explanation: "Decides the finite tables the object writer depends on: (R1 exhaustiveness) the type switches of appendPDFObject, writeObjectGeneric and Dict.PDFString / Array.PDFString cover every implementor of types.Object (enumerated through go/types) except those in the documented not-serialisable-here table; in appendPDFObject the clauses for IndirectRef, Name, StringLiteral and HexLiteral delegate to the kind's own PDFString (so both writer paths emit the same token) — for IndirectRef an own implementation must read both ObjectNumber and GenerationNumber; (R2 separators) the no-space clause of dictObjectNeedsSpace / arrayObjectNeedsSpace contains only kinds whose token starts with a delimiter ('<<' '[' '/' '(' '<', ISO 32000-1 7.2.2) and never Integer, Float, Boolean, IndirectRef or null; the Sprintf formats in Dict.PDFString put a space between key and value for exactly those regular-start kinds; (R3 name delimiters) needsHexSequence escapes every delimiter character ( ) < > [ ] { } / % and # — extracted from its comparison constants or constant membership string — and every byte outside '!'..'~'; (R2, arrays) in Array.PDFString every type-switch clause that appends its element without the separator value is a self-delimiting kind — a regular-start kind (number, boolean, reference, null) written without separator fuses with the element before it; (R4 reader side) the string-literal scanner balancedParenthesesPrefix tracks whether a backslash is itself escaped: its escape flag is turned on only by a backslash seen in the not-escaped state (or it counts backslash parity), otherwise an even run of backslashes before a parenthesis is mis-scanned and a written string does not parse back. (R2, Dict.PDFString) the text appended for an entry is evaluated symbolically per clause of the entry type switch — string concatenation, fmt.Sprintf with a constant %s/%v format, \u03c6 values resolved by the clause and by nil tests on the switched value — and the first character after the encoded key must be a space or the start of a value kind that begins with a delimiter (independent of how the clauses are laid out: one Sprintf per clause or one separator variable and a single append). (R5) strconv.FormatFloat / AppendFloat in Float.PDFString and appendPDFObject use 'f' notation and a precision that is provably at least 12 or -1 (followed through \u03c6, min, max): the property compares reals after rounding to twelve fractional digits. NOT decided: the round trip itself (string escaping of particular bytes is C12).",
		Rules: []string{
			"C11.R1 TABLE: type-switch exhaustiveness over types.Object implementors; delegation to PDFString",
			"C11.R2 TABLE: separator tables vs self-delimiting kinds",
			"C11.R3 TABLE: name delimiter set and printable range",
			"C11.R5 real precision: 'f' notation with at least twelve fractional digits in both serialisers",
			"C11.R6 TABLE (= C12.R2): names are written with '#' + exactly two hex digits per escaped byte and read back two digits at a time",
			"C11.R7 shape: string and hex literals are serialised whole (no slice of, no branch on the length of the value in String/PDFString)",
		},
		Assumptions: []string{"ISO 32000-1 7.2.2 delimiter set: ( ) < > [ ] { } / %"},
		Technique:   "type-switch and comparison-constant table extraction from SSA; implementor enumeration through go/types; sibling agreement between the two serialiser paths",
		Note:        "Partial: tables only.",
	})
	register(&Check{
		ID:  "C12",
		Run: runC12,
		Explanation: "Decides the finite tables and first-write shape of the string/name codecs: (R1) Escape's byte->letter table and escaped's letter->byte table are mutually inverse on {LF<->n, CR<->r, TAB<->t, BS<->b, FF<->f}; Escape treats backslash and both parentheses as special; for every special byte the first thing written after the match is a backslash, unconditionally (no pass-through of pre-escaped sequences), and for non-special bytes exactly the byte itself; escaped passes '(' and ')' through; (R2) name encoding: EncodeName writes '#' followed by a two-digit hex rendering of exactly one byte (encoding/hex on a 1-byte slice, or a %02x format) for every byte needsHexSequence selects (delimiter set as in C11.R3) and DecodeName consumes exactly two characters after '#' (slice s[i+1:i+3], i += 2); (R3 byte exactness) Escape, Unescape, escaped, EncodeName and DecodeName never write an integer to their output as a string or rune (WriteRune / WriteString(string(int)) is UTF-8 encoding: a byte >= 0x80 would become two bytes), and every non-nil result of Unescape is its accumulation buffer's Bytes() without a further call that could drop or rewrite bytes depending on the content (Unescape also decodes binary strings). (R4) in EncodeName every path from needsHexSequence(ch) == true to the next byte's test or to a return writes the '#' form: the escape decision is a function of the byte alone (a look-ahead or 'already encoded' exception makes two names share one encoding). (R5) in Unescape every byte written while the escape flag may be set is followed, before the next byte is read, by an assignment of the flag (an escape sequence that has produced its byte is over). NOT decided: octal sequence values, CR/LF interactions in Escape, UTF-16 (C13), the quantified round trip.",
		Rules: []string{
			"C12.R1 TABLE agreement: Escape vs escaped; backslash-first shape",
			"C12.R2 TABLE/shape: EncodeName two-digit hex, DecodeName consumes two digits",
			"C12.R3 byte exactness: no integer->string conversions in the codecs; Unescape returns its buffer unprocessed",
			"C12.R4 MPT: a byte needsHexSequence reports is always written in '#' form (decision per byte)",
			"C12.R6 shape: DecodeName / EncodeName compare the length of their argument with no constant above 3 (no length limit on the encoded form)",
			"C12.R5 MPT (go/cfg): in Unescape a byte written inside an escape sequence is followed by an assignment of the escape flag before the next byte",
		},
		Assumptions: []string{"encoding/hex renders one byte as two digits"},
		Technique:   "switch-table extraction from SSA comparison chains and phi edges; first-write path exploration from the match edge; callee/format classification",
		Note:        "Partial: tables and shape.",
	})
}

// objectImplementors: named non-interface types of package types implementing types.Object (value receiver set).
func objectImplementors(p *Program) []string {
	pk := p.Pkg("pkg/pdfcpu/types")
	if pk == nil {
		return nil
	}
	obj, _ := pk.Types.Scope().Lookup("Object").(*types.TypeName)
	if obj == nil {
		return nil
	}
	iface, _ := obj.Type().Underlying().(*types.Interface)
	var out []string
	sc := pk.Types.Scope()
	for _, n := range sc.Names() {
		tn, ok := sc.Lookup(n).(*types.TypeName)
		if !ok || tn.IsAlias() {
			continue
		}
		if _, isI := tn.Type().Underlying().(*types.Interface); isI {
			continue
		}
		if types.Implements(tn.Type(), iface) {
			out = append(out, n)
		}
	}
	sort.Strings(out)
	return out
}

// typeSwitchCases: asserted type names in fn (CommaOk TypeAsserts = type switch clauses).
func typeSwitchCases(fn *ssa.Function) map[string]*ssa.TypeAssert {
	out := map[string]*ssa.TypeAssert{}
	eachInstr(fn, func(_ *ssa.BasicBlock, _ int, i ssa.Instruction) {
		if ta, ok := i.(*ssa.TypeAssert); ok && ta.CommaOk {
			out[typeNameOf(ta.AssertedType)] = ta
		}
	})
	return out
}

var c11NotSerialisedHere = map[string]map[string]string{
	"pkg/pdfcpu.appendPDFObject": {
		"StreamDict":       "stream objects cannot live inside object streams / nested values (ISO 32000-1 7.5.7)",
		"ObjectStreamDict": "container type, never a value", "XRefStreamDict": "container type, never a value",
	},
	"pkg/pdfcpu.writeObjectGeneric": {
		"IndirectRef":      "resolved by writeIndirectObject before this switch",
		"ObjectStreamDict": "written by stopObjectStream", "XRefStreamDict": "written by writeXRefStream",
	},
	"pkg/pdfcpu/types.(Dict).PDFString": {
		"StreamDict": "streams are always indirect", "ObjectStreamDict": "container", "XRefStreamDict": "container", "LazyObjectStreamObject": "decoded before it can be a dict value",
	},
	"pkg/pdfcpu/types.(Array).PDFString": {
		"StreamDict": "streams are always indirect", "ObjectStreamDict": "container", "XRefStreamDict": "container", "LazyObjectStreamObject": "decoded before it can be an array element",
	},
}

func runC11(c *Ctx) {
	c.R.MinInst["C11.R4"] = 1
	checkEscapeParity(c, "C11.R4", "pkg/pdfcpu/model.balancedParenthesesPrefix")
	p, r := c.P, c.R
	r.MinInst["C11.R1"] = 20
	r.MinInst["C11.R2"] = 2
	r.MinInst["C11.R3"] = 1
	r.MinInst["C11.R6"] = 2
	checkNameHexDigits(c, "C11.R6")
	r.MinInst["C11.R7"] = 2
	checkAtomicSerialisersWhole(c)
	impls := objectImplementors(p)
	if len(impls) < 8 {
		r.Bad("C11.R1", "pkg/pdfcpu/types", "anchor", "", fmt.Sprintf("UNRESOLVED-ANCHOR: only %d implementors of types.Object found", len(impls)))
		return
	}
	var fids []string
	for f := range c11NotSerialisedHere {
		fids = append(fids, f)
	}
	sort.Strings(fids)
	for _, fid := range fids {
		fn := p.Func(fid)
		if fn == nil {
			r.Bad("C11.R1", fid, "anchor", "", "UNRESOLVED-ANCHOR: serialiser not found")
			continue
		}
		cases := typeSwitchCases(fn)
		for _, t := range impls {
			if _, ok := cases[t]; ok {
				r.OK("C11.R1", fid, "case "+t, p.Pos(fn.Pos()), "handled", false)
				continue
			}
			if why, ok := c11NotSerialisedHere[fid][t]; ok {
				r.OK("C11.R1", fid, "case "+t, p.Pos(fn.Pos()), "not serialised here: "+why, false)
				continue
			}
			r.Bad("C11.R1", fid, "case "+t, p.Pos(fn.Pos()), "the type switch has no clause for types."+t+", an implementor of types.Object: such a value would hit the default clause (error or wrong bytes) when written")
		}
	}
	// delegation in appendPDFObject
	if fn := p.Func("pkg/pdfcpu.appendPDFObject"); fn != nil {
		cases := typeSwitchCases(fn)
		for _, t := range []string{"IndirectRef", "Name", "StringLiteral", "HexLiteral"} {
			ta := cases[t]
			if ta == nil {
				continue
			}
			delegates := false
			fieldsRead := map[string]bool{}
			// values derived from the asserted value
			var val ssa.Value
			for _, rf := range *ta.Referrers() {
				if ex, ok := rf.(*ssa.Extract); ok && ex.Index == 0 {
					val = ex
				}
			}
			eachInstr(fn, func(_ *ssa.BasicBlock, _ int, i ssa.Instruction) {
				switch x := i.(type) {
				case *ssa.Call:
					if _, ref := callRef(x); strings.HasSuffix(ref, "."+t+".PDFString") && len(x.Call.Args) > 0 && (x.Call.Args[0] == val || sameValue(x.Call.Args[0], val)) {
						delegates = true
					}
				case *ssa.Field:
					if x.X == val {
						if f := structField(x.X.Type(), x.Field); f != nil {
							fieldsRead[f.Name()] = true
						}
					}
				case *ssa.FieldAddr:
					if f := structField(x.X.Type(), x.Field); f != nil && typeNameOf(x.X.Type()) == t {
						fieldsRead[f.Name()] = true
					}
				}
			})
			switch {
			case delegates:
				r.OK("C11.R1", FuncID(fn), "delegates "+t, p.Pos(ta.Pos()), "clause calls "+t+".PDFString on the asserted value (both writer paths emit the same token)", true)
			case t == "IndirectRef" && fieldsRead["ObjectNumber"] && fieldsRead["GenerationNumber"]:
				r.OK("C11.R1", FuncID(fn), "delegates "+t, p.Pos(ta.Pos()), "own implementation reads ObjectNumber and GenerationNumber", true)
			default:
				r.Bad("C11.R1", FuncID(fn), "delegates "+t, p.Pos(ta.Pos()), "the "+t+" clause of appendPDFObject neither delegates to "+t+".PDFString nor reads all fields of the value (an indirect reference's generation number, a name's/strings's escaping): the object-stream writer path and the direct path would emit different tokens")
			}
		}
	} else {
		r.Bad("C11.R1", "pkg/pdfcpu.appendPDFObject", "anchor", "", "UNRESOLVED-ANCHOR: function not found")
	}
	// ---- R2 separators
	selfDelimiting := map[string]bool{"Dict": true, "Array": true, "Name": true, "StringLiteral": true, "HexLiteral": true}
	for _, fid := range []string{"pkg/pdfcpu.dictObjectNeedsSpace", "pkg/pdfcpu.arrayObjectNeedsSpace"} {
		fn := p.Func(fid)
		if fn == nil {
			r.Bad("C11.R2", fid, "anchor", "", "UNRESOLVED-ANCHOR")
			continue
		}
		// clause types whose success edge leads to `return false`
		var noSpace []string
		bad := ""
		eachInstr(fn, func(_ *ssa.BasicBlock, _ int, i ssa.Instruction) {
			ta, ok := i.(*ssa.TypeAssert)
			if !ok || !ta.CommaOk {
				return
			}
			for _, rf := range *ta.Referrers() {
				ex, ok := rf.(*ssa.Extract)
				if !ok || ex.Index != 1 {
					continue
				}
				for _, e := range condEdges(ex, true) {
					tgt := e.From.Succs[e.Succ]
					if ret, ok := tgt.Instrs[len(tgt.Instrs)-1].(*ssa.Return); ok {
						if cst, ok := ret.Results[0].(*ssa.Const); ok && !constant.BoolVal(cst.Value) {
							tn := typeNameOf(ta.AssertedType)
							noSpace = append(noSpace, tn)
							if !selfDelimiting[tn] {
								bad = tn
							}
						}
					}
				}
			}
		})
		sort.Strings(noSpace)
		if bad != "" {
			r.Bad("C11.R2", fid, "no-space-kinds", p.Pos(fn.Pos()), "kind "+bad+" is written without a separating space although its token starts with a regular character: it would fuse with the preceding key or element (e.g. /Key12 or 1 0 R2)")
		} else if len(noSpace) == 0 {
			r.Bad("C11.R2", fid, "no-space-kinds", p.Pos(fn.Pos()), "UNRESOLVED-ANCHOR: no type clause returning false found")
		} else {
			r.OK("C11.R2", fid, "no-space-kinds", p.Pos(fn.Pos()), "no-space kinds "+strings.Join(noSpace, ",")+" all start with a delimiter", true)
		}
	}
	// Dict.PDFString: what follows the key, per kind of value (symbolic evaluation of the appended text; round 3 of seeding)
	checkDictEntrySeparators(c, selfDelimiting)
	// Array.PDFString: element separators (round 2 of seeding)
	checkArraySeparators(c, selfDelimiting)
	// ---- R3
	checkNameDelimiters(c, "C11.R3")
	// ---- R5
	r.MinInst["C11.R5"] = 2
	checkRealPrecision(c)
}

// checkNameDelimiters: needsHexSequence covers the delimiter set and the non-printable range.
func checkNameDelimiters(c *Ctx, rule string) {
	p, r := c.P, c.R
	fn := p.Func("pkg/pdfcpu/types.needsHexSequence")
	if fn == nil {
		r.Bad(rule, "pkg/pdfcpu/types.needsHexSequence", "anchor", "", "UNRESOLVED-ANCHOR")
		return
	}
	members := map[byte]bool{}
	var lower, upper int64 = -1, -1 // c < lower ; c > upper
	eachInstr(fn, func(_ *ssa.BasicBlock, _ int, i ssa.Instruction) {
		switch x := i.(type) {
		case *ssa.BinOp:
			k, ok := constInt(x.Y)
			if !ok {
				return
			}
			switch x.Op {
			case token.EQL:
				members[byte(k)] = true
			case token.LSS:
				lower = k
			case token.LEQ:
				lower = k + 1
			case token.GTR:
				upper = k
			case token.GEQ:
				upper = k - 1
			}
		case *ssa.Call:
			_, ref := callRef(x)
			if ref == "strings.IndexByte" || ref == "strings.ContainsRune" || ref == "strings.ContainsAny" || ref == "bytes.IndexByte" || ref == "strings.Contains" {
				for _, a := range x.Call.Args {
					if s, ok := constString(throughCell(a)); ok {
						for j := 0; j < len(s); j++ {
							members[s[j]] = true
						}
					}
				}
			}
		}
	})
	var missing []string
	for _, ch := range []byte("()<>[]{}/%#") {
		if !members[ch] {
			missing = append(missing, string(ch))
		}
	}
	if len(missing) > 0 {
		r.Bad(rule, FuncID(fn), "delimiters", p.Pos(fn.Pos()), "needsHexSequence no longer escapes "+strings.Join(missing, " ")+": a name containing that character would be cut there by the parser ('%' starts a comment, the others end the name token)")
		return
	}
	if lower != '!' || upper != '~' {
		r.Bad(rule, FuncID(fn), "range", p.Pos(fn.Pos()), fmt.Sprintf("needsHexSequence's printable range is not c < '!' || c > '~' (found < %d, > %d): whitespace or non-ASCII bytes would be written raw into a name", lower, upper))
		return
	}
	r.OK(rule, FuncID(fn), "delimiters+range", p.Pos(fn.Pos()), "escapes ( ) < > [ ] { } / % # and everything outside '!'..'~'", true)
}

// ---------- C12 ----------

// switchTable extracts (constant compared with the switch value -> constant assigned / returned in that clause).
// For Escape: the phi collecting `c`; for escaped: the second return result.
func runC12(c *Ctx) {
	p, r := c.P, c.R
	r.MinInst["C12.R1"] = 3
	r.MinInst["C12.R2"] = 2
	esc := p.Func("pkg/pdfcpu/types.Escape")
	unesc := p.Func("pkg/pdfcpu/types.escaped")
	if esc == nil || unesc == nil {
		r.Bad("C12.R1", "pkg/pdfcpu/types.Escape", "anchor", "", "UNRESOLVED-ANCHOR")
		return
	}
	// Escape: compare constants (specials) and the phi that carries the letter
	specials := map[int64]*ssa.BinOp{}
	eachInstr(esc, func(_ *ssa.BasicBlock, _ int, i ssa.Instruction) {
		if b, ok := i.(*ssa.BinOp); ok && b.Op == token.EQL {
			if k, ok := constInt(b.Y); ok && k < 256 {
				specials[k] = b
			}
		}
	})
	fwd := map[int64]int64{}
	for k, b := range specials {
		for _, e := range condEdges(b, true) {
			tgt := e.From.Succs[e.Succ]
			// follow single-successor chain to a block with a phi that has an edge from here with a constant
			cur, prev := tgt, e.From
			for steps := 0; steps < 4; steps++ {
				found := false
				for _, in := range cur.Instrs {
					phi, ok := in.(*ssa.Phi)
					if !ok {
						break
					}
					for pi, pr := range cur.Preds {
						if pr == prev {
							if v, ok := constInt(phi.Edges[pi]); ok {
								fwd[k] = v
								found = true
							} else {
								fwd[k] = k // unchanged (backslash, parens)
								found = true
							}
						}
					}
				}
				if found || len(cur.Succs) != 1 {
					break
				}
				prev, cur = cur, cur.Succs[0]
			}
		}
	}
	// escaped: (letter -> byte)
	back := map[int64]int64{}
	eachInstr(unesc, func(_ *ssa.BasicBlock, _ int, i ssa.Instruction) {
		b, ok := i.(*ssa.BinOp)
		if !ok || b.Op != token.EQL {
			return
		}
		k, ok := constInt(b.Y)
		if !ok {
			return
		}
		for _, e := range condEdges(b, true) {
			cur, prev := e.From.Succs[e.Succ], e.From
			for steps := 0; steps < 4; steps++ {
				done := false
				for _, in := range cur.Instrs {
					switch x := in.(type) {
					case *ssa.Phi:
						for pi, pr := range cur.Preds {
							if pr == prev {
								if v, ok := constInt(x.Edges[pi]); ok {
									back[k] = v
								} else {
									back[k] = k
								}
								done = true
							}
						}
					case *ssa.Return:
						if v, ok := constInt(x.Results[1]); ok {
							back[k] = v
						} else if _, has := back[k]; !has {
							back[k] = k
						}
						done = true
					}
				}
				if done || len(cur.Succs) != 1 {
					break
				}
				prev, cur = cur, cur.Succs[0]
			}
		}
	})
	want := map[int64]int64{0x0A: 'n', 0x0D: 'r', 0x09: 't', 0x08: 'b', 0x0C: 'f'}
	bad := ""
	for b, l := range want {
		if fwd[b] != l {
			bad = fmt.Sprintf("Escape maps byte %#x to %q, expected %q", b, rune(fwd[b]), rune(l))
		} else if back[l] != b {
			bad = fmt.Sprintf("escaped maps letter %q to %#x but Escape writes %q for byte %#x: the pair is not inverse", rune(l), back[l], rune(l), b)
		}
	}
	for _, s := range []int64{'\\', '(', ')'} {
		if _, ok := specials[s]; !ok {
			bad = fmt.Sprintf("Escape no longer treats %q as special (it must be written with a preceding backslash)", rune(s))
		}
	}
	for _, s := range []int64{'(', ')'} {
		if v, ok := back[s]; !ok || v != s {
			bad = fmt.Sprintf("escaped no longer passes %q through", rune(s))
		}
	}
	if bad != "" {
		r.Bad("C12.R1", FuncID(esc), "tables", p.Pos(esc.Pos()), bad)
	} else {
		r.OK("C12.R1", FuncID(esc), "tables", p.Pos(esc.Pos()), "LF<->n CR<->r TAB<->t BS<->b FF<->f are inverse in Escape/escaped; backslash and parentheses are special; escaped passes parentheses through", true)
	}
	// first write after matching a special byte is the backslash
	isWrite := func(i ssa.Instruction) (isW bool, isBackslash bool) {
		call, ok := i.(*ssa.Call)
		if !ok {
			return false, false
		}
		_, ref := callRef(call)
		if !strings.HasPrefix(ref, "bytes.Buffer.Write") && !strings.HasPrefix(ref, "strings.Builder.Write") {
			return false, false
		}
		if len(call.Call.Args) >= 2 {
			if k, ok := constInt(call.Call.Args[1]); ok && k == '\\' {
				return true, true
			}
			if s, ok := constString(call.Call.Args[1]); ok && strings.HasPrefix(s, "\\") {
				return true, true
			}
		}
		return true, false
	}
	header := map[*ssa.BasicBlock]bool{}
	for _, b := range esc.Blocks {
		if strings.HasSuffix(b.Comment, ".loop") || strings.HasSuffix(b.Comment, ".post") {
			header[b] = true
		}
	}
	bad = ""
	keys := make([]int64, 0, len(specials))
	for k := range specials {
		keys = append(keys, k)
	}
	sort.Slice(keys, func(a, b int) bool { return keys[a] < keys[b] })
	for _, k := range keys {
		b := specials[k]
		for _, e := range condEdges(b, true) {
			seen := map[*ssa.BasicBlock]bool{}
			var walk func(blk *ssa.BasicBlock) string
			walk = func(blk *ssa.BasicBlock) string {
				if seen[blk] {
					return ""
				}
				seen[blk] = true
				for _, in := range blk.Instrs {
					if w, bs := isWrite(in); w {
						if bs {
							return ""
						}
						return fmt.Sprintf("after matching byte %#x the first write (%s) is not the backslash", k, p.Pos(in.Pos()))
					}
					if call, ok := in.(*ssa.Call); ok {
						if _, isB := call.Call.Value.(*ssa.Builtin); !isB {
							if _, ref := callRef(call); !strings.HasPrefix(ref, "bytes.Buffer.") && !strings.HasPrefix(ref, "strings.Builder.") {
								return fmt.Sprintf("after matching byte %#x a call to %s decides what is written (%s): escaping of a special byte must be unconditional", k, ref, p.Pos(in.Pos()))
							}
						}
					}
				}
				if header[blk] {
					return fmt.Sprintf("after matching byte %#x the loop continues without writing a backslash", k)
				}
				for _, s := range blk.Succs {
					if why := walk(s); why != "" {
						return why
					}
				}
				return ""
			}
			if why := walk(e.From.Succs[e.Succ]); why != "" && bad == "" {
				bad = why
			}
		}
	}
	if bad != "" {
		r.Bad("C12.R1", FuncID(esc), "backslash-first", p.Pos(esc.Pos()), bad+": Unescape(Escape(x)) would differ from x for such input")
	} else {
		r.OK("C12.R1", FuncID(esc), "backslash-first", p.Pos(esc.Pos()), fmt.Sprintf("for all %d special bytes the first write after the match is '\\\\' with no intervening decision", len(specials)), true)
	}
	// ---- R2
	checkNameDelimiters(c, "C12.R2")
	r.MinInst["C12.R4"] = 1
	checkNameEscapeDecision(c, "C12.R4")
	r.MinInst["C12.R5"] = 1
	r.MinInst["C12.R6"] = 2
	checkNameCodecNoLengthLimit(c)
	checkEscapeStateReset(c, "C12.R5")
	r.MinInst["C12.R3"] = 5
	checkByteExactCodecs(c)
	checkNameHexDigits(c, "C12.R2")
}

// checkNameHexDigits: EncodeName writes '#' + exactly two hex digits per escaped byte, DecodeName consumes exactly two.
func checkNameHexDigits(c *Ctx, rule string) {
	p, r := c.P, c.R
	if fn := p.Func("pkg/pdfcpu/types.EncodeName"); fn == nil {
		r.Bad(rule, "pkg/pdfcpu/types.EncodeName", "anchor", "", "UNRESOLVED-ANCHOR")
	} else {
		hash, twoDigit := false, false
		why := "no two-digit hex rendering of the byte found"
		eachInstr(fn, func(_ *ssa.BasicBlock, _ int, i ssa.Instruction) {
			call, ok := i.(*ssa.Call)
			if !ok {
				return
			}
			_, ref := callRef(call)
			switch {
			case strings.HasSuffix(ref, ".WriteByte") && len(call.Call.Args) == 2:
				if k, ok := constInt(call.Call.Args[1]); ok && k == '#' {
					hash = true
				}
			case ref == "encoding/hex.EncodeToString" || ref == "encoding/hex.Encode" || ref == "encoding/hex.AppendEncode":
				twoDigit = true
			case ref == "fmt.Sprintf" || ref == "fmt.Fprintf":
				for _, a := range call.Call.Args {
					if s, ok := constString(a); ok && (strings.Contains(s, "%02x") || strings.Contains(s, "%02X")) {
						twoDigit = true
					}
				}
			case strings.HasPrefix(ref, "strconv.Format") || ref == "strconv.Itoa" || strings.HasPrefix(ref, "strconv.Append"):
				why = ref + " renders values below 0x10 with a single digit"
			}
		})
		if hash && twoDigit {
			r.OK(rule, FuncID(fn), "two-digit-hex", p.Pos(fn.Pos()), "'#' followed by encoding/hex (or %02x) of one byte", true)
		} else {
			r.Bad(rule, FuncID(fn), "two-digit-hex", p.Pos(fn.Pos()), "EncodeName does not write '#' plus exactly two hex digits per escaped byte: "+why+" — DecodeName consumes two digits, so bytes 0x01..0x0F would not round-trip")
		}
	}
	if fn := p.Func("pkg/pdfcpu/types.DecodeName"); fn == nil {
		r.Bad(rule, "pkg/pdfcpu/types.DecodeName", "anchor", "", "UNRESOLVED-ANCHOR")
	} else {
		sliceOK, advOK := false, false
		eachInstr(fn, func(_ *ssa.BasicBlock, _ int, i ssa.Instruction) {
			switch x := i.(type) {
			case *ssa.Slice:
				lo, hi := offsetOf(x.Low), offsetOf(x.High)
				if lo == 1 && hi == 3 {
					sliceOK = true
				}
			case *ssa.BinOp:
				if x.Op == token.ADD {
					if k, ok := constInt(x.Y); ok && k == 2 {
						if _, isPhi := x.X.(*ssa.Phi); isPhi {
							advOK = true
						}
					}
				}
			}
		})
		if sliceOK && advOK {
			r.OK(rule, FuncID(fn), "two-digits-consumed", p.Pos(fn.Pos()), "decodes s[i+1:i+3] and advances i by 2", true)
		} else {
			r.Bad(rule, FuncID(fn), "two-digits-consumed", p.Pos(fn.Pos()), fmt.Sprintf("DecodeName no longer consumes exactly two hex digits after '#' (slice i+1..i+3: %v, i += 2: %v)", sliceOK, advOK))
		}
	}
}

// offsetOf: v == i + k  -> k (v == i -> 0), else -1
func offsetOf(v ssa.Value) int64 {
	if v == nil {
		return -1
	}
	if b, ok := v.(*ssa.BinOp); ok && b.Op == token.ADD {
		if k, ok := constInt(b.Y); ok {
			return k
		}
	}
	return 0
}

// ---------------- C12.R3 (round 2 of seeding): the codecs are byte-exact ----------------
//
// (a) Escape, Unescape, EncodeName, DecodeName contain no integer→string conversion: string(rune(v)) is UTF-8 *encoding*, which
//     turns a byte >= 0x80 into two bytes; decoded bytes must be written as bytes.
// (b) the byte slice Unescape returns is its accumulation buffer as it stands (b.Bytes()), not the result of a further call that
//     could drop or rewrite bytes depending on the content (TrimPrefix, ToValidUTF8 ...): Unescape also decodes binary strings
//     (file identifiers, encryption dictionary entries, signature contents).
func checkByteExactCodecs(c *Ctx) {
	p, r := c.P, c.R
	for _, fid := range []string{"pkg/pdfcpu/types.Escape", "pkg/pdfcpu/types.Unescape", "pkg/pdfcpu/types.EncodeName", "pkg/pdfcpu/types.DecodeName", "pkg/pdfcpu/types.escaped"} {
		fn := p.Func(fid)
		if fn == nil {
			r.Bad("C12.R3", fid, "anchor", "", "UNRESOLVED-ANCHOR")
			continue
		}
		var bad []string
		eachInstr(fn, func(_ *ssa.BasicBlock, _ int, i ssa.Instruction) {
			call, ok := i.(*ssa.Call)
			if !ok {
				return
			}
			_, ref := callRef(call)
			// output writers of bytes.Buffer / strings.Builder
			if strings.HasSuffix(ref, ".WriteRune") {
				bad = append(bad, p.Pos(call.Pos()))
				return
			}
			if !strings.HasSuffix(ref, ".WriteString") {
				return
			}
			for _, a := range call.Call.Args {
				cv, ok := a.(*ssa.Convert)
				if !ok {
					continue
				}
				from, okf := cv.X.Type().Underlying().(*types.Basic)
				to, okt := cv.Type().Underlying().(*types.Basic)
				if okf && okt && from.Info()&types.IsInteger != 0 && to.Kind() == types.String {
					bad = append(bad, p.Pos(cv.Pos()))
				}
			}
		})
		if len(bad) == 0 {
			r.OK("C12.R3", fid, "no rune->string conversion", p.Pos(fn.Pos()), "no WriteRune and no WriteString(string(integer)) on the output: bytes are written as bytes", true)
		} else {
			r.Bad("C12.R3", fid, "no rune->string conversion", bad[0], "an integer is written to the output as a string/rune (UTF-8 encoding of the code point): a decoded byte >= 0x80 becomes two bytes, so the round trip is not the identity for such input")
		}
	}
	if fn := p.Func("pkg/pdfcpu/types.Unescape"); fn != nil {
		ok, n := true, 0
		why := ""
		for _, ret := range returnsOf(fn) {
			if len(ret.Results) == 0 || isNilConst(ret.Results[0]) {
				continue
			}
			n++
			v := ret.Results[0]
			// copies of the buffer are fine: bytes.Clone(x), append([]byte(nil), x...), x[:]
			for d := 0; d < 4; d++ {
				switch y := v.(type) {
				case *ssa.Slice:
					if y.Low == nil && y.High == nil {
						v = y.X
						continue
					}
				case *ssa.Call:
					if _, ref := callRef(y); ref == "bytes.Clone" || ref == "slices.Clone" {
						v = y.Call.Args[0]
						continue
					}
					if b, isB := y.Call.Value.(*ssa.Builtin); isB && b.Name() == "append" && len(y.Call.Args) == 2 {
						v = y.Call.Args[1]
						continue
					}
				}
				break
			}
			call, isCall := v.(*ssa.Call)
			if !isCall {
				continue
			}
			_, ref := callRef(call)
			if ref != "bytes.Buffer.Bytes" {
				ok = false
				why = ref
			}
		}
		if ok && n > 0 {
			r.OK("C12.R3", FuncID(fn), "returns the buffer", p.Pos(fn.Pos()), "every non-nil result is the accumulation buffer's Bytes()", true)
		} else {
			r.Bad("C12.R3", FuncID(fn), "returns the buffer", p.Pos(fn.Pos()), "the unescaped bytes pass through "+why+" before they are returned: content-dependent post-processing makes Unescape(Escape(b)) differ from b for binary strings")
		}
	} else {
		r.Bad("C12.R3", "pkg/pdfcpu/types.Unescape", "anchor", "", "UNRESOLVED-ANCHOR: function not found")
	}
}

// ---------------- escape parity in string-literal scanners (C11.R4 / C20.R4, round 2 of seeding) ----------------
//
// A scanner that looks for the closing parenthesis of a literal string must know whether a backslash is itself escaped:
// "(C:\\)" ends at the first ')', "(a\))" does not. Two idioms are recognised:
//   flag    a loop-carried bool; the backslash comparison that turns it on is evaluated only in the not-escaped state
//   parity  the number of consecutive backslashes before the candidate is counted and tested with % 2
// A scanner with neither (or with the flag turned on regardless of its state) mis-scans an even run of backslashes.
func checkEscapeParity(c *Ctx, rule, fid string) {
	p, r := c.P, c.R
	fn := p.Func(fid)
	if fn == nil {
		r.Bad(rule, fid, "anchor", "", "UNRESOLVED-ANCHOR")
		return
	}
	isBackslash := func(v ssa.Value) bool {
		k, ok := constInt(v)
		return ok && k == 0x5c
	}
	// parity idiom
	parity := false
	eachInstr(fn, func(_ *ssa.BasicBlock, _ int, i ssa.Instruction) {
		b, ok := i.(*ssa.BinOp)
		if !ok || b.Op != token.REM {
			return
		}
		if k, ok := constInt(b.Y); ok && k == 2 {
			// its result decides a branch
			for _, rf := range *b.Referrers() {
				if cmp, ok := rf.(*ssa.BinOp); ok && (cmp.Op == token.EQL || cmp.Op == token.NEQ) && len(condEdges(cmp, true)) > 0 {
					parity = true
				}
			}
		}
	})
	// flag idiom
	flagOK, flagSeen := false, false
	eachInstr(fn, func(_ *ssa.BasicBlock, _ int, i ssa.Instruction) {
		cmp, ok := i.(*ssa.BinOp)
		if !ok || cmp.Op != token.EQL || !(isBackslash(cmp.X) || isBackslash(cmp.Y)) {
			return
		}
		// does the true edge turn a loop-carried bool on?
		for _, e := range condEdges(cmp, true) {
			tgt := e.From.Succs[e.Succ]
			for _, phiBlk := range append([]*ssa.BasicBlock{tgt}, tgt.Succs...) {
				for _, in := range phiBlk.Instrs {
					phi, ok := in.(*ssa.Phi)
					if !ok || !isBoolType(phi.Type()) {
						continue
					}
					for k, ev := range phi.Edges {
						cst, ok := ev.(*ssa.Const)
						if !ok || cst.Value == nil || cst.Value.String() != "true" {
							continue
						}
						pred := phiBlk.Preds[k]
						if pred != tgt && pred != e.From {
							continue
						}
						flagSeen = true
						// the comparison is evaluated only when the flag (this phi, or the loop phi it feeds) is false
						for _, want := range []bool{false} {
							for _, fe := range flagFalseEdges(fn, want) {
								if edgeDominates(fe, cmp.Block()) || fe.From.Succs[fe.Succ] == cmp.Block() {
									flagOK = true
								}
							}
						}
					}
				}
			}
		}
	})
	pos := p.Pos(fn.Pos())
	switch {
	case parity:
		r.OK(rule, fid, "escape parity", pos, "counts the backslashes before the candidate and tests the count % 2", true)
	case flagSeen && flagOK:
		r.OK(rule, fid, "escape parity", pos, "escape flag: the backslash test that turns the flag on is evaluated only in the not-escaped state", true)
	case flagSeen:
		r.Bad(rule, fid, "escape parity", pos, "the escape flag is turned on by every backslash, also by one that is itself escaped: an even run of backslashes before a parenthesis, as in (C:\\\\), makes the scanner skip the closing parenthesis")
	default:
		r.Bad(rule, fid, "escape parity", pos, "the scanner looks for a parenthesis and only checks whether the previous byte is a backslash: it cannot tell an escaped backslash from an escaping one (no escape flag, no parity count)")
	}
}

// flagFalseEdges: edges on which some loop-carried bool phi of fn is false.
func flagFalseEdges(fn *ssa.Function, _ bool) []Edge {
	var out []Edge
	eachInstr(fn, func(_ *ssa.BasicBlock, _ int, i ssa.Instruction) {
		phi, ok := i.(*ssa.Phi)
		if !ok || !isBoolType(phi.Type()) {
			return
		}
		out = append(out, condEdges(phi, false)...)
	})
	return out
}


// checkArraySeparators (C11.R2): in (Array).PDFString every type-switch clause whose element is appended without the separator
// string must be a self-delimiting kind (its token starts with a delimiter: << [ / ( <). A regular-start kind (number, boolean,
// reference, null) written without separator fuses with the previous element: [1true], [/Flagtrue].
func checkArraySeparators(c *Ctx, selfDelimiting map[string]bool) {
	p, r := c.P, c.R
	fid := "pkg/pdfcpu/types.(Array).PDFString"
	fn := p.Func(fid)
	if fn == nil {
		r.Bad("C11.R2", fid, "anchor", "", "UNRESOLVED-ANCHOR")
		return
	}
	// the separator: a string phi over the constants "" and " "
	var sep ssa.Value
	eachInstr(fn, func(_ *ssa.BasicBlock, _ int, i ssa.Instruction) {
		phi, ok := i.(*ssa.Phi)
		if !ok || len(phi.Edges) != 2 {
			return
		}
		a, oka := constString(phi.Edges[0])
		b, okb := constString(phi.Edges[1])
		if oka && okb && ((a == "" && b == " ") || (a == " " && b == "")) {
			sep = phi
		}
	})
	if sep == nil {
		r.Bad("C11.R2", fid, "separator", p.Pos(fn.Pos()), "UNRESOLVED-ANCHOR: no separator value (\"\" for the first element, \" \" afterwards) found")
		return
	}
	usesSep := func(v ssa.Value) bool {
		seen := map[ssa.Value]bool{}
		var walk func(x ssa.Value, d int) bool
		walk = func(x ssa.Value, d int) bool {
			if x == sep {
				return true
			}
			if x == nil || seen[x] || d > 6 {
				return false
			}
			seen[x] = true
			switch y := x.(type) {
			case *ssa.BinOp:
				return walk(y.X, d+1) || walk(y.Y, d+1)
			case *ssa.MakeInterface:
				return walk(y.X, d+1)
			case *ssa.Call:
				if _, ref := callRef(y); ref == "fmt.Sprintf" {
					for _, e := range variadicElems(y) {
						if walk(e, d+1) {
							return true
						}
					}
				}
			case *ssa.Slice:
				return walk(y.X, d+1)
			}
			return false
		}
		return walk(v, 0)
	}
	n := 0
	var bad []string
	var noSep []string
	for kind, ta := range typeSwitchCases(fn) {
		// success edge of this clause
		for _, rf := range *ta.Referrers() {
			ex, ok := rf.(*ssa.Extract)
			if !ok || ex.Index != 1 {
				continue
			}
			for _, e := range condEdges(ex, true) {
				// first append reached from the success edge
				start := e.From.Succs[e.Succ]
				seenB := map[*ssa.BasicBlock]bool{}
				stack := []*ssa.BasicBlock{start}
				var app *ssa.Call
				for len(stack) > 0 && app == nil {
					b := stack[len(stack)-1]
					stack = stack[:len(stack)-1]
					if seenB[b] {
						continue
					}
					seenB[b] = true
					for _, in := range b.Instrs {
						if cc, ok := in.(*ssa.Call); ok {
							if bi, ok := cc.Call.Value.(*ssa.Builtin); ok && bi.Name() == "append" {
								app = cc
								break
							}
						}
					}
					if app == nil {
						stack = append(stack, b.Succs...)
					}
				}
				if app == nil {
					continue
				}
				n++
				has := false
				if sl, ok := app.Call.Args[1].(*ssa.Slice); ok {
					if al, ok := sl.X.(*ssa.Alloc); ok {
						for _, arf := range *al.Referrers() {
							if ia, ok := arf.(*ssa.IndexAddr); ok {
								for _, st := range *ia.Referrers() {
									if s2, ok := st.(*ssa.Store); ok && usesSep(s2.Val) {
										has = true
									}
								}
							}
						}
					}
				}
				if !has {
					noSep = append(noSep, kind)
					if !selfDelimiting[kind] {
						bad = append(bad, kind)
					}
				}
			}
		}
	}
	sort.Strings(bad)
	sort.Strings(noSep)
	switch {
	case n == 0:
		r.Bad("C11.R2", fid, "element separators", p.Pos(fn.Pos()), "UNRESOLVED-ANCHOR: no type-switch clause appending an element found")
	case len(bad) > 0:
		r.Bad("C11.R2", fid, "element separators", p.Pos(fn.Pos()), "array elements of kind "+strings.Join(dedupStrings(bad), ", ")+" are written without the separator although their token starts with a regular character: the element fuses with the one before it ([1true], [/Flagtrue]) and reads back as something else")
	default:
		r.OK("C11.R2", fid, "element separators", p.Pos(fn.Pos()), fmt.Sprintf("%d clauses; written without separator: %s (all start with a delimiter)", n, strings.Join(dedupStrings(noSep), ",")), true)
	}
}

// ---------------- C12.R4 (round 3 of seeding): the escape decision is per byte ----------------

// checkNameEscapeDecision: in EncodeName, once needsHexSequence(ch) said yes, every path to the next byte
// (or to a return) writes the '#' form. A second condition that lets such a byte through raw (look-ahead,
// position, "already encoded" heuristics) makes the encoder non-injective: DecodeName reads any '#xx' as one byte.
func checkNameEscapeDecision(c *Ctx, rule string) {
	p, r := c.P, c.R
	fn := p.Func("pkg/pdfcpu/types.EncodeName")
	if fn == nil {
		r.Bad(rule, "pkg/pdfcpu/types.EncodeName", "anchor", "", "UNRESOLVED-ANCHOR")
		return
	}
	var preds []*ssa.Call
	hashBlocks := map[*ssa.BasicBlock]bool{}
	eachInstr(fn, func(b *ssa.BasicBlock, _ int, i ssa.Instruction) {
		call, ok := i.(*ssa.Call)
		if !ok {
			return
		}
		_, ref := callRef(call)
		if ref == "pkg/pdfcpu/types.needsHexSequence" {
			preds = append(preds, call)
		}
		if strings.HasSuffix(ref, ".WriteByte") && len(call.Call.Args) == 2 {
			if k, ok := constInt(call.Call.Args[1]); ok && k == '#' {
				hashBlocks[b] = true
			}
		}
		if strings.HasSuffix(ref, ".WriteString") || ref == "fmt.Fprintf" {
			for _, a := range call.Call.Args {
				if s, ok := constString(a); ok && strings.HasPrefix(s, "#") {
					hashBlocks[b] = true
				}
			}
		}
	})
	pos := p.Pos(fn.Pos())
	if len(preds) == 0 || len(hashBlocks) == 0 {
		r.Bad(rule, FuncID(fn), "escape decision", pos, "UNRESOLVED-ANCHOR: the needsHexSequence test or the '#' write was not found in EncodeName")
		return
	}
	predBlocks := map[*ssa.BasicBlock]bool{}
	for _, pc := range preds {
		predBlocks[pc.Block()] = true
	}
	n := 0
	for _, pc := range preds {
		for _, a := range aliasesOf(pc) {
			for _, e := range condEdges(a, true) {
				n++
				// blocks reachable from the yes-edge without passing a '#' write
				seen := map[*ssa.BasicBlock]bool{}
				work := []*ssa.BasicBlock{e.From.Succs[e.Succ]}
				bad := ""
				for len(work) > 0 && bad == "" {
					b := work[len(work)-1]
					work = work[:len(work)-1]
					if seen[b] || hashBlocks[b] {
						continue
					}
					seen[b] = true
					if predBlocks[b] {
						bad = "the next byte's test at " + p.Pos(lastPos(b))
						break
					}
					if len(b.Instrs) > 0 {
						if _, ok := b.Instrs[len(b.Instrs)-1].(*ssa.Return); ok {
							bad = "the return at " + p.Pos(b.Instrs[len(b.Instrs)-1].Pos())
							break
						}
					}
					work = append(work, b.Succs...)
				}
				if bad != "" {
					r.Bad(rule, FuncID(fn), "escape decision", p.Pos(pc.Pos()), "a byte that needsHexSequence reports can reach "+bad+" without the '#' form having been written: the decision depends on more than the byte (context, position), so two different names get the same encoding and DecodeName cannot give both back")
					return
				}
			}
		}
	}
	if n == 0 {
		r.Bad(rule, FuncID(fn), "escape decision", pos, "UNRESOLVED-ANCHOR: the result of needsHexSequence does not decide a branch")
		return
	}
	r.OK(rule, FuncID(fn), "escape decision", pos, "every path from needsHexSequence(ch) == true to the next byte or a return writes '#': the decision is a function of the byte alone", true)
}


// ---------------- C11.R7 (round 4 seed C11-H): a string object is written whole ----------------

// checkAtomicSerialisersWhole: PDFString of a string literal / hex literal is its String(); what the writer emits is
// therefore whatever String() returns. In the functions reachable inside pkg/pdfcpu/types from
// StringLiteral.PDFString and HexLiteral.PDFString the receiver is never sliced and no branch depends on its
// length: an abbreviated form ("first 1024 bytes…", meant for logs) would be what is written to the file.
func checkAtomicSerialisersWhole(c *Ctx) {
	p, r := c.P, c.R
	cg := c.CG()
	for _, fid := range []string{"pkg/pdfcpu/types.(StringLiteral).PDFString", "pkg/pdfcpu/types.(HexLiteral).PDFString"} {
		root := p.Func(fid)
		if root == nil {
			r.Bad("C11.R7", fid, "anchor", "", "UNRESOLVED-ANCHOR")
			continue
		}
		seen := map[*ssa.Function]bool{}
		var fns []*ssa.Function
		var visit func(fn *ssa.Function)
		visit = func(fn *ssa.Function) {
			if seen[fn] || fn.Pkg == nil || fn.Pkg.Pkg.Path() != modPath+"/pkg/pdfcpu/types" {
				return
			}
			seen[fn] = true
			fns = append(fns, fn)
			for _, o := range cg.Out[fn] {
				visit(o)
			}
		}
		visit(root)
		var bad []string
		pos := root.Pos()
		for _, fn := range fns {
			if len(fn.Params) == 0 || fn.Signature.Recv() == nil {
				continue
			}
			recv := fn.Params[0]
			fromRecv := func(v ssa.Value) bool {
				for _, l := range valueLeaves(v) {
					for {
						if cv, ok := l.(*ssa.Convert); ok {
							l = cv.X
							continue
						}
						if cv, ok := l.(*ssa.ChangeType); ok {
							l = cv.X
							continue
						}
						break
					}
					if l == ssa.Value(recv) {
						return true
					}
				}
				return false
			}
			eachInstr(fn, func(_ *ssa.BasicBlock, _ int, i ssa.Instruction) {
				switch x := i.(type) {
				case *ssa.Slice:
					if fromRecv(x.X) && (x.Low != nil || x.High != nil) {
						bad = append(bad, fn.Name()+" slices the value")
						pos = x.Pos()
					}
				case *ssa.If:
					if bo, ok := x.Cond.(*ssa.BinOp); ok {
						for _, side := range []ssa.Value{bo.X, bo.Y} {
							if la := lenArgOf(side); la != nil && fromRecv(la) {
								bad = append(bad, fn.Name()+" branches on the value's length")
								pos = bo.Pos()
							}
						}
					}
				}
			})
		}
		if len(bad) > 0 {
			r.Bad("C11.R7", fid, "writes the whole value", p.Pos(pos), strings.Join(bad, "; ")+": PDFString returns what String returns, so a shortened or length-dependent rendering is what the writer emits — the string read back is not the string that was written")
		} else {
			r.OK("C11.R7", fid, "writes the whole value", p.Pos(root.Pos()), fmt.Sprintf("%d functions reachable in pkg/pdfcpu/types: the receiver is not sliced and no branch depends on its length", len(fns)), true)
		}
	}
}

// ---------------- C12.R6 (round 4 seed C12-H): the name codec has no length limit of its own ----------------

// checkNameCodecNoLengthLimit: "for every string without NUL, decoding its encoded name form yields the original". The
// encoded form is up to three times as long as the name, so a limit on the ARGUMENT of DecodeName (or EncodeName) — the
// Annex C limit of 127 bytes applied to the wrong side, or at all — rejects names the encoder produces. The only
// comparisons of len(parameter) with a constant these functions may make concern the two hex digits after '#'
// (constants up to 3).
func checkNameCodecNoLengthLimit(c *Ctx) {
	p, r := c.P, c.R
	for _, fid := range []string{"pkg/pdfcpu/types.DecodeName", "pkg/pdfcpu/types.EncodeName"} {
		fn := p.Func(fid)
		if fn == nil || len(fn.Params) == 0 {
			r.Bad("C12.R6", fid, "anchor", "", "UNRESOLVED-ANCHOR")
			continue
		}
		var limit string
		var pos token.Pos
		eachInstr(fn, func(_ *ssa.BasicBlock, _ int, i ssa.Instruction) {
			bo, ok := i.(*ssa.BinOp)
			if !ok {
				return
			}
			switch bo.Op {
			case token.LSS, token.LEQ, token.GTR, token.GEQ, token.EQL, token.NEQ:
			default:
				return
			}
			for _, pair := range [][2]ssa.Value{{bo.X, bo.Y}, {bo.Y, bo.X}} {
				la := lenArgOf(pair[0])
				if la == nil || la != ssa.Value(fn.Params[0]) {
					continue
				}
				if k, ok := constInt(pair[1]); ok && k > 3 {
					limit = fmt.Sprintf("len(%s) %s %d", fn.Params[0].Name(), bo.Op, k)
					pos = bo.Pos()
				}
			}
		})
		if limit != "" {
			r.Bad("C12.R6", fid, "no length limit", p.Pos(pos), "the codec compares the length of its argument with a constant ("+limit+"): an encoded name is up to three times as long as the name, so names the encoder produces (43 or more bytes that need a hex sequence) are no longer decoded")
		} else {
			r.OK("C12.R6", fid, "no length limit", p.Pos(fn.Pos()), "no comparison of the argument's length with a constant above 3", true)
		}
	}
}
