package main

import (
	"fmt"
	"go/constant"
	"strings"

	"golang.org/x/tools/go/ssa"
)

// C06 — batch installs are all-or-nothing (partial): protocol shape of the four transactional publishers.

func init() {
	register(&Check{
		ID:  "C06",
		Run: runC06,
		Explanation: "Decides the protocol shape of the four sibling transactional publishers (font.commitCollectionFonts, api.commitStagedFontsWithOperations, api.publishCheatSheets, api.publishCertificateImports + backupCertificateDestinations): (R1 rollback on every failure) every error return that can follow a mutating step of the transaction (a rename through the operation table, the certificate backup step) and is not in the post-publication tail (after the publishing loop has finished) returns an error value computed from a call that reaches the publisher's rollback sibling (directly or through the local rollback closure); (R2 bookkeeping) on the success edge of every rename in a publisher the record flag (hadOriginal / committed / published) is stored true before any other call, return or loop iteration can happen, so that a later rollback knows about the step — a flag set after the following directory sync, as in a reordering refactor, is rejected; the rollback siblings read exactly those flags and walk the records in reverse; (R3) staging directories created with mkdirTemp/createStagingDir/createInputDir are removed on every path (deferred or on each failure return) unless ownership is returned; (R4) every rollback sibling mentions the backup location (backupDir / backupFile) in the error it returns when restoring failed; (R5) api.installFonts calls commit.rollback() on the failure branch after a successful commit (reload failure). (R6) the existence probe of the transactions (the op-table field lstat that decides whether a target is backed up before it is replaced) is bound to os.Lstat in every production table: os.Stat reports a dangling symlink as absent, the entry is overwritten without a backup and a rollback cannot restore it; (R7) every name appended to the list handed to publishCheatSheets passed a duplicate test-and-set on a map that outlives the appending loops (no bulk append): a name listed twice is backed up twice under the same name, which destroys the original. (R8) in the single-font gob writer the rename that publishes a representation is reached only after it was read back (ops.verify) and compared equal (ttfEqual) on every path since the last encode. (R9) stageCertificateImports: every return reachable after a staging file was created hands the accumulated list back (the value a deferred cleanup reading the named result sees is the one stored last before the return) or has passed cleanupCertificateImports on it. NOT decided: that rollback restores exactly the previous bytes, behaviour under double faults, and the per-font gob writer (C07).",
		Rules: []string{
			"C06.R1 MPT/flow: failure after a mutating step returns through the rollback sibling",
			"C06.R2 typestate: record flag stored on the rename's success edge before anything else; rollback reads the flags",
			"C06.R3 PAIR: staging directories removed on all paths",
			"C06.R4 flow: backup location reported when restore fails",
			"C06.R5 MPT: caller honours the rollback handle",
			"C06.R9 flow: certificate staging files created so far are cleaned up or handed back on every failure return",
			"C06.R8 MPT: a font representation is read back and compared before the rename that publishes it",
		},
		Assumptions: []string{"operation tables are replaced only in tests", "rename/remove semantics of the OS"},
		Technique:   "sibling cross-check of four publishers: may-reach analysis of mutating calls, error-value dependency slicing to the rollback call, success-edge typestate for record flags, acquire/dispose typestate for staging directories",
		Note:        "Partial: decides protocol shape, not restored content.",
	})
}

type txPublisher struct {
	fn        string
	renames   []string // mutating calls (operation-table renames / helper steps)
	rollbacks []string // rollback sibling refs
	flags     []string // record flags
	rollback  string   // FuncID of the rollback sibling (for R2b/R4)
	backupTok string   // name fragment of the value that names the backup location
}

var c06Publishers = []txPublisher{
	{"pkg/font.commitCollectionFonts", []string{"pkg/font.collectionInstallFileOperations.rename"}, []string{"pkg/font.rollbackCollectionFonts"}, []string{"hadOriginal", "committed"}, "pkg/font.rollbackCollectionFonts", "backupDir"},
	{"pkg/api.commitStagedFontsWithOperations", []string{"pkg/api.transactionFileOperations.rename"}, []string{"pkg/api.rollbackCommittedFonts"}, []string{"hadOriginal", "committed"}, "pkg/api.rollbackCommittedFonts", "backupDir"},
	{"pkg/api.publishCheatSheets", []string{"pkg/api.transactionFileOperations.rename"}, []string{"pkg/api.rollbackCheatSheets"}, []string{"hadOriginal", "published"}, "pkg/api.rollbackCheatSheets", "backupDir"},
	{"pkg/api.publishCertificateImports", []string{"pkg/api.fileOperations.replaceFile", "pkg/api.backupCertificateDestinations"}, []string{"pkg/api.rollbackCertificateImports"}, []string{"published"}, "pkg/api.rollbackCertificateImports", "backupFile"},
	{"pkg/api.backupCertificateDestinations", []string{"pkg/api.fileOperations.replaceFile"}, nil, []string{"hadOriginal"}, "", ""},
}

func runC06(c *Ctx) {
	r := c.R
	// ---- R8 (round 3 of seeding): a font representation is verified before it is published
	r.MinInst["C06.R8"] = 2
	for _, fn := range funcsCalling(c.P, gobOps+"rename") {
		runFlowRuleOn(c, FlowRule{
			ID: "C06.R8",
			Gen: []GenSpec{
				{Fact: "verified", On: Pred{Calls: []string{gobOps + "verify"}}},
				{Fact: "same", On: Pred{Calls: []string{"pkg/font.ttfEqual"}}, OnTrue: true},
			},
			Kill: []KillSpec{{Fact: "verified", On: Pred{Calls: []string{gobOps + "encode"}}}, {Fact: "same", On: Pred{Calls: []string{gobOps + "encode"}}}},
			Need: []NeedSpec{
				{Fact: "verified", At: Pred{Calls: []string{gobOps + "rename"}}, Why: "the new font representation is renamed over the installed one before it was read back: a representation the loader rejects replaces a working font, and nothing restores it"},
				{Fact: "same", At: Pred{Calls: []string{gobOps + "rename"}}, Why: "the new font representation is renamed over the installed one before it was compared with what was meant to be written"},
			},
			Min: 2,
		}, fn)
	}
	// ---- R9 (round 3 of seeding): staging files created so far are cleaned up or handed back on every failure
	r.MinInst["C06.R9"] = 3
	checkAccumulators(c, "C06.R9",
		map[string]string{"pkg/api.stageCertificateImports": "pkg/api.createCertificateTransactionFile"},
		map[string]string{"pkg/api.stageCertificateImports": "pkg/api.cleanupCertificateImports"})
	r.MinInst["C06.R1"] = 15
	r.MinInst["C06.R2"] = 8
	r.MinInst["C06.R3"] = 4
	r.MinInst["C06.R4"] = 4
	for _, tp := range c06Publishers {
		if len(tp.rollbacks) > 0 {
			checkRollbackOnFailure(c, "C06.R1", tp)
		}
		checkRecordFlags(c, "C06.R2", tp)
		if tp.rollback != "" {
			checkRollbackSibling(c, tp)
		}
	}
	pc := &pairCtx{c: c, triv: &triviality{cg: c.CG(), memo: map[*ssa.Function]int{}}, rule: "C06", r1: "C06.R3", noPanicRule: true}
	pc.runPair(c06Kinds)
	r.MinInst["C06.R6"] = 3
	r.MinInst["C06.R7"] = 1
	checkExistenceProbes(c)
	checkUniqueLists(c)
	// R5
	if fn := c.P.Func("pkg/api.installFonts"); fn == nil {
		r.Bad("C06.R5", "pkg/api.installFonts", "anchor", "", "UNRESOLVED-ANCHOR")
	} else {
		failEdges := map[Edge]bool{}
		eachInstr(fn, func(_ *ssa.BasicBlock, _ int, i ssa.Instruction) {
			if call, ok := i.(*ssa.Call); ok {
				if _, ref := callRef(call); ref == "pkg/api.fontAPIOperations.commitStagedFonts" {
					for _, ev := range errorResults(call) {
						for _, e := range nilCheckEdges(ev, false) {
							failEdges[e] = true
						}
					}
				}
			}
		})
		runFlowRuleOn(c, FlowRule{
			ID: "C06.R5",
			Gen: []GenSpec{
				{Fact: "rolled-back-or-not-committed", On: Pred{Calls: []string{"pkg/api.fontInstallCommit.rollback"}}, Always: true},
				{Fact: "rolled-back-or-not-committed", edges: failEdges},
			},
			Init: []string{"rolled-back-or-not-committed"},
			Kill: []KillSpec{{Fact: "rolled-back-or-not-committed", On: Pred{Calls: []string{"pkg/api.fontAPIOperations.commitStagedFonts"}}}},
			Need: []NeedSpec{{Fact: "rolled-back-or-not-committed", At: Pred{ErrReturn: true, BodyVerdict: true, Where: func(i ssa.Instruction) bool {
				ret, isRet := i.(*ssa.Return)
				if !isRet {
					return false
				}
				preDeferMode = true
				k, _ := returnErrKind(ret)
				preDeferMode = false
				return k == errNonNil
			}}, Why: "installFonts reports failure after the batch was committed without calling commit.rollback(): the new fonts stay installed although the operation failed"}},
			Min: 3,
		}, fn)
	}
}

var c06Kinds = []resKind{
	{name: "font-install-staging-dir", acquire: []string{"pkg/api.fontAPIOperations.createStagingDir"}, dispose: []string{"pkg/api.fontAPIOperations.removeAll"}, why: "the hidden .pdfcpu-font-install-* staging directory exists from here on"},
	// per-input directories (createInputDir) are created inside the staging directory and vanish with it: no separate obligation
	{name: "collection-staging-dir", acquire: []string{"pkg/font.collectionInstallFileOperations.mkdirTemp"}, dispose: []string{"pkg/font.collectionInstallFileOperations.removeAll", "pkg/font.rollbackCollectionFonts"}, why: "a collection staging/backup directory exists from here on"},
	{name: "cheatsheet-staging-dir", acquire: []string{"pkg/api.transactionFileOperations.mkdirTemp"}, dispose: []string{"pkg/api.transactionFileOperations.removeAll", "pkg/api.rollbackCommittedFonts", "pkg/api.rollbackCheatSheets"}, owners: []string{"pkg/api.commitStagedFontsWithOperations"}, why: "a staging/backup directory exists from here on"},
}

// checkRollbackOnFailure (R1)
func checkRollbackOnFailure(c *Ctx, rule string, tp txPublisher) {
	p, r := c.P, c.R
	fn := p.Func(tp.fn)
	if fn == nil {
		r.Bad(rule, tp.fn, "anchor", "", "UNRESOLVED-ANCHOR: publisher not found")
		return
	}
	var muts []*ssa.Call
	eachInstr(fn, func(_ *ssa.BasicBlock, _ int, i ssa.Instruction) {
		if call, ok := i.(*ssa.Call); ok {
			if _, ref := callRef(call); inSet(ref, tp.renames) {
				muts = append(muts, call)
			}
		}
	})
	if len(muts) == 0 {
		r.Bad(rule, tp.fn, "anchor:mutations", p.Pos(fn.Pos()), "UNRESOLVED-ANCHOR: no mutating call ("+strings.Join(tp.renames, "|")+") found")
		return
	}
	// rollback calls: direct, or via local closure whose body calls a rollback sibling
	isRollbackCall := func(call *ssa.Call) bool {
		_, ref := callRef(call)
		if inSet(ref, tp.rollbacks) {
			return true
		}
		if f := staticCallee(call); f != nil && f.Parent() == fn {
			hit := false
			eachInstr(f, func(_ *ssa.BasicBlock, _ int, i ssa.Instruction) {
				if cc, ok := i.(*ssa.Call); ok {
					if _, rr := callRef(cc); inSet(rr, tp.rollbacks) {
						hit = true
					}
				}
			})
			return hit
		}
		return false
	}
	var rbCalls []*ssa.Call
	eachInstr(fn, func(_ *ssa.BasicBlock, _ int, i ssa.Instruction) {
		if call, ok := i.(*ssa.Call); ok && isRollbackCall(call) {
			rbCalls = append(rbCalls, call)
		}
	})
	// post-publication tail: blocks dominated by the "done" block of the loop containing the last mutating call
	var doneBlocks []*ssa.BasicBlock
	for _, b := range fn.Blocks {
		if strings.HasSuffix(b.Comment, ".done") && (strings.HasPrefix(b.Comment, "range") || strings.HasPrefix(b.Comment, "for")) {
			// loop must contain a mutating call
			for _, m := range muts {
				if inLexicalLoop(m.Block()) {
					doneBlocks = append(doneBlocks, b)
					break
				}
			}
		}
	}
	inTail := func(b *ssa.BasicBlock) bool {
		for _, d := range doneBlocks {
			if d == b || d.Dominates(b) {
				return true
			}
		}
		return false
	}
	n := 0
	for _, ret := range returnsOf(fn) {
		k, has := returnErrKind(ret)
		if !has || k == errNil {
			continue
		}
		// may a mutating call precede this return?
		after := false
		for _, m := range muts {
			for _, x := range instrsAfter(m) {
				if x == ssa.Instruction(ret) {
					after = true
				}
			}
		}
		if !after {
			continue
		}
		n++
		construct := fmt.Sprintf("error-return#%d", n)
		if inTail(ret.Block()) {
			r.OK(rule, tp.fn, construct, posOrFn(p, ret, fn), "post-publication tail (all records published; only backup removal/sync can fail here)", false)
			continue
		}
		var errRes ssa.Value
		for _, res := range ret.Results {
			if isErrorType(res.Type()) {
				errRes = res
			}
		}
		ok := false
		for _, rb := range rbCalls {
			if errDependsOn(errRes, rb, 0, map[ssa.Value]bool{}) {
				ok = true
			}
			for _, ev := range errorResults(rb) {
				if errDependsOn(errRes, ev, 0, map[ssa.Value]bool{}) {
					ok = true
				}
			}
		}
		if ok {
			r.OK(rule, tp.fn, construct, posOrFn(p, ret, fn), "the returned error is computed from the rollback call's result", true)
		} else if k == errUnknown && returnsErrorOfMutatingCallOnly(errRes, muts) {
			r.OK(rule, tp.fn, construct, posOrFn(p, ret, fn), "tail-returns a helper's verdict", false)
		} else {
			r.Bad(rule, tp.fn, construct, posOrFn(p, ret, fn), "this failure return can follow a step that already changed the installation (backup or publish rename) but does not go through the rollback sibling ("+strings.Join(tp.rollbacks, "|")+"): earlier members stay installed / originals stay in the backup although the batch failed")
		}
	}
	if n == 0 {
		r.Bad(rule, tp.fn, "anchor:returns", p.Pos(fn.Pos()), "UNRESOLVED-ANCHOR: no failure return after a mutating step found")
	}
}

func returnsErrorOfMutatingCallOnly(v ssa.Value, muts []*ssa.Call) bool { return false }

// checkRecordFlags (R2)
func checkRecordFlags(c *Ctx, rule string, tp txPublisher) {
	p, r := c.P, c.R
	fn := p.Func(tp.fn)
	if fn == nil {
		r.Bad(rule, tp.fn, "anchor", "", "UNRESOLVED-ANCHOR: publisher not found")
		return
	}
	var renames []*ssa.Call
	eachInstr(fn, func(_ *ssa.BasicBlock, _ int, i ssa.Instruction) {
		if call, ok := i.(*ssa.Call); ok {
			_, ref := callRef(call)
			if inSet(ref, tp.renames) && !strings.Contains(ref, "backupCertificateDestinations") {
				renames = append(renames, call)
			}
		}
	})
	if len(renames) == 0 {
		r.Bad(rule, tp.fn, "anchor:rename", p.Pos(fn.Pos()), "UNRESOLVED-ANCHOR: no rename call")
		return
	}
	isFlagStore := func(i ssa.Instruction) bool {
		st, ok := i.(*ssa.Store)
		if !ok {
			return false
		}
		cst, isC := st.Val.(*ssa.Const)
		if !isC || cst.Value == nil || cst.Value.Kind() != constant.Bool || !constant.BoolVal(cst.Value) {
			return false
		}
		fp := fieldPath(st.Addr)
		for _, f := range tp.flags {
			if strings.HasSuffix(fp, f) {
				return true
			}
		}
		return false
	}
	for ri, rn := range renames {
		construct := fmt.Sprintf("rename#%d", ri+1)
		edges, has := successEdges(rn)
		if !has || len(edges) == 0 {
			r.Bad(rule, tp.fn, construct, p.Pos(rn.Pos()), "the rename's error is not checked")
			continue
		}
		bad := ""
		for _, e := range edges {
			b := e.From.Succs[e.Succ]
			// walk the straight-line successor chain from the success edge: the flag store must come before any call/return/branch
			found := false
			for steps := 0; steps < 4 && b != nil && !found && bad == ""; steps++ {
				for _, i := range b.Instrs {
					if isFlagStore(i) {
						found = true
						break
					}
					switch x := i.(type) {
					case *ssa.Call:
						if _, isB := x.Call.Value.(*ssa.Builtin); !isB {
							bad = "call " + instrLabel(x) + " at " + p.Pos(x.Pos()) + " runs before the record flag is set"
						}
					case *ssa.Return:
						bad = "returns before the record flag is set"
					case *ssa.If:
						bad = "branches before the record flag is set"
					}
					if bad != "" {
						break
					}
				}
				if !found && bad == "" {
					if len(b.Succs) == 1 {
						b = b.Succs[0]
					} else {
						b = nil
					}
				}
			}
			if !found && bad == "" {
				bad = "no store of true to " + strings.Join(tp.flags, "/") + " follows the successful rename"
			}
		}
		if bad != "" {
			r.Bad(rule, tp.fn, construct, p.Pos(rn.Pos()), "bookkeeping gap after a successful rename: "+bad+" — if that step fails, rollback does not know this file was moved and leaves it behind")
		} else {
			r.OK(rule, tp.fn, construct, p.Pos(rn.Pos()), "the record flag is stored on the rename's success edge before any other call, branch or return", true)
		}
	}
}

// checkRollbackSibling: reads the flags, iterates in reverse, reports the backup location (R2b, R4)
func checkRollbackSibling(c *Ctx, tp txPublisher) {
	p, r := c.P, c.R
	fn := p.Func(tp.rollback)
	if fn == nil {
		r.Bad("C06.R2", tp.rollback, "anchor", "", "UNRESOLVED-ANCHOR: rollback sibling not found")
		return
	}
	read := map[string]bool{}
	reverse := false
	mentionsBackup := false
	eachInstr(fn, func(_ *ssa.BasicBlock, _ int, i ssa.Instruction) {
		switch x := i.(type) {
		case *ssa.UnOp:
			fp := fieldPath(x)
			for _, f := range append([]string{"hadOriginal"}, tp.flags...) {
				if strings.HasSuffix(fp, f) {
					read[f] = true
				}
			}
		case *ssa.Field:
			fp := fieldPath(x)
			for _, f := range append([]string{"hadOriginal"}, tp.flags...) {
				if strings.HasSuffix(fp, f) {
					read[f] = true
				}
			}
		case *ssa.BinOp:
			if x.Op.String() == "-" {
				if n, ok := constInt(x.Y); ok && n == 1 {
					reverse = true
				}
			}
		case *ssa.Call:
			if _, ref := callRef(x); ref == "fmt.Errorf" || ref == "errors.New" {
				for _, e := range variadicElems(x) {
					if mi, ok := e.(*ssa.MakeInterface); ok {
						e = mi.X
					}
					if prm, ok := e.(*ssa.Parameter); ok && strings.Contains(prm.Name(), tp.backupTok) {
						mentionsBackup = true
					}
					if strings.HasSuffix(fieldPath(e), tp.backupTok) {
						mentionsBackup = true
					}
				}
			}
		}
	})
	var missing []string
	for _, f := range append([]string{"hadOriginal"}, tp.flags...) {
		if !read[f] {
			missing = append(missing, f)
		}
	}
	if len(missing) > 0 {
		r.Bad("C06.R2", tp.rollback, "reads-flags", p.Pos(fn.Pos()), "the rollback sibling does not read the record flag(s) "+strings.Join(missing, ",")+" that the publisher sets")
	} else if !reverse {
		r.Bad("C06.R2", tp.rollback, "reverse-order", p.Pos(fn.Pos()), "the rollback sibling no longer walks the records in reverse (i--)")
	} else {
		r.OK("C06.R2", tp.rollback, "reads-flags", p.Pos(fn.Pos()), "reads hadOriginal and "+strings.Join(tp.flags, "/")+"; iterates in reverse", true)
	}
	if mentionsBackup {
		r.OK("C06.R4", tp.rollback, "backup-location", p.Pos(fn.Pos()), "an error built in the rollback mentions "+tp.backupTok, true)
	} else {
		r.Bad("C06.R4", tp.rollback, "backup-location", p.Pos(fn.Pos()), "when restoring fails the rollback's error no longer names the backup location ("+tp.backupTok+"): the user cannot find the retained originals")
	}
}

// ---------------- C06.R6 / R7 (round 2 of seeding) ----------------

// checkExistenceProbes (C06.R6): the transaction tables decide "does the target exist → back it up first" through a field of
// type func(string) (os.FileInfo, error). Its production binding must be os.Lstat: os.Stat follows links and reports a
// dangling symlink as absent, so the entry would be overwritten without a backup and lost by a later rollback.
func checkExistenceProbes(c *Ctx) {
	p, r := c.P, c.R
	n := 0
	for _, fn := range p.Funcs {
		fid := FuncID(fn)
		if !strings.HasPrefix(fid, "pkg/api.") && !strings.HasPrefix(fid, "pkg/font.") {
			continue
		}
		fn := fn
		eachInstr(fn, func(_ *ssa.BasicBlock, _ int, i ssa.Instruction) {
			st, ok := i.(*ssa.Store)
			if !ok {
				return
			}
			fa, ok := st.Addr.(*ssa.FieldAddr)
			if !ok {
				return
			}
			f := structField(fa.X.Type(), fa.Field)
			if f == nil || f.Type().String() != "func(string) (io/fs.FileInfo, error)" && f.Type().String() != "func(string) (os.FileInfo, error)" {
				return
			}
			if f.Name() != "lstat" {
				return
			}
			tgt := funcValue(st.Val)
			if tgt == nil {
				return // bound from a parameter or another table: followed at its own store
			}
			n++
			name := tgt.String()
			// a wrapper around os.Lstat counts as os.Lstat
			if isSubject(tgt) && tgt.Blocks != nil {
				callsLstat, callsStat := false, false
				eachInstr(tgt, func(_ *ssa.BasicBlock, _ int, ti ssa.Instruction) {
					if _, ref := callRef(ti); ref == "os.Lstat" {
						callsLstat = true
					} else if ref == "os.Stat" {
						callsStat = true
					}
				})
				if callsLstat && !callsStat {
					name = "os.Lstat"
				}
			}
			construct := fmt.Sprintf("binding %s.%s", typeNameOf(fa.X.Type()), f.Name())
			if name == "os.Lstat" {
				r.OK("C06.R6", fid, construct, p.Pos(st.Pos()), "the existence probe of the transaction is os.Lstat (does not follow links)", true)
			} else {
				r.Bad("C06.R6", fid, construct, p.Pos(st.Pos()), "the existence probe that decides whether a target is backed up before it is replaced is bound to "+name+": a target that is a dangling symlink looks absent, is overwritten without a backup and cannot be restored by the rollback")
			}
		})
	}
	if n == 0 {
		r.Bad("C06.R6", "-", "anchor", "", "UNRESOLVED-ANCHOR: no production binding of an lstat field found")
	}
}

// c06UniqueLists: publishers that process a list of target names one by one and back each target up under the same name:
// a name listed twice makes the second pass move the just-published file over the backup of the original.
var c06UniqueLists = map[string]int{
	"pkg/api.publishCheatSheets": 2,
}

// checkUniqueLists (C06.R7): every element appended to the list handed to such a publisher passed a duplicate test-and-set on
// a map that outlives the loop(s) doing the appending.
func checkUniqueLists(c *Ctx) {
	p, r := c.P, c.R
	gs := newGuardSet(p)
	sites := 0
	for _, fn := range p.Funcs {
		fid := FuncID(fn)
		if !strings.HasPrefix(fid, "pkg/") {
			continue
		}
		fn := fn
		eachInstr(fn, func(_ *ssa.BasicBlock, _ int, i ssa.Instruction) {
			call, ok := i.(*ssa.Call)
			if !ok {
				return
			}
			_, ref := callRef(call)
			idx, ok := c06UniqueLists[ref]
			if !ok || idx >= len(call.Call.Args) {
				return
			}
			sites++
			// appends feeding the argument
			var appends []*ssa.Call
			seen := map[ssa.Value]bool{}
			var walk func(v ssa.Value)
			walk = func(v ssa.Value) {
				if seen[v] {
					return
				}
				seen[v] = true
				switch x := v.(type) {
				case *ssa.Phi:
					for _, e := range x.Edges {
						walk(e)
					}
				case *ssa.Call:
					if b, ok := x.Call.Value.(*ssa.Builtin); ok && b.Name() == "append" {
						appends = append(appends, x)
						walk(x.Call.Args[0])
					}
				case *ssa.UnOp:
					for _, lf := range valueLeaves(x) {
						if lf != ssa.Value(x) {
							walk(lf)
						}
					}
				}
			}
			walk(call.Call.Args[idx])
			gf := gs.factsMode(fn, nil, true)
			loops := naturalLoops(fn)
			for k, ap := range appends {
				construct := fmt.Sprintf("%s list append#%d", ref, k+1)
				pos := p.Pos(ap.Pos())
				// innermost loop containing the append
				var inner *natLoop
				for _, l := range loops {
					if l.blocks[ap.Block()] && (inner == nil || len(l.blocks) < len(inner.blocks)) {
						inner = l
					}
				}
				// spread of another slice: elements are not tested individually
				if sl, ok := ap.Call.Args[1].(*ssa.Slice); !ok || !isLocalLiteralSlice(sl) {
					r.Bad("C06.R7", fid, construct, pos, "a whole slice is appended to the list of targets handed to "+ref+" without a per-element duplicate test: a name listed twice is backed up twice under the same name and the original is destroyed")
					continue
				}
				kill := map[ssa.Instruction]bool{}
				if inner != nil {
					kill[inner.header.Instrs[0]] = true
				}
				ff := gf.flow(kill)
				ok := len(gf.all) > 0 && gf.satisfied(ff, ap)
				// the map must outlive the outermost loop containing the append
				if ok {
					ok = false
					for f := range factsAt(ff, ap) {
						if strings.HasPrefix(f, "s:") {
							if mapOutlivesLoops(fn, f[2:], ap, loops) {
								ok = true
							}
						}
					}
				}
				if ok {
					r.OK("C06.R7", fid, construct, pos, "each element passes a duplicate test-and-set on a map created outside the appending loops", true)
				} else {
					r.Bad("C06.R7", fid, construct, pos, "an element is appended to the list of targets handed to "+ref+" without having passed a duplicate test-and-set on a map that spans the whole list")
				}
			}
			if len(appends) == 0 {
				r.OK("C06.R7", fid, ref+" list", p.Pos(call.Pos()), "the list is not built by appends in this function", false)
			}
		})
	}
	if sites == 0 {
		r.Bad("C06.R7", "-", "anchor", "", "UNRESOLVED-ANCHOR: no call of a unique-list publisher")
	}
}

func factsAt(ff *FactFlow, i ssa.Instruction) map[string]bool {
	f, _ := ff.At(i)
	return f
}

// isLocalLiteralSlice: the variadic slice built by the compiler for append(s, a, b) — a Slice of a fresh Alloc.
func isLocalLiteralSlice(sl *ssa.Slice) bool {
	_, ok := sl.X.(*ssa.Alloc)
	return ok
}

// mapOutlivesLoops: the map named by access path m is created (MakeMap) outside every loop that contains the append, or is
// a parameter / field.
func mapOutlivesLoops(fn *ssa.Function, m string, ap *ssa.Call, loops []*natLoop) bool {
	ok := true
	found := false
	eachInstr(fn, func(b *ssa.BasicBlock, _ int, i ssa.Instruction) {
		mk, isMk := i.(*ssa.MakeMap)
		if !isMk || accessPath(mk) != m {
			return
		}
		found = true
		for _, l := range loops {
			if l.blocks[ap.Block()] && l.blocks[b] {
				ok = false
			}
		}
	})
	return ok || !found
}
