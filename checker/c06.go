package main

import (
	"fmt"
	"go/constant"
	"strings"

	"golang.org/x/tools/go/ssa"
)

// C06 — batch installs are all-or-nothing (partial): protocol shape of the four transactional publishers.

func init() {
	register(&Check{
		ID:  "C06",
		Run: runC06,
		Explanation: "Decides the protocol shape of the four sibling transactional publishers (font.commitCollectionFonts, api.commitStagedFontsWithOperations, api.publishCheatSheets, api.publishCertificateImports + backupCertificateDestinations): (R1 rollback on every failure) every error return that can follow a mutating step of the transaction (a rename through the operation table, the certificate backup step) and is not in the post-publication tail (after the publishing loop has finished) returns an error value computed from a call that reaches the publisher's rollback sibling (directly or through the local rollback closure); (R2 bookkeeping) on the success edge of every rename in a publisher the record flag (hadOriginal / committed / published) is stored true before any other call, return or loop iteration can happen, so that a later rollback knows about the step — a flag set after the following directory sync, as in a reordering refactor, is rejected; the rollback siblings read exactly those flags and walk the records in reverse; (R3) staging directories created with mkdirTemp/createStagingDir/createInputDir are removed on every path (deferred or on each failure return) unless ownership is returned; (R4) every rollback sibling mentions the backup location (backupDir / backupFile) in the error it returns when restoring failed; (R5) api.installFonts calls commit.rollback() on the failure branch after a successful commit (reload failure). NOT decided: that rollback restores exactly the previous bytes, behaviour under double faults, and the per-font gob writer (C07).",
		Rules: []string{
			"C06.R1 MPT/flow: failure after a mutating step returns through the rollback sibling",
			"C06.R2 typestate: record flag stored on the rename's success edge before anything else; rollback reads the flags",
			"C06.R3 PAIR: staging directories removed on all paths",
			"C06.R4 flow: backup location reported when restore fails",
			"C06.R5 MPT: caller honours the rollback handle",
		},
		Assumptions: []string{"operation tables are replaced only in tests", "rename/remove semantics of the OS"},
		Technique:   "sibling cross-check of four publishers: may-reach analysis of mutating calls, error-value dependency slicing to the rollback call, success-edge typestate for record flags, acquire/dispose typestate for staging directories",
		Note:        "Partial: decides protocol shape, not restored content.",
	})
}

type txPublisher struct {
	fn        string
	renames   []string // mutating calls (operation-table renames / helper steps)
	rollbacks []string // rollback sibling refs
	flags     []string // record flags
	rollback  string   // FuncID of the rollback sibling (for R2b/R4)
	backupTok string   // name fragment of the value that names the backup location
}

var c06Publishers = []txPublisher{
	{"pkg/font.commitCollectionFonts", []string{"pkg/font.collectionInstallFileOperations.rename"}, []string{"pkg/font.rollbackCollectionFonts"}, []string{"hadOriginal", "committed"}, "pkg/font.rollbackCollectionFonts", "backupDir"},
	{"pkg/api.commitStagedFontsWithOperations", []string{"pkg/api.transactionFileOperations.rename"}, []string{"pkg/api.rollbackCommittedFonts"}, []string{"hadOriginal", "committed"}, "pkg/api.rollbackCommittedFonts", "backupDir"},
	{"pkg/api.publishCheatSheets", []string{"pkg/api.transactionFileOperations.rename"}, []string{"pkg/api.rollbackCheatSheets"}, []string{"hadOriginal", "published"}, "pkg/api.rollbackCheatSheets", "backupDir"},
	{"pkg/api.publishCertificateImports", []string{"pkg/api.fileOperations.replaceFile", "pkg/api.backupCertificateDestinations"}, []string{"pkg/api.rollbackCertificateImports"}, []string{"published"}, "pkg/api.rollbackCertificateImports", "backupFile"},
	{"pkg/api.backupCertificateDestinations", []string{"pkg/api.fileOperations.replaceFile"}, nil, []string{"hadOriginal"}, "", ""},
}

func runC06(c *Ctx) {
	r := c.R
	r.MinInst["C06.R1"] = 15
	r.MinInst["C06.R2"] = 8
	r.MinInst["C06.R3"] = 4
	r.MinInst["C06.R4"] = 4
	for _, tp := range c06Publishers {
		if len(tp.rollbacks) > 0 {
			checkRollbackOnFailure(c, "C06.R1", tp)
		}
		checkRecordFlags(c, "C06.R2", tp)
		if tp.rollback != "" {
			checkRollbackSibling(c, tp)
		}
	}
	pc := &pairCtx{c: c, triv: &triviality{cg: c.CG(), memo: map[*ssa.Function]int{}}, rule: "C06", r1: "C06.R3", noPanicRule: true}
	pc.runPair(c06Kinds)
	// R5
	if fn := c.P.Func("pkg/api.installFonts"); fn == nil {
		r.Bad("C06.R5", "pkg/api.installFonts", "anchor", "", "UNRESOLVED-ANCHOR")
	} else {
		failEdges := map[Edge]bool{}
		eachInstr(fn, func(_ *ssa.BasicBlock, _ int, i ssa.Instruction) {
			if call, ok := i.(*ssa.Call); ok {
				if _, ref := callRef(call); ref == "pkg/api.fontAPIOperations.commitStagedFonts" {
					for _, ev := range errorResults(call) {
						for _, e := range nilCheckEdges(ev, false) {
							failEdges[e] = true
						}
					}
				}
			}
		})
		runFlowRuleOn(c, FlowRule{
			ID: "C06.R5",
			Gen: []GenSpec{
				{Fact: "rolled-back-or-not-committed", On: Pred{Calls: []string{"pkg/api.fontInstallCommit.rollback"}}, Always: true},
				{Fact: "rolled-back-or-not-committed", edges: failEdges},
			},
			Init: []string{"rolled-back-or-not-committed"},
			Kill: []KillSpec{{Fact: "rolled-back-or-not-committed", On: Pred{Calls: []string{"pkg/api.fontAPIOperations.commitStagedFonts"}}}},
			Need: []NeedSpec{{Fact: "rolled-back-or-not-committed", At: Pred{ErrReturn: true, BodyVerdict: true, Where: func(i ssa.Instruction) bool {
				ret, isRet := i.(*ssa.Return)
				if !isRet {
					return false
				}
				preDeferMode = true
				k, _ := returnErrKind(ret)
				preDeferMode = false
				return k == errNonNil
			}}, Why: "installFonts reports failure after the batch was committed without calling commit.rollback(): the new fonts stay installed although the operation failed"}},
			Min: 3,
		}, fn)
	}
}

var c06Kinds = []resKind{
	{name: "font-install-staging-dir", acquire: []string{"pkg/api.fontAPIOperations.createStagingDir"}, dispose: []string{"pkg/api.fontAPIOperations.removeAll"}, why: "the hidden .pdfcpu-font-install-* staging directory exists from here on"},
	// per-input directories (createInputDir) are created inside the staging directory and vanish with it: no separate obligation
	{name: "collection-staging-dir", acquire: []string{"pkg/font.collectionInstallFileOperations.mkdirTemp"}, dispose: []string{"pkg/font.collectionInstallFileOperations.removeAll", "pkg/font.rollbackCollectionFonts"}, why: "a collection staging/backup directory exists from here on"},
	{name: "cheatsheet-staging-dir", acquire: []string{"pkg/api.transactionFileOperations.mkdirTemp"}, dispose: []string{"pkg/api.transactionFileOperations.removeAll", "pkg/api.rollbackCommittedFonts", "pkg/api.rollbackCheatSheets"}, owners: []string{"pkg/api.commitStagedFontsWithOperations"}, why: "a staging/backup directory exists from here on"},
}

// checkRollbackOnFailure (R1)
func checkRollbackOnFailure(c *Ctx, rule string, tp txPublisher) {
	p, r := c.P, c.R
	fn := p.Func(tp.fn)
	if fn == nil {
		r.Bad(rule, tp.fn, "anchor", "", "UNRESOLVED-ANCHOR: publisher not found")
		return
	}
	var muts []*ssa.Call
	eachInstr(fn, func(_ *ssa.BasicBlock, _ int, i ssa.Instruction) {
		if call, ok := i.(*ssa.Call); ok {
			if _, ref := callRef(call); inSet(ref, tp.renames) {
				muts = append(muts, call)
			}
		}
	})
	if len(muts) == 0 {
		r.Bad(rule, tp.fn, "anchor:mutations", p.Pos(fn.Pos()), "UNRESOLVED-ANCHOR: no mutating call ("+strings.Join(tp.renames, "|")+") found")
		return
	}
	// rollback calls: direct, or via local closure whose body calls a rollback sibling
	isRollbackCall := func(call *ssa.Call) bool {
		_, ref := callRef(call)
		if inSet(ref, tp.rollbacks) {
			return true
		}
		if f := staticCallee(call); f != nil && f.Parent() == fn {
			hit := false
			eachInstr(f, func(_ *ssa.BasicBlock, _ int, i ssa.Instruction) {
				if cc, ok := i.(*ssa.Call); ok {
					if _, rr := callRef(cc); inSet(rr, tp.rollbacks) {
						hit = true
					}
				}
			})
			return hit
		}
		return false
	}
	var rbCalls []*ssa.Call
	eachInstr(fn, func(_ *ssa.BasicBlock, _ int, i ssa.Instruction) {
		if call, ok := i.(*ssa.Call); ok && isRollbackCall(call) {
			rbCalls = append(rbCalls, call)
		}
	})
	// post-publication tail: blocks dominated by the "done" block of the loop containing the last mutating call
	var doneBlocks []*ssa.BasicBlock
	for _, b := range fn.Blocks {
		if strings.HasSuffix(b.Comment, ".done") && (strings.HasPrefix(b.Comment, "range") || strings.HasPrefix(b.Comment, "for")) {
			// loop must contain a mutating call
			for _, m := range muts {
				if inLexicalLoop(m.Block()) {
					doneBlocks = append(doneBlocks, b)
					break
				}
			}
		}
	}
	inTail := func(b *ssa.BasicBlock) bool {
		for _, d := range doneBlocks {
			if d == b || d.Dominates(b) {
				return true
			}
		}
		return false
	}
	n := 0
	for _, ret := range returnsOf(fn) {
		k, has := returnErrKind(ret)
		if !has || k == errNil {
			continue
		}
		// may a mutating call precede this return?
		after := false
		for _, m := range muts {
			for _, x := range instrsAfter(m) {
				if x == ssa.Instruction(ret) {
					after = true
				}
			}
		}
		if !after {
			continue
		}
		n++
		construct := fmt.Sprintf("error-return#%d", n)
		if inTail(ret.Block()) {
			r.OK(rule, tp.fn, construct, posOrFn(p, ret, fn), "post-publication tail (all records published; only backup removal/sync can fail here)", false)
			continue
		}
		var errRes ssa.Value
		for _, res := range ret.Results {
			if isErrorType(res.Type()) {
				errRes = res
			}
		}
		ok := false
		for _, rb := range rbCalls {
			if errDependsOn(errRes, rb, 0, map[ssa.Value]bool{}) {
				ok = true
			}
			for _, ev := range errorResults(rb) {
				if errDependsOn(errRes, ev, 0, map[ssa.Value]bool{}) {
					ok = true
				}
			}
		}
		if ok {
			r.OK(rule, tp.fn, construct, posOrFn(p, ret, fn), "the returned error is computed from the rollback call's result", true)
		} else if k == errUnknown && returnsErrorOfMutatingCallOnly(errRes, muts) {
			r.OK(rule, tp.fn, construct, posOrFn(p, ret, fn), "tail-returns a helper's verdict", false)
		} else {
			r.Bad(rule, tp.fn, construct, posOrFn(p, ret, fn), "this failure return can follow a step that already changed the installation (backup or publish rename) but does not go through the rollback sibling ("+strings.Join(tp.rollbacks, "|")+"): earlier members stay installed / originals stay in the backup although the batch failed")
		}
	}
	if n == 0 {
		r.Bad(rule, tp.fn, "anchor:returns", p.Pos(fn.Pos()), "UNRESOLVED-ANCHOR: no failure return after a mutating step found")
	}
}

func returnsErrorOfMutatingCallOnly(v ssa.Value, muts []*ssa.Call) bool { return false }

// checkRecordFlags (R2)
func checkRecordFlags(c *Ctx, rule string, tp txPublisher) {
	p, r := c.P, c.R
	fn := p.Func(tp.fn)
	if fn == nil {
		r.Bad(rule, tp.fn, "anchor", "", "UNRESOLVED-ANCHOR: publisher not found")
		return
	}
	var renames []*ssa.Call
	eachInstr(fn, func(_ *ssa.BasicBlock, _ int, i ssa.Instruction) {
		if call, ok := i.(*ssa.Call); ok {
			_, ref := callRef(call)
			if inSet(ref, tp.renames) && !strings.Contains(ref, "backupCertificateDestinations") {
				renames = append(renames, call)
			}
		}
	})
	if len(renames) == 0 {
		r.Bad(rule, tp.fn, "anchor:rename", p.Pos(fn.Pos()), "UNRESOLVED-ANCHOR: no rename call")
		return
	}
	isFlagStore := func(i ssa.Instruction) bool {
		st, ok := i.(*ssa.Store)
		if !ok {
			return false
		}
		cst, isC := st.Val.(*ssa.Const)
		if !isC || cst.Value == nil || cst.Value.Kind() != constant.Bool || !constant.BoolVal(cst.Value) {
			return false
		}
		fp := fieldPath(st.Addr)
		for _, f := range tp.flags {
			if strings.HasSuffix(fp, f) {
				return true
			}
		}
		return false
	}
	for ri, rn := range renames {
		construct := fmt.Sprintf("rename#%d", ri+1)
		edges, has := successEdges(rn)
		if !has || len(edges) == 0 {
			r.Bad(rule, tp.fn, construct, p.Pos(rn.Pos()), "the rename's error is not checked")
			continue
		}
		bad := ""
		for _, e := range edges {
			b := e.From.Succs[e.Succ]
			// walk the straight-line successor chain from the success edge: the flag store must come before any call/return/branch
			found := false
			for steps := 0; steps < 4 && b != nil && !found && bad == ""; steps++ {
				for _, i := range b.Instrs {
					if isFlagStore(i) {
						found = true
						break
					}
					switch x := i.(type) {
					case *ssa.Call:
						if _, isB := x.Call.Value.(*ssa.Builtin); !isB {
							bad = "call " + instrLabel(x) + " at " + p.Pos(x.Pos()) + " runs before the record flag is set"
						}
					case *ssa.Return:
						bad = "returns before the record flag is set"
					case *ssa.If:
						bad = "branches before the record flag is set"
					}
					if bad != "" {
						break
					}
				}
				if !found && bad == "" {
					if len(b.Succs) == 1 {
						b = b.Succs[0]
					} else {
						b = nil
					}
				}
			}
			if !found && bad == "" {
				bad = "no store of true to " + strings.Join(tp.flags, "/") + " follows the successful rename"
			}
		}
		if bad != "" {
			r.Bad(rule, tp.fn, construct, p.Pos(rn.Pos()), "bookkeeping gap after a successful rename: "+bad+" — if that step fails, rollback does not know this file was moved and leaves it behind")
		} else {
			r.OK(rule, tp.fn, construct, p.Pos(rn.Pos()), "the record flag is stored on the rename's success edge before any other call, branch or return", true)
		}
	}
}

// checkRollbackSibling: reads the flags, iterates in reverse, reports the backup location (R2b, R4)
func checkRollbackSibling(c *Ctx, tp txPublisher) {
	p, r := c.P, c.R
	fn := p.Func(tp.rollback)
	if fn == nil {
		r.Bad("C06.R2", tp.rollback, "anchor", "", "UNRESOLVED-ANCHOR: rollback sibling not found")
		return
	}
	read := map[string]bool{}
	reverse := false
	mentionsBackup := false
	eachInstr(fn, func(_ *ssa.BasicBlock, _ int, i ssa.Instruction) {
		switch x := i.(type) {
		case *ssa.UnOp:
			fp := fieldPath(x)
			for _, f := range append([]string{"hadOriginal"}, tp.flags...) {
				if strings.HasSuffix(fp, f) {
					read[f] = true
				}
			}
		case *ssa.Field:
			fp := fieldPath(x)
			for _, f := range append([]string{"hadOriginal"}, tp.flags...) {
				if strings.HasSuffix(fp, f) {
					read[f] = true
				}
			}
		case *ssa.BinOp:
			if x.Op.String() == "-" {
				if n, ok := constInt(x.Y); ok && n == 1 {
					reverse = true
				}
			}
		case *ssa.Call:
			if _, ref := callRef(x); ref == "fmt.Errorf" || ref == "errors.New" {
				for _, e := range variadicElems(x) {
					if mi, ok := e.(*ssa.MakeInterface); ok {
						e = mi.X
					}
					if prm, ok := e.(*ssa.Parameter); ok && strings.Contains(prm.Name(), tp.backupTok) {
						mentionsBackup = true
					}
					if strings.HasSuffix(fieldPath(e), tp.backupTok) {
						mentionsBackup = true
					}
				}
			}
		}
	})
	var missing []string
	for _, f := range append([]string{"hadOriginal"}, tp.flags...) {
		if !read[f] {
			missing = append(missing, f)
		}
	}
	if len(missing) > 0 {
		r.Bad("C06.R2", tp.rollback, "reads-flags", p.Pos(fn.Pos()), "the rollback sibling does not read the record flag(s) "+strings.Join(missing, ",")+" that the publisher sets")
	} else if !reverse {
		r.Bad("C06.R2", tp.rollback, "reverse-order", p.Pos(fn.Pos()), "the rollback sibling no longer walks the records in reverse (i--)")
	} else {
		r.OK("C06.R2", tp.rollback, "reads-flags", p.Pos(fn.Pos()), "reads hadOriginal and "+strings.Join(tp.flags, "/")+"; iterates in reverse", true)
	}
	if mentionsBackup {
		r.OK("C06.R4", tp.rollback, "backup-location", p.Pos(fn.Pos()), "an error built in the rollback mentions "+tp.backupTok, true)
	} else {
		r.Bad("C06.R4", tp.rollback, "backup-location", p.Pos(fn.Pos()), "when restoring fails the rollback's error no longer names the backup location ("+tp.backupTok+"): the user cannot find the retained originals")
	}
}
