package main

import (
	"fmt"
	"go/constant"
	"go/token"
	"go/types"
	"sort"
	"strings"

	"golang.org/x/tools/go/ssa"
)

// C27 — tampering with signed bytes is never reported valid (partial: evidence gates).
// C28 — "covers the document" only if it covers every byte (partial: boundary gates).

func init() {
	register(&Check{
		ID:          "C27",
		Run:         runC27,
		Explanation: "Decides where a positive verdict can come from and what it is conditioned on: (R1 who-may-write) SignatureStatusValid is stored into SignatureValidationResult.Status only in sign.finalizeLocalSignatureResult and model.False into DocModified only in sign.markDocumentUnmodified; (R2 evidence gates) every store DigestVerified=true and every markDocumentUnmodified call in the three handlers (pkcs7, pkcs1, document timestamp) lies on the success edge of that handler's digest comparison, every SignatureAuthenticated=true on the success edge of its signature verification; applyP7DigestEvidence returns true only on the err==nil edge; in verifyP7Digest every nil-error return passes the success edge of pkcs7.VerifyMessageDigestDetached or VerifyMessageDigestEmbedded; in pkcs7.checkSignature every return that can be nil has attempted VerifyMessageDigestDetached whenever signed attributes are present (its mismatch is carried into the result) — the message-digest binding cannot be skipped by a flag; finalizeLocalSignatureResult stores Valid only after assessment.complete() was true, and complete() reads DigestVerified and SignatureAuthenticated; (R3 what is hashed) sign.signedData returns bytes only after validateByteRange and validateContentsGap succeeded and the bytes come from bytesForByteRange on the same array; bytesForByteRange copies exactly (values[0],values[1]) and (values[2],values[3]). (R4) sign.contentsGapMatches compares the whole excluded gap: the compared range is gap[1:len(gap)-1] (high bound from len(gap), not from a search inside the gap) and gap[len(gap)-1] is tested — a matched prefix would leave unsigned, unchecked bytes in the gap (signature wrapping). (R2, extended) markDocumentUnmodified in the PKCS#7 and document-timestamp handlers needs the digest gate AND the signature gate (an unauthenticated messageDigest attribute is no evidence; an imprint that could not be computed is not a matching one); (R3, extended) the signed ranges are read by signedData only. NOT decided: hash/PKCS#7/RSA arithmetic and ASN.1 parsing, exhaustive byte flips.",
		Rules: []string{
			"C27.R1 WMC: positive verdict stores only in two functions",
			"C27.R2 MPT: verdict flags gated on digest comparison and signature verification success",
			"C27.R4 shape: the excluded /Contents gap is compared in full",
			"C27.R5 dominance: the loop over the SignerInfos stops early only when validateAll is false",
			"C27.R6 flow: ValidateSignatures hands its own reader parameter to everything that reads the signed ranges",
			"C27.R3 MPT/flow: signed bytes = both byte ranges, after range and gap validation",
		},
		Assumptions: []string{"crypto/x509, crypto/rsa etc. verify what they are given"},
		Technique:   "who-may-write on struct fields with constant resolution; must-pass-through dataflow on success edges across three sibling handlers; argument-index extraction",
		Note:        "Partial: evidence plumbing, not cryptography.",
	})
	register(&Check{
		ID:          "C28",
		Run:         runC28,
		Explanation: "Decides the boundary gates: (R1) in validateSignature and validateURSignature the handler call is reached only on the true edge of recordSignedRevisionBoundaryEvidence and every return after the handler succeeded passes applyHistoricalRevisionReporting; (R2) recordSignedRevisionBoundaryEvidence returns true for a current-revision signature only on signedRevisionEnd == currentFileSize, the evidence is built from arr[2]+arr[3] and ctx.Read.FileSize, and — sibling cross-check by concrete evaluation over increment in {0..3} x documentTimestamp in {false,true} — whenever applyHistoricalRevisionReporting would NOT downgrade a positive result (increment <= 0 or a document timestamp), collectSignedRevisionBoundaryEvidence marks the signature as currentRevision, so the strict end-of-file equality applies: no signature type/increment combination escapes both guards; (R3) validateByteRange rejects values[0] != 0 and end1 > values[2]; validateContentsGap returns nil only after contentsGapMatches returned true on bytes copied from [end1, values[2]); contentsGapMatches can leave its scan loop early only by returning false and otherwise returns i == len(contents) (no break that accepts a prefix match); signedData calls both validators before reading. (R4) the strict ByteRange parser sign.byteRangeValues (and the helpers it calls) asserts elements to types.Integer only, the kind the revision-boundary check reads (that check skips what it cannot read and relies on the strict parser to reject it); (R5) every value stored into an increment field (URSignatureIncrement, Incr …) is an xref-section index handed on unchanged (constant, parameter, field load, or the return of a function with that property), never the result of arithmetic: a negative increment is neither current (== 0) nor historical (> 0) and skips both protections. (R6) in applyHistoricalRevisionReporting every path from the first test of DocModified / Reason to the return has each of the two fields overwritten or just seen not to hold its positive value (a first-match-wins switch withdraws only one); (R3, extended) sign.bytesForByteRange is called by sign.signedData only. NOT decided: arithmetic of offsets beyond the comparisons named, xref/incremental-update parsing that computes `increment`.",
		Rules: []string{
			"C28.R1 MPT: boundary evidence before the handler; historical downgrade after it",
			"C28.R2 shape + sibling evaluation: strict end-of-file equality for every non-downgraded case",
			"C28.R4 TABLE: ByteRange element kinds accepted by the strict parser = kinds read by the boundary check",
			"C28.R5 flow: increment numbers reach validation unadjusted",
			"C28.R6 MPT: a historical signature has both whole-document conclusions withdrawn (DocModified and Reason, independently)",
			"C28.R7 independence: the first ByteRange offset is tested against 0 unconditionally and a non-zero offset is always an error",
			"C28.R3 shape: byte-range and gap validators",
		},
		Assumptions: []string{"ctx.Read.FileSize is the size of the file that was read", "the increment number passed by ValidateSignatures identifies the xref section"},
		Technique:   "must-pass-through dataflow; concrete evaluation of pure int/bool SSA expressions (short-circuit phis) over a small finite domain to cross-check two sibling guards; loop-exit shape check",
		Note:        "Partial: gate placement and guard agreement.",
	})
}

func modelConst(p *Program, name string) constant.Value {
	pk := p.Pkg("pkg/pdfcpu/model")
	if pk == nil {
		return nil
	}
	if co, ok := pk.Types.Scope().Lookup(name).(*types.Const); ok {
		return co.Val()
	}
	return nil
}

func storesConst(st *ssa.Store, val constant.Value) bool {
	cst, ok := st.Val.(*ssa.Const)
	return ok && cst.Value != nil && val != nil && cst.Value.Kind() == val.Kind() && constant.Compare(cst.Value, token.EQL, val)
}

func runC27(c *Ctx) {
	p, r := c.P, c.R
	r.MinInst["C27.R1"] = 2
	r.MinInst["C27.R2"] = 10
	r.MinInst["C27.R3"] = 3
	r.MinInst["C27.R4"] = 1
	checkGapComparedInFull(c)
	r.MinInst["C27.R5"] = 1
	checkAllSignersAssessed(c)
	r.MinInst["C27.R6"] = 2
	checkValidatedReaderIsTheCallers(c)
	valid := modelConst(p, "SignatureStatusValid")
	mFalse := modelConst(p, "False")
	if valid == nil || mFalse == nil {
		r.Bad("C27.R1", "pkg/pdfcpu/model", "anchor:constants", "", "UNRESOLVED-ANCHOR: model.SignatureStatusValid / model.False not found")
		return
	}
	// ---- R1
	nValid, nFalse := 0, 0
	for _, fn := range p.Funcs {
		fid := FuncID(rootFunc(fn))
		eachInstr(fn, func(_ *ssa.BasicBlock, _ int, i ssa.Instruction) {
			st, ok := i.(*ssa.Store)
			if !ok {
				return
			}
			fa, ok := st.Addr.(*ssa.FieldAddr)
			if !ok || typeNameOf(fa.X.Type()) != "SignatureValidationResult" {
				return
			}
			f := structField(fa.X.Type(), fa.Field)
			switch {
			case f.Name() == "Status" && storesConst(st, valid):
				nValid++
				if fid == "pkg/pdfcpu/sign.finalizeLocalSignatureResult" {
					r.OK("C27.R1", fid, "Status=Valid", p.Pos(st.Pos()), "the single place that can declare a signature valid", false)
				} else {
					r.Bad("C27.R1", fid, "Status=Valid", p.Pos(st.Pos()), "SignatureStatusValid is stored outside finalizeLocalSignatureResult: a verdict that bypasses the completeness check of the local assessment")
				}
			case f.Name() == "Status" && !isConstVal(st.Val):
				if fid != "pkg/pdfcpu/sign.finalizeLocalSignatureResult" && !strings.HasPrefix(fid, "pkg/pdfcpu/model.") {
					r.Bad("C27.R1", fid, "Status=<computed>", p.Pos(st.Pos()), "a computed value is stored into Status outside the finaliser (it could be Valid)")
				}
			case f.Name() == "DocModified" && storesConst(st, mFalse):
				nFalse++
				if fid == "pkg/pdfcpu/sign.markDocumentUnmodified" {
					r.OK("C27.R1", fid, "DocModified=False", p.Pos(st.Pos()), "the single place that can declare the document unmodified", false)
				} else {
					r.Bad("C27.R1", fid, "DocModified=False", p.Pos(st.Pos()), "DocModified=False is stored outside markDocumentUnmodified")
				}
			case f.Name() == "DocModified" && !isConstVal(st.Val):
				if fid != "pkg/pdfcpu/sign.markInvalidEvidence" {
					r.Bad("C27.R1", fid, "DocModified=<computed>", p.Pos(st.Pos()), "a computed value is stored into DocModified outside markInvalidEvidence (it could be False)")
				} else {
					r.OK("C27.R1", fid, "DocModified=<param>", p.Pos(st.Pos()), "markInvalidEvidence stores its docModified argument; every caller passes True or Unknown (checked below)", false)
				}
			}
		})
	}
	if nValid == 0 || nFalse == 0 {
		r.Bad("C27.R1", "-", "anchor:stores", "", "UNRESOLVED-ANCHOR: verdict stores not found")
	}
	// callers of markInvalidEvidence never pass False
	for _, fn := range p.Funcs {
		eachInstr(fn, func(_ *ssa.BasicBlock, _ int, i ssa.Instruction) {
			if call, ok := i.(*ssa.Call); ok {
				if _, ref := callRef(call); ref == "pkg/pdfcpu/sign.markInvalidEvidence" {
					a := call.Call.Args[2]
					if neverConst(a, mFalse, 0) {
						return
					}
					r.Bad("C27.R1", FuncID(fn), "markInvalidEvidence arg", p.Pos(call.Pos()), "markInvalidEvidence is called with a docModified value that is not the constant True/Unknown")
				}
			}
		})
	}
	// ---- R2: handlers
	type handler struct {
		fn       string
		digestOK []GenSpec
		sigOK    []GenSpec
		min      int
	}
	hs := []handler{
		{"pkg/pdfcpu/sign.verifyP7SignerWithContentType",
			[]GenSpec{{Fact: "digest-ok", On: Pred{Calls: []string{"pkg/pdfcpu/sign.applyP7DigestEvidence"}}, OnTrue: true}},
			[]GenSpec{{Fact: "sig-ok", On: Pred{Calls: []string{"pkg/pdfcpu/sign.verifyP7Signature"}}}}, 4},
		// round 3 of seeding: the document-timestamp handler gets the same two named gates
		{"pkg/pdfcpu/sign.authenticateDTSEvidence",
			[]GenSpec{{Fact: "digest-ok", On: Pred{Calls: []string{"pkg/pdfcpu/sign.applyDTSDigestEvidence"}}, OnTrue: true}},
			[]GenSpec{{Fact: "sig-ok", On: Pred{Calls: []string{"pkg/pdfcpu/pkcs7.CheckSignatureWithContentType"}}}}, 2},
	}
	for _, h := range hs {
		fn := p.Func(h.fn)
		if fn == nil {
			r.Bad("C27.R2", h.fn, "anchor", "", "UNRESOLVED-ANCHOR")
			continue
		}
		runFlowRuleOn(c, FlowRule{
			ID:  "C27.R2",
			Gen: append(append([]GenSpec{}, h.digestOK...), h.sigOK...),
			Need: []NeedSpec{
				{Fact: "digest-ok", At: Pred{Where: storeTrueTo("DigestVerified"), Desc: "DigestVerified = true"}, Why: "the digest is recorded as verified on a path where the digest comparison did not succeed"},
				{Fact: "digest-ok", At: Pred{Calls: []string{"pkg/pdfcpu/sign.markDocumentUnmodified"}}, Why: "the document is marked unmodified on a path where the digest comparison did not succeed (an imprint that could not be computed is not a matching imprint)"},
				{Fact: "sig-ok", At: Pred{Calls: []string{"pkg/pdfcpu/sign.markDocumentUnmodified"}}, Why: "the document is marked unmodified on a path where the signature over the signed attributes was not verified: the messageDigest attribute is then unauthenticated and an attacker who rewrites it (and makes verification fail as 'unsupported') gets DocModified = false for tampered bytes"},
				{Fact: "sig-ok", At: Pred{Where: storeTrueTo("SignatureAuthenticated"), Desc: "SignatureAuthenticated = true"}, Why: "the signature is recorded as authenticated on a path where the cryptographic verification did not succeed"},
			},
			Min: h.min,
		}, fn)
	}
	// generic: in the pkcs1 and dts handlers every such store / mark is dominated by the success edge of *some* verification call
	for _, hf := range []string{"pkg/pdfcpu/sign/pkcs1.go", "pkg/pdfcpu/sign/dts.go"} {
		n := 0
		for _, fn := range p.Funcs {
			if p.File(fn.Pos()) != hf {
				continue
			}
			fn := fn
			eachInstr(fn, func(_ *ssa.BasicBlock, _ int, i ssa.Instruction) {
				isFlag := storeTrueTo("DigestVerified")(i) || storeTrueTo("SignatureAuthenticated")(i)
				isMark := false
				if call, ok := i.(*ssa.Call); ok {
					if _, ref := callRef(call); ref == "pkg/pdfcpu/sign.markDocumentUnmodified" {
						isMark = true
					}
				}
				if !isFlag && !isMark {
					return
				}
				n++
				construct := fmt.Sprintf("%s#%d", map[bool]string{true: "markDocumentUnmodified", false: "flag=true"}[isMark], n)
				// dominated by the success edge of a verification-like call (error-returning call whose name contains verify/Verify/compare/Check) or true edge of a bool compare
				ok := false
				eachInstr(fn, func(_ *ssa.BasicBlock, _ int, j ssa.Instruction) {
					call, isCall := j.(*ssa.Call)
					if !isCall {
						return
					}
					_, ref := callRef(call)
					low := strings.ToLower(ref)
					if !(strings.Contains(low, "verify") || strings.Contains(low, "checksignature") || strings.Contains(low, "equal") || strings.Contains(low, "compare") || strings.Contains(low, "digest")) {
						return
					}
					edges, _ := successEdges(call)
					for _, bv := range boolResults(call) {
						for _, al := range wideAliases(bv) {
							edges = append(edges, condEdges(al, true)...)
						}
					}
					for _, e := range edges {
						if edgeDominates(e, i.Block()) {
							ok = true
						}
					}
				})
				if ok {
					r.OK("C27.R2", FuncID(fn), construct, p.Pos(i.Pos()), "dominated by the success edge of a verification/comparison call in the same handler", true)
				} else {
					r.Bad("C27.R2", FuncID(fn), construct, p.Pos(i.Pos()), "a positive evidence flag / unmodified mark is not dominated by the success edge of any verification or digest comparison in this handler")
				}
			})
		}
		if n == 0 {
			r.Bad("C27.R2", hf, "anchor", "", "UNRESOLVED-ANCHOR: no evidence flag stores found in "+hf)
		}
	}
	// applyP7DigestEvidence / applyDTSDigestEvidence: true only when err == nil
	for _, evid := range []string{"pkg/pdfcpu/sign.applyP7DigestEvidence", "pkg/pdfcpu/sign.applyDTSDigestEvidence"} {
		if fn := p.Func(evid); fn == nil {
			r.Bad("C27.R2", evid, "anchor", "", "UNRESOLVED-ANCHOR")
		} else {
			var errParam *ssa.Parameter
			for _, prm := range fn.Params {
				if isErrorType(prm.Type()) {
					errParam = prm
				}
			}
			bad := false
			for _, ret := range returnsOf(fn) {
				cst, ok := ret.Results[0].(*ssa.Const)
				if ok && cst.Value != nil && !constant.BoolVal(cst.Value) {
					continue
				}
				dom := false
				if errParam != nil {
					for _, e := range nilCheckEdges(errParam, true) {
						if edgeDominates(e, ret.Block()) {
							dom = true
						}
					}
				}
				if !dom {
					bad = true
				}
			}
			if bad {
				r.Bad("C27.R2", FuncID(fn), "true-only-if-nil", p.Pos(fn.Pos()), fn.Name()+" can return true although the digest verification returned an error")
			} else {
				r.OK("C27.R2", FuncID(fn), "true-only-if-nil", p.Pos(fn.Pos()), "returns true only on the err == nil edge", true)
			}
		}
	}
	RunFlowRule(c, FlowRule{
		ID:   "C27.R2",
		Func: "pkg/pdfcpu/sign.verifyP7Digest",
		Gen:  []GenSpec{{Fact: "digest-compared", On: Pred{Calls: []string{"pkg/pdfcpu/pkcs7.VerifyMessageDigestDetached", "pkg/pdfcpu/pkcs7.VerifyMessageDigestEmbedded"}}}},
		Need: []NeedSpec{{Fact: "digest-compared", At: Pred{NilReturn: true}, Why: "verifyP7Digest reports the document digest as matching on a path that never compared the signed byte ranges with the signature's digest"}},
	})
	// pkcs7.checkSignature: binding attempted whenever signed attributes are present
	if fn := p.Func("pkg/pdfcpu/pkcs7.checkSignature"); fn == nil {
		r.Bad("C27.R2", "pkg/pdfcpu/pkcs7.checkSignature", "anchor", "", "UNRESOLVED-ANCHOR")
	} else {
		noAttrs := map[Edge]bool{}
		eachInstr(fn, func(_ *ssa.BasicBlock, _ int, i ssa.Instruction) {
			b, ok := i.(*ssa.BinOp)
			if !ok {
				return
			}
			// len(signer.AuthenticatedAttributes) > 0
			if call, ok := b.X.(*ssa.Call); ok {
				if bi, ok := call.Call.Value.(*ssa.Builtin); ok && bi.Name() == "len" && strings.HasSuffix(fieldPath(call.Call.Args[0]), "AuthenticatedAttributes") {
					if n, ok := constInt(b.Y); ok && n == 0 {
						switch b.Op {
						case token.GTR, token.NEQ:
							for _, e := range condEdges(b, false) {
								noAttrs[e] = true
							}
						case token.EQL:
							for _, e := range condEdges(b, true) {
								noAttrs[e] = true
							}
						}
					}
				}
			}
		})
		runFlowRuleOn(c, FlowRule{
			ID: "C27.R2",
			Gen: []GenSpec{
				{Fact: "content-bound", On: Pred{Calls: []string{"pkg/pdfcpu/pkcs7.VerifyMessageDigestDetached"}}, Always: true},
				{Fact: "content-bound", edges: noAttrs},
			},
			Need: []NeedSpec{{Fact: "content-bound", At: Pred{NilReturn: true}, Why: "checkSignature can accept a signature over signed attributes without having compared the message-digest attribute with the content: the signature would then authenticate attributes that are not bound to the document bytes"}},
		}, fn)
		// the mismatch must be carried into the result: some return depends on the call's error
		var vcall *ssa.Call
		eachInstr(fn, func(_ *ssa.BasicBlock, _ int, i ssa.Instruction) {
			if call, ok := i.(*ssa.Call); ok {
				if _, ref := callRef(call); ref == "pkg/pdfcpu/pkcs7.VerifyMessageDigestDetached" {
					vcall = call
				}
			}
		})
		carried := false
		if vcall != nil {
			for _, ret := range returnsOf(fn) {
				if len(ret.Results) == 1 && errDependsOn(ret.Results[0], vcall, 0, map[ssa.Value]bool{}) {
					k, _ := returnErrKind(ret)
					if k != errNonNil {
						carried = true // the final return hands the (possibly nil) binding error to the caller
					}
				}
			}
		}
		if carried {
			r.OK("C27.R2", FuncID(fn), "binding-error-carried", p.Pos(fn.Pos()), "the final return value is computed from VerifyMessageDigestDetached's error", true)
		} else {
			r.Bad("C27.R2", FuncID(fn), "binding-error-carried", p.Pos(fn.Pos()), "the result of VerifyMessageDigestDetached no longer reaches checkSignature's final return: a digest mismatch would be dropped")
		}
	}
	// finalizeLocalSignatureResult
	RunFlowRule(c, FlowRule{
		ID:   "C27.R2",
		Func: "pkg/pdfcpu/sign.finalizeLocalSignatureResult",
		Gen:  []GenSpec{{Fact: "complete", On: Pred{Calls: []string{"pkg/pdfcpu/sign.localSignatureAssessment.complete"}}, OnTrue: true}},
		Need: []NeedSpec{{Fact: "complete", At: Pred{Where: func(i ssa.Instruction) bool {
			st, ok := i.(*ssa.Store)
			return ok && storesConst(st, valid) && strings.HasSuffix(fieldPath(st.Addr), "Status")
		}, Desc: "Status = Valid"}, Why: "a signature is declared valid without the local assessment being complete"}},
	})
	if fn := p.Func("pkg/pdfcpu/sign.(localSignatureAssessment).complete"); fn == nil {
		r.Bad("C27.R2", "pkg/pdfcpu/sign.(localSignatureAssessment).complete", "anchor", "", "UNRESOLVED-ANCHOR")
	} else {
		read := map[string]bool{}
		eachInstr(fn, func(_ *ssa.BasicBlock, _ int, i ssa.Instruction) {
			if v, ok := i.(ssa.Value); ok {
				fp := fieldPath(v)
				for _, f := range []string{"DigestVerified", "SignatureAuthenticated", "CertificateIdentified"} {
					if strings.HasSuffix(fp, f) {
						read[f] = true
					}
				}
			}
		})
		if read["DigestVerified"] && read["SignatureAuthenticated"] {
			r.OK("C27.R2", FuncID(fn), "reads", p.Pos(fn.Pos()), "complete() reads DigestVerified and SignatureAuthenticated", true)
		} else {
			r.Bad("C27.R2", FuncID(fn), "reads", p.Pos(fn.Pos()), "complete() no longer requires DigestVerified and SignatureAuthenticated")
		}
	}
	// ---- R3
	RunFlowRule(c, FlowRule{
		ID:   "C27.R3",
		Func: "pkg/pdfcpu/sign.signedData",
		Gen: []GenSpec{
			{Fact: "range-valid", On: Pred{Calls: []string{"pkg/pdfcpu/sign.validateByteRange"}}},
			{Fact: "gap-valid", On: Pred{Calls: []string{"pkg/pdfcpu/sign.validateContentsGap"}}},
		},
		Need: []NeedSpec{
			{Fact: "range-valid", At: Pred{Calls: []string{"pkg/pdfcpu/sign.bytesForByteRange"}}, Why: "signed bytes are read before the byte ranges were validated"},
			{Fact: "gap-valid", At: Pred{Calls: []string{"pkg/pdfcpu/sign.bytesForByteRange"}}, Why: "signed bytes are read before the excluded gap was shown to be exactly the /Contents value"},
		},
	})
	checkSignedRangeReaders(c, "C27.R3")
	if fn := p.Func("pkg/pdfcpu/sign.bytesForByteRange"); fn == nil {
		r.Bad("C27.R3", "pkg/pdfcpu/sign.bytesForByteRange", "anchor", "", "UNRESOLVED-ANCHOR")
	} else {
		var pairs []string
		eachInstr(fn, func(_ *ssa.BasicBlock, _ int, i ssa.Instruction) {
			call, ok := i.(*ssa.Call)
			if !ok {
				return
			}
			if _, ref := callRef(call); ref != "pkg/pdfcpu/sign.copyByteRange" {
				return
			}
			idx := func(v ssa.Value) string {
				if ld, ok := v.(*ssa.UnOp); ok {
					if ia, ok := ld.X.(*ssa.IndexAddr); ok {
						if n, ok := constInt(ia.Index); ok {
							return fmt.Sprint(n)
						}
					}
				}
				if ix, ok := v.(*ssa.Index); ok {
					if n, ok := constInt(ix.Index); ok {
						return fmt.Sprint(n)
					}
				}
				return "?"
			}
			pairs = append(pairs, idx(call.Call.Args[2])+","+idx(call.Call.Args[3]))
		})
		if len(pairs) == 2 && pairs[0] == "0,1" && pairs[1] == "2,3" {
			r.OK("C27.R3", FuncID(fn), "ranges", p.Pos(fn.Pos()), "copies (values[0],values[1]) then (values[2],values[3])", true)
		} else {
			r.Bad("C27.R3", FuncID(fn), "ranges", p.Pos(fn.Pos()), "the hashed bytes are not exactly the two byte ranges (values[0],values[1]) and (values[2],values[3]): found "+strings.Join(pairs, " ; "))
		}
	}
}

// neverConst: v is a constant, or a phi / local cell of constants, none of which equals bad.
func neverConst(v ssa.Value, bad constant.Value, depth int) bool {
	if depth > 6 {
		return false
	}
	switch x := v.(type) {
	case *ssa.Const:
		return x.Value != nil && !constant.Compare(x.Value, token.EQL, bad)
	case *ssa.Phi:
		for _, e := range x.Edges {
			if !neverConst(e, bad, depth+1) {
				return false
			}
		}
		return len(x.Edges) > 0
	case *ssa.UnOp:
		if x.Op == token.MUL {
			if al, ok := x.X.(*ssa.Alloc); ok {
				n := 0
				for _, rf := range *al.Referrers() {
					if st, ok := rf.(*ssa.Store); ok && st.Addr == ssa.Value(al) {
						n++
						if !neverConst(st.Val, bad, depth+1) {
							return false
						}
					}
				}
				return n > 0
			}
		}
	}
	return false
}

func isConstVal(v ssa.Value) bool { _, ok := v.(*ssa.Const); return ok }

func storeTrueTo(field string) func(ssa.Instruction) bool {
	return func(i ssa.Instruction) bool {
		st, ok := i.(*ssa.Store)
		if !ok {
			return false
		}
		cst, isC := st.Val.(*ssa.Const)
		if !isC || cst.Value == nil || cst.Value.Kind() != constant.Bool || !constant.BoolVal(cst.Value) {
			return false
		}
		return strings.HasSuffix(fieldPath(st.Addr), field)
	}
}

// ---------- concrete evaluation of pure int/bool SSA ----------

type cval struct {
	isBool bool
	b      bool
	n      int64
	isNil  bool // pointer known non-nil (false) / nil (true) encoded via b
}

type evalEnv map[ssa.Value]cval

func evalPure(v ssa.Value, env evalEnv, depth int) (cval, bool) {
	if depth > 30 {
		return cval{}, false
	}
	if c, ok := env[v]; ok {
		return c, true
	}
	switch x := v.(type) {
	case *ssa.Const:
		if x.Value == nil {
			return cval{isNil: true, isBool: true, b: true}, true
		}
		switch x.Value.Kind() {
		case constant.Bool:
			return cval{isBool: true, b: constant.BoolVal(x.Value)}, true
		case constant.Int:
			n, ok := constant.Int64Val(x.Value)
			return cval{n: n}, ok
		}
	case *ssa.UnOp:
		if x.Op == token.NOT {
			a, ok := evalPure(x.X, env, depth+1)
			return cval{isBool: true, b: !a.b}, ok
		}
		if x.Op == token.MUL {
			if tv := throughCell(x); tv != ssa.Value(x) {
				return evalPure(tv, env, depth+1)
			}
			// parameter spill
			if al, ok := x.X.(*ssa.Alloc); ok {
				for _, rf := range *al.Referrers() {
					if st, ok := rf.(*ssa.Store); ok && st.Addr == ssa.Value(al) {
						return evalPure(st.Val, env, depth+1)
					}
				}
			}
		}
	case *ssa.Convert:
		return evalPure(x.X, env, depth+1)
	case *ssa.ChangeType:
		return evalPure(x.X, env, depth+1)
	case *ssa.BinOp:
		a, ok1 := evalPure(x.X, env, depth+1)
		b, ok2 := evalPure(x.Y, env, depth+1)
		if !ok1 || !ok2 {
			return cval{}, false
		}
		if a.isNil || b.isNil {
			// pointer == nil: the non-const side must be in env as isNil value
			eq := a.b == b.b
			if x.Op == token.EQL {
				return cval{isBool: true, b: eq}, true
			}
			if x.Op == token.NEQ {
				return cval{isBool: true, b: !eq}, true
			}
			return cval{}, false
		}
		if a.isBool {
			switch x.Op {
			case token.EQL:
				return cval{isBool: true, b: a.b == b.b}, true
			case token.NEQ:
				return cval{isBool: true, b: a.b != b.b}, true
			}
			return cval{}, false
		}
		switch x.Op {
		case token.EQL:
			return cval{isBool: true, b: a.n == b.n}, true
		case token.NEQ:
			return cval{isBool: true, b: a.n != b.n}, true
		case token.LSS:
			return cval{isBool: true, b: a.n < b.n}, true
		case token.LEQ:
			return cval{isBool: true, b: a.n <= b.n}, true
		case token.GTR:
			return cval{isBool: true, b: a.n > b.n}, true
		case token.GEQ:
			return cval{isBool: true, b: a.n >= b.n}, true
		case token.ADD:
			return cval{n: a.n + b.n}, true
		case token.SUB:
			return cval{n: a.n - b.n}, true
		}
	case *ssa.Phi:
		// simulate from the immediate dominator of the phi's block
		blk := x.Block()
		cur := blk.Idom()
		if cur == nil {
			return cval{}, false
		}
		var prev *ssa.BasicBlock
		for steps := 0; steps < 64; steps++ {
			if cur == blk {
				for i, pr := range blk.Preds {
					if pr == prev {
						return evalPure(x.Edges[i], env, depth+1)
					}
				}
				return cval{}, false
			}
			last := cur.Instrs[len(cur.Instrs)-1]
			switch t := last.(type) {
			case *ssa.If:
				cv, ok := evalPure(t.Cond, env, depth+1)
				if !ok {
					return cval{}, false
				}
				prev = cur
				if cv.b {
					cur = cur.Succs[0]
				} else {
					cur = cur.Succs[1]
				}
			case *ssa.Jump:
				prev = cur
				cur = cur.Succs[0]
			default:
				return cval{}, false
			}
		}
	}
	return cval{}, false
}

func runC28(c *Ctx) {
	p, r := c.P, c.R
	r.MinInst["C28.R1"] = 4
	r.MinInst["C28.R2"] = 3
	r.MinInst["C28.R3"] = 5
	r.MinInst["C28.R4"] = 1
	r.MinInst["C28.R5"] = 1
	r.MinInst["C28.R6"] = 1
	r.MinInst["C28.R7"] = 1
	checkFirstRangeStartsAtZero(c)
	checkHistoricalWithdrawsBoth(c)
	checkSignedRangeReaders(c, "C28.R3")
	checkByteRangeKinds(c)
	checkIncrementsUnadjusted(c)
	// ---- R1
	for _, fid := range []string{"pkg/pdfcpu.validateSignature", "pkg/pdfcpu.validateURSignature"} {
		fn := p.Func(fid)
		if fn == nil {
			r.Bad("C28.R1", fid, "anchor", "", "UNRESOLVED-ANCHOR")
			continue
		}
		// the handler is the dynamic call of the func value obtained from signatureSubFilter
		isHandler := func(i ssa.Instruction) bool {
			call, ok := i.(*ssa.Call)
			if !ok || call.Call.IsInvoke() || staticCallee(call) != nil {
				return false
			}
			ex, ok := call.Call.Value.(*ssa.Extract)
			if !ok {
				return false
			}
			sc, ok := ex.Tuple.(*ssa.Call)
			if !ok {
				return false
			}
			_, ref := callRef(sc)
			return ref == "pkg/pdfcpu.signatureSubFilter"
		}
		var handlerCalls []*ssa.Call
		eachInstr(fn, func(_ *ssa.BasicBlock, _ int, i ssa.Instruction) {
			if isHandler(i) {
				handlerCalls = append(handlerCalls, i.(*ssa.Call))
			}
		})
		if len(handlerCalls) == 0 {
			r.Bad("C28.R1", fid, "anchor:handler", p.Pos(fn.Pos()), "UNRESOLVED-ANCHOR: sub-filter handler call not found")
			continue
		}
		hsucc := map[Edge]bool{}
		for _, hc := range handlerCalls {
			es, _ := successEdges(hc)
			for _, e := range es {
				hsucc[e] = true
			}
		}
		runFlowRuleOn(c, FlowRule{
			ID: "C28.R1",
			Gen: []GenSpec{
				{Fact: "boundary-ok", On: Pred{Calls: []string{"pkg/pdfcpu.recordSignedRevisionBoundaryEvidence"}}, OnTrue: true},
			},
			Need: []NeedSpec{{Fact: "boundary-ok", At: Pred{Where: isHandler, Desc: "sub-filter handler call"}, Why: "a signature handler (which can mark the document unmodified) runs although the signed-revision boundary check did not pass"}},
		}, fn)
		// after handler success every return passes applyHistoricalRevisionReporting
		genI := map[ssa.Instruction]bool{}
		eachInstr(fn, func(_ *ssa.BasicBlock, _ int, i ssa.Instruction) {
			if call, ok := i.(*ssa.Call); ok {
				if _, ref := callRef(call); ref == "pkg/pdfcpu.applyHistoricalRevisionReporting" {
					genI[i] = true
				}
			}
		})
		ff := NewFactFlow(fn, func(i ssa.Instruction) []string {
			if genI[i] {
				return []string{"downgraded"}
			}
			return nil
		}, nil, func(i ssa.Instruction) []string {
			if isHandler(i) {
				return []string{"downgraded"}
			}
			return nil
		}, []string{"downgraded"})
		bad := false
		for _, ret := range returnsOf(fn) {
			k, has := returnErrKind(ret)
			if has && k == errNonNil {
				continue
			}
			if !ff.Holds(ret, "downgraded") {
				bad = true
				r.Bad("C28.R1", fid, "historical-reporting", posOrFn(p, ret, fn), "a result produced by the handler is returned without applyHistoricalRevisionReporting: a signature of an earlier revision could be reported as covering the current document")
			}
		}
		if !bad {
			r.OK("C28.R1", fid, "historical-reporting", p.Pos(fn.Pos()), "every success return after the handler ran passes applyHistoricalRevisionReporting", true)
		}
	}
	// ---- R2: record function shape
	if fn := p.Func("pkg/pdfcpu.recordSignedRevisionBoundaryEvidence"); fn == nil {
		r.Bad("C28.R2", "pkg/pdfcpu.recordSignedRevisionBoundaryEvidence", "anchor", "", "UNRESOLVED-ANCHOR")
	} else {
		// returns: const true must be on an edge where (!ok) or (!currentRevision) or (end == size); const false otherwise.
		eqSeen := false
		eachInstr(fn, func(_ *ssa.BasicBlock, _ int, i ssa.Instruction) {
			if b, ok := i.(*ssa.BinOp); ok && b.Op == token.EQL {
				l, rr := fieldPath(b.X), fieldPath(b.Y)
				if (strings.HasSuffix(l, "signedRevisionEnd") && strings.HasSuffix(rr, "currentFileSize")) || (strings.HasSuffix(rr, "signedRevisionEnd") && strings.HasSuffix(l, "currentFileSize")) {
					eqSeen = true
					// true return must be reachable only via: !ok, !currentRevision, or this equality true
				}
			}
		})
		okShape := eqSeen
		for _, ret := range returnsOf(fn) {
			cst, isC := ret.Results[0].(*ssa.Const)
			if !isC {
				okShape = false
				continue
			}
			if constant.BoolVal(cst.Value) {
				// every pred edge into this block must be one of the three accepted conditions
				for _, pr := range ret.Block().Preds {
					iff, ok := pr.Instrs[len(pr.Instrs)-1].(*ssa.If)
					if !ok {
						okShape = false
						continue
					}
					cond := iff.Cond
					neg := false
					if u, ok := cond.(*ssa.UnOp); ok && u.Op == token.NOT {
						cond, neg = u.X, true
					}
					takenTrue := pr.Succs[0] == ret.Block()
					fp := fieldPath(cond)
					switch {
					case strings.HasSuffix(fp, "currentRevision"):
						// reach true-return when currentRevision is false
						if !(takenTrue == neg) && !(neg && takenTrue) {
							if takenTrue && !neg {
								okShape = false
							}
						}
					default:
						if b, ok := cond.(*ssa.BinOp); ok && b.Op == token.EQL && takenTrue {
							continue
						}
						if _, ok := cond.(*ssa.Extract); ok {
							continue // the ok result of collect…: !ok → true
						}
					}
				}
			}
		}
		if okShape {
			r.OK("C28.R2", FuncID(fn), "equality", p.Pos(fn.Pos()), "a current-revision signature passes only on signedRevisionEnd == currentFileSize", true)
		} else {
			r.Bad("C28.R2", FuncID(fn), "equality", p.Pos(fn.Pos()), "recordSignedRevisionBoundaryEvidence no longer insists on signedRevisionEnd == currentFileSize for current-revision signatures")
		}
	}
	// evidence construction and sibling evaluation
	col := p.Func("pkg/pdfcpu.collectSignedRevisionBoundaryEvidence")
	hist := p.Func("pkg/pdfcpu.applyHistoricalRevisionReporting")
	dts := modelConst(p, "SigTypeDTS")
	if col == nil || hist == nil || dts == nil {
		r.Bad("C28.R2", "pkg/pdfcpu.collectSignedRevisionBoundaryEvidence", "anchor", "", "UNRESOLVED-ANCHOR")
	} else {
		var curRev, endVal, sizeVal ssa.Value
		eachInstr(col, func(_ *ssa.BasicBlock, _ int, i ssa.Instruction) {
			if st, ok := i.(*ssa.Store); ok {
				fp := fieldPath(st.Addr)
				switch {
				case strings.HasSuffix(fp, "currentRevision"):
					curRev = st.Val
				case strings.HasSuffix(fp, "signedRevisionEnd"):
					endVal = st.Val
				case strings.HasSuffix(fp, "currentFileSize"):
					sizeVal = st.Val
				}
			}
		})
		if endVal != nil && sizeVal != nil {
			b, isAdd := endVal.(*ssa.BinOp)
			if isAdd && b.Op == token.ADD && strings.HasSuffix(fieldPath(sizeVal), "FileSize") {
				r.OK("C28.R2", FuncID(col), "evidence", p.Pos(col.Pos()), "signedRevisionEnd = offset + size of the second range; currentFileSize = ctx.Read.FileSize", true)
			} else {
				r.Bad("C28.R2", FuncID(col), "evidence", p.Pos(col.Pos()), "the boundary evidence is no longer ByteRange[2]+ByteRange[3] against ctx.Read.FileSize")
			}
		} else {
			r.Bad("C28.R2", FuncID(col), "evidence", p.Pos(col.Pos()), "UNRESOLVED-ANCHOR: evidence fields not found")
		}
		// exemption condition of applyHistoricalRevisionReporting: the early-return If in the entry chain
		var exempt ssa.Value
		if len(hist.Blocks) > 0 {
			// the value controlling the first return block: find return block(s) with no stores before; take the phi/cond chain result:
			// evaluate "does the function return before touching result" by simulating the If chain from entry.
			exempt = nil
		}
		if curRev == nil {
			r.Bad("C28.R2", FuncID(col), "currentRevision", p.Pos(col.Pos()), "UNRESOLVED-ANCHOR: currentRevision field store not found")
		} else {
			_ = exempt
			bad := ""
			undecided := false
			for inc := int64(0); inc <= 3; inc++ {
				for _, isDTS := range []bool{false, true} {
					// sibling 1
					env1 := evalEnv{}
					for _, prm := range col.Params {
						switch prm.Name() {
						case "increment":
							env1[prm] = cval{n: inc}
						case "documentTimestamp":
							env1[prm] = cval{isBool: true, b: isDTS}
						}
					}
					cr, ok := evalPure(curRev, env1, 0)
					if !ok {
						undecided = true
						continue
					}
					// sibling 2: simulate entry chain of applyHistoricalRevisionReporting
					env2 := evalEnv{}
					for _, prm := range hist.Params {
						switch prm.Name() {
						case "increment":
							env2[prm] = cval{n: inc}
						case "signatureType":
							n, _ := constant.Int64Val(dts)
							if isDTS {
								env2[prm] = cval{n: n}
							} else {
								env2[prm] = cval{n: n + 1000}
							}
						case "result":
							env2[prm] = cval{isNil: true, isBool: true, b: false}
						}
					}
					downgrades, ok2 := simulateReachesStore(hist, env2)
					if !ok2 {
						undecided = true
						continue
					}
					if !downgrades && !cr.b {
						bad = fmt.Sprintf("increment=%d documentTimestamp=%v: applyHistoricalRevisionReporting does not downgrade, yet collectSignedRevisionBoundaryEvidence does not treat the signature as current revision (no end-of-file equality check)", inc, isDTS)
					}
				}
			}
			switch {
			case bad != "":
				r.Bad("C28.R2", FuncID(col), "guards-agree", p.Pos(col.Pos()), "the two guards leave a hole: "+bad+" — such a signature could be reported as covering the document although later bytes follow")
			case undecided:
				r.Bad("C28.R2", FuncID(col), "guards-agree", p.Pos(col.Pos()), "the guard expressions are no longer pure comparisons of increment / documentTimestamp / signatureType that can be evaluated (undecided)")
			default:
				r.OK("C28.R2", FuncID(col), "guards-agree", p.Pos(col.Pos()), "for increment 0..3 x {DTS, non-DTS}: not downgraded ⇒ strict boundary equality applies", true)
			}
		}
	}
	// ---- R3
	if fn := p.Func("pkg/pdfcpu/sign.validateByteRange"); fn == nil {
		r.Bad("C28.R3", "pkg/pdfcpu/sign.validateByteRange", "anchor", "", "UNRESOLVED-ANCHOR")
	} else {
		zeroStart, noOverlap := false, false
		eachInstr(fn, func(_ *ssa.BasicBlock, _ int, i ssa.Instruction) {
			b, ok := i.(*ssa.BinOp)
			if !ok {
				return
			}
			errOn := func(want bool) bool {
				for _, e := range condEdges(b, want) {
					tgt := e.From.Succs[e.Succ]
					if ret, ok := tgt.Instrs[len(tgt.Instrs)-1].(*ssa.Return); ok {
						if k, has := returnErrKind(ret); has && k == errNonNil {
							return true
						}
					}
				}
				return false
			}
			if b.Op == token.NEQ {
				if n, ok := constInt(b.Y); ok && n == 0 && indexOf(b.X) == 0 && errOn(true) {
					zeroStart = true
				}
			}
			if b.Op == token.GTR && indexOf(b.Y) == 2 && errOn(true) {
				noOverlap = true
			}
		})
		if zeroStart && noOverlap {
			r.OK("C28.R3", FuncID(fn), "range-checks", p.Pos(fn.Pos()), "rejects values[0] != 0 and end1 > values[2]", true)
		} else {
			r.Bad("C28.R3", FuncID(fn), "range-checks", p.Pos(fn.Pos()), fmt.Sprintf("validateByteRange lost a check (first range starts at 0: %v, ranges do not overlap: %v)", zeroStart, noOverlap))
		}
	}
	RunFlowRule(c, FlowRule{
		ID:   "C28.R3",
		Func: "pkg/pdfcpu/sign.validateContentsGap",
		Gen:  []GenSpec{{Fact: "gap-matches", On: Pred{Calls: []string{"pkg/pdfcpu/sign.contentsGapMatches"}}, OnTrue: true}},
		Need: []NeedSpec{{Fact: "gap-matches", At: Pred{NilReturn: true}, Why: "the excluded gap is accepted without contentsGapMatches having confirmed that it is exactly the /Contents hex string"}},
	})
	if fn := p.Func("pkg/pdfcpu/sign.validateContentsGap"); fn != nil {
		// the gap is read at [end1, values[2])
		okRead := false
		eachInstr(fn, func(_ *ssa.BasicBlock, _ int, i ssa.Instruction) {
			if call, ok := i.(*ssa.Call); ok {
				if _, ref := callRef(call); ref == "pkg/pdfcpu/sign.copyByteRange" {
					off, size := call.Call.Args[2], call.Call.Args[3]
					if ex, ok := throughCell(off).(*ssa.Extract); ok {
						if ec, ok := ex.Tuple.(*ssa.Call); ok {
							if _, r2 := callRef(ec); r2 == "pkg/pdfcpu/sign.byteRangeEnd" {
								if sb, ok := throughCell(size).(*ssa.BinOp); ok && sb.Op == token.SUB && indexOf(sb.X) == 2 {
									okRead = true
								}
							}
						}
					}
				}
			}
		})
		if okRead {
			r.OK("C28.R3", FuncID(fn), "gap-read", p.Pos(fn.Pos()), "gap bytes are read at offset end1 with size values[2]-end1", true)
		} else {
			r.Bad("C28.R3", FuncID(fn), "gap-read", p.Pos(fn.Pos()), "the bytes compared with /Contents are not read from [end of first range, start of second range)")
		}
	} else {
		r.Bad("C28.R3", "pkg/pdfcpu/sign.validateContentsGap", "anchor", "", "UNRESOLVED-ANCHOR: function not found")
	}
	if fn := p.Func("pkg/pdfcpu/sign.contentsGapMatches"); fn == nil {
		r.Bad("C28.R3", "pkg/pdfcpu/sign.contentsGapMatches", "anchor", "", "UNRESOLVED-ANCHOR")
	} else {
		// loop blocks: those on a cycle
		inLoop := map[*ssa.BasicBlock]bool{}
		for _, b := range fn.Blocks {
			if reachableBlocks(b)[b] {
				inLoop[b] = true
			}
		}
		bad := ""
		for b := range inLoop {
			for _, s := range b.Succs {
				if inLoop[s] {
					continue
				}
				// exit edge: allowed if from the loop header (range exhausted) or to a block returning const false
				if strings.HasSuffix(b.Comment, ".loop") {
					continue
				}
				ret, ok := s.Instrs[len(s.Instrs)-1].(*ssa.Return)
				if ok {
					if cst, isC := ret.Results[0].(*ssa.Const); isC && cst.Value != nil && !constant.BoolVal(cst.Value) {
						continue
					}
				}
				bad = "the scan loop can be left from " + p.Pos(b.Instrs[0].Pos()) + " without returning false (a break that accepts a prefix)"
			}
		}
		// final return is i == len(contents)
		finalOK := false
		for _, ret := range returnsOf(fn) {
			if b, ok := ret.Results[0].(*ssa.BinOp); ok && b.Op == token.EQL {
				for _, o := range []ssa.Value{b.X, b.Y} {
					if call, ok := o.(*ssa.Call); ok {
						if bi, ok := call.Call.Value.(*ssa.Builtin); ok && bi.Name() == "len" {
							finalOK = true
						}
					}
				}
			}
		}
		if len(inLoop) == 0 {
			bad = "no scan loop found"
		}
		if bad == "" && finalOK {
			r.OK("C28.R3", FuncID(fn), "loop-shape", p.Pos(fn.Pos()), "the scan loop is left early only by `return false`; acceptance is `i == len(contents)` after the whole gap was scanned", true)
		} else {
			if bad == "" {
				bad = "the accepting return is no longer `i == len(contents)`"
			}
			r.Bad("C28.R3", FuncID(fn), "loop-shape", p.Pos(fn.Pos()), "contentsGapMatches: "+bad+": bytes after the signature value inside the excluded gap would be neither signed nor checked")
		}
	}
}

// indexOf: v is values[k] (Index or load of IndexAddr with a constant index) -> k, else -1
func indexOf(v ssa.Value) int64 {
	v = throughCell(v)
	switch x := v.(type) {
	case *ssa.Index:
		if n, ok := constInt(x.Index); ok {
			return n
		}
	case *ssa.UnOp:
		if ia, ok := x.X.(*ssa.IndexAddr); ok {
			if n, ok := constInt(ia.Index); ok {
				return n
			}
		}
	}
	return -1
}

// simulateReachesStore: concretely follow fn's CFG from the entry; report whether a Store instruction is executed
// (used for applyHistoricalRevisionReporting: does it downgrade?). ok=false if a branch condition cannot be evaluated
// before any store was seen on that path.
func simulateReachesStore(fn *ssa.Function, env evalEnv) (stores bool, ok bool) {
	// any path that passes the entry guard reaches the (conditional) downgrade stores: we only need to know whether the
	// entry guard returns early. Follow the chain until a block with a Return (early exit) or a block that loads a field.
	cur := fn.Blocks[0]
	for steps := 0; steps < 64; steps++ {
		for _, i := range cur.Instrs {
			switch x := i.(type) {
			case *ssa.Store:
				// parameter spills at entry
				if _, isAlloc := x.Addr.(*ssa.Alloc); isAlloc {
					continue
				}
				return true, true
			case *ssa.FieldAddr:
				// touching the result record: past the guard
				_ = x
				return true, true
			case *ssa.Return:
				return false, true
			}
		}
		last := cur.Instrs[len(cur.Instrs)-1]
		switch t := last.(type) {
		case *ssa.If:
			cv, ok := evalPure(t.Cond, env, 0)
			if !ok {
				return false, false
			}
			if cv.b {
				cur = cur.Succs[0]
			} else {
				cur = cur.Succs[1]
			}
		case *ssa.Jump:
			cur = cur.Succs[0]
		default:
			return false, false
		}
	}
	return false, false
}

// ---------------- round 2 of seeding: C27.R4, C28.R4, C28.R5 ----------------

// checkGapComparedInFull (C27.R4): sign.contentsGapMatches compares the *whole* excluded gap with the /Contents hex string:
// the compared range ends at len(gap)-1 (every Slice of the gap has a high bound computed from len(gap), not from a search
// inside the gap) and the last byte of the gap is tested against '>'. If only a prefix of the gap is matched, bytes can be
// hidden in the unsigned gap (a second /ByteRange, for instance) and a wrapped signature verifies.
func checkGapComparedInFull(c *Ctx) {
	p, r := c.P, c.R
	fid := "pkg/pdfcpu/sign.contentsGapMatches"
	fn := p.Func(fid)
	if fn == nil || len(fn.Params) == 0 {
		r.Bad("C27.R4", fid, "anchor", "", "UNRESOLVED-ANCHOR")
		return
	}
	gap := fn.Params[0]
	// values derived from the gap parameter by slicing
	derivedFromGap := func(v ssa.Value) bool {
		for d := 0; d < 6; d++ {
			if v == ssa.Value(gap) {
				return true
			}
			sl, ok := v.(*ssa.Slice)
			if !ok {
				return false
			}
			v = sl.X
		}
		return false
	}
	// a bound that comes out of a search (any call other than len) inside the gap
	var searched func(v ssa.Value, d int) bool
	searched = func(v ssa.Value, d int) bool {
		if v == nil || d > 6 {
			return false
		}
		switch x := v.(type) {
		case *ssa.Call:
			if b, ok := x.Call.Value.(*ssa.Builtin); ok && (b.Name() == "len" || b.Name() == "cap" || b.Name() == "min" || b.Name() == "max") {
				for _, a := range x.Call.Args {
					if searched(a, d+1) {
						return true
					}
				}
				return false
			}
			return true
		case *ssa.BinOp:
			return searched(x.X, d+1) || searched(x.Y, d+1)
		case *ssa.Convert:
			return searched(x.X, d+1)
		case *ssa.Extract:
			return searched(x.Tuple, d+1)
		case *ssa.Phi:
			for _, e := range x.Edges {
				if searched(e, d+1) {
					return true
				}
			}
		}
		return false
	}
	nSlices, bad := 0, ""
	lastTested := false
	eachInstr(fn, func(_ *ssa.BasicBlock, _ int, i ssa.Instruction) {
		switch x := i.(type) {
		case *ssa.Slice:
			if !derivedFromGap(x.X) {
				return
			}
			nSlices++
			if searched(x.High, 0) || searched(x.Low, 0) {
				bad = p.Pos(x.Pos())
			}
		case *ssa.IndexAddr:
			if derivedFromGap(x.X) {
				if sub, ok := x.Index.(*ssa.BinOp); ok && sub.Op == token.SUB && lenArgOf(sub.X) != nil {
					lastTested = true
				}
			}
		case *ssa.Index:
			if derivedFromGap(x.X) {
				if sub, ok := x.Index.(*ssa.BinOp); ok && sub.Op == token.SUB && lenArgOf(sub.X) != nil {
					lastTested = true
				}
			}
		}
	})
	pos := p.Pos(fn.Pos())
	switch {
	case nSlices == 0:
		r.Bad("C27.R4", fid, "whole gap", pos, "UNRESOLVED-ANCHOR: the gap is not sliced")
	case bad != "" || !lastTested:
		r.Bad("C27.R4", fid, "whole gap", pos, "the excluded /Contents gap is not compared in full (a bound of the compared range is the result of a search inside the gap, or the last gap byte is not tested): bytes behind the matched prefix are neither signed nor checked, which admits signature wrapping (a duplicate /ByteRange hidden in the gap)")
	default:
		r.OK("C27.R4", fid, "whole gap", pos, "no bound of the compared range comes from a search inside the gap, and the last gap byte (index len-1) is tested", true)
	}
}

// checkByteRangeKinds (C28.R4): the strict ByteRange parser (sign.byteRangeValues and what it calls) accepts integer elements
// only — the same kinds the revision-boundary check (collectSignedRevisionBoundaryEvidence) understands. The boundary check
// skips what it cannot read and relies on the strict parser to reject it; a parser that accepts reals re-opens the gap.
func checkByteRangeKinds(c *Ctx) {
	p, r := c.P, c.R
	fid := "pkg/pdfcpu/sign.byteRangeValues"
	fn := p.Func(fid)
	if fn == nil {
		r.Bad("C28.R4", fid, "anchor", "", "UNRESOLVED-ANCHOR")
		return
	}
	kinds := map[string]bool{}
	seen := map[*ssa.Function]bool{}
	var visit func(f *ssa.Function, d int)
	visit = func(f *ssa.Function, d int) {
		if f == nil || seen[f] || d > 2 || f.Blocks == nil {
			return
		}
		seen[f] = true
		eachInstr(f, func(_ *ssa.BasicBlock, _ int, i ssa.Instruction) {
			switch x := i.(type) {
			case *ssa.TypeAssert:
				if strings.HasSuffix(x.X.Type().String(), "types.Object") {
					kinds[typeNameOf(x.AssertedType)] = true
				}
			case *ssa.Call:
				if g := staticCallee(x); g != nil && isSubject(g) && strings.HasPrefix(FuncID(g), "pkg/pdfcpu/sign.") {
					visit(g, d+1)
				}
			}
		})
	}
	visit(fn, 0)
	var ks []string
	for k := range kinds {
		ks = append(ks, k)
	}
	sort.Strings(ks)
	pos := p.Pos(fn.Pos())
	if len(ks) == 1 && ks[0] == "Integer" {
		r.OK("C28.R4", fid, "element kinds", pos, "ByteRange elements are accepted as types.Integer only (the kind the revision-boundary check reads)", true)
	} else {
		r.Bad("C28.R4", fid, "element kinds", pos, "the strict ByteRange parser accepts element kinds {"+strings.Join(ks, ",")+"}; the revision-boundary check reads integers only and silently skips anything else, so a ByteRange written with other kinds is validated without the end of the signed range being compared with the file size")
	}
}

// checkIncrementsUnadjusted (C28.R5): the increment numbers that reach signature validation are xref-section indices (the
// Incr of an xref entry, 0 for "current"), handed on unchanged. A value computed by arithmetic (… - 1) can become negative,
// and a negative increment is neither "current" (== 0: boundary check) nor "historical" (> 0: downgrade), so both protections
// are skipped.
func checkIncrementsUnadjusted(c *Ctx) {
	p, r := c.P, c.R
	n := 0
	var isClean func(v ssa.Value, d int) (bool, string)
	isClean = func(v ssa.Value, d int) (bool, string) {
		if d > 6 {
			return true, ""
		}
		switch x := v.(type) {
		case *ssa.Const, *ssa.Parameter, *ssa.FreeVar:
			return true, ""
		case *ssa.BinOp:
			return false, "arithmetic " + x.Op.String()
		case *ssa.Phi:
			for _, e := range x.Edges {
				if ok, why := isClean(e, d+1); !ok {
					return false, why
				}
			}
			return true, ""
		case *ssa.UnOp:
			return true, "" // field / cell load
		case *ssa.Extract:
			return isClean(x.Tuple, d+1)
		case *ssa.Convert:
			return isClean(x.X, d+1)
		case *ssa.Call:
			g := staticCallee(x)
			if g == nil || !isSubject(g) || g.Blocks == nil {
				return true, ""
			}
			for _, ret := range returnsOf(g) {
				for _, rv := range ret.Results {
					if isIntType(rv.Type()) {
						if ok, why := isClean(rv, d+1); !ok {
							return false, why + " in " + g.Name()
						}
					}
				}
			}
			return true, ""
		}
		return true, ""
	}
	for _, fn := range p.Funcs {
		fid := FuncID(fn)
		if !strings.HasPrefix(fid, "pkg/pdfcpu") {
			continue
		}
		fn := fn
		eachInstr(fn, func(_ *ssa.BasicBlock, _ int, i ssa.Instruction) {
			st, ok := i.(*ssa.Store)
			if !ok {
				return
			}
			fa, ok := st.Addr.(*ssa.FieldAddr)
			if !ok {
				return
			}
			f := structField(fa.X.Type(), fa.Field)
			if f == nil || !isIntType(f.Type()) || !(strings.HasSuffix(f.Name(), "Increment") || f.Name() == "Incr") {
				return
			}
			n++
			construct := fmt.Sprintf("store %s.%s#%d", typeNameOf(fa.X.Type()), f.Name(), n)
			if ok, why := isClean(st.Val, 0); ok {
				r.OK("C28.R5", fid, construct, p.Pos(st.Pos()), "an xref-section index handed on unchanged", true)
			} else {
				r.Bad("C28.R5", fid, construct, p.Pos(st.Pos()), "the increment number is computed ("+why+") instead of being the xref-section index: it can leave the range {0 = current, >0 = historical} that signature validation distinguishes, and then neither the revision-boundary check nor the historical downgrade runs")
			}
		})
	}
	if n == 0 {
		r.Bad("C28.R5", "pkg/pdfcpu", "anchor", "", "UNRESOLVED-ANCHOR: no store into an increment field found")
	}
}

// checkSignedRangeReaders: who may read the signed ranges — only signedData, which validates range and gap first.
func checkSignedRangeReaders(c *Ctx, rule string) {
	p, r := c.P, c.R
	if bf := p.Func("pkg/pdfcpu/sign.bytesForByteRange"); bf != nil {
		for _, caller := range c.CG().In[bf] {
			caller := caller
			eachInstr(caller, func(_ *ssa.BasicBlock, _ int, i ssa.Instruction) {
				call, ok := i.(*ssa.Call)
				if !ok {
					return
				}
				if callee := staticCallee(call); callee == nil || unwrapSynthetic(callee) != bf {
					return
				}
				if FuncID(caller) == "pkg/pdfcpu/sign.signedData" {
					r.OK(rule, FuncID(caller), "reads the signed ranges", p.Pos(call.Pos()), "bytesForByteRange is called by signedData (after validateByteRange and validateContentsGap)", true)
				} else {
					r.Bad(rule, FuncID(caller), "reads the signed ranges", p.Pos(call.Pos()), "the signed byte ranges are read directly, not through signedData: the /ByteRange and /Contents gap validation is bypassed, so a digest over the raw ranges can match although unsigned bytes hide in a widened gap — and the document is reported as not modified")
				}
			})
		}
	}

}

// ---------------- C28.R6 (round 3 of seeding): both whole-document conclusions are withdrawn ----------------

// checkHistoricalWithdrawsBoth: for a signature in an older revision applyHistoricalRevisionReporting has to withdraw BOTH
// whole-document conclusions the handlers can have drawn: DocModified == False and Reason == DocNotModified. On every path
// from the first of those tests to the return, each field is either overwritten or was just seen not to hold the positive
// value. A switch (first match wins) withdraws one and leaves "signature is valid — document has not been modified" for a
// signature that bytes were appended after.
func checkHistoricalWithdrawsBoth(c *Ctx) {
	p, r := c.P, c.R
	fid := "pkg/pdfcpu.applyHistoricalRevisionReporting"
	fn := p.Func(fid)
	if fn == nil {
		r.Bad("C28.R6", fid, "anchor", "", "UNRESOLVED-ANCHOR")
		return
	}
	genE := map[Edge][]string{}
	stores := map[ssa.Instruction]string{}
	var touch []*ssa.BasicBlock
	fieldOf := func(v ssa.Value) string {
		fp := fieldPath(v)
		switch {
		case strings.HasSuffix(fp, "DocModified"):
			return "DocModified"
		case strings.HasSuffix(fp, "Reason"):
			return "Reason"
		}
		return ""
	}
	eachInstr(fn, func(b *ssa.BasicBlock, _ int, i ssa.Instruction) {
		switch x := i.(type) {
		case *ssa.BinOp:
			if x.Op != token.EQL && x.Op != token.NEQ {
				return
			}
			f := fieldOf(x.X)
			other := x.Y
			if f == "" {
				f = fieldOf(x.Y)
				other = x.X
			}
			if f == "" {
				return
			}
			if _, isConst := other.(*ssa.Const); !isConst {
				return
			}
			touch = append(touch, b)
			// the edge on which the field does NOT hold the positive constant
			for _, e := range condEdges(x, x.Op == token.NEQ) {
				genE[e] = append(genE[e], f)
			}
		case *ssa.Store:
			if f := fieldOf(x.Addr); f != "" {
				if _, isConst := x.Val.(*ssa.Const); isConst {
					stores[i] = f
					touch = append(touch, b)
				}
			}
		}
	})
	if len(touch) == 0 {
		r.Bad("C28.R6", fid, "withdrawals", p.Pos(fn.Pos()), "UNRESOLVED-ANCHOR: no test or store of DocModified / Reason found")
		return
	}
	ff := NewFactFlow(fn, func(i ssa.Instruction) []string {
		if f, ok := stores[i]; ok {
			return []string{f}
		}
		return nil
	}, genE, nil, nil)
	after := map[*ssa.BasicBlock]bool{}
	for _, b := range touch {
		after[b] = true
		for x := range reachableBlocks(b) {
			after[x] = true
		}
	}
	n := 0
	for _, ret := range returnsOf(fn) {
		if !after[ret.Block()] {
			continue // the exemption returns (current revision, document timestamp, nil result)
		}
		n++
		construct := fmt.Sprintf("return#%d", n)
		var miss []string
		for _, f := range []string{"DocModified", "Reason"} {
			if !ff.Holds(ret, f) {
				miss = append(miss, f)
			}
		}
		if len(miss) > 0 {
			r.Bad("C28.R6", fid, construct, posOrFn(p, ret, fn), "a historical signature can leave this function with "+strings.Join(miss, " and ")+" still holding the whole-document conclusion (neither overwritten nor tested on this path): bytes were appended after the signed revision, yet the result says the document has not been modified")
		} else {
			r.OK("C28.R6", fid, construct, posOrFn(p, ret, fn), "on every path DocModified and Reason are each overwritten or were just seen not to hold the positive value", true)
		}
	}
	if n == 0 {
		r.Bad("C28.R6", fid, "withdrawals", p.Pos(fn.Pos()), "UNRESOLVED-ANCHOR: no return after the withdrawals")
	}
}

// ---------------- C27.R5 / R6 (round 4 seeds C27-G, C27-H) ----------------

// R5: "validate all" means every SignerInfo of the message is assessed. In validatePKCS7Signatures every way out of
// the loop over the signers other than its end and error returns is behind the fact that the validateAll parameter
// is false: a branch on the parameter itself, or on the result of a helper that can only be true when the parameter
// it is handed is false (every returned value is the constant false or the negation of that parameter).
func checkAllSignersAssessed(c *Ctx) {
	p, r := c.P, c.R
	const fid = "pkg/pdfcpu/sign.validatePKCS7Signatures"
	fn := p.Func(fid)
	if fn == nil {
		r.Bad("C27.R5", fid, "anchor", "", "UNRESOLVED-ANCHOR")
		return
	}
	var all *ssa.Parameter
	for _, q := range fn.Params {
		if q.Name() == "validateAll" || q.Name() == "all" {
			all = q
		}
	}
	if all == nil {
		r.Bad("C27.R5", fid, "anchor", p.Pos(fn.Pos()), "UNRESOLVED-ANCHOR: no validateAll parameter")
		return
	}
	// edges on which validateAll is known false
	var notAll []Edge
	for _, b := range fn.Blocks {
		if len(b.Instrs) == 0 {
			continue
		}
		ifi, ok := b.Instrs[len(b.Instrs)-1].(*ssa.If)
		if !ok {
			continue
		}
		cond := ifi.Cond
		neg := false
		for {
			if u, ok := cond.(*ssa.UnOp); ok && u.Op == token.NOT {
				cond = u.X
				neg = !neg
				continue
			}
			break
		}
		switch x := cond.(type) {
		case *ssa.Parameter:
			if x == all {
				// cond true <=> all (neg: !all)
				if neg {
					notAll = append(notAll, Edge{b, 0})
				} else {
					notAll = append(notAll, Edge{b, 1})
				}
			}
		case *ssa.Call:
			callee := staticCallee(x)
			if callee == nil || len(callee.Blocks) == 0 {
				continue
			}
			for k, a := range x.Call.Args {
				if a == ssa.Value(all) && k < len(callee.Params) && trueImpliesNotParam(callee, callee.Params[k]) {
					if neg {
						notAll = append(notAll, Edge{b, 1})
					} else {
						notAll = append(notAll, Edge{b, 0})
					}
				}
			}
		}
	}
	n := 0
	for _, l := range naturalLoops(fn) {
		// the loop over the signers: it calls the per-signer verifier
		has := false
		for b := range l.blocks {
			for _, in := range b.Instrs {
				if call, ok := in.(*ssa.Call); ok {
					if f := staticCallee(call); f != nil && strings.HasPrefix(f.Name(), "verifyP7Signer") {
						has = true
					}
				}
			}
		}
		if !has {
			continue
		}
		for _, b := range fn.Blocks {
			if !l.blocks[b] || b == l.header {
				continue
			}
			for si, s := range b.Succs {
				if l.blocks[s] {
					continue
				}
				errOnly := true
				blocks := reachableBlocks(s)
				blocks[s] = true
				for bb := range blocks {
					if len(bb.Instrs) == 0 {
						continue
					}
					if ret, ok := bb.Instrs[len(bb.Instrs)-1].(*ssa.Return); ok {
						if k, ok := returnErrKind(ret); !ok || k != errNonNil {
							errOnly = false
						}
					}
				}
				if errOnly {
					continue
				}
				n++
				construct := fmt.Sprintf("early exit#%d of the signer loop", n)
				behind := false
				for _, e := range notAll {
					if (e.From == b && e.Succ == si) || edgeDominates(e, b) {
						behind = true
					}
				}
				if behind {
					r.OK("C27.R5", fid, construct, p.Pos(lastPos(b)), "only when validateAll is false", true)
				} else {
					r.Bad("C27.R5", fid, construct, p.Pos(lastPos(b)), "the loop over the SignerInfos can stop early although validateAll may be true: a failing signer that is not first in the message is never assessed, so a tampered document with a co-signer's SignerInfo sorted first is not reported as modified")
				}
			}
		}
	}
	if n == 0 {
		r.OK("C27.R5", fid, "early exits of the signer loop", p.Pos(fn.Pos()), "none: every signer is assessed", false)
	}
}

// R6: the bytes that are hashed are the bytes the caller asked about. pdfcpu.ValidateSignatures receives the reader
// next to the parsed context; every call it makes that takes an io.ReaderAt gets that parameter itself, not a
// reader taken from the context (which may have been parsed from other bytes).
func checkValidatedReaderIsTheCallers(c *Ctx) {
	p, r := c.P, c.R
	const fid = "pkg/pdfcpu.ValidateSignatures"
	fn := p.Func(fid)
	if fn == nil {
		r.Bad("C27.R6", fid, "anchor", "", "UNRESOLVED-ANCHOR")
		return
	}
	var ra *ssa.Parameter
	for _, q := range fn.Params {
		if strings.HasSuffix(q.Type().String(), "io.ReaderAt") {
			ra = q
		}
	}
	if ra == nil {
		r.Bad("C27.R6", fid, "anchor", p.Pos(fn.Pos()), "UNRESOLVED-ANCHOR: no io.ReaderAt parameter")
		return
	}
	n := 0
	var visit func(f *ssa.Function)
	visit = func(f *ssa.Function) {
		eachInstr(f, func(_ *ssa.BasicBlock, _ int, i ssa.Instruction) {
			call, ok := i.(ssa.CallInstruction)
			if !ok {
				return
			}
			for _, a := range call.Common().Args {
				if !strings.HasSuffix(a.Type().String(), "io.ReaderAt") {
					continue
				}
				n++
				construct := fmt.Sprintf("reader argument#%d", n)
				own := true
				for _, l := range valueLeaves(a) {
					v := l
					// a closure of ValidateSignatures reads the captured parameter
					if fv, ok := v.(*ssa.FreeVar); ok && fv.Name() == ra.Name() {
						continue
					}
					if v != ssa.Value(ra) {
						own = false
					}
				}
				if own {
					r.OK("C27.R6", FuncID(f), construct, p.Pos(call.Pos()), "the caller's reader is handed on", true)
				} else {
					r.Bad("C27.R6", FuncID(f), construct, p.Pos(call.Pos()), "the signed byte ranges are read from a reader other than the one the caller handed in ("+exprName(a)+"): a context parsed from the untampered file makes every modification of the bytes under validation invisible")
				}
			}
		})
		for _, a := range f.AnonFuncs {
			visit(a)
		}
	}
	visit(fn)
	if n == 0 {
		r.Bad("C27.R6", fid, "reader arguments", p.Pos(fn.Pos()), "UNDECIDED: ValidateSignatures hands its reader to nobody")
	}
}

// ---------------- C28.R7 (round 4 seed C28-G): the first range starts at offset 0, unconditionally ----------------

// checkFirstRangeStartsAtZero: "covers the document" starts at byte 0. validateByteRange rejects a ByteRange whose
// first offset is not 0; that rejection must not depend on anything else in the array (an exemption for an empty first
// range lets [k 0 k+L n] through: every byte before /Contents is unsigned and the gap and end-of-file checks still
// pass). The comparison of element 0 with 0 is therefore not control-dependent on another branch of the function, and
// its "not zero" edge leads to error returns only.
func checkFirstRangeStartsAtZero(c *Ctx) {
	p, r := c.P, c.R
	const fid = "pkg/pdfcpu/sign.validateByteRange"
	fn := p.Func(fid)
	if fn == nil || len(fn.Params) == 0 {
		r.Bad("C28.R7", fid, "anchor", "", "UNRESOLVED-ANCHOR")
		return
	}
	isElem0 := func(v ssa.Value) bool {
		for {
			switch x := v.(type) {
			case *ssa.UnOp:
				if x.Op == token.MUL {
					v = x.X
					continue
				}
			case *ssa.IndexAddr:
				k, ok := constInt(x.Index)
				return ok && k == 0
			case *ssa.Index:
				k, ok := constInt(x.Index)
				return ok && k == 0 && x.X == ssa.Value(fn.Params[0])
			}
			return false
		}
	}
	n := 0
	eachInstr(fn, func(b *ssa.BasicBlock, _ int, i ssa.Instruction) {
		bo, ok := i.(*ssa.BinOp)
		if !ok || (bo.Op != token.NEQ && bo.Op != token.EQL) {
			return
		}
		var other ssa.Value
		switch {
		case isElem0(bo.X):
			other = bo.Y
		case isElem0(bo.Y):
			other = bo.X
		default:
			return
		}
		if k, ok := constInt(other); !ok || k != 0 {
			return
		}
		n++
		// control dependence: some If above decides whether this comparison is evaluated
		dependent := false
		for _, x := range fn.Blocks {
			if x == b || len(x.Instrs) == 0 {
				continue
			}
			if _, ok := x.Instrs[len(x.Instrs)-1].(*ssa.If); !ok {
				continue
			}
			d0, d1 := edgeDominates(Edge{x, 0}, b), edgeDominates(Edge{x, 1}, b)
			if d0 != d1 {
				dependent = true
			}
		}
		// the not-zero edge leads to error returns only
		errOnly := true
		for _, e := range condEdges(bo, bo.Op == token.NEQ) {
			s := e.From.Succs[e.Succ]
			blocks := reachableBlocks(s)
			blocks[s] = true
			for bb := range blocks {
				if len(bb.Instrs) == 0 {
					continue
				}
				if ret, ok := bb.Instrs[len(bb.Instrs)-1].(*ssa.Return); ok {
					if k, ok := returnErrKind(ret); !ok || k != errNonNil {
						errOnly = false
					}
				}
			}
		}
		switch {
		case dependent:
			r.Bad("C28.R7", fid, "first offset is 0", p.Pos(bo.Pos()), "the test that the first range begins at offset 0 is evaluated only under another condition: a ByteRange that satisfies the exemption (an empty first range) may start anywhere, so the bytes in front of the signature are not covered while the signature is still reported as covering the document")
		case !errOnly:
			r.Bad("C28.R7", fid, "first offset is 0", p.Pos(bo.Pos()), "a first offset other than 0 does not always end in an error")
		default:
			r.OK("C28.R7", fid, "first offset is 0", p.Pos(bo.Pos()), "tested unconditionally; a non-zero first offset ends in an error on every path", true)
		}
	})
	if n == 0 {
		r.Bad("C28.R7", fid, "first offset is 0", p.Pos(fn.Pos()), "UNDECIDED: no comparison of the first ByteRange element with 0")
	}
}
