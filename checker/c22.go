package main

import (
	"fmt"
	"go/token"
	"sort"
	"strings"

	"golang.org/x/tools/go/ssa"
)

// C22 — encrypt/decrypt round trip (partial: sibling agreement of the two directions).

func init() {
	register(&Check{
		ID:  "C22",
		Run: runC22,
		Explanation: "Decides that the encrypting and decrypting siblings cover the same things: (R1) encryptDeepObject and decryptDeepObject handle the same string-bearing kinds {Dict, Array, StringLiteral, HexLiteral} (encrypt additionally StreamDict, whose dictionary the reader decrypts as a Dict), and every call site of either passes a value whose static type is a handled kind (a *StreamDict silently does nothing); (R2) encryptDict and decryptDict compare keys/values against the same constant set (signature /Contents exemption), so what one side skips the other skips too; (R3) AES padding: the decrypter's strip predicate on the last plaintext byte accepts every pad length the encrypter can emit — evaluated on the comparison's operator and constant for 1..16 (a '<16' test, which leaves a full padding block in place for block-aligned input, is rejected) — and the encrypter's full-block pad constant is 16; (R4) encryptBytes/decryptBytes and encryptStream/decryptStream choose between the per-object key (decryptKey) and the file key under the same revision test (same constants compared with r) and both sides call decryptKey. (R5) in the reader's saveDecodedStreamContent every path to the decoder or to a success return passes decryptStreamContent, the len(sd.Raw) == 0 edge, or exactly the writer's exemption (len(FilterPipeline) == 1 and FilterPipeline[0].Name == \"Crypt\"): a wider exemption leaves streams the writer encrypted as ciphertext; (R6) the generation column (%05d) of every cross-reference table line is a load of XRefTableEntry.Generation on every path — the reader derives the RC4/AES-128 object key from the xref generation, the writer from the entry's. (R7) in encryptDeepObject and decryptDeepObject no path round the array-element loop avoids the recursive call: every element is descended into on both sides (a kind filter on one side leaves nested strings transformed in one direction). NOT decided: cipher correctness, key derivation (C24), permissions equality.",
		Rules: []string{
			"C22.R1 TABLE siblings: kinds handled by encrypt/decryptDeepObject; call-site argument types",
			"C22.R2 TABLE siblings: exemption constants of encryptDict/decryptDict",
			"C22.R3 TABLE siblings: AES pad emitted vs pad stripped",
			"C22.R4 TABLE siblings: key selection",
			"C22.R6 flow: the generation column of cross-reference table lines is the entry's Generation (the reader's key input)",
			"C22.R7 MPT: every array element is handed to the recursive encrypt/decrypt call",
			"C22.R8 must-use: the value returned by encryptDeepObject/decryptDeepObject is used unless the argument is statically a container",
			"C22.R9 siblings: the user-side and the owner-side key derivation both cut and pad the password to 32 bytes",
			"C22.R5 MPT: the reader decrypts a stream unless the writer's exact exemption holds (only filter is /Crypt) or it is empty",
		},
		Assumptions: []string{"crypto/aes, crypto/rc4 are inverse for equal keys"},
		Technique:   "sibling cross-check by table extraction (type-switch cases, comparison constants/operators) and finite evaluation of the padding predicate",
		Note:        "Partial: coverage agreement only.",
	})
}

func constsComparedWith(fn *ssa.Function, match func(ssa.Value) bool) []string {
	set := map[string]bool{}
	eachInstr(fn, func(_ *ssa.BasicBlock, _ int, i ssa.Instruction) {
		if lk, ok := i.(*ssa.Lookup); ok && match == nil {
			if s, ok := constString(unwrapConst(lk.Index)); ok {
				set["lookup \""+s+"\""] = true
			}
			return
		}
		b, ok := i.(*ssa.BinOp)
		if !ok || (b.Op != token.EQL && b.Op != token.NEQ) {
			return
		}
		for _, pair := range [][2]ssa.Value{{b.X, b.Y}, {b.Y, b.X}} {
			if match != nil && !match(pair[0]) {
				continue
			}
			pair[1] = unwrapConst(pair[1])
			if s, ok := constString(pair[1]); ok {
				set[b.Op.String()+" \""+s+"\""] = true
			} else if n, ok := constInt(pair[1]); ok {
				set[fmt.Sprintf("%s %d", b.Op, n)] = true
			}
		}
	})
	var out []string
	for k := range set {
		out = append(out, k)
	}
	sort.Strings(out)
	return out
}

// unwrapConst strips interface boxing / conversions around a constant.
func unwrapConst(v ssa.Value) ssa.Value {
	for i := 0; i < 4; i++ {
		switch x := v.(type) {
		case *ssa.MakeInterface:
			v = x.X
		case *ssa.ChangeType:
			v = x.X
		case *ssa.Convert:
			v = x.X
		default:
			return v
		}
	}
	return v
}

func runC22(c *Ctx) {
	p, r := c.P, c.R
	r.MinInst["C22.R1"] = 4
	r.MinInst["C22.R2"] = 1
	r.MinInst["C22.R3"] = 2
	r.MinInst["C22.R4"] = 2
	r.MinInst["C22.R5"] = 3
	checkReaderStreamExemptions(c)
	r.MinInst["C22.R6"] = 2
	checkXRefGeneration(c)
	r.MinInst["C22.R7"] = 2
	r.MinInst["C22.R8"] = 5
	checkDeepCryptResultUsed(c)
	r.MinInst["C22.R9"] = 2
	checkLegacyPasswordNormalised(c, "C22.R9")
	checkDeepDescentUnfiltered(c)
	enc, dec := p.Func("pkg/pdfcpu.encryptDeepObject"), p.Func("pkg/pdfcpu.decryptDeepObject")
	if enc == nil || dec == nil {
		r.Bad("C22.R1", "pkg/pdfcpu.encryptDeepObject", "anchor", "", "UNRESOLVED-ANCHOR")
		return
	}
	ek, dk := typeSwitchCases(enc), typeSwitchCases(dec)
	var missing []string
	for _, k := range []string{"Dict", "Array", "StringLiteral", "HexLiteral"} {
		if ek[k] == nil {
			missing = append(missing, "encrypt:"+k)
		}
		if dk[k] == nil {
			missing = append(missing, "decrypt:"+k)
		}
	}
	for k := range ek {
		if k != "StreamDict" && k != "IndirectRef" && dk[k] == nil {
			missing = append(missing, "decrypt:"+k)
		}
	}
	for k := range dk {
		if k != "IndirectRef" && ek[k] == nil {
			missing = append(missing, "encrypt:"+k)
		}
	}
	sort.Strings(missing)
	if len(missing) > 0 {
		r.Bad("C22.R1", FuncID(enc), "kinds-agree", p.Pos(enc.Pos()), "encryptDeepObject and decryptDeepObject do not handle the same kinds ("+strings.Join(missing, ", ")+" missing): strings of that kind are transformed in one direction only")
	} else {
		r.OK("C22.R1", FuncID(enc), "kinds-agree", p.Pos(enc.Pos()), "both handle Dict, Array, StringLiteral, HexLiteral", true)
	}
	for _, side := range []struct {
		ref     string
		handled map[string]*ssa.TypeAssert
	}{{"pkg/pdfcpu.encryptDeepObject", ek}, {"pkg/pdfcpu.decryptDeepObject", dk}} {
		for _, caller := range p.Funcs {
			caller := caller
			k := 0
			eachInstr(caller, func(_ *ssa.BasicBlock, _ int, i ssa.Instruction) {
				call, ok := i.(*ssa.Call)
				if !ok {
					return
				}
				if _, ref := callRef(call); ref != side.ref {
					return
				}
				k++
				mi, ok := call.Call.Args[0].(*ssa.MakeInterface)
				construct := fmt.Sprintf("%s#%d arg", side.ref, k)
				if !ok {
					r.OK("C22.R1", FuncID(caller), construct, p.Pos(call.Pos()), "dynamic kind", false)
					return
				}
				tn := typeNameOf(mi.X.Type())
				if _, isPtr := mi.X.Type().Underlying().(interface{ Elem() interface{} }); isPtr {
					_ = isPtr
				}
				if strings.HasPrefix(mi.X.Type().String(), "*") || side.handled[tn] == nil {
					r.Bad("C22.R1", FuncID(caller), construct, p.Pos(call.Pos()), side.ref+" is called with a "+mi.X.Type().String()+", which matches no case of its type switch: nothing is transformed, while the opposite direction does transform these strings")
				} else {
					r.OK("C22.R1", FuncID(caller), construct, p.Pos(call.Pos()), "static argument type "+tn+" is a handled kind", true)
				}
			})
		}
	}
	// R2
	ed, dd := p.Func("pkg/pdfcpu.encryptDict"), p.Func("pkg/pdfcpu.decryptDict")
	if ed == nil || dd == nil {
		r.Bad("C22.R2", "pkg/pdfcpu.encryptDict", "anchor", "", "UNRESOLVED-ANCHOR")
	} else {
		a, b := constsComparedWith(ed, nil), constsComparedWith(dd, nil)
		if strings.Join(a, ",") == strings.Join(b, ",") && len(a) > 0 {
			r.OK("C22.R2", FuncID(ed), "exemptions-agree", p.Pos(ed.Pos()), "both compare against {"+strings.Join(a, ", ")+"}", true)
		} else {
			r.Bad("C22.R2", FuncID(ed), "exemptions-agree", p.Pos(ed.Pos()), "encryptDict compares against {"+strings.Join(a, ", ")+"} but decryptDict against {"+strings.Join(b, ", ")+"}: an entry skipped on one side is transformed on the other")
		}
	}
	// R3
	if fn := p.Func("pkg/pdfcpu.decryptAESBytes"); fn == nil {
		r.Bad("C22.R3", "pkg/pdfcpu.decryptAESBytes", "anchor", "", "UNRESOLVED-ANCHOR")
	} else {
		var cmp *ssa.BinOp
		eachInstr(fn, func(_ *ssa.BasicBlock, _ int, i ssa.Instruction) {
			b, ok := i.(*ssa.BinOp)
			if !ok {
				return
			}
			// one operand is (a conversion of) an element of the data slice: data[len(data)-1]
			isElem := func(v ssa.Value) bool {
				for j := 0; j < 3; j++ {
					switch x := v.(type) {
					case *ssa.Convert:
						v = x.X
						continue
					case *ssa.UnOp:
						if _, ok := x.X.(*ssa.IndexAddr); ok && x.Op == token.MUL {
							return true
						}
					}
					break
				}
				return false
			}
			if _, ok := constInt(b.Y); ok && isElem(b.X) {
				switch b.Op {
				case token.LEQ, token.LSS, token.GTR, token.GEQ:
					cmp = b
				}
			}
		})
		if cmp == nil {
			r.Bad("C22.R3", FuncID(fn), "pad-strip", p.Pos(fn.Pos()), "no comparison of the last plaintext byte with a constant found (padding removal changed shape)")
		} else {
			k, _ := constInt(cmp.Y)
			strips := func(n int64) bool {
				switch cmp.Op {
				case token.LEQ:
					return n <= k
				case token.LSS:
					return n < k
				case token.GTR:
					return !(n > k)
				case token.GEQ:
					return !(n >= k)
				}
				return false
			}
			// which branch strips? the true edge must lead to the re-slicing; assume comparison true => strip for LEQ/LSS
			bad := int64(0)
			for n := int64(1); n <= 16; n++ {
				if !strips(n) {
					bad = n
				}
			}
			if bad != 0 {
				r.Bad("C22.R3", FuncID(fn), "pad-strip", p.Pos(cmp.Pos()), fmt.Sprintf("the padding test `%s %d` does not strip a pad of length %d, which encryptAESBytes emits (a full block of 0x10 for block-aligned plaintext): decrypt(encrypt(x)) would be x plus %d padding bytes", cmp.Op, k, bad, bad))
			} else {
				r.OK("C22.R3", FuncID(fn), "pad-strip", p.Pos(cmp.Pos()), fmt.Sprintf("`%s %d` strips every pad length 1..16", cmp.Op, k), true)
			}
		}
	}
	if fn := p.Func("pkg/pdfcpu.encryptAESBytes"); fn == nil {
		r.Bad("C22.R3", "pkg/pdfcpu.encryptAESBytes", "anchor", "", "UNRESOLVED-ANCHOR")
	} else {
		full := false
		eachInstr(fn, func(_ *ssa.BasicBlock, _ int, i ssa.Instruction) {
			if phi, ok := i.(*ssa.Phi); ok {
				for _, e := range phi.Edges {
					if k, ok := constInt(e); ok && k == 16 {
						full = true
					}
				}
			}
		})
		if full {
			r.OK("C22.R3", FuncID(fn), "pad-emit", p.Pos(fn.Pos()), "block-aligned plaintext gets a full block of 0x10", true)
		} else {
			r.Bad("C22.R3", FuncID(fn), "pad-emit", p.Pos(fn.Pos()), "encryptAESBytes no longer pads block-aligned plaintext with a full block of 0x10 (PKCS#7)")
		}
	}
	// R4
	for _, pair := range [][2]string{{"pkg/pdfcpu.encryptBytes", "pkg/pdfcpu.decryptBytes"}, {"pkg/pdfcpu.encryptStream", "pkg/pdfcpu.decryptStream"}} {
		a, b := p.Func(pair[0]), p.Func(pair[1])
		if a == nil || b == nil {
			r.Bad("C22.R4", pair[0], "anchor", "", "UNRESOLVED-ANCHOR")
			continue
		}
		isR := func(fn *ssa.Function) func(ssa.Value) bool {
			return func(v ssa.Value) bool {
				for _, prm := range fn.Params {
					if prm.Name() == "r" && derivesFromParam(v, prm) {
						return true
					}
				}
				return false
			}
		}
		ca, cb := constsComparedWith(a, isR(a)), constsComparedWith(b, isR(b))
		callsKey := func(fn *ssa.Function) bool {
			hit := false
			eachInstr(fn, func(_ *ssa.BasicBlock, _ int, i ssa.Instruction) {
				if call, ok := i.(*ssa.Call); ok {
					if _, ref := callRef(call); ref == "pkg/pdfcpu.decryptKey" {
						hit = true
					}
				}
			})
			return hit
		}
		if strings.Join(ca, ",") == strings.Join(cb, ",") && callsKey(a) && callsKey(b) {
			r.OK("C22.R4", pair[0], "key-selection", p.Pos(a.Pos()), "both sides test r against {"+strings.Join(ca, ", ")+"} and derive the per-object key with decryptKey", true)
		} else {
			r.Bad("C22.R4", pair[0], "key-selection", p.Pos(a.Pos()), pair[0]+" tests r against {"+strings.Join(ca, ", ")+"}, "+pair[1]+" against {"+strings.Join(cb, ", ")+"}: the two directions would use different keys for some revision")
		}
	}
}

// ---------------- C22.R5 (round 2 of seeding): the reader's stream decryption exemptions mirror the writer's ----------------
//
// The writer encrypts every stream except xref streams and streams whose *only* filter is /Crypt (C23.R1b). The reader must
// decrypt exactly those it encrypted: in saveDecodedStreamContent every path to the decoder (DecodeWithLimit) or to a success
// return passes decryptStreamContent, or the edge pair len(sd.FilterPipeline) == 1 ∧ FilterPipeline[0].Name == "Crypt", or the
// len(sd.Raw) == 0 edge. A wider exemption ("/Crypt anywhere in the pipeline") leaves [/Crypt /FlateDecode] streams encrypted.
func checkReaderStreamExemptions(c *Ctx) {
	p, r := c.P, c.R
	fid := "pkg/pdfcpu.saveDecodedStreamContent"
	fn := p.Func(fid)
	if fn == nil {
		r.Bad("C22.R5", fid, "anchor", "", "UNRESOLVED-ANCHOR")
		return
	}
	genE := map[Edge][]string{}
	add := func(es []Edge, f string) {
		for _, e := range es {
			genE[e] = append(genE[e], f)
		}
	}
	eachInstr(fn, func(_ *ssa.BasicBlock, _ int, i ssa.Instruction) {
		switch x := i.(type) {
		case *ssa.Call:
			if _, ref := callRef(x); ref == "pkg/pdfcpu.decryptStreamContent" {
				es, _ := successEdges(x)
				add(es, "decrypted")
			}
		case *ssa.BinOp:
			if x.Op != token.EQL && x.Op != token.NEQ {
				return
			}
			eq := x.Op == token.EQL
			if la := lenArgOf(x.X); la != nil {
				if k, ok := constInt(x.Y); ok {
					fp := fieldPath(la)
					switch {
					case strings.HasSuffix(fp, "FilterPipeline") && k == 1:
						add(condEdges(x, eq), "single")
					case strings.HasSuffix(fp, "Raw") && k == 0:
						add(condEdges(x, eq), "empty")
					}
				}
			}
			if s, ok := constString(x.Y); ok && s == "Crypt" && strings.HasSuffix(fieldPath(x.X), "Name") {
				add(condEdges(x, eq), "crypt")
			}
			if s, ok := constString(x.X); ok && s == "Crypt" && strings.HasSuffix(fieldPath(x.Y), "Name") {
				add(condEdges(x, eq), "crypt")
			}
		}
	})
	ff := NewFactFlow(fn, nil, genE, nil, nil)
	okAt := func(i ssa.Instruction) bool {
		f, unreachable := ff.At(i)
		return unreachable || f["decrypted"] || f["empty"] || (f["single"] && f["crypt"])
	}
	n := 0
	eachInstr(fn, func(_ *ssa.BasicBlock, _ int, i ssa.Instruction) {
		switch x := i.(type) {
		case *ssa.Call:
			if _, ref := callRef(x); strings.HasSuffix(ref, "StreamDict.DecodeWithLimit") {
				n++
				if okAt(i) {
					r.OK("C22.R5", fid, fmt.Sprintf("decode#%d", n), p.Pos(x.Pos()), "the decoder runs only on decrypted (or exempt: single /Crypt filter, empty) stream data", true)
				} else {
					r.Bad("C22.R5", fid, fmt.Sprintf("decode#%d", n), p.Pos(x.Pos()), "the stream is decoded on a path that neither decrypted it nor established the writer's exemption (the only filter is /Crypt): streams the writer encrypted stay ciphertext")
				}
			}
		case *ssa.Return:
			if k, has := returnErrKind(x); has && k == errNonNil {
				return
			}
			n++
			if okAt(i) {
				r.OK("C22.R5", fid, fmt.Sprintf("return#%d", n), posOrFn(p, x, fn), "success return only after decryption or under the writer's exemptions", true)
			} else {
				r.Bad("C22.R5", fid, fmt.Sprintf("return#%d", n), posOrFn(p, x, fn), "a success return is reachable without decryption and without the exact exemption the writer applies (len(FilterPipeline) == 1 and Name == \"Crypt\"), so reader and writer disagree on which streams are encrypted")
			}
		}
	})
	if n == 0 {
		r.Bad("C22.R5", fid, "anchor", p.Pos(fn.Pos()), "UNRESOLVED-ANCHOR: no decode call / return found")
	}
}

// ---------------- C22.R6 (round 2 of seeding): the generation written to the xref table is the object's generation ----------------
//
// RC4 and AES-128 derive the per-object key from (object number, generation). The writer encrypts with the entry's generation
// and writes that generation into the object header; the reader decrypts with the generation it finds in the cross-reference
// entry. Every value formatted into the generation column (%05d) of a cross-reference table line must therefore be a load of
// XRefTableEntry.Generation on every path — a constant 0 for in-use entries makes objects with generation > 0 undecryptable.
func checkXRefGeneration(c *Ctx) {
	p, r := c.P, c.R
	n := 0
	for _, fn := range p.Funcs {
		fid := FuncID(fn)
		if !strings.HasPrefix(fid, "pkg/pdfcpu.") {
			continue
		}
		fn := fn
		eachInstr(fn, func(_ *ssa.BasicBlock, _ int, i ssa.Instruction) {
			call, ok := i.(*ssa.Call)
			if !ok {
				return
			}
			if _, ref := callRef(call); ref != "fmt.Sprintf" {
				return
			}
			format, ok := constString(call.Call.Args[0])
			if !ok || !strings.Contains(format, "%010d %05d") {
				return
			}
			elems := variadicElems(call)
			if len(elems) < 2 {
				return
			}
			n++
			construct := fmt.Sprintf("xref line#%d generation", n)
			var bad []string
			var checkLeaf func(leaf ssa.Value, host *ssa.Function, d int)
			checkLeaf = func(leaf ssa.Value, host *ssa.Function, d int) {
				leaf = unwrapIface(leaf)
				if strings.HasSuffix(fieldPath(leaf), "Generation") {
					return
				}
				// a parameter of a formatting helper: the obligation moves to the helper's call sites
				if prm, ok := leaf.(*ssa.Parameter); ok && d < 3 {
					idx := paramIndex(host, prm)
					callers := c.CG().In[host]
					found := false
					for _, caller := range callers {
						eachInstr(caller, func(_ *ssa.BasicBlock, _ int, ci ssa.Instruction) {
							cc, ok := ci.(*ssa.Call)
							if !ok {
								return
							}
							if f := staticCallee(cc); f == nil || unwrapSynthetic(f) != host || idx >= len(cc.Call.Args) {
								return
							}
							found = true
							for _, l2 := range valueLeaves(unwrapIface(cc.Call.Args[idx])) {
								checkLeaf(l2, caller, d+1)
							}
						})
					}
					if found {
						return
					}
				}
				bad = append(bad, leaf.String())
			}
			for _, leaf := range valueLeaves(unwrapIface(elems[1])) {
				checkLeaf(leaf, fn, 0)
			}
			if len(bad) == 0 {
				r.OK("C22.R6", fid, construct, p.Pos(call.Pos()), "the generation column is the entry's Generation on every path", true)
			} else {
				r.Bad("C22.R6", fid, construct, p.Pos(call.Pos()), "the generation column of a cross-reference line can be "+strings.Join(bad, ", ")+" instead of the entry's Generation: the reader derives the RC4/AES-128 object key from the xref generation, so objects with generation > 0 no longer decrypt")
			}
		})
	}
	if n == 0 {
		r.Bad("C22.R6", "pkg/pdfcpu", "anchor", "", "UNRESOLVED-ANCHOR: no cross-reference table line formatting found")
	}
}

func unwrapIface(v ssa.Value) ssa.Value {
	for {
		switch x := v.(type) {
		case *ssa.MakeInterface:
			v = x.X
		case *ssa.ChangeInterface:
			v = x.X
		case *ssa.Convert:
			v = x.X
		default:
			return v
		}
	}
}

// ---------------- C22.R7 (round 3 of seeding): array elements are never skipped ----------------

// checkDeepDescentUnfiltered: in encryptDeepObject and decryptDeepObject the loop over an array's elements
// hands EVERY element to the recursive call: no path from the loop head back to the loop head avoids it.
// A filter on the element's kind on one side only ("numbers and names carry nothing to decrypt") leaves the
// strings of nested arrays transformed in one direction.
func checkDeepDescentUnfiltered(c *Ctx) {
	p, r := c.P, c.R
	for _, fid := range []string{"pkg/pdfcpu.encryptDeepObject", "pkg/pdfcpu.decryptDeepObject"} {
		fn := p.Func(fid)
		if fn == nil {
			r.Bad("C22.R7", fid, "anchor", "", "UNRESOLVED-ANCHOR")
			continue
		}
		n := 0
		for _, l := range naturalLoops(fn) {
			callBlocks := map[*ssa.BasicBlock]bool{}
			var pos token.Pos
			for b := range l.blocks {
				for _, in := range b.Instrs {
					if call, ok := in.(*ssa.Call); ok {
						if callee := staticCallee(call); callee != nil && unwrapSynthetic(callee) == fn {
							callBlocks[b] = true
							pos = call.Pos()
						}
					}
				}
			}
			if len(callBlocks) == 0 {
				continue
			}
			n++
			construct := fmt.Sprintf("element loop#%d", n)
			// can the header be reached again from its in-loop successors without entering a call block?
			seen := map[*ssa.BasicBlock]bool{}
			var stack []*ssa.BasicBlock
			for _, s := range l.header.Succs {
				if l.blocks[s] {
					stack = append(stack, s)
				}
			}
			skips := false
			for len(stack) > 0 && !skips {
				b := stack[len(stack)-1]
				stack = stack[:len(stack)-1]
				if seen[b] || callBlocks[b] {
					continue
				}
				seen[b] = true
				for _, s := range b.Succs {
					if s == l.header {
						skips = true
						break
					}
					if l.blocks[s] {
						stack = append(stack, s)
					}
				}
			}
			if skips {
				r.Bad("C22.R7", fid, construct, p.Pos(pos), "an iteration of the element loop can finish without the recursive call: some elements (by kind, position or value) are not descended into on this side, while the other direction handles every element — strings below such an element come back as ciphertext (or are written as plaintext)")
			} else {
				r.OK("C22.R7", fid, construct, p.Pos(pos), "every iteration hands its element to the recursive call (no path round the loop avoids it)", true)
			}
		}
		if n == 0 {
			r.Bad("C22.R7", fid, "element loop", p.Pos(fn.Pos()), "UNRESOLVED-ANCHOR: no loop with a recursive call found")
		}
	}
}

// ---------------- C13.R6 (round 4 seed C13-E; C22.R3 pad-strip decides the same cut for C22): the padding the AES writer adds is the padding the reader removes ----------------

// checkAESPaddingCut: encryptAESBytes pads with BlockSize - len%BlockSize bytes, i.e. 1..16 (a full block when the
// plaintext is aligned). decryptAESBytes decides whether the last byte is a pad length by comparing it with a
// constant; that cut has to lie exactly after 16: lower, and an aligned plaintext (a UTF-16BE text string of 7, 15, 23…
// code units with its byte order mark) keeps its 16 pad bytes; higher, and data bytes are cut off.
func checkAESPaddingCut(c *Ctx, rule string) {
	p, r := c.P, c.R
	const fid = "pkg/pdfcpu.decryptAESBytes"
	fn := p.Func(fid)
	if fn == nil {
		r.Bad(rule, fid, "anchor", "", "UNRESOLVED-ANCHOR")
		return
	}
	isByteLoad := func(v ssa.Value) bool {
		for {
			switch x := v.(type) {
			case *ssa.Convert:
				v = x.X
				continue
			case *ssa.UnOp:
				if x.Op == token.MUL {
					_, ok := x.X.(*ssa.IndexAddr)
					return ok
				}
			}
			return false
		}
	}
	n := 0
	eachInstr(fn, func(_ *ssa.BasicBlock, _ int, i ssa.Instruction) {
		bo, ok := i.(*ssa.BinOp)
		if !ok {
			return
		}
		op := bo.Op
		var k int64
		switch {
		case isByteLoad(bo.X):
			kk, ok := constInt(bo.Y)
			if !ok {
				return
			}
			k = kk
		case isByteLoad(bo.Y):
			kk, ok := constInt(bo.X)
			if !ok {
				return
			}
			k = kk
			op = mirrorOp(op)
		default:
			return
		}
		var cut int64
		switch op {
		case token.LEQ, token.GTR:
			cut = k
		case token.LSS, token.GEQ:
			cut = k - 1
		default:
			return
		}
		n++
		construct := fmt.Sprintf("pad length test#%d", n)
		if cut == 16 {
			r.OK(rule, fid, construct, p.Pos(bo.Pos()), "the last byte counts as a pad length up to and including 16 (the writer pads with 1..16 bytes)", true)
		} else {
			r.Bad(rule, fid, construct, p.Pos(bo.Pos()), fmt.Sprintf("the last byte counts as a pad length up to %d, the writer pads with 1..16 bytes: ", cut)+"a plaintext whose length is a multiple of 16 is written with a full pad block that is then kept as data (or data bytes are taken for padding) — strings and streams of such lengths do not decrypt to what was encrypted")
		}
	})
	if n == 0 {
		r.Bad(rule, fid, "pad length test", p.Pos(fn.Pos()), "UNDECIDED: no comparison of a data byte with a constant in decryptAESBytes (padding removal)")
	}
}

// ---------------- C22.R8 (round 4 seed C22-H): the new value of a string is used ----------------

// checkDeepCryptResultUsed: encryptDeepObject / decryptDeepObject work in place on containers (dict, array, stream
// dict) and RETURN the new value for a bare string or hex string. A caller may drop the result only when what it
// hands in is statically a container; if the argument can be a string kind (static type types.Object,
// StringLiteral, HexLiteral) the first result has to be used — otherwise an indirect object that is a string of its
// own stays ciphertext (or plaintext) while everything else is converted.
func checkDeepCryptResultUsed(c *Ctx) {
	p, r := c.P, c.R
	n := 0
	for _, fn := range p.Funcs {
		if !isSubject(fn) || fn.Pkg == nil || fn.Pkg.Pkg.Path() != modPath+"/pkg/pdfcpu" {
			continue
		}
		k := 0
		eachInstr(fn, func(_ *ssa.BasicBlock, _ int, i ssa.Instruction) {
			call, ok := i.(*ssa.Call)
			if !ok {
				return
			}
			callee := staticCallee(call)
			if callee == nil || (callee.Name() != "decryptDeepObject" && callee.Name() != "encryptDeepObject") || len(call.Call.Args) == 0 {
				return
			}
			k++
			n++
			construct := fmt.Sprintf("call of %s#%d", callee.Name(), k)
			used := false
			if call.Referrers() != nil {
				for _, rf := range *call.Referrers() {
					if ex, ok := rf.(*ssa.Extract); ok && ex.Index == 0 && ex.Referrers() != nil && len(*ex.Referrers()) > 0 {
						used = true
					}
				}
			}
			if used {
				r.OK("C22.R8", FuncID(fn), construct, p.Pos(call.Pos()), "the returned value is used", true)
				return
			}
			// static kind of the argument
			arg := call.Call.Args[0]
			kind := "types.Object (any kind)"
			if mi, ok := arg.(*ssa.MakeInterface); ok {
				kind = typeNameOf(mi.X.Type())
			}
			switch kind {
			case "Dict", "Array", "StreamDict", "ObjectStreamDict", "XRefStreamDict":
				r.OK("C22.R8", FuncID(fn), construct, p.Pos(call.Pos()), "result dropped for a "+kind+", which is converted in place", true)
			default:
				r.Bad("C22.R8", FuncID(fn), construct, p.Pos(call.Pos()), "the result is dropped although the argument is a "+kind+": for a bare string or hex string the converted value only comes back as the result, so an indirect object that is a string of its own keeps its old bytes (ciphertext after opening, plaintext in an encrypted output)")
			}
		})
	}
	if n == 0 {
		r.Bad("C22.R8", "pkg/pdfcpu", "anchor", "", "UNRESOLVED-ANCHOR: no calls of encryptDeepObject/decryptDeepObject")
	}
}

// ---------------- C22.R9 = C25.R8 (round 4 seeds C22-G / C25-G): both sides derive the key from the same 32 bytes ----------------

// checkLegacyPasswordNormalised: Algorithm 2 (file key from the user password) and Algorithm 3/7 (owner entry, from
// which the owner path RECOVERS the user password: 32 bytes) both start from the password "padded or truncated to
// exactly 32 bytes". The functions that start from a password string (encKey for the user side, key for the owner
// side) must each have both halves of that step: a cut [:32] and the padding append. With only the padding a user
// password of 33+ bytes gives a key the owner path cannot compute: the owner password stops opening the document.
func checkLegacyPasswordNormalised(c *Ctx, rule string) {
	p, r := c.P, c.R
	for _, fid := range []string{"pkg/pdfcpu.encKey", "pkg/pdfcpu.key"} {
		fn := p.Func(fid)
		if fn == nil {
			r.Bad(rule, fid, "anchor", "", "UNRESOLVED-ANCHOR")
			continue
		}
		sb := sliceBounds(fn)
		cut := sb[":32"]
		pad := false
		eachInstr(fn, func(_ *ssa.BasicBlock, _ int, i ssa.Instruction) {
			sl, ok := i.(*ssa.Slice)
			if !ok || sl.High == nil {
				return
			}
			if g, ok := sl.X.(*ssa.UnOp); ok {
				if gl, ok := g.X.(*ssa.Global); ok && gl.Name() == "pad" {
					pad = true
				}
			}
		})
		switch {
		case cut && pad:
			r.OK(rule, fid, "password normalised to 32 bytes", p.Pos(fn.Pos()), "cut [:32] and padding from the padding string are both present", true)
		case !cut:
			r.Bad(rule, fid, "password normalised to 32 bytes", p.Pos(fn.Pos()), "the password is padded but not cut to 32 bytes: the user and the owner path (which recovers exactly 32 bytes of the user password from /O) derive different file keys for a password of 33 or more bytes — the correct owner password no longer opens the document or authorises changes")
		default:
			r.Bad(rule, fid, "password normalised to 32 bytes", p.Pos(fn.Pos()), "the password is cut but not padded from the standard padding string")
		}
	}
}
