package main

import (
	"fmt"
	"go/token"
	"sort"
	"strings"

	"golang.org/x/tools/go/ssa"
)

// C22 — encrypt/decrypt round trip (partial: sibling agreement of the two directions).

func init() {
	register(&Check{
		ID:  "C22",
		Run: runC22,
		Explanation: "Decides that the encrypting and decrypting siblings cover the same things: (R1) encryptDeepObject and decryptDeepObject handle the same string-bearing kinds {Dict, Array, StringLiteral, HexLiteral} (encrypt additionally StreamDict, whose dictionary the reader decrypts as a Dict), and every call site of either passes a value whose static type is a handled kind (a *StreamDict silently does nothing); (R2) encryptDict and decryptDict compare keys/values against the same constant set (signature /Contents exemption), so what one side skips the other skips too; (R3) AES padding: the decrypter's strip predicate on the last plaintext byte accepts every pad length the encrypter can emit — evaluated on the comparison's operator and constant for 1..16 (a '<16' test, which leaves a full padding block in place for block-aligned input, is rejected) — and the encrypter's full-block pad constant is 16; (R4) encryptBytes/decryptBytes and encryptStream/decryptStream choose between the per-object key (decryptKey) and the file key under the same revision test (same constants compared with r) and both sides call decryptKey. NOT decided: cipher correctness, key derivation (C24), permissions equality.",
		Rules: []string{
			"C22.R1 TABLE siblings: kinds handled by encrypt/decryptDeepObject; call-site argument types",
			"C22.R2 TABLE siblings: exemption constants of encryptDict/decryptDict",
			"C22.R3 TABLE siblings: AES pad emitted vs pad stripped",
			"C22.R4 TABLE siblings: key selection",
		},
		Assumptions: []string{"crypto/aes, crypto/rc4 are inverse for equal keys"},
		Technique:   "sibling cross-check by table extraction (type-switch cases, comparison constants/operators) and finite evaluation of the padding predicate",
		Note:        "Partial: coverage agreement only.",
	})
}

func constsComparedWith(fn *ssa.Function, match func(ssa.Value) bool) []string {
	set := map[string]bool{}
	eachInstr(fn, func(_ *ssa.BasicBlock, _ int, i ssa.Instruction) {
		if lk, ok := i.(*ssa.Lookup); ok && match == nil {
			if s, ok := constString(unwrapConst(lk.Index)); ok {
				set["lookup \""+s+"\""] = true
			}
			return
		}
		b, ok := i.(*ssa.BinOp)
		if !ok || (b.Op != token.EQL && b.Op != token.NEQ) {
			return
		}
		for _, pair := range [][2]ssa.Value{{b.X, b.Y}, {b.Y, b.X}} {
			if match != nil && !match(pair[0]) {
				continue
			}
			pair[1] = unwrapConst(pair[1])
			if s, ok := constString(pair[1]); ok {
				set[b.Op.String()+" \""+s+"\""] = true
			} else if n, ok := constInt(pair[1]); ok {
				set[fmt.Sprintf("%s %d", b.Op, n)] = true
			}
		}
	})
	var out []string
	for k := range set {
		out = append(out, k)
	}
	sort.Strings(out)
	return out
}

// unwrapConst strips interface boxing / conversions around a constant.
func unwrapConst(v ssa.Value) ssa.Value {
	for i := 0; i < 4; i++ {
		switch x := v.(type) {
		case *ssa.MakeInterface:
			v = x.X
		case *ssa.ChangeType:
			v = x.X
		case *ssa.Convert:
			v = x.X
		default:
			return v
		}
	}
	return v
}

func runC22(c *Ctx) {
	p, r := c.P, c.R
	r.MinInst["C22.R1"] = 4
	r.MinInst["C22.R2"] = 1
	r.MinInst["C22.R3"] = 2
	r.MinInst["C22.R4"] = 2
	enc, dec := p.Func("pkg/pdfcpu.encryptDeepObject"), p.Func("pkg/pdfcpu.decryptDeepObject")
	if enc == nil || dec == nil {
		r.Bad("C22.R1", "pkg/pdfcpu.encryptDeepObject", "anchor", "", "UNRESOLVED-ANCHOR")
		return
	}
	ek, dk := typeSwitchCases(enc), typeSwitchCases(dec)
	var missing []string
	for _, k := range []string{"Dict", "Array", "StringLiteral", "HexLiteral"} {
		if ek[k] == nil {
			missing = append(missing, "encrypt:"+k)
		}
		if dk[k] == nil {
			missing = append(missing, "decrypt:"+k)
		}
	}
	for k := range ek {
		if k != "StreamDict" && k != "IndirectRef" && dk[k] == nil {
			missing = append(missing, "decrypt:"+k)
		}
	}
	for k := range dk {
		if k != "IndirectRef" && ek[k] == nil {
			missing = append(missing, "encrypt:"+k)
		}
	}
	sort.Strings(missing)
	if len(missing) > 0 {
		r.Bad("C22.R1", FuncID(enc), "kinds-agree", p.Pos(enc.Pos()), "encryptDeepObject and decryptDeepObject do not handle the same kinds ("+strings.Join(missing, ", ")+" missing): strings of that kind are transformed in one direction only")
	} else {
		r.OK("C22.R1", FuncID(enc), "kinds-agree", p.Pos(enc.Pos()), "both handle Dict, Array, StringLiteral, HexLiteral", true)
	}
	for _, side := range []struct {
		ref     string
		handled map[string]*ssa.TypeAssert
	}{{"pkg/pdfcpu.encryptDeepObject", ek}, {"pkg/pdfcpu.decryptDeepObject", dk}} {
		for _, caller := range p.Funcs {
			caller := caller
			k := 0
			eachInstr(caller, func(_ *ssa.BasicBlock, _ int, i ssa.Instruction) {
				call, ok := i.(*ssa.Call)
				if !ok {
					return
				}
				if _, ref := callRef(call); ref != side.ref {
					return
				}
				k++
				mi, ok := call.Call.Args[0].(*ssa.MakeInterface)
				construct := fmt.Sprintf("%s#%d arg", side.ref, k)
				if !ok {
					r.OK("C22.R1", FuncID(caller), construct, p.Pos(call.Pos()), "dynamic kind", false)
					return
				}
				tn := typeNameOf(mi.X.Type())
				if _, isPtr := mi.X.Type().Underlying().(interface{ Elem() interface{} }); isPtr {
					_ = isPtr
				}
				if strings.HasPrefix(mi.X.Type().String(), "*") || side.handled[tn] == nil {
					r.Bad("C22.R1", FuncID(caller), construct, p.Pos(call.Pos()), side.ref+" is called with a "+mi.X.Type().String()+", which matches no case of its type switch: nothing is transformed, while the opposite direction does transform these strings")
				} else {
					r.OK("C22.R1", FuncID(caller), construct, p.Pos(call.Pos()), "static argument type "+tn+" is a handled kind", true)
				}
			})
		}
	}
	// R2
	ed, dd := p.Func("pkg/pdfcpu.encryptDict"), p.Func("pkg/pdfcpu.decryptDict")
	if ed == nil || dd == nil {
		r.Bad("C22.R2", "pkg/pdfcpu.encryptDict", "anchor", "", "UNRESOLVED-ANCHOR")
	} else {
		a, b := constsComparedWith(ed, nil), constsComparedWith(dd, nil)
		if strings.Join(a, ",") == strings.Join(b, ",") && len(a) > 0 {
			r.OK("C22.R2", FuncID(ed), "exemptions-agree", p.Pos(ed.Pos()), "both compare against {"+strings.Join(a, ", ")+"}", true)
		} else {
			r.Bad("C22.R2", FuncID(ed), "exemptions-agree", p.Pos(ed.Pos()), "encryptDict compares against {"+strings.Join(a, ", ")+"} but decryptDict against {"+strings.Join(b, ", ")+"}: an entry skipped on one side is transformed on the other")
		}
	}
	// R3
	if fn := p.Func("pkg/pdfcpu.decryptAESBytes"); fn == nil {
		r.Bad("C22.R3", "pkg/pdfcpu.decryptAESBytes", "anchor", "", "UNRESOLVED-ANCHOR")
	} else {
		var cmp *ssa.BinOp
		eachInstr(fn, func(_ *ssa.BasicBlock, _ int, i ssa.Instruction) {
			b, ok := i.(*ssa.BinOp)
			if !ok {
				return
			}
			// one operand is (a conversion of) an element of the data slice: data[len(data)-1]
			isElem := func(v ssa.Value) bool {
				for j := 0; j < 3; j++ {
					switch x := v.(type) {
					case *ssa.Convert:
						v = x.X
						continue
					case *ssa.UnOp:
						if _, ok := x.X.(*ssa.IndexAddr); ok && x.Op == token.MUL {
							return true
						}
					}
					break
				}
				return false
			}
			if _, ok := constInt(b.Y); ok && isElem(b.X) {
				switch b.Op {
				case token.LEQ, token.LSS, token.GTR, token.GEQ:
					cmp = b
				}
			}
		})
		if cmp == nil {
			r.Bad("C22.R3", FuncID(fn), "pad-strip", p.Pos(fn.Pos()), "no comparison of the last plaintext byte with a constant found (padding removal changed shape)")
		} else {
			k, _ := constInt(cmp.Y)
			strips := func(n int64) bool {
				switch cmp.Op {
				case token.LEQ:
					return n <= k
				case token.LSS:
					return n < k
				case token.GTR:
					return !(n > k)
				case token.GEQ:
					return !(n >= k)
				}
				return false
			}
			// which branch strips? the true edge must lead to the re-slicing; assume comparison true => strip for LEQ/LSS
			bad := int64(0)
			for n := int64(1); n <= 16; n++ {
				if !strips(n) {
					bad = n
				}
			}
			if bad != 0 {
				r.Bad("C22.R3", FuncID(fn), "pad-strip", p.Pos(cmp.Pos()), fmt.Sprintf("the padding test `%s %d` does not strip a pad of length %d, which encryptAESBytes emits (a full block of 0x10 for block-aligned plaintext): decrypt(encrypt(x)) would be x plus %d padding bytes", cmp.Op, k, bad, bad))
			} else {
				r.OK("C22.R3", FuncID(fn), "pad-strip", p.Pos(cmp.Pos()), fmt.Sprintf("`%s %d` strips every pad length 1..16", cmp.Op, k), true)
			}
		}
	}
	if fn := p.Func("pkg/pdfcpu.encryptAESBytes"); fn == nil {
		r.Bad("C22.R3", "pkg/pdfcpu.encryptAESBytes", "anchor", "", "UNRESOLVED-ANCHOR")
	} else {
		full := false
		eachInstr(fn, func(_ *ssa.BasicBlock, _ int, i ssa.Instruction) {
			if phi, ok := i.(*ssa.Phi); ok {
				for _, e := range phi.Edges {
					if k, ok := constInt(e); ok && k == 16 {
						full = true
					}
				}
			}
		})
		if full {
			r.OK("C22.R3", FuncID(fn), "pad-emit", p.Pos(fn.Pos()), "block-aligned plaintext gets a full block of 0x10", true)
		} else {
			r.Bad("C22.R3", FuncID(fn), "pad-emit", p.Pos(fn.Pos()), "encryptAESBytes no longer pads block-aligned plaintext with a full block of 0x10 (PKCS#7)")
		}
	}
	// R4
	for _, pair := range [][2]string{{"pkg/pdfcpu.encryptBytes", "pkg/pdfcpu.decryptBytes"}, {"pkg/pdfcpu.encryptStream", "pkg/pdfcpu.decryptStream"}} {
		a, b := p.Func(pair[0]), p.Func(pair[1])
		if a == nil || b == nil {
			r.Bad("C22.R4", pair[0], "anchor", "", "UNRESOLVED-ANCHOR")
			continue
		}
		isR := func(fn *ssa.Function) func(ssa.Value) bool {
			return func(v ssa.Value) bool {
				for _, prm := range fn.Params {
					if prm.Name() == "r" && derivesFromParam(v, prm) {
						return true
					}
				}
				return false
			}
		}
		ca, cb := constsComparedWith(a, isR(a)), constsComparedWith(b, isR(b))
		callsKey := func(fn *ssa.Function) bool {
			hit := false
			eachInstr(fn, func(_ *ssa.BasicBlock, _ int, i ssa.Instruction) {
				if call, ok := i.(*ssa.Call); ok {
					if _, ref := callRef(call); ref == "pkg/pdfcpu.decryptKey" {
						hit = true
					}
				}
			})
			return hit
		}
		if strings.Join(ca, ",") == strings.Join(cb, ",") && callsKey(a) && callsKey(b) {
			r.OK("C22.R4", pair[0], "key-selection", p.Pos(a.Pos()), "both sides test r against {"+strings.Join(ca, ", ")+"} and derive the per-object key with decryptKey", true)
		} else {
			r.Bad("C22.R4", pair[0], "key-selection", p.Pos(a.Pos()), pair[0]+" tests r against {"+strings.Join(ca, ", ")+"}, "+pair[1]+" against {"+strings.Join(cb, ", ")+"}: the two directions would use different keys for some revision")
		}
	}
}
