package main

import (
	"fmt"
	"go/token"
	"sort"
	"strings"

	"golang.org/x/tools/go/ssa"
)

// C11.R2 (Dict.PDFString): what follows the key of an entry, per kind of value.
// The text appended for an entry is evaluated symbolically for every clause of the type switch:
// a sequence of literal pieces, the encoded key and the value's own text. What matters is the first
// character after the key: a space, or the first character of a value that starts with a delimiter.
// The evaluation follows string concatenation, fmt.Sprintf with a constant %s/%v format, φ values
// (resolved by the clause that is being looked at, and by nil tests on the switched value) and
// single-assignment locals, so it does not depend on how the clauses are laid out.

type dPiece struct {
	kind string // lit, key, val, unknown
	s    string
}

type dictEval struct {
	p      *Program
	fn     *ssa.Function
	op     ssa.Value // the switched value
	kind   string    // clause under evaluation ("nil" for the nil clause)
	reach  map[*ssa.BasicBlock]bool
	start  *ssa.BasicBlock
	from   *ssa.BasicBlock
	depth  int
}

func orderedVarargs(v ssa.Value) []ssa.Value {
	sl, ok := v.(*ssa.Slice)
	if !ok {
		return nil
	}
	al, ok := sl.X.(*ssa.Alloc)
	if !ok {
		return nil
	}
	type ent struct {
		idx int64
		v   ssa.Value
	}
	var es []ent
	for _, r := range *al.Referrers() {
		ia, ok := r.(*ssa.IndexAddr)
		if !ok {
			continue
		}
		idx, ok := constInt(ia.Index)
		if !ok {
			continue
		}
		for _, rr := range *ia.Referrers() {
			if st, ok := rr.(*ssa.Store); ok && st.Addr == ssa.Value(ia) {
				es = append(es, ent{idx, st.Val})
			}
		}
	}
	sort.Slice(es, func(i, j int) bool { return es[i].idx < es[j].idx })
	var out []ssa.Value
	for _, e := range es {
		out = append(out, e.v)
	}
	return out
}

// nilFeasible: is the edge pred->blk (and what dominates pred) compatible with the clause's nil-ness of op?
func (ev *dictEval) nilFeasible(pred, blk *ssa.BasicBlock) bool {
	isNil := ev.kind == "nil"
	check := func(e Edge) bool {
		if len(e.From.Instrs) == 0 {
			return true
		}
		iff, ok := e.From.Instrs[len(e.From.Instrs)-1].(*ssa.If)
		if !ok {
			return true
		}
		b, ok := iff.Cond.(*ssa.BinOp)
		if !ok || (b.Op != token.EQL && b.Op != token.NEQ) {
			return true
		}
		var other ssa.Value
		if b.X == ev.op {
			other = b.Y
		} else if b.Y == ev.op {
			other = b.X
		} else {
			return true
		}
		if !isNilConst(other) {
			return true
		}
		condTrue := e.Succ == 0
		saysNil := (b.Op == token.EQL) == condTrue
		return saysNil == isNil
	}
	for si, sb := range pred.Succs {
		if sb == blk && len(pred.Succs) == 2 {
			if !check(Edge{pred, si}) {
				return false
			}
		}
	}
	for _, x := range ev.fn.Blocks {
		if len(x.Succs) != 2 {
			continue
		}
		for si := range x.Succs {
			if edgeDominates(Edge{x, si}, pred) && !check(Edge{x, si}) {
				return false
			}
		}
	}
	return true
}

func (ev *dictEval) eval(v ssa.Value) [][]dPiece {
	ev.depth++
	defer func() { ev.depth-- }()
	unknown := func(why string) [][]dPiece { return [][]dPiece{{{"unknown", why}}} }
	if ev.depth > 24 {
		return unknown("too deep")
	}
	switch x := v.(type) {
	case *ssa.Const:
		if s, ok := constString(x); ok {
			return [][]dPiece{{{"lit", s}}}
		}
	case *ssa.MakeInterface:
		return ev.eval(x.X)
	case *ssa.ChangeType:
		return ev.eval(x.X)
	case *ssa.BinOp:
		if x.Op == token.ADD {
			var out [][]dPiece
			for _, a := range ev.eval(x.X) {
				for _, b := range ev.eval(x.Y) {
					out = append(out, append(append([]dPiece{}, a...), b...))
				}
			}
			if len(out) > 64 {
				return unknown("too many alternatives")
			}
			return out
		}
	case *ssa.Phi:
		blk := x.Block()
		var out [][]dPiece
		n := 0
		for k, e := range x.Edges {
			pred := blk.Preds[k]
			feasible := false
			if blk == ev.start {
				feasible = pred == ev.from
			} else {
				feasible = pred == ev.start || ev.reach[pred]
			}
			if !feasible || !ev.nilFeasible(pred, blk) {
				continue
			}
			n++
			out = append(out, ev.eval(e)...)
		}
		if n == 0 {
			return unknown("no feasible φ edge")
		}
		return out
	case *ssa.UnOp:
		if x.Op == token.MUL {
			if al, ok := x.X.(*ssa.Alloc); ok {
				var out [][]dPiece
				for _, rf := range *al.Referrers() {
					if st, ok := rf.(*ssa.Store); ok && st.Addr == ssa.Value(al) {
						if st.Block() == ev.start || ev.reach[st.Block()] || st.Block().Dominates(ev.start) {
							out = append(out, ev.eval(st.Val)...)
						}
					}
				}
				if len(out) > 0 {
					return out
				}
			}
		}
	case *ssa.Call:
		_, ref := callRef(x)
		switch {
		case ref == "pkg/pdfcpu/types.EncodeName":
			return [][]dPiece{{{"key", ""}}}
		case strings.HasSuffix(ref, ".PDFString") || (x.Call.IsInvoke() && x.Call.Method != nil && x.Call.Method.Name() == "PDFString"):
			return [][]dPiece{{{"val", ""}}}
		case ref == "fmt.Sprintf" || ref == "fmt.Sprint":
			if ref == "fmt.Sprintf" && len(x.Call.Args) >= 1 {
				format, ok := constString(x.Call.Args[0])
				if !ok {
					return unknown("non-constant format")
				}
				var args []ssa.Value
				if len(x.Call.Args) > 1 {
					args = orderedVarargs(x.Call.Args[1])
				}
				alts := [][]dPiece{{}}
				ai := 0
				i := 0
				lit := ""
				flush := func() {
					if lit != "" {
						for k := range alts {
							alts[k] = append(alts[k], dPiece{"lit", lit})
						}
						lit = ""
					}
				}
				for i < len(format) {
					ch := format[i]
					if ch != '%' {
						lit += string(ch)
						i++
						continue
					}
					if i+1 < len(format) && format[i+1] == '%' {
						lit += "%"
						i += 2
						continue
					}
					if i+1 >= len(format) || !strings.ContainsRune("svd", rune(format[i+1])) || ai >= len(args) {
						return unknown("format verb " + format[i:])
					}
					flush()
					sub := ev.eval(args[ai])
					ai++
					var next [][]dPiece
					for _, a := range alts {
						for _, s := range sub {
							next = append(next, append(append([]dPiece{}, a...), s...))
						}
					}
					alts = next
					i += 2
				}
				flush()
				return alts
			}
		case ref == "strings.Join":
			return unknown("strings.Join")
		}
		return unknown("call " + ref)
	case *ssa.Extract, *ssa.TypeAssert:
		return unknown(v.String())
	}
	return unknown(fmt.Sprintf("%T", v))
}

func checkDictEntrySeparators(c *Ctx, selfDelimiting map[string]bool) {
	p, r := c.P, c.R
	fid := "pkg/pdfcpu/types.(Dict).PDFString"
	fn := p.Func(fid)
	if fn == nil {
		r.Bad("C11.R2", fid, "anchor", "", "UNRESOLVED-ANCHOR")
		return
	}
	// the switched value: operand of the comma-ok type assertions
	count := map[ssa.Value]int{}
	eachInstr(fn, func(_ *ssa.BasicBlock, _ int, i ssa.Instruction) {
		if ta, ok := i.(*ssa.TypeAssert); ok && ta.CommaOk {
			count[ta.X]++
		}
	})
	var op ssa.Value
	for v, n := range count {
		if op == nil || n > count[op] {
			op = v
		}
	}
	if op == nil {
		r.Bad("C11.R2", fid, "entry separators", p.Pos(fn.Pos()), "UNRESOLVED-ANCHOR: no type switch over the entry value found")
		return
	}
	type clause struct {
		kind  string
		edges []Edge
	}
	var clauses []clause
	eachInstr(fn, func(_ *ssa.BasicBlock, _ int, i ssa.Instruction) {
		switch x := i.(type) {
		case *ssa.TypeAssert:
			if x.CommaOk && x.X == op {
				var es []Edge
				for _, rf := range *x.Referrers() {
					if ex, ok := rf.(*ssa.Extract); ok && ex.Index == 1 {
						es = append(es, condEdges(ex, true)...)
					}
				}
				clauses = append(clauses, clause{typeNameOf(x.AssertedType), es})
			}
		case *ssa.BinOp:
			if (x.Op == token.EQL || x.Op == token.NEQ) && ((x.X == op && isNilConst(x.Y)) || (x.Y == op && isNilConst(x.X))) && nilTestInSwitch(x, op) {
				if es := condEdges(x, x.Op == token.EQL); len(es) > 0 {
					clauses = append(clauses, clause{"nil", es})
				}
			}
		}
	})
	sort.Slice(clauses, func(i, j int) bool { return clauses[i].kind < clauses[j].kind })
	decided := 0
	var okKinds []string
	for _, cl := range clauses {
		for _, e := range cl.edges {
			start := e.From.Succs[e.Succ]
			// first append to a []string reached from the clause
			seenB := map[*ssa.BasicBlock]bool{}
			stack := []*ssa.BasicBlock{start}
			var app *ssa.Call
			reach := map[*ssa.BasicBlock]bool{}
			for len(stack) > 0 {
				b := stack[len(stack)-1]
				stack = stack[:len(stack)-1]
				if seenB[b] {
					continue
				}
				seenB[b] = true
				reach[b] = true
				found := false
				for _, in := range b.Instrs {
					if cc, ok := in.(*ssa.Call); ok {
						if bi, ok := cc.Call.Value.(*ssa.Builtin); ok && bi.Name() == "append" && strings.HasSuffix(cc.Type().String(), "[]string") {
							if app == nil {
								app = cc
							}
							found = true
							break
						}
					}
				}
				if !found {
					for _, s := range b.Succs {
						if !s.Dominates(start) { // do not walk round the loop
							stack = append(stack, s)
						}
					}
				}
			}
			if app == nil {
				continue // the clause writes nothing (e.g. falls to the error branch)
			}
			elems := orderedVarargs(app.Call.Args[1])
			if len(elems) == 0 {
				r.Bad("C11.R2", fid, "entry "+cl.kind, p.Pos(app.Pos()), "UNDECIDED: the text appended for this kind of value could not be read off the append")
				decided++
				continue
			}
			ev := &dictEval{p: p, fn: fn, op: op, kind: cl.kind, reach: reach, start: start, from: e.From}
			var seqs [][]dPiece
			for _, el := range elems {
				seqs = append(seqs, ev.eval(el)...)
			}
			decided++
			verdict, why := "", ""
			for _, sq := range seqs {
				// first non-empty piece after the key
				ki := -1
				for i, pc := range sq {
					if pc.kind == "key" {
						ki = i
						break
					}
					if pc.kind == "unknown" {
						break
					}
				}
				if ki < 0 {
					verdict, why = "undecided", "no encoded key in the appended text ("+describePieces(sq)+")"
					break
				}
				var next *dPiece
				for i := ki + 1; i < len(sq); i++ {
					if sq[i].kind == "lit" && sq[i].s == "" {
						continue
					}
					next = &sq[i]
					break
				}
				switch {
				case next == nil:
					verdict, why = "undecided", "nothing follows the key ("+describePieces(sq)+")"
				case next.kind == "unknown":
					verdict, why = "undecided", "cannot evaluate what follows the key: "+next.s
				case next.kind == "lit":
					ch := next.s[0]
					if ch == ' ' || strings.ContainsRune("()<>[]{}/%\n\r\t", rune(ch)) {
						continue
					}
					verdict, why = "bad", fmt.Sprintf("the key is directly followed by %q", next.s)
				case next.kind == "val":
					if cl.kind != "nil" && selfDelimiting[cl.kind] {
						continue
					}
					verdict, why = "bad", "the key is directly followed by the value's text, which starts with a regular character"
				case next.kind == "key":
					verdict, why = "undecided", "two keys in a row"
				}
				if verdict != "" {
					break
				}
			}
			switch verdict {
			case "":
				okKinds = append(okKinds, cl.kind)
				r.OK("C11.R2", fid, "entry "+cl.kind, p.Pos(app.Pos()), fmt.Sprintf("%d evaluated form(s): after the key comes a space or a value that starts with a delimiter", len(seqs)), true)
			case "bad":
				r.Bad("C11.R2", fid, "entry "+cl.kind, p.Pos(app.Pos()), "a dictionary entry whose value is "+cl.kind+" is written without a separator after the key ("+why+"): key and value fuse into one name token (/Knull, /K12) and the following entry is swallowed when the text is parsed back")
			default:
				r.Bad("C11.R2", fid, "entry "+cl.kind, p.Pos(app.Pos()), "UNDECIDED: "+why)
			}
		}
	}
	if decided < 8 {
		r.Bad("C11.R2", fid, "entry separators", p.Pos(fn.Pos()), fmt.Sprintf("UNRESOLVED-ANCHOR: only %d clauses of the entry type switch write text (expected the ten value kinds and nil)", decided))
	}
}

func describePieces(sq []dPiece) string {
	var out []string
	for _, pc := range sq {
		switch pc.kind {
		case "lit":
			out = append(out, fmt.Sprintf("%q", pc.s))
		default:
			out = append(out, "<"+pc.kind+">")
		}
	}
	return strings.Join(out, "+")
}

// nilTestInSwitch: the nil comparison is the `case nil` test of the type switch over op (its block hands over to,
// or takes over from, a comma-ok type assertion on op), not a later nil test on the same value.
func nilTestInSwitch(b *ssa.BinOp, op ssa.Value) bool {
	blk := b.Block()
	fn := blk.Parent()
	for _, x := range fn.Blocks {
		for _, in := range x.Instrs {
			ta, ok := in.(*ssa.TypeAssert)
			if !ok || !ta.CommaOk || ta.X != op {
				continue
			}
			if x == blk || blk.Dominates(x) {
				return true // the nil test comes first and hands over to the assertions
			}
			// the nil clause comes after this assertion: its block is reached only over the assertion's failing edge
			if len(blk.Preds) == 1 && blk.Preds[0] == x {
				return true
			}
		}
	}
	return false
}

// ---------------- C11.R5 (round 3 of seeding): reals keep twelve fractional digits ----------------

// checkRealPrecision: the property compares reals after rounding to twelve fractional digits, so both
// serialisers have to write at least twelve (or the shortest exact form, precision -1) in plain 'f' notation.
// The precision operand of strconv.FormatFloat / AppendFloat is followed through φ, min and max.
func checkRealPrecision(c *Ctx) {
	p, r := c.P, c.R
	n := 0
	for _, fid := range []string{"pkg/pdfcpu/types.(Float).PDFString", "pkg/pdfcpu.appendPDFObject"} {
		fn := p.Func(fid)
		if fn == nil {
			r.Bad("C11.R5", fid, "anchor", "", "UNRESOLVED-ANCHOR")
			continue
		}
		k := 0
		eachInstr(fn, func(_ *ssa.BasicBlock, _ int, i ssa.Instruction) {
			call, ok := i.(*ssa.Call)
			if !ok {
				return
			}
			_, ref := callRef(call)
			var fmtArg, precArg ssa.Value
			switch ref {
			case "strconv.FormatFloat":
				if len(call.Call.Args) == 4 {
					fmtArg, precArg = call.Call.Args[1], call.Call.Args[2]
				}
			case "strconv.AppendFloat":
				if len(call.Call.Args) == 5 {
					fmtArg, precArg = call.Call.Args[2], call.Call.Args[3]
				}
			default:
				return
			}
			if precArg == nil {
				return
			}
			k++
			n++
			construct := fmt.Sprintf("%s#%d", ref, k)
			pos := p.Pos(call.Pos())
			if f, ok := constInt(fmtArg); !ok || f != 'f' {
				r.Bad("C11.R5", fid, construct, pos, "a real is not written in plain 'f' notation: exponent forms are not PDF numbers and do not parse back")
				return
			}
			if why := precisionAtLeast12(precArg, 0); why != "" {
				r.Bad("C11.R5", fid, construct, pos, "the number of fractional digits written for a real can be below twelve ("+why+"): the value read back differs from the original within the twelve digits the property compares")
				return
			}
			r.OK("C11.R5", fid, construct, pos, "'f' notation with at least twelve fractional digits (or the shortest exact form)", true)
		})
		if k == 0 {
			r.Bad("C11.R5", fid, "real formatting", p.Pos(fn.Pos()), "UNRESOLVED-ANCHOR: no strconv.FormatFloat / AppendFloat call found in the serialiser of reals")
		}
	}
	_ = n
}

// precisionAtLeast12 returns "" if v is provably ≥ 12 or -1, else the reason.
func precisionAtLeast12(v ssa.Value, d int) string {
	if d > 8 {
		return "expression too deep"
	}
	if k, ok := constInt(v); ok {
		if k >= 12 || k == -1 {
			return ""
		}
		return fmt.Sprintf("constant %d", k)
	}
	switch x := v.(type) {
	case *ssa.Phi:
		for _, e := range x.Edges {
			if why := precisionAtLeast12(e, d+1); why != "" {
				return why
			}
		}
		return ""
	case *ssa.Convert:
		return precisionAtLeast12(x.X, d+1)
	case *ssa.Call:
		if name, args := minMaxArgs(x); name == "min" {
			for _, a := range args {
				if why := precisionAtLeast12(a, d+1); why != "" {
					return why
				}
			}
			return ""
		} else if name == "max" {
			var last string
			for _, a := range args {
				if k, ok := constInt(a); ok && k == -1 {
					continue
				}
				if why := precisionAtLeast12(a, d+1); why == "" {
					return ""
				} else {
					last = why
				}
			}
			return last
		}
	}
	return "computed at run time: " + v.String()
}
