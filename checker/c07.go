package main

import (
	"os"
	"fmt"
	"go/token"
	"sort"
	"strings"

	"golang.org/x/tools/go/ssa"
)

// C07 — installed fonts survive power loss: ordering of sync / close / rename / directory sync.

const (
	gobOps  = "pkg/font.gobPersistenceOperations."
	collOps = "pkg/font.collectionInstallFileOperations."
	txOps   = "pkg/api.transactionFileOperations."
)

func init() {
	register(&Check{
		ID:  "C07",
		Run: runC07,
		Explanation: "Decides the ordering clauses of the durability statement on every CFG path (normal returns) of the font persistence code: (R1) in every function that calls the gob operation `sync` directly, every success return is preceded by a successful sync with no encode/chmod after it; in every function that calls the gob `rename`, the rename is preceded on every path by a successful data sync (directly or through a callee that always syncs), a successful close, and is followed before every success return by a successful syncDir(filepath.Dir(<rename destination>)); (R2) in the batch publishers commitCollectionFonts and commitStagedFontsWithOperations each rename(src,dst) is followed, before the next rename and before any success return, by a successful sync*Directories call naming both directories of that rename; the sync*Directories helpers visit every element, return only after the loop and propagate the syncDir error; rollback helpers attempt the directory sync after their last rename; (R3) the production operation tables bind sync->(*os.File).Sync, syncDir->fileutil.SyncDirectory (which fsyncs the opened directory and returns its error), rename->fileutil.ReplaceFile->os.Rename, close->(*os.File).Close, and no call site discards the error of sync/syncDir/close/rename. (R4) every function that calls writeGob reports success only on paths that went through it: a shortcut that returns nil because an equal representation is already readable skips data fsync, rename and directory fsync. NOT decided: what the kernel/filesystem does on fsync, panics between the calls (C01), Windows where SyncDirectory is a documented no-op (recorded as assumption in the thorough tier).",
		Rules: []string{
			"C07.R1 MPT: data sync -> close -> rename -> syncDir(Dir(target)) in the single-font writer",
			"C07.R2 MPT with per-directory facts: every rename in a batch publisher is followed by a directory sync of both directories before the next rename / success return",
			"C07.R3 bindings of the operation tables reach the real primitives; no discarded errors",
			"C07.R4 MPT: a direct install reports success only after the durable writer ran",
			"C07.R5 TABLE: the staging file of the durable writer is created exclusively (os.CreateTemp / O_EXCL)",
		},
		Assumptions: []string{"fsync(2)/rename(2) semantics of the OS", "operation tables are only replaced in tests (test files are not part of the analysed build)"},
	})
}

// funcsCalling returns subject functions (non-test) with a direct, non-deferred call to ref.
func funcsCalling(p *Program, refs ...string) []*ssa.Function {
	var out []*ssa.Function
	for _, fn := range p.Funcs {
		hit := false
		eachInstr(fn, func(_ *ssa.BasicBlock, _ int, i ssa.Instruction) {
			if _, ok := i.(ssa.CallInstruction); !ok {
				return
			}
			_, ref := callRef(i)
			for _, r := range refs {
				if ref == r {
					hit = true
				}
			}
		})
		if hit {
			out = append(out, fn)
		}
	}
	return out
}

func runC07(c *Ctx) {
	p, r := c.P, c.R
	resetSummaries()
	r.MinInst["C07.R1"] = 4
	r.MinInst["C07.R2"] = 10
	r.MinInst["C07.R3"] = 10

	// ---- R1a: functions that sync file data
	syncers := funcsCalling(p, gobOps+"sync")
	if len(syncers) == 0 {
		r.Bad("C07.R1", "pkg/font", "anchor:sync", "", "UNRESOLVED-ANCHOR: no function calls "+gobOps+"sync — font data is never fsynced")
	}
	for _, fn := range syncers {
		runFlowRuleOn(c, FlowRule{
			ID:   "C07.R1",
			Gen:  []GenSpec{{Fact: "data-synced", On: Pred{Calls: []string{gobOps + "sync"}}}},
			Kill: []KillSpec{{Fact: "data-synced", On: Pred{Calls: []string{gobOps + "encode", gobOps + "chmod"}}}},
			Need: []NeedSpec{{Fact: "data-synced", At: Pred{NilReturn: true}, Why: "font data/permissions written after (or without) a successful fsync can be lost on power failure while the name is already published"}},
		}, fn)
	}
	// ---- R1b: functions that publish (rename) a gob
	pubs := funcsCalling(p, gobOps+"rename")
	if len(pubs) == 0 {
		r.Bad("C07.R1", "pkg/font", "anchor:rename", "", "UNRESOLVED-ANCHOR: no function calls "+gobOps+"rename")
	}
	for _, fn := range pubs {
		fn := fn
		var renameDst []ssa.Value
		eachInstr(fn, func(_ *ssa.BasicBlock, _ int, i ssa.Instruction) {
			if cc, ref := callRef(i); cc != nil && ref == gobOps+"rename" && len(cc.Common().Args) == 2 {
				renameDst = append(renameDst, cc.Common().Args[1])
			}
		})
		syncsTargetDir := func(i ssa.Instruction) bool {
			cc, ref := callRef(i)
			if cc == nil || ref != gobOps+"syncDir" || len(cc.Common().Args) != 1 {
				return false
			}
			// argument must be filepath.Dir(<rename destination>)
			dc, ok := cc.Common().Args[0].(*ssa.Call)
			if !ok {
				return false
			}
			if _, dref := callRef(dc); dref != "path/filepath.Dir" {
				return false
			}
			for _, d := range renameDst {
				if sameValue(dc.Call.Args[0], d) {
					return true
				}
			}
			return false
		}
		runFlowRuleOn(c, FlowRule{
			ID: "C07.R1",
			Gen: []GenSpec{
				{Fact: "data-synced", On: Pred{Calls: []string{gobOps + "sync"}, Deep: true}},
				{Fact: "closed", On: Pred{Calls: []string{gobOps + "close"}}},
				{Fact: "dir-synced", On: Pred{Where: syncsTargetDir, Desc: "syncDir(filepath.Dir(target))"}},
			},
			Kill: []KillSpec{
				{Fact: "data-synced", On: Pred{Calls: []string{gobOps + "encode", gobOps + "chmod"}}},
				{Fact: "dir-synced", On: Pred{Calls: []string{gobOps + "rename"}}},
				{Fact: "closed", On: Pred{Calls: []string{gobOps + "createTemp"}}},
			},
			Init: []string{"dir-synced"}, // nothing published yet: a success return without rename publishes nothing
			Need: []NeedSpec{
				{Fact: "data-synced", At: Pred{Calls: []string{gobOps + "rename"}}, Why: "the temp file is renamed over the font name before its data was fsynced: a power loss can leave a truncated font under the final name"},
				{Fact: "closed", At: Pred{Calls: []string{gobOps + "rename"}}, Why: "rename before the temp file was closed successfully"},
				{Fact: "dir-synced", At: Pred{NilReturn: true}, Why: "success is reported although the directory entry created by rename was not fsynced afterwards (syncDir(filepath.Dir(target)) missing, before the rename, or its failure ignored)"},
			},
			Min: 3,
		}, fn)
	}

	// ---- R4 (round 3 of seeding): success of a direct install means the durable writer ran
	r.MinInst["C07.R4"] = 1
	r.MinInst["C07.R5"] = 1
	checkStagingFileExclusive(c)
	for _, fn := range funcsCalling(p, "pkg/font.writeGob") {
		runFlowRuleOn(c, FlowRule{
			ID:   "C07.R4",
			Gen:  []GenSpec{{Fact: "persisted", On: Pred{Calls: []string{"pkg/font.writeGob"}}}},
			Need: []NeedSpec{{Fact: "persisted", At: Pred{NilReturn: true}, Why: "the installer reports success on a path that did not go through writeGob (data fsync, rename, directory fsync): a representation that merely reads back equal (published by an earlier, failed or interrupted attempt) is not a durable one"}},
		}, fn)
	}
	// ---- R2: batch publishers
	for _, spec := range []struct{ fn, ops, syncer string }{
		{"pkg/font.commitCollectionFonts", collOps, "pkg/font.syncCollectionDirectories"},
		{"pkg/api.commitStagedFontsWithOperations", txOps, "pkg/api.syncTransactionDirectories"},
	} {
		fn := p.Func(spec.fn)
		if fn == nil {
			r.Bad("C07.R2", spec.fn, "anchor", "", "UNRESOLVED-ANCHOR: batch publisher "+spec.fn+" not found")
			continue
		}
		checkBatchDirSync(c, "C07.R2", fn, spec.ops+"rename", spec.syncer, true)
	}
	for _, spec := range []struct{ fn, ops, syncer string }{
		{"pkg/font.rollbackCollectionFonts", collOps, "pkg/font.syncCollectionDirectories"},
		{"pkg/api.rollbackCommittedFonts", txOps, "pkg/api.syncTransactionDirectories"},
	} {
		fn := p.Func(spec.fn)
		if fn == nil {
			r.Bad("C07.R2", spec.fn, "anchor", "", "UNRESOLVED-ANCHOR: rollback "+spec.fn+" not found")
			continue
		}
		checkBatchDirSync(c, "C07.R2", fn, spec.ops+"rename", spec.syncer, false)
	}
	for _, s := range []struct{ fn, field string }{
		{"pkg/font.syncCollectionDirectories", collOps + "syncDir"},
		{"pkg/api.syncTransactionDirectories", txOps + "syncDir"},
	} {
		checkDirSyncer(c, "C07.R2", s.fn, s.field)
	}

	// ---- R3: bindings and discarded errors
	checkBinding(c, "C07.R3", gobOps+"sync", "os.File.Sync")
	checkBinding(c, "C07.R3", gobOps+"close", "os.File.Close")
	checkBinding(c, "C07.R3", gobOps+"rename", "os.Rename")
	checkBinding(c, "C07.R3", collOps+"rename", "os.Rename")
	checkBinding(c, "C07.R3", txOps+"rename", "os.Rename")
	for _, f := range []string{gobOps + "syncDir", collOps + "syncDir", txOps + "syncDir"} {
		if p.Cfg.Name == "windows/amd64" {
			r.Note("windows: fileutil.SyncDirectory is a documented no-op; directory durability is an assumption on this configuration")
			r.OK("C07.R3", f, "binding(windows)", "", "no-op by design on windows (assumption)", false)
			continue
		}
		checkBinding(c, "C07.R3", f, "os.File.Sync")
	}
	checkNoDiscardedErrors(c, "C07.R3", []string{
		gobOps + "sync", gobOps + "syncDir", gobOps + "close", gobOps + "rename", gobOps + "encode", gobOps + "chmod",
		collOps + "syncDir", collOps + "rename", txOps + "syncDir", txOps + "rename",
		"pkg/font.syncCollectionDirectories", "pkg/api.syncTransactionDirectories", "internal/fileutil.SyncDirectory", "internal/fileutil.ReplaceFile",
		"os.File.Sync",
	}, []string{"pkg/font", "pkg/api", "internal/fileutil"})
}

// sameValue: small congruence on SSA values (same value, or loads of the same cell / same parameter).
func sameValue(a, b ssa.Value) bool {
	if a == b {
		return true
	}
	la, ok1 := a.(*ssa.UnOp)
	lb, ok2 := b.(*ssa.UnOp)
	if ok1 && ok2 && la.Op == token.MUL && lb.Op == token.MUL {
		return cellRoot(la.X) == cellRoot(lb.X) && singleAssignedCell(cellRoot(la.X))
	}
	return false
}

// singleAssignedCell: an Alloc that is stored exactly once (parameter spill or single definition).
func singleAssignedCell(cell ssa.Value) bool {
	al, ok := cell.(*ssa.Alloc)
	if !ok {
		return false
	}
	n := 0
	var scan func(fn *ssa.Function, cell ssa.Value)
	scan = func(fn *ssa.Function, cell ssa.Value) {
		eachInstr(fn, func(_ *ssa.BasicBlock, _ int, i ssa.Instruction) {
			switch x := i.(type) {
			case *ssa.Store:
				if x.Addr == cell {
					n++
				}
			case *ssa.MakeClosure:
				for bi, b := range x.Bindings {
					if b == cell {
						cf := x.Fn.(*ssa.Function)
						scan(cf, cf.FreeVars[bi])
					}
				}
			}
		})
	}
	scan(al.Parent(), al)
	return n <= 1
}

// dirOfJoin: v = filepath.Join(dir, ...) -> canonical key of dir value.
func dirOfJoin(v ssa.Value) (ssa.Value, bool) {
	call, ok := v.(*ssa.Call)
	if !ok {
		return nil, false
	}
	if _, ref := callRef(call); ref != "path/filepath.Join" {
		return nil, false
	}
	el := variadicElems(call)
	// elements are stored by index; find index 0
	sl, _ := call.Call.Args[0].(*ssa.Slice)
	if sl == nil {
		return nil, false
	}
	al, _ := sl.X.(*ssa.Alloc)
	if al == nil {
		return nil, false
	}
	for _, rf := range *al.Referrers() {
		ia, ok := rf.(*ssa.IndexAddr)
		if !ok {
			continue
		}
		if n, ok := constInt(ia.Index); ok && n == 0 {
			for _, rr := range *ia.Referrers() {
				if st, ok := rr.(*ssa.Store); ok {
					return st.Val, true
				}
			}
		}
	}
	_ = el
	return nil, false
}

func valueKey(v ssa.Value) string {
	if ld, ok := v.(*ssa.UnOp); ok && ld.Op == token.MUL {
		root := cellRoot(ld.X)
		if singleAssignedCell(root) {
			return "cell:" + root.Name() + "@" + root.Parent().Name()
		}
	}
	return "val:" + v.Name() + "@" + v.Parent().Name()
}

// checkBatchDirSync: per-directory typestate. rename(Join(d1,..), Join(d2,..)) makes d1,d2 dirty;
// a successful (strict) or attempted (!strict) call of syncer naming d cleans d. At every rename and
// every success return all directories must be clean.
func checkBatchDirSync(c *Ctx, rule string, fn *ssa.Function, renameRef, syncerRef string, strict bool) {
	p, r := c.P, c.R
	fid := FuncID(fn)
	genE := map[Edge][]string{}
	genI := map[ssa.Instruction][]string{}
	kill := map[ssa.Instruction][]string{}
	allDirs := map[string]bool{}
	var renames []ssa.Instruction
	bad := false
	eachInstr(fn, func(_ *ssa.BasicBlock, _ int, i ssa.Instruction) {
		cc, ref := callRef(i)
		if cc == nil {
			return
		}
		switch ref {
		case renameRef:
			renames = append(renames, i)
			for ai, a := range cc.Common().Args {
				d, ok := dirOfJoin(a)
				if !ok {
					r.Bad(rule, fid, fmt.Sprintf("rename-arg%d", ai), p.Pos(i.Pos()), "rename argument is not filepath.Join(<dir>, name): cannot determine which directory must be synced (unrecognised idiom)")
					bad = true
					continue
				}
				k := valueKey(d)
				allDirs[k] = true
				kill[i] = append(kill[i], "clean:"+k)
			}
		case syncerRef:
			var facts []string
			args := cc.Common().Args
			if len(args) > 0 {
				if call, ok := i.(*ssa.Call); ok {
					for _, e := range variadicElems(call) {
						facts = append(facts, "clean:"+valueKey(e))
					}
				}
			}
			v := i.(ssa.Value)
			if strict {
				edges, _ := successEdges(v)
				for _, e := range edges {
					genE[e] = append(genE[e], facts...)
				}
			} else {
				genI[i] = append(genI[i], facts...)
			}
		}
	})
	if bad {
		return
	}
	if len(renames) == 0 {
		r.Bad(rule, fid, "anchor:rename", p.Pos(fn.Pos()), "UNRESOLVED-ANCHOR: no call of "+renameRef+" in "+fid)
		return
	}
	var init []string
	for d := range allDirs {
		init = append(init, "clean:"+d)
	}
	sort.Strings(init)
	ff := NewFactFlow(fn, func(i ssa.Instruction) []string { return genI[i] }, genE, func(i ssa.Instruction) []string { return kill[i] }, init)
	check := func(i ssa.Instruction, label string) {
		facts, un := ff.At(i)
		if un {
			return
		}
		var missing []string
		for _, d := range init {
			if !facts[d] {
				missing = append(missing, strings.TrimPrefix(d, "clean:"))
			}
		}
		if len(missing) == 0 {
			r.OK(rule, fid, label, p.Pos(i.Pos()), "all directories touched by earlier renames were fsynced on every path to here", true)
		} else {
			r.Bad(rule, fid, label, posOrFn(p, i, fn), "a path reaches this point with a rename whose directories ("+strings.Join(missing, ", ")+") were not fsynced afterwards by "+syncerRef+": the published entry can be lost or reordered on power failure")
		}
	}
	n := 0
	for _, i := range renames {
		n++
		if strict {
			check(i, fmt.Sprintf("before rename#%d", n))
		}
	}
	n = 0
	for _, ret := range returnsOf(fn) {
		k, has := returnErrKind(ret)
		if strict && has && k == errNonNil {
			continue // failure returns go through rollback, which syncs itself (checked separately)
		}
		n++
		check(ret, fmt.Sprintf("return#%d(%s)", n, k))
	}
}

// checkDirSyncer: the helper loops over all dirs, calls syncDir on the loop element, returns only after
// the loop, and the syncDir error flows into the returned error.
func checkDirSyncer(c *Ctx, rule, fid, field string) {
	p, r := c.P, c.R
	fn := p.Func(fid)
	if fn == nil {
		r.Bad(rule, fid, "anchor", "", "UNRESOLVED-ANCHOR: "+fid+" not found")
		return
	}
	var call *ssa.Call
	eachInstr(fn, func(_ *ssa.BasicBlock, _ int, i ssa.Instruction) {
		if cc, ref := callRef(i); cc != nil && ref == field {
			call, _ = i.(*ssa.Call)
		}
	})
	if call == nil {
		r.Bad(rule, fid, "syncDir-call", p.Pos(fn.Pos()), "directory sync helper no longer calls "+field)
		return
	}
	// (a) the call sits in a loop and no return is inside that loop
	loop := map[*ssa.BasicBlock]bool{}
	fromCall := reachableBlocks(call.Block())
	if !fromCall[call.Block()] {
		r.Bad(rule, fid, "loop", p.Pos(call.Pos()), "syncDir is not called in a loop over the directories")
		return
	}
	for b := range fromCall {
		if reachableBlocks(b)[call.Block()] {
			loop[b] = true
		}
	}
	okA := true
	for _, ret := range returnsOf(fn) {
		if loop[ret.Block()] {
			okA = false
			r.Bad(rule, fid, "early-return", p.Pos(ret.Pos()), "return inside the directory loop: later directories are not synced")
		}
	}
	// the loop may only be left from its header (the range condition): no break/return from the body
	var header *ssa.BasicBlock
	for b := range loop {
		dom := true
		for o := range loop {
			if !b.Dominates(o) && b != o {
				dom = false
			}
		}
		if dom {
			header = b
		}
	}
	for b := range loop {
		for _, s := range b.Succs {
			if !loop[s] && b != header {
				okA = false
				r.Bad(rule, fid, "loop-exit", p.Pos(b.Instrs[len(b.Instrs)-1].Pos()), "the directory loop can be left from its body (return/break) before all directories were synced")
			}
		}
	}
	// (b) argument is the range element of the variadic parameter
	arg := call.Call.Args[0]
	okB := false
	if ld, ok := arg.(*ssa.UnOp); ok && ld.Op == token.MUL {
		if ia, ok := ld.X.(*ssa.IndexAddr); ok {
			if pr, ok := ia.X.(*ssa.Parameter); ok && pr == fn.Params[len(fn.Params)-1] {
				okB = true
			}
		}
	}
	if !okB {
		r.Bad(rule, fid, "element", p.Pos(call.Pos()), "syncDir argument is not the current element of the directory list")
	}
	// (c) error flows to the return value
	okC := flowsToReturn(call, fn)
	if !okC {
		r.Bad(rule, fid, "error-flow", p.Pos(call.Pos()), "the syncDir error does not flow into the helper's result: a failed directory sync is reported as success")
	}
	// (d) the only way to skip the call inside the loop is a map lookup keyed by the element (dedup)
	okD := true
	for b := range loop {
		iff, ok := b.Instrs[len(b.Instrs)-1].(*ssa.If)
		if !ok {
			continue
		}
		if condIsRangeOrErr(iff.Cond) {
			continue
		}
		if !derivesFromLookup(iff.Cond, 0) {
			okD = false
			r.Bad(rule, fid, "skip-condition", p.Pos(iff.Cond.Pos()), "a condition other than the seen-set lookup can skip the directory sync")
		}
	}
	if okA && okB && okC && okD {
		r.OK(rule, fid, "sync-all-dirs", p.Pos(fn.Pos()), "loops over every directory, no early return, syncDir error flows to the result", true)
	}
}

func condIsRangeOrErr(v ssa.Value) bool {
	b, ok := v.(*ssa.BinOp)
	if !ok {
		return false
	}
	if b.Op == token.LSS || b.Op == token.GEQ { // range index < len
		return true
	}
	if (b.Op == token.NEQ || b.Op == token.EQL) && (isNilConst(b.Y) || isNilConst(b.X)) {
		return true
	}
	return false
}

func derivesFromLookup(v ssa.Value, d int) bool {
	if d > 4 {
		return false
	}
	switch x := v.(type) {
	case *ssa.Lookup:
		return true
	case *ssa.Extract:
		return derivesFromLookup(x.Tuple, d+1)
	case *ssa.UnOp:
		return derivesFromLookup(x.X, d+1)
	}
	return false
}

// flowsToReturn: value v reaches some Return operand through calls' arguments, phis, stores/loads of local cells,
// MakeInterface, variadic slices.
func flowsToReturn(v ssa.Value, fn *ssa.Function) bool {
	seen := map[ssa.Value]bool{}
	var walk func(x ssa.Value) bool
	walk = func(x ssa.Value) bool {
		if seen[x] {
			return false
		}
		seen[x] = true
		refs := x.Referrers()
		if refs == nil {
			return false
		}
		for _, rf := range *refs {
			switch y := rf.(type) {
			case *ssa.Return:
				return true
			case *ssa.Store:
				if y.Val == x {
					// all loads of that cell; also element stores into variadic arrays
					cell := y.Addr
					if ia, ok := cell.(*ssa.IndexAddr); ok {
						if walk(ia.X) {
							return true
						}
						continue
					}
					if cr := cell.Referrers(); cr != nil {
						for _, l := range *cr {
							if ld, ok := l.(*ssa.UnOp); ok && ld.Op == token.MUL {
								if walk(ld) {
									return true
								}
							}
						}
					}
				}
			case ssa.Value:
				if _, isIf := rf.(*ssa.If); isIf {
					continue
				}
				if walk(y) {
					return true
				}
			}
		}
		return false
	}
	return walk(v)
}

// checkBinding: every production binding of operation-table field reaches primitive `prim`
// on every non-error path and returns its error.
func checkBinding(c *Ctx, rule, field, prim string) {
	p, r := c.P, c.R
	cg := c.CG()
	var bound []*ssa.Function
	var extBound []string
	// bindings: look for stores into the field (module functions) and external function values
	for _, fn := range p.Funcs {
		eachInstr(fn, func(_ *ssa.BasicBlock, _ int, i ssa.Instruction) {
			st, ok := i.(*ssa.Store)
			if !ok {
				return
			}
			fa, ok := st.Addr.(*ssa.FieldAddr)
			if !ok {
				return
			}
			f := structField(fa.X.Type(), fa.Field)
			if f == nil || objRef(f) != field {
				return
			}
			if tgt := funcValue(st.Val); tgt != nil {
				if isSubject(tgt) {
					bound = append(bound, tgt)
				} else if tgt.Object() != nil {
					extBound = append(extBound, objRef(tgt.Object()))
				}
			} else {
				extBound = append(extBound, "<dynamic:"+st.Val.Name()+"@"+FuncID(fn)+">")
			}
		})
	}
	_ = cg
	if len(bound)+len(extBound) == 0 {
		r.Bad(rule, field, "binding", "", "UNRESOLVED-ANCHOR: no production binding found for "+field)
		return
	}
	for _, e := range extBound {
		if e == prim {
			r.OK(rule, field, "binding->"+e, "", "bound directly to "+prim, false)
		} else if strings.HasPrefix(e, "<dynamic:") {
			// copied from a parameter/other table (e.g. ops.reportWarning reassignment): not a primitive binding
			r.OK(rule, field, "binding"+e, "", "dynamic re-binding, not a default", false)
		} else {
			r.Bad(rule, field, "binding->"+e, "", "bound to "+e+", expected a function reaching "+prim)
		}
	}
	for _, fn := range dedupFuncs(bound) {
		if reachesPrimAlways(fn, prim, 0) {
			r.OK(rule, field, "binding->"+FuncID(fn), p.Pos(fn.Pos()), "every non-error path calls "+prim+" and returns its error", true)
		} else {
			r.Bad(rule, field, "binding->"+FuncID(fn), p.Pos(fn.Pos()), "production binding "+FuncID(fn)+" does not call "+prim+" on every success path (or drops its error)")
		}
	}
}

// reachesPrimAlways: fn always passes prim (success edge or tail-returns its error), possibly through module callees.
func reachesPrimAlways(fn *ssa.Function, prim string, depth int) bool {
	if depth > 4 || fn.Blocks == nil {
		return false
	}
	matches := func(i ssa.Instruction) bool {
		cc, ref := callRef(i)
		if cc == nil {
			return false
		}
		if _, isDefer := i.(*ssa.Defer); isDefer {
			return false
		}
		if ref == prim {
			return true
		}
		if f := staticCallee(cc); f != nil && isSubject(f) {
			return reachesPrimAlways(f, prim, depth+1)
		}
		return false
	}
	genE := map[Edge][]string{}
	tail := map[ssa.Value]bool{}
	eachInstr(fn, func(b *ssa.BasicBlock, _ int, i ssa.Instruction) {
		if !matches(i) {
			return
		}
		v := i.(ssa.Value)
		edges, has := successEdges(v)
		if !has {
			for si := range b.Succs {
				genE[Edge{b, si}] = append(genE[Edge{b, si}], "p")
			}
		}
		for _, e := range edges {
			genE[e] = append(genE[e], "p")
		}
		for _, ev := range errorResults(v) {
			tail[ev] = true
		}
	})
	ff := NewFactFlow(fn, nil, genE, nil, nil)
	n := 0
	for _, ret := range returnsOf(fn) {
		k, has := returnErrKind(ret)
		if has && k == errNonNil {
			continue
		}
		n++
		if ff.Holds(ret, "p") {
			continue
		}
		// tail-return of the primitive's own error?
		ok := false
		for _, res := range ret.Results {
			if !isErrorType(res.Type()) {
				continue
			}
			v := res
			if ld, isLd := v.(*ssa.UnOp); isLd && ld.Op == token.MUL {
				if st, _ := reachingStore(ld); st != nil {
					v = st.Val
				}
			}
			if tail[v] {
				ok = true
			}
		}
		if !ok {
			return false
		}
	}
	return n > 0
}

// checkNoDiscardedErrors: calls of the listed callees inside the listed packages must use their error result.
func checkNoDiscardedErrors(c *Ctx, rule string, refs []string, pkgs []string) {
	p, r := c.P, c.R
	want := map[string]bool{}
	for _, x := range refs {
		want[x] = true
	}
	inPkg := func(fn *ssa.Function) bool {
		pp := strings.TrimPrefix(strings.TrimPrefix(funcPkgPath(fn), modPath), "/")
		for _, k := range pkgs {
			if pp == k {
				return true
			}
		}
		return false
	}
	for _, fn := range p.Funcs {
		if !inPkg(fn) {
			continue
		}
		cnt := map[string]int{}
		eachInstr(fn, func(_ *ssa.BasicBlock, _ int, i ssa.Instruction) {
			cc, ref := callRef(i)
			if cc == nil || !want[ref] {
				return
			}
			cnt[ref]++
			construct := fmt.Sprintf("call:%s#%d", ref, cnt[ref])
			v, isVal := i.(ssa.Value)
			if !isVal { // defer/go: result necessarily dropped
				r.Bad(rule, FuncID(fn), construct, p.Pos(i.Pos()), "error of "+ref+" is dropped (deferred/go call)")
				return
			}
			used := false
			for _, e := range errorResults(v) {
				if rf := e.Referrers(); rf != nil && len(*rf) > 0 {
					used = true
				}
			}
			if used {
				r.OK(rule, FuncID(fn), construct, p.Pos(i.Pos()), "error result is consumed", false)
			} else {
				r.Bad(rule, FuncID(fn), construct, p.Pos(i.Pos()), "error of "+ref+" is discarded: a failed sync/close/rename would be reported as success")
			}
		})
	}
}

// ---------------- C07.R5 (round 4 seed C07-G): the staging file is this installer's alone ----------------

// checkStagingFileExclusive: "sync before publish" is an argument about ONE writer and ONE inode: the installer fsyncs
// and verifies its staging file and then renames it over the font. That holds only if nobody else can open the same
// staging file in between, i.e. if its name is unique per attempt. The createTemp operation of the default persistence
// operations is therefore os.CreateTemp itself (random name, O_EXCL) — or a function whose every file creation is
// os.CreateTemp or carries O_EXCL. A fixed staging name opened with O_TRUNC lets a second installer truncate the inode
// the first one is about to publish; after a power loss the published font is durable but empty.
func checkStagingFileExclusive(c *Ctx) {
	p, r := c.P, c.R
	const fid = "pkg/font.defaultGobPersistenceOperations"
	fn := p.Func(fid)
	if fn == nil {
		r.Bad("C07.R5", fid, "anchor", "", "UNRESOLVED-ANCHOR")
		return
	}
	n := 0
	eachInstr(fn, func(_ *ssa.BasicBlock, _ int, i ssa.Instruction) {
		st, ok := i.(*ssa.Store)
		if !ok {
			return
		}
		fa, ok := st.Addr.(*ssa.FieldAddr)
		if !ok {
			return
		}
		f := structField(fa.X.Type(), fa.Field)
		if f == nil || f.Name() != "createTemp" {
			return
		}
		n++
		var target *ssa.Function
		switch x := st.Val.(type) {
		case *ssa.Function:
			target = x
		case *ssa.MakeClosure:
			target, _ = x.Fn.(*ssa.Function)
		case *ssa.ChangeType:
			target, _ = x.X.(*ssa.Function)
		}
		if target == nil {
			r.Bad("C07.R5", fid, "createTemp", p.Pos(st.Pos()), "UNDECIDED: the staging-file constructor is not a function value")
			return
		}
		if target.Pkg != nil && target.Pkg.Pkg.Path() == "os" && target.Name() == "CreateTemp" {
			r.OK("C07.R5", fid, "createTemp", p.Pos(st.Pos()), "os.CreateTemp: unique name, exclusive creation", true)
			return
		}
		// a module function: every file creation in it must be exclusive
		var bad []string
		creates := 0
		eachInstr(target, func(_ *ssa.BasicBlock, _ int, in ssa.Instruction) {
			call, ok := in.(*ssa.Call)
			if !ok {
				return
			}
			_, ref := callRef(call)
			switch ref {
			case "os.CreateTemp":
				creates++
			case "os.Create":
				creates++
				bad = append(bad, "os.Create (truncates an existing file)")
			case "os.OpenFile":
				creates++
				if len(call.Call.Args) >= 2 {
					if k, ok := constInt(call.Call.Args[1]); !ok || k&int64(os.O_EXCL) == 0 {
						bad = append(bad, "os.OpenFile without O_EXCL")
					}
				}
			}
		})
		if creates == 0 || len(bad) > 0 {
			r.Bad("C07.R5", fid, "createTemp", p.Pos(st.Pos()), "the staging file is created by "+target.Name()+" ("+strings.Join(bad, ", ")+"): a staging name that a concurrent installer can open (and truncate) breaks 'synced before published' — the font that was fsynced and verified is not the data the renamed inode holds after a power loss")
		} else {
			r.OK("C07.R5", fid, "createTemp", p.Pos(st.Pos()), "every creation in "+target.Name()+" is exclusive", true)
		}
	})
	if n == 0 {
		r.Bad("C07.R5", fid, "createTemp", p.Pos(fn.Pos()), "UNRESOLVED-ANCHOR: no createTemp operation is set")
	}
}
